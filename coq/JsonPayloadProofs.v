(* JsonPayloadProofs.v -- C08: the concatenating payload encoders produce JSON texts of the endpoint's
   shape whenever the agent-supplied fragments are JSON texts and the number oracles print JSON numbers. *)
From Coq Require Import NArith Arith List Bool Lia.
From Verif Require Import Common Json JsonProofs.
Import ListNotations.
Open Scope N_scope.

(* ------------------------------------------------------------------ buffers, separators *)

Lemma truncate1_snoc l (x : N) : truncate1 (l ++ [x]) = l.
Proof. apply removelast_last. Qed.

Lemma set_last_snoc l (x c : N) : set_last (l ++ [x]) c = l ++ [c].
Proof.
  unfold set_last. destruct (l ++ [x]) eqn:E.
  - destruct l; discriminate E.
  - rewrite <- E. rewrite removelast_last. reflexivity.
Qed.

Lemma concat_comma_join (l : list (list N)) : l <> [] ->
  concat (map (fun e => e ++ [COMMA]) l) = join COMMA l ++ [COMMA].
Proof.
  induction l as [|e r IH]; [congruence|]. intros _. destruct r as [|e' r'].
  - cbn. rewrite app_nil_r. reflexivity.
  - rewrite join_cons by discriminate. cbn [map concat]. cbn [map concat] in IH. rewrite IH by discriminate.
    rewrite <- !app_assoc. reflexivity.
Qed.

Lemma join_concat (e : list N) (r : list (list N)) :
  join COMMA (e :: r) = e ++ concat (map (fun x => COMMA :: x) r).
Proof.
  revert e. induction r as [|e' r IH]; intros e.
  - cbn. rewrite app_nil_r. reflexivity.
  - rewrite join_cons by discriminate. rewrite IH. reflexivity.
Qed.

Lemma forallb_const_true {A} (l : list A) : forallb (fun _ => true) l = true.
Proof. induction l; [reflexivity|exact IHl]. Qed.

Lemma JsonT_string s : JsonT (JStr (escape_loop s s)) (append_string s).
Proof. unfold append_string. constructor. apply escape_loop_body. lia. Qed.

Lemma JsonKey_plain body : StrBody body -> JsonKey body (QUOTE :: body ++ [QUOTE]).
Proof. intros H. apply (JK_intro [] body []); [exact Ws_nil|exact H|exact Ws_nil]. Qed.

Lemma JsonT_lead_space t v : JsonT t v -> JsonT t (32 :: v).
Proof.
  intros H. pose proof (JT_pad t [32] v [] eq_refl H Ws_nil) as P. rewrite app_nil_r in P. exact P.
Qed.

Lemma plain_key_body k : strbody_check k = true -> StrBody k.
Proof. apply strbody_check_sound. Qed.

(* ------------------------------------------------------------------ AppendFloatArray *)

Definition fnum_ok (x : fval) : Prop := match x with FNum p => JsonNumber p | FBad => False end.
Definition printed (x : fval) : list N := match x with FNum p => p | FBad => [] end.

Lemma append_float_loop_ok a : forall buf, Forall fnum_ok a ->
  append_float_loop buf a = Some (buf ++ concat (map (fun x => printed x ++ [COMMA]) a)).
Proof.
  induction a as [|x r IH]; intros buf H.
  - cbn. rewrite app_nil_r. reflexivity.
  - inversion H as [|? ? Hx Hr]; subst. destruct x as [p|]; [|destruct Hx].
    cbn [append_float_loop append_float]. rewrite IH by exact Hr. cbn [map concat printed].
    rewrite <- !app_assoc. reflexivity.
Qed.

Lemma append_float_loop_bad a : In FBad a -> forall buf, append_float_loop buf a = None.
Proof.
  induction a as [|x r IH]; intros Hin buf; [destruct Hin|].
  cbn [append_float_loop]. destruct x as [p|]; [|reflexivity]. cbn [append_float].
  apply IH. destruct Hin as [E|Hin]; [discriminate E|exact Hin].
Qed.

Lemma append_float_array_ok buf a : Forall fnum_ok a ->
  append_float_array buf a = Some (buf ++ LBR :: join COMMA (map printed a) ++ [RBR]).
Proof.
  intros H. unfold append_float_array. rewrite append_float_loop_ok by exact H.
  destruct a as [|x r].
  - cbn. rewrite app_nil_r, <- app_assoc. reflexivity.
  - f_equal. rewrite <- (map_map printed (fun p => p ++ [COMMA])).
    rewrite concat_comma_join by discriminate. rewrite app_assoc. rewrite truncate1_snoc.
    rewrite <- !app_assoc. reflexivity.
Qed.

Lemma append_float_array_bad buf a : In FBad a -> append_float_array buf a = None.
Proof. intros H. unfold append_float_array. rewrite append_float_loop_bad by exact H. reflexivity. Qed.

(* ------------------------------------------------------------------ MetricTable.CollectorJSON *)

Definition entry_ok (m : metric_entry) : Prop := Forall fnum_ok (m_data m) /\ length (m_data m) = 6%nat.

Definition name_obj_bytes (m : metric_entry) : list N :=
  LBRACE :: join COMMA (map (fun kv => fst kv ++ COLON :: snd kv)
    ((QUOTE :: k_name ++ [QUOTE], append_string (m_name m)) ::
     match m_scope m with [] => [] | _ => [(QUOTE :: k_scope ++ [QUOTE], append_string (m_scope m))] end)) ++ [RBRACE].

Definition entry_bytes (m : metric_entry) : list N :=
  LBR :: join COMMA [name_obj_bytes m; LBR :: join COMMA (map printed (m_data m)) ++ [RBR]] ++ [RBR].

Definition name_obj_tree (m : metric_entry) : jtree :=
  JObj ((k_name, JStr (escape_loop (m_name m) (m_name m))) ::
        match m_scope m with [] => [] | _ => [(k_scope, JStr (escape_loop (m_scope m) (m_scope m)))] end).

Definition entry_tree (m : metric_entry) : jtree :=
  JArr [name_obj_tree m; JArr (map (fun x => JNum (printed x)) (m_data m))].

Definition metric_tree (id t0 t1 : list N) (ms : list metric_entry) : jtree :=
  JArr [JStr (escape_loop id id); JNum t0; JNum t1; JArr (map entry_tree ms)].

Definition metric_bytes (id t0 t1 : list N) (ms : list metric_entry) : list N :=
  LBR :: join COMMA [append_string id; t0; t1; LBR :: join COMMA (map entry_bytes ms) ++ [RBR]] ++ [RBR].

Lemma metric_one_ok buf m : Forall fnum_ok (m_data m) ->
  metric_one buf m = Some (buf ++ entry_bytes m ++ [COMMA]).
Proof.
  intros H. unfold metric_one. rewrite append_float_array_ok by exact H. f_equal.
  unfold entry_bytes, name_obj_bytes. destruct (m_scope m) as [|c sc].
  - cbn [map join fst snd]. repeat (rewrite <- app_assoc; cbn [app]). reflexivity.
  - cbn [map join fst snd]. repeat (rewrite <- app_assoc; cbn [app]). reflexivity.
Qed.

Lemma metric_one_bad buf m : In FBad (m_data m) -> metric_one buf m = None.
Proof. intros H. unfold metric_one. rewrite append_float_array_bad by exact H. reflexivity. Qed.

Lemma metric_loop_ok ms : forall buf, Forall (fun m => Forall fnum_ok (m_data m)) ms ->
  metric_loop buf ms = Some (buf ++ concat (map (fun e => e ++ [COMMA]) (map entry_bytes ms))).
Proof.
  induction ms as [|m r IH]; intros buf H.
  - cbn. rewrite app_nil_r. reflexivity.
  - inversion H as [|? ? Hm Hr]; subst. cbn [metric_loop]. rewrite metric_one_ok by exact Hm.
    rewrite IH by exact Hr. cbn [map concat]. rewrite <- !app_assoc. reflexivity.
Qed.

Lemma metric_loop_bad ms : Exists (fun m => In FBad (m_data m)) ms -> forall buf, metric_loop buf ms = None.
Proof.
  induction ms as [|m r IH]; intros Hex buf; [inversion Hex|]. cbn [metric_loop].
  destruct (metric_one buf m) as [b|] eqn:E; [|reflexivity].
  inversion Hex as [? ? Hm|? ? Hr]; subst.
  - rewrite metric_one_bad in E by exact Hm. discriminate E.
  - apply IH. exact Hr.
Qed.

Lemma metric_payload_bytes id t0 t1 count ms :
  Forall (fun m => Forall fnum_ok (m_data m)) ms -> (0 < count <-> ms <> []) ->
  metric_payload id t0 t1 count ms = Some (metric_bytes id t0 t1 ms).
Proof.
  intros Hms Hc. unfold metric_payload. rewrite metric_loop_ok by exact Hms. f_equal. unfold metric_bytes.
  destruct ms as [|m r].
  - assert (E : (0 <? count) = false) by (apply N.ltb_ge; destruct (N.ltb_spec 0 count) as [L|L]; [apply Hc in L; congruence|exact L]).
    rewrite E. cbn [map concat join]. repeat (rewrite <- app_assoc; cbn [app]). reflexivity.
  - assert (E : (0 <? count) = true) by (apply N.ltb_lt; apply Hc; discriminate).
    rewrite E. rewrite concat_comma_join by discriminate. rewrite app_assoc, truncate1_snoc.
    cbn [join]. repeat (rewrite <- app_assoc; cbn [app]). reflexivity.
Qed.

Lemma floats_T a : Forall fnum_ok a ->
  Forall2 JsonT (map (fun x => JNum (printed x)) a) (map printed a).
Proof.
  induction a as [|x r IH]; intros H; [constructor|]. inversion H as [|? ? Hx Hr]; subst.
  cbn [map]. constructor; [|apply IH; exact Hr]. destruct x as [p|]; [|destruct Hx]. constructor. exact Hx.
Qed.

Lemma name_obj_T m : JsonT (name_obj_tree m) (name_obj_bytes m).
Proof.
  unfold name_obj_tree, name_obj_bytes.
  assert (Kn : JsonKey k_name (QUOTE :: k_name ++ [QUOTE])) by (apply JsonKey_plain, plain_key_body; reflexivity).
  assert (Ks : JsonKey k_scope (QUOTE :: k_scope ++ [QUOTE])) by (apply JsonKey_plain, plain_key_body; reflexivity).
  destruct (m_scope m) as [|c sc] eqn:E.
  - apply (JsonT_obj_intro [(k_name, _)] [(_, _)]); cbn [map fst snd].
    + constructor; [exact Kn|constructor].
    + constructor; [apply JsonT_string|constructor].
  - apply (JsonT_obj_intro [(k_name, _); (k_scope, _)] [(_, _); (_, _)]); cbn [map fst snd].
    + constructor; [exact Kn|constructor; [exact Ks|constructor]].
    + constructor; [apply JsonT_string|constructor; [apply JsonT_string|constructor]].
Qed.

Lemma entry_T m : Forall fnum_ok (m_data m) -> JsonT (entry_tree m) (entry_bytes m).
Proof.
  intros H. unfold entry_tree, entry_bytes. apply JsonT_arr_intro.
  constructor; [apply name_obj_T|]. constructor; [|constructor].
  apply JsonT_arr_intro. apply floats_T. exact H.
Qed.

Lemma entries_T ms : Forall (fun m => Forall fnum_ok (m_data m)) ms ->
  Forall2 JsonT (map entry_tree ms) (map entry_bytes ms).
Proof.
  induction ms as [|m r IH]; intros H; [constructor|]. inversion H; subst. cbn [map].
  constructor; [apply entry_T; assumption|apply IH; assumption].
Qed.

Lemma metric_T id t0 t1 ms : JsonNumber t0 -> JsonNumber t1 ->
  Forall (fun m => Forall fnum_ok (m_data m)) ms ->
  JsonT (metric_tree id t0 t1 ms) (metric_bytes id t0 t1 ms).
Proof.
  intros H0 H1 Hms. unfold metric_tree, metric_bytes. apply JsonT_arr_intro.
  constructor; [apply JsonT_string|]. constructor; [constructor; exact H0|].
  constructor; [constructor; exact H1|]. constructor; [|constructor].
  apply JsonT_arr_intro. apply entries_T. exact Hms.
Qed.

Lemma six_nums_shape (a : list fval) : length a = 6%nat ->
  shape_ok (STuple [SNum; SNum; SNum; SNum; SNum; SNum]) (JArr (map (fun x => JNum (printed x)) a)) = true.
Proof.
  intros H. destruct a as [|x1 [|x2 [|x3 [|x4 [|x5 [|x6 [|x7 r]]]]]]]; try discriminate H. reflexivity.
Qed.

Lemma entry_shape m : length (m_data m) = 6%nat ->
  shape_ok (STuple [SOr (SObj [(k_name, SStr)]) (SObj [(k_name, SStr); (k_scope, SStr)]);
                    STuple [SNum; SNum; SNum; SNum; SNum; SNum]]) (entry_tree m) = true.
Proof.
  intros H. unfold entry_tree. pose proof (six_nums_shape (m_data m) H) as S6.
  cbn [shape_ok]. cbn [shape_ok] in S6. rewrite S6. unfold name_obj_tree.
  destruct (m_scope m); reflexivity.
Qed.

Lemma metric_shape id t0 t1 ms : Forall (fun m => length (m_data m) = 6%nat) ms ->
  shape_ok shape_metric (metric_tree id t0 t1 ms) = true.
Proof.
  intros H. unfold shape_metric, metric_tree. cbn [shape_ok andb].
  rewrite andb_true_r. rewrite forallb_forall. intros t Hin. apply in_map_iff in Hin.
  destruct Hin as [m [<- Hm]]. rewrite Forall_forall in H. apply (entry_shape m). apply H. exact Hm.
Qed.

Lemma entry_ok_split ms : Forall entry_ok ms ->
  Forall (fun m => Forall fnum_ok (m_data m)) ms /\ Forall (fun m => length (m_data m) = 6%nat) ms.
Proof.
  intros H. split; (eapply Forall_impl; [|exact H]); intros m [A B]; assumption.
Qed.

Theorem metric_payload_valid id t0 t1 count ms :
  JsonNumber t0 -> JsonNumber t1 -> Forall entry_ok ms -> (0 < count <-> ms <> []) ->
  exists body, metric_payload id t0 t1 count ms = Some body /\
               body = metric_bytes id t0 t1 ms /\
               JsonT (metric_tree id t0 t1 ms) body /\ HasShape shape_metric body.
Proof.
  intros H0 H1 Hms Hc. destruct (entry_ok_split ms Hms) as [Hv H6].
  exists (metric_bytes id t0 t1 ms). split; [apply metric_payload_bytes; assumption|].
  split; [reflexivity|]. pose proof (metric_T id t0 t1 ms H0 H1 Hv) as T. split; [exact T|].
  exists (metric_tree id t0 t1 ms). split; [exact T|apply metric_shape; exact H6].
Qed.

Theorem metric_nonfinite_fails id t0 t1 count ms :
  Exists (fun m => In FBad (m_data m)) ms -> metric_payload id t0 t1 count ms = None.
Proof. intros H. unfold metric_payload. rewrite metric_loop_bad by exact H. reflexivity. Qed.

(* mt.count and the map out of step (cannot happen: count is incremented exactly when an entry is
   inserted and nothing is ever deleted) would give a malformed body: the guard above is needed *)
Example metric_count_mismatch_malformed :
  exists body, metric_payload [105] [49] [50] 1 [] = Some body /\ json_validb body = false.
Proof. eexists. split; [reflexivity|vm_compute; reflexivity]. Qed.

(* mt.count always equals the number of keys in the map, for every sequence of insertions *)
Lemma mt_invariant ops : mt_count (mt_run ops) = N.of_nat (length (mt_keys (mt_run ops))).
Proof.
  unfold mt_run. assert (G : forall t, mt_count t = N.of_nat (length (mt_keys t)) ->
    mt_count (fold_left mt_merge ops t) = N.of_nat (length (mt_keys (fold_left mt_merge ops t)))).
  { induction ops as [|[k refused] r IH]; intros t Ht; [exact Ht|]. cbn [fold_left]. apply IH.
    unfold mt_merge.
    destruct (existsb (fun k' => bytes_eqb (fst k) (fst k') && bytes_eqb (snd k) (snd k')) (mt_keys t)); [exact Ht|].
    destruct refused; [exact Ht|]. cbn [mt_count mt_keys length]. rewrite Ht. lia. }
  apply G. reflexivity.
Qed.

Theorem metric_payload_reachable ops id t0 t1 ms :
  JsonNumber t0 -> JsonNumber t1 -> Forall entry_ok ms ->
  map (fun m => (m_name m, m_scope m)) ms = mt_keys (mt_run ops) ->
  exists body, metric_payload id t0 t1 (mt_count (mt_run ops)) ms = Some body /\
               JsonT (metric_tree id t0 t1 ms) body /\ HasShape shape_metric body.
Proof.
  intros H0 H1 Hms Hk.
  assert (Hc : 0 < mt_count (mt_run ops) <-> ms <> []).
  { rewrite mt_invariant, <- Hk, map_length. destruct ms; cbn [length]; split; intros; try congruence; lia. }
  destruct (metric_payload_valid id t0 t1 _ ms H0 H1 Hms Hc) as [body [E [_ [T S]]]].
  exists body. auto.
Qed.

(* the code before fix dfc272c wrote the decoded names between bare quotes: not JSON for a name holding a quote *)
Definition old_pkg_loop (buf : list N) (ps : list (list N * list N)) : list N :=
  fold_left (fun b p => b ++ [LBR; QUOTE] ++ fst p ++ [QUOTE; COMMA; QUOTE] ++ snd p ++ [QUOTE] ++ s_pkg_tail) ps buf.
Example old_filter_malformed :
  json_validb (truncate1 (old_pkg_loop [LBR] [([97; 34; 98], [49])]) ++ [RBR]) = false /\
  json_validb (truncate1 (pkg_loop [LBR] [([97; 34; 98], [49])]) ++ [RBR]) = true.
Proof. split; vm_compute; reflexivity. Qed.

(* ------------------------------------------------------------------ analyticsEvents.CollectorJSON *)

Definition sampling_tree (rs es : list N) : jtree := JObj [(k_reservoir_size, JNum rs); (k_events_seen, JNum es)].

Lemma sampling_T rs es : JsonNumber rs -> JsonNumber es -> JsonT (sampling_tree rs es) (sampling_json rs es).
Proof.
  intros Hr He.
  assert (K1 : JsonKey k_reservoir_size (QUOTE :: k_reservoir_size ++ [QUOTE])) by (apply JsonKey_plain, plain_key_body; reflexivity).
  assert (K2 : JsonKey k_events_seen (QUOTE :: k_events_seen ++ [QUOTE])) by (apply JsonKey_plain, plain_key_body; reflexivity).
  pose proof (JsonT_obj_intro [(k_reservoir_size, JNum rs); (k_events_seen, JNum es)]
                [(QUOTE :: k_reservoir_size ++ [QUOTE], rs); (QUOTE :: k_events_seen ++ [QUOTE], es)]) as P.
  cbn [map fst snd] in P.
  assert (E : sampling_json rs es =
              LBRACE :: join COMMA [(QUOTE :: k_reservoir_size ++ [QUOTE]) ++ COLON :: rs;
                                    (QUOTE :: k_events_seen ++ [QUOTE]) ++ COLON :: es] ++ [RBRACE]).
  { unfold sampling_json. cbn [join]. repeat (rewrite <- app_assoc; cbn [app]). reflexivity. }
  rewrite E. apply P.
  - constructor; [exact K1|constructor; [exact K2|constructor]].
  - constructor; [constructor; exact Hr|constructor; [constructor; exact He|constructor]].
Qed.

Lemma events_loop_false es : forall buf,
  events_loop false buf es = buf ++ concat (map (fun x => COMMA :: x) es).
Proof.
  induction es as [|e r IH]; intros buf; [cbn; rewrite app_nil_r; reflexivity|].
  cbn [events_loop]. rewrite IH. cbn [map concat]. repeat (rewrite <- app_assoc; cbn [app]). reflexivity.
Qed.

Lemma events_loop_true buf es : events_loop true buf es = buf ++ join COMMA es.
Proof.
  destruct es as [|e r]; [cbn; rewrite app_nil_r; reflexivity|].
  cbn [events_loop]. rewrite events_loop_false, join_concat. rewrite <- app_assoc. reflexivity.
Qed.

Definition event_bytes (id_json rs es : list N) (events : list (list N)) : list N :=
  LBR :: join COMMA [id_json; sampling_json rs es; LBR :: join COMMA events ++ [RBR]] ++ [RBR].

Lemma event_payload_bytes id_json rs es events :
  event_payload id_json rs es events = event_bytes id_json rs es events.
Proof.
  unfold event_payload, event_bytes.
  replace ([LBR] ++ id_json ++ [NL]) with (([LBR] ++ id_json) ++ [NL]) by (rewrite <- app_assoc; reflexivity).
  rewrite set_last_snoc.
  replace ((([LBR] ++ id_json) ++ [COMMA]) ++ sampling_json rs es ++ [NL])
    with (((([LBR] ++ id_json) ++ [COMMA]) ++ sampling_json rs es) ++ [NL]) by (rewrite <- !app_assoc; reflexivity).
  rewrite set_last_snoc.
  rewrite events_loop_true. cbn [join]. repeat (rewrite <- app_assoc; cbn [app]). reflexivity.
Qed.

Theorem event_payload_valid id_json rs es events :
  JsonString id_json -> JsonNumber rs -> JsonNumber es -> Forall JsonValue events ->
  exists idbody ts, Forall2 JsonT ts events /\
    JsonT (JArr [JStr idbody; sampling_tree rs es; JArr ts]) (event_payload id_json rs es events) /\
    HasShape shape_events (event_payload id_json rs es events).
Proof.
  intros Hid Hr He Hev. destruct Hid as [idbody Hb].
  assert (Hts : exists ts, Forall2 JsonT ts events).
  { induction Hev as [|e r [t Ht] _ [ts IH]]; [exists []; constructor|]. exists (t :: ts). constructor; assumption. }
  destruct Hts as [ts Hts]. exists idbody, ts. split; [exact Hts|].
  assert (T : JsonT (JArr [JStr idbody; sampling_tree rs es; JArr ts])
                    (event_payload (QUOTE :: idbody ++ [QUOTE]) rs es events)).
  { rewrite event_payload_bytes. unfold event_bytes. apply JsonT_arr_intro.
    constructor; [constructor; exact Hb|]. constructor; [apply sampling_T; assumption|].
    constructor; [|constructor]. apply JsonT_arr_intro. exact Hts. }
  split; [exact T|]. eexists. split; [exact T|].
  unfold shape_events, sampling_tree. cbn [shape_ok andb fst snd].
  rewrite !bytes_eqb_refl, forallb_const_true. reflexivity.
Qed.

(* ------------------------------------------------------------------ LogEvents.CollectorJSON *)

Lemma log_loop_true es : forall buf,
  log_loop true buf es = buf ++ concat (map (fun x => COMMA :: x) (filter at_least4 es)).
Proof.
  induction es as [|e r IH]; intros buf; [cbn; rewrite app_nil_r; reflexivity|].
  cbn [log_loop filter]. destruct (at_least4 e).
  - rewrite IH. cbn [map concat]. repeat (rewrite <- app_assoc; cbn [app]). reflexivity.
  - apply IH.
Qed.

Lemma log_loop_false es : forall buf, log_loop false buf es = buf ++ join COMMA (filter at_least4 es).
Proof.
  induction es as [|e r IH]; intros buf; [cbn; rewrite app_nil_r; reflexivity|].
  cbn [log_loop filter]. destruct (at_least4 e).
  - rewrite log_loop_true, join_concat. rewrite <- app_assoc. reflexivity.
  - apply IH.
Qed.

Definition labels_bytes (lj : option (list N)) : list N := match lj with Some j => j | None => s_empty_obj end.

Definition log_tree (lt : jtree) (ts : list jtree) : jtree :=
  JArr [JObj [(k_common, JObj [(k_attributes, lt)]); (k_logs, JArr ts)]].

Lemma log_payload_bytes lj events :
  log_payload lj events =
  LBR :: join COMMA
    [LBRACE :: join COMMA
       [(QUOTE :: k_common ++ [QUOTE]) ++ COLON ::
          (32 :: LBRACE :: join COMMA [(QUOTE :: k_attributes ++ [QUOTE]) ++ COLON :: 32 :: labels_bytes lj] ++ [RBRACE]);
        (QUOTE :: k_logs ++ [QUOTE]) ++ COLON :: (32 :: LBR :: join COMMA (filter at_least4 events) ++ [RBR])]
       ++ [RBRACE]] ++ [RBR].
Proof.
  unfold log_payload. rewrite log_loop_false. fold (labels_bytes lj). cbn [join].
  repeat (rewrite <- app_assoc; cbn [app]). reflexivity.
Qed.

Theorem log_payload_valid lj events :
  (forall j, lj = Some j -> exists lms, JsonT (JObj lms) j) ->
  Forall JsonValue (filter at_least4 events) ->
  exists lms ts, Forall2 JsonT ts (filter at_least4 events) /\
    JsonT (log_tree (JObj lms) ts) (log_payload lj events) /\
    HasShape shape_log (log_payload lj events).
Proof.
  intros Hl Hev.
  assert (Hts : exists ts, Forall2 JsonT ts (filter at_least4 events)).
  { induction Hev as [|e r [t Ht] _ [ts IH]]; [exists []; constructor|]. exists (t :: ts). constructor; assumption. }
  destruct Hts as [ts Hts].
  assert (Hlab : exists lms, JsonT (JObj lms) (labels_bytes lj)).
  { destruct lj as [j|]; [apply Hl; reflexivity|]. exists []. apply (JT_obj0 []). exact Ws_nil. }
  destruct Hlab as [lms Hlab]. exists lms, ts. split; [exact Hts|].
  assert (Kc : JsonKey k_common (QUOTE :: k_common ++ [QUOTE])) by (apply JsonKey_plain, plain_key_body; reflexivity).
  assert (Ka : JsonKey k_attributes (QUOTE :: k_attributes ++ [QUOTE])) by (apply JsonKey_plain, plain_key_body; reflexivity).
  assert (Kl : JsonKey k_logs (QUOTE :: k_logs ++ [QUOTE])) by (apply JsonKey_plain, plain_key_body; reflexivity).
  assert (T : JsonT (log_tree (JObj lms) ts) (log_payload lj events)).
  { rewrite log_payload_bytes. unfold log_tree. apply JsonT_arr_intro. constructor; [|constructor].
    apply (JsonT_obj_intro [(k_common, _); (k_logs, _)] [(_, _); (_, _)]); cbn [map fst snd].
    - constructor; [exact Kc|constructor; [exact Kl|constructor]].
    - constructor.
      + apply JsonT_lead_space.
        apply (JsonT_obj_intro [(k_attributes, _)] [(_, _)]); cbn [map fst snd].
        * constructor; [exact Ka|constructor].
        * constructor; [apply JsonT_lead_space; exact Hlab|constructor].
      + constructor; [|constructor]. apply JsonT_lead_space. apply JsonT_arr_intro. exact Hts. }
  split; [exact T|]. eexists. split; [exact T|].
  unfold shape_log, log_tree. cbn [shape_ok andb fst snd].
  rewrite !bytes_eqb_refl, forallb_const_true. reflexivity.
Qed.

(* ------------------------------------------------------------------ PhpPackages / filterPhpPackages *)

Definition pkg_bytes (p : list N * list N) : list N :=
  LBR :: join COMMA [append_string (fst p); append_string (snd p); s_empty_obj] ++ [RBR].
Definition pkg_tree (p : list N * list N) : jtree :=
  JArr [JStr (escape_loop (fst p) (fst p)); JStr (escape_loop (snd p) (snd p)); JObj []].

Lemma pkg_loop_bytes ps : forall buf,
  pkg_loop buf ps = buf ++ concat (map (fun e => e ++ [COMMA]) (map pkg_bytes ps)).
Proof.
  induction ps as [|[n v] r IH]; intros buf; [cbn; rewrite app_nil_r; reflexivity|].
  cbn [pkg_loop]. rewrite IH. cbn [map concat]. unfold pkg_bytes at 2. cbn [fst snd join].
  repeat (rewrite <- app_assoc; cbn [app]). reflexivity.
Qed.

Lemma pkg_T p : JsonT (pkg_tree p) (pkg_bytes p).
Proof.
  unfold pkg_tree, pkg_bytes. apply JsonT_arr_intro.
  constructor; [apply JsonT_string|]. constructor; [apply JsonT_string|]. constructor; [|constructor].
  apply (JT_obj0 []). exact Ws_nil.
Qed.

Lemma pkgs_T ps : Forall2 JsonT (map pkg_tree ps) (map pkg_bytes ps).
Proof. induction ps as [|p r IH]; [constructor|]. cbn [map]. constructor; [apply pkg_T|exact IH]. Qed.

Definition shape_pkg_list : shape := SArrOf (STuple [SStr; SStr; SObj []]).

Lemma pkgs_shape ps : shape_ok shape_pkg_list (JArr (map pkg_tree ps)) = true.
Proof.
  unfold shape_pkg_list. cbn [shape_ok]. rewrite forallb_forall. intros t Hin. apply in_map_iff in Hin.
  destruct Hin as [p [<- _]]. reflexivity.
Qed.

(* the filtered list, whatever was decoded: an array of [name, version, {}] with at least one element *)
Theorem filter_php_packages_valid seen decoded out :
  filter_php_packages seen decoded = Some out ->
  exists newp, newp <> [] /\ out = LBR :: join COMMA (map pkg_bytes newp) ++ [RBR] /\
               JsonT (JArr (map pkg_tree newp)) out /\ HasShape shape_pkg_list out.
Proof.
  unfold filter_php_packages. destruct decoded as [items|]; [|discriminate].
  destruct (filter_loop seen items []) as [[seen' newp]|]; [|discriminate].
  destruct newp as [|p r]; [discriminate|]. intros H.
  assert (E : truncate1 (pkg_loop [LBR] (p :: r)) ++ [RBR] = LBR :: join COMMA (map pkg_bytes (p :: r)) ++ [RBR]).
  { rewrite pkg_loop_bytes. rewrite concat_comma_join by discriminate. rewrite app_assoc, truncate1_snoc. reflexivity. }
  cbv zeta in H. rewrite E in H. injection H as <-. clear E.
  exists (p :: r). split; [discriminate|]. split; [reflexivity|].
  assert (T : JsonT (JArr (map pkg_tree (p :: r))) (LBR :: join COMMA (map pkg_bytes (p :: r)) ++ [RBR])).
  { apply JsonT_arr_intro. apply pkgs_T. }
  split; [exact T|]. eexists. split; [exact T|apply pkgs_shape].
Qed.

(* PhpPackages.CollectorJSON around any valid list *)
Theorem pkg_payload_valid num_seen data :
  (forall d, data = Some d -> JsonValue d) ->
  HasShape (STuple [SStrLit k_Jars; SAny]) (pkg_payload num_seen data).
Proof.
  intros Hd. unfold pkg_payload. destruct (pkg_empty num_seen data) eqn:Ee.
  - apply shape_monitor_sound. vm_compute. reflexivity.
  - unfold pkg_empty in Ee. destruct data as [d|]; [|discriminate Ee].
    assert (Hn : (0 <? num_seen) = true) by (apply N.ltb_lt; apply N.eqb_neq in Ee; lia). rewrite Hn.
    destruct (Hd d eq_refl) as [t Ht].
    assert (T : JsonT (JArr [JStr k_Jars; t]) ([LBR] ++ s_jars ++ d ++ [RBR])).
    { pose proof (JsonT_arr_intro [JStr k_Jars; t] [QUOTE :: k_Jars ++ [QUOTE]; d]) as P.
      cbn [join] in P. repeat (rewrite <- app_assoc in P; cbn [app] in P). apply P.
      constructor; [constructor; apply plain_key_body; reflexivity|]. constructor; [exact Ht|constructor]. }
    eexists. split; [exact T|]. cbn [shape_ok]. rewrite bytes_eqb_refl. reflexivity.
Qed.

(* what the harvest sends for packages, for ANY decoded names and versions and any seen-set *)
Theorem pkg_harvest_payload_valid seen num_seen decoded body :
  pkg_harvest_payload seen num_seen decoded = Some body -> HasShape shape_pkg body.
Proof.
  unfold pkg_harvest_payload. destruct (filter_php_packages seen decoded) as [out|] eqn:Ef.
  2:{ cbn [pkg_empty]. discriminate. }
  destruct (pkg_empty num_seen (Some out)) eqn:Ee; [discriminate|]. intros H. inversion H; subst. clear H.
  apply filter_php_packages_valid in Ef. destruct Ef as [newp [Hne [Eo [T _]]]].
  unfold pkg_payload. rewrite Ee. cbn [pkg_empty] in Ee.
  assert (Hn : (0 <? num_seen) = true) by (apply N.ltb_lt; apply N.eqb_neq in Ee; lia). rewrite Hn.
  assert (T2 : JsonT (JArr [JStr k_Jars; JArr (map pkg_tree newp)]) ([LBR] ++ s_jars ++ out ++ [RBR])).
  { pose proof (JsonT_arr_intro [JStr k_Jars; JArr (map pkg_tree newp)] [QUOTE :: k_Jars ++ [QUOTE]; out]) as P.
    cbn [join] in P. repeat (rewrite <- app_assoc in P; cbn [app] in P). apply P.
    constructor; [constructor; apply plain_key_body; reflexivity|]. constructor; [exact T|constructor]. }
  eexists. split; [exact T2|]. unfold shape_pkg. cbn [shape_ok]. rewrite bytes_eqb_refl.
  pose proof (pkgs_shape newp) as S. unfold shape_pkg_list in S. cbn [shape_ok] in S. rewrite S. reflexivity.
Qed.

(* ------------------------------------------------------------------ EncodePayload *)

Theorem encode_payload_valid j t : JsonT t j ->
  exists body, encode_payload (Some j) = Some body /\ body = LBR :: j ++ [RBR] /\ JsonT (JArr [t]) body.
Proof.
  intros Ht. exists (LBR :: j ++ [RBR]). split.
  - unfold encode_payload. f_equal. rewrite app_assoc, set_last_snoc. rewrite <- app_assoc. reflexivity.
  - split; [reflexivity|]. apply (JsonT_arr_intro [t] [j]). constructor; [exact Ht|constructor].
Qed.

Theorem connect_payload_valid j ms : JsonT (JObj ms) j ->
  exists body, encode_payload (Some j) = Some body /\ HasShape shape_connect body.
Proof.
  intros Ht. destruct (encode_payload_valid j _ Ht) as [body [E [_ T]]]. exists body. split; [exact E|].
  eexists. split; [exact T|reflexivity].
Qed.

Lemma encode_payload_error : encode_payload None = None.
Proof. reflexivity. Qed.

(* ------------------------------------------------------------------ JSONString.MarshalJSON *)

Lemma json_string_marshal_valid js : (forall d, js = Some d -> JsonValue d) -> JsonValue (json_string_marshal js).
Proof.
  intros H. destruct js as [d|]; [apply H; reflexivity|]. exists JNull. constructor.
Qed.

(* ------------------------------------------------------------------ non-vacuity *)

Definition ex_num : list N := [49; 46; 53; 101; 43; 48; 54].   (* 1.5e+06 *)
Lemma ex_num_ok : JsonNumber ex_num.
Proof.
  destruct (scan_num_sound ex_num ex_num [] eq_refl) as [_ H]. exact H.
Qed.

Definition ex_entry : metric_entry :=
  {| m_name := [87; 34; 0xC0; 10]; m_scope := [0xE2; 0x80; 0xA8];
     m_data := [FNum ex_num; FNum [48]; FNum [48]; FNum [48]; FNum [48]; FNum [48]] |}.

Lemma num_by_scan n : (match scan_num n with Some (m, []) => bytes_eqb m n | _ => false end) = true -> JsonNumber n.
Proof.
  destruct (scan_num n) as [[m rest]|] eqn:E; [|discriminate]. destruct rest; [|discriminate].
  intros H. apply bytes_eqb_eq in H. subst m. apply scan_num_sound in E. destruct E as [_ H]. exact H.
Qed.

Example ex_entry_ok : entry_ok ex_entry.
Proof.
  split; [|reflexivity]. unfold ex_entry. cbn [m_data].
  repeat (apply Forall_cons; [cbn [fnum_ok]; apply num_by_scan; reflexivity|]). apply Forall_nil.
Qed.

Example ex_metric_hyps :
  JsonNumber [49] /\ JsonNumber [50] /\ Forall entry_ok [ex_entry; ex_entry] /\ (0 < 2 <-> [ex_entry; ex_entry] <> []).
Proof.
  split; [apply num_by_scan; reflexivity|]. split; [apply num_by_scan; reflexivity|].
  split; [repeat (apply Forall_cons; [apply ex_entry_ok|]); apply Forall_nil|]. split; [discriminate|reflexivity].
Qed.

Example ex_metric_monitor :
  match metric_payload [105; 100] [49] [50] 2 [ex_entry; ex_entry] with
  | Some body => shape_monitor shape_metric body
  | None => false
  end = true.
Proof. vm_compute. reflexivity. Qed.

Example ex_nonfinite : Exists (fun m => In FBad (m_data m))
  [ex_entry; {| m_name := [97]; m_scope := []; m_data := [FNum [48]; FBad; FNum [48]; FNum [48]; FNum [48]; FNum [48]] |}].
Proof. apply Exists_cons_tl. apply Exists_cons_hd. cbn. auto. Qed.

Example ex_event_hyps :
  JsonString [34; 105; 34] /\ JsonNumber [53] /\ JsonNumber [55] /\ Forall JsonValue [[123; 125]; [91; 49; 93]].
Proof.
  split; [apply string_monitor_sound; reflexivity|]. split; [apply num_by_scan; reflexivity|].
  split; [apply num_by_scan; reflexivity|].
  repeat (apply Forall_cons; [apply json_validb_sound; reflexivity|]). apply Forall_nil.
Qed.

Example ex_log_hyps :
  (forall j, Some [123; 125] = Some j -> exists lms, JsonT (JObj lms) j) /\
  Forall JsonValue (filter at_least4 [[123; 125]; [91; 49; 44; 50; 93]]).
Proof.
  split.
  - intros j E. inversion E; subst. exists []. apply (JT_obj0 []). exact Ws_nil.
  - cbn [filter at_least4]. repeat (apply Forall_cons; [apply json_validb_sound; reflexivity|]). apply Forall_nil.
Qed.

Example ex_filter :
  filter_php_packages [([97], [49])] (Some [PkgOk [97] [49]; PkgOk [34; 92; 10] [0xFF]; PkgOk [34; 92; 10] [0xFF]]) <> None.
Proof. vm_compute. discriminate. Qed.

Example ex_pkg_harvest :
  pkg_harvest_payload [] 1 (Some [PkgOk [34; 92; 10] [0xFF]]) <> None.
Proof. vm_compute. discriminate. Qed.

Example ex_connect_hyp : exists ms, JsonT (JObj ms) [123; 34; 97; 34; 58; 49; 125].
Proof.
  destruct (json_parse [123; 34; 97; 34; 58; 49; 125]) as [t|] eqn:E; [|discriminate E].
  pose proof (json_parse_sound _ _ E) as H. vm_compute in E. inversion E; subst. eexists. exact H.
Qed.

Example ex_reachable_hyp :
  map (fun m => (m_name m, m_scope m)) [ex_entry] =
  mt_keys (mt_run [((m_name ex_entry, m_scope ex_entry), false); ((m_name ex_entry, m_scope ex_entry), false); (([120], []), true)]).
Proof. vm_compute. reflexivity. Qed.
