(* TopKProofs.v -- facts about TopK.v: sorting, uniqueness of the K largest, the invariant used for
   every bounded keep-the-largest container, and soundness of the executable checks. *)
From Coq Require Import List ZArith Bool Permutation Sorted Lia Orders Sorting.Mergesort RelationClasses.
From Verif Require Import TopK.
Import ListNotations.
Open Scope Z_scope.

Definition sdesc (l : list Z) : Prop := StronglySorted (fun x y => y <= x) l.

Lemma StronglySorted_weaken {A} (P Q : A -> A -> Prop) l :
  (forall x y, P x y -> Q x y) -> StronglySorted P l -> StronglySorted Q l.
Proof.
  intros HPQ H. induction H as [|a l Hs IH Hf]; constructor; [exact IH|].
  eapply Forall_impl; [|exact Hf]. intros y Hy. apply HPQ. exact Hy.
Qed.

Lemma sort_desc_perm l : Permutation l (sort_desc l).
Proof. apply ZDescSort.Permuted_sort. Qed.

Lemma sort_desc_length l : length (sort_desc l) = length l.
Proof. symmetry. apply Permutation_length, sort_desc_perm. Qed.

Lemma sort_desc_sorted l : sdesc (sort_desc l).
Proof.
  unfold sdesc, sort_desc.
  eapply StronglySorted_weaken; [|apply ZDescSort.StronglySorted_sort].
  - intros x y H. unfold ZDesc.leb, is_true in H. apply Z.leb_le in H. exact H.
  - intros x y z Hxy Hyz. unfold ZDesc.leb, is_true in *.
    apply Z.leb_le in Hxy. apply Z.leb_le in Hyz. apply Z.leb_le. lia.
Qed.

Lemma sdesc_perm_eq l1 : forall l2, sdesc l1 -> sdesc l2 -> Permutation l1 l2 -> l1 = l2.
Proof.
  induction l1 as [|a t1 IH]; intros l2 H1 H2 Hp.
  - apply Permutation_nil in Hp. subst. reflexivity.
  - destruct l2 as [|b t2]; [apply Permutation_sym, Permutation_nil in Hp; discriminate|].
    inversion H1 as [|? ? Hs1 Hf1]; subst. inversion H2 as [|? ? Hs2 Hf2]; subst.
    rewrite Forall_forall in Hf1, Hf2.
    assert (Hab : a = b).
    { assert (Ha : In a (b :: t2)) by (eapply Permutation_in; [exact Hp|left; reflexivity]).
      assert (Hb : In b (a :: t1)) by (eapply Permutation_in; [apply Permutation_sym; exact Hp|left; reflexivity]).
      destruct Ha as [Ha|Ha]; [congruence|]. destruct Hb as [Hb|Hb]; [congruence|].
      specialize (Hf2 a Ha). specialize (Hf1 b Hb). lia. }
    subst b. f_equal. apply IH; try assumption. eapply Permutation_cons_inv. exact Hp.
Qed.

Lemma sdesc_app l1 : forall l2, sdesc l1 -> sdesc l2 ->
  (forall x y, In x l1 -> In y l2 -> y <= x) -> sdesc (l1 ++ l2).
Proof.
  induction l1 as [|a t IH]; intros l2 H1 H2 Hc; cbn; [exact H2|].
  inversion H1 as [|? ? Hs Hf]; subst. constructor.
  - apply IH; try assumption. intros x y Hx Hy. apply Hc; [right; exact Hx|exact Hy].
  - apply Forall_app. split; [exact Hf|]. apply Forall_forall. intros y Hy. apply Hc; [left; reflexivity|exact Hy].
Qed.

Lemma sort_desc_of_perm l1 l2 : Permutation l1 l2 -> sort_desc l1 = sort_desc l2.
Proof.
  intros Hp. apply sdesc_perm_eq; try apply sort_desc_sorted.
  eapply perm_trans; [apply Permutation_sym, sort_desc_perm|].
  eapply perm_trans; [exact Hp|apply sort_desc_perm].
Qed.

Lemma sort_desc_app_split kept dropped :
  (forall x y, In x kept -> In y dropped -> y <= x) ->
  sort_desc (kept ++ dropped) = sort_desc kept ++ sort_desc dropped.
Proof.
  intros Hc. apply sdesc_perm_eq.
  - apply sort_desc_sorted.
  - apply sdesc_app; try apply sort_desc_sorted.
    intros x y Hx Hy. apply Hc.
    + eapply Permutation_in; [apply Permutation_sym, sort_desc_perm|exact Hx].
    + eapply Permutation_in; [apply Permutation_sym, sort_desc_perm|exact Hy].
  - eapply perm_trans; [apply Permutation_sym, sort_desc_perm|].
    apply Permutation_app; apply sort_desc_perm.
Qed.

(* the K largest, as a sorted list, are determined by the offered multiset *)
Lemma topk_sorted_Z (K : nat) kept dropped off :
  Permutation (kept ++ dropped) off ->
  (forall x y, In x kept -> In y dropped -> y <= x) ->
  length kept = Nat.min K (length off) ->
  sort_desc kept = firstn K (sort_desc off).
Proof.
  intros Hp Hc Hl.
  rewrite <- (sort_desc_of_perm _ _ Hp). rewrite sort_desc_app_split by exact Hc.
  assert (Hlen : (length kept + length dropped = length off)%nat).
  { rewrite <- app_length. apply Permutation_length. exact Hp. }
  destruct (Nat.le_gt_cases K (length off)) as [Hk|Hk].
  - assert (length kept = K) by lia.
    rewrite firstn_app. rewrite sort_desc_length.
    replace (K - length kept)%nat with 0%nat by lia. cbn [firstn]. rewrite app_nil_r.
    rewrite firstn_all2; [reflexivity|]. rewrite sort_desc_length. lia.
  - assert (length dropped = 0%nat) by lia.
    destruct dropped; [|cbn in *; lia]. cbn [sort_desc].
    assert (Hnil : sort_desc [] = []) by reflexivity. rewrite Hnil, app_nil_r.
    rewrite firstn_all2; [reflexivity|]. rewrite sort_desc_length. lia.
Qed.

Section Keyed.
  Context {A : Type} (key : A -> Z).

  Lemma topk_rel_sorted K kept off :
    topk_rel key K kept off ->
    sort_desc (map key kept) = firstn K (sort_desc (map key off)).
  Proof.
    intros [dropped [Hp [Hc Hl]]].
    apply topk_sorted_Z with (dropped := map key dropped).
    - rewrite <- map_app. apply Permutation_map. exact Hp.
    - intros x y Hx Hy. apply in_map_iff in Hx. apply in_map_iff in Hy.
      destruct Hx as [x' [<- Hx]]. destruct Hy as [y' [<- Hy]]. apply Hc; assumption.
    - rewrite !map_length. exact Hl.
  Qed.

  Lemma topk_rel_length K kept off : topk_rel key K kept off -> length kept = Nat.min K (length off).
  Proof. intros [d [_ [_ H]]]. exact H. Qed.

  Lemma topk_rel_sub K kept off x : topk_rel key K kept off -> In x kept -> In x off.
  Proof.
    intros [d [Hp _]] Hx. eapply Permutation_in; [exact Hp|]. apply in_or_app. left. exact Hx.
  Qed.

  (* invariant form used in the inductions *)
  Definition topk_inv (K : nat) (kept off : list A) : Prop :=
    (length kept <= K)%nat /\
    exists dropped,
      Permutation (kept ++ dropped) off /\
      (forall x y, In x kept -> In y dropped -> key y <= key x) /\
      ((length kept < K)%nat -> dropped = []).

  Lemma topk_inv_rel K kept off : topk_inv K kept off -> topk_rel key K kept off.
  Proof.
    intros [Hle [d [Hp [Hc Hd]]]]. exists d. repeat split; try assumption.
    assert (Hlen : (length kept + length d = length off)%nat).
    { rewrite <- app_length. apply Permutation_length. exact Hp. }
    destruct (Nat.lt_ge_cases (length kept) K) as [Hlt|Hge].
    - rewrite (Hd Hlt) in Hlen. cbn in Hlen. lia.
    - lia.
  Qed.

  Lemma topk_inv_nil K : topk_inv K [] [].
  Proof. split; [cbn; lia|]. exists []. repeat split; auto. intros x y []. Qed.

  Lemma topk_inv_perm K kept kept' off off' :
    Permutation kept kept' -> Permutation off off' -> topk_inv K kept off -> topk_inv K kept' off'.
  Proof.
    intros Hk Ho [Hle [d [Hp [Hc Hd]]]]. split; [rewrite <- (Permutation_length Hk); exact Hle|].
    exists d. repeat split.
    - eapply perm_trans; [|exact Ho]. eapply perm_trans; [|exact Hp].
      apply Permutation_app_tail. apply Permutation_sym. exact Hk.
    - intros x y Hx Hy. apply Hc; [|exact Hy]. eapply Permutation_in; [apply Permutation_sym; exact Hk|exact Hx].
    - rewrite <- (Permutation_length Hk). exact Hd.
  Qed.

  Lemma topk_inv_grow K kept kept' off e :
    topk_inv K kept off -> (length kept < K)%nat -> Permutation kept' (e :: kept) ->
    topk_inv K kept' (off ++ [e]).
  Proof.
    intros [Hle [d [Hp [Hc Hd]]]] Hlt Hk. specialize (Hd Hlt). subst d. rewrite app_nil_r in Hp.
    split; [rewrite (Permutation_length Hk); cbn; lia|].
    exists []. repeat split; auto.
    - rewrite app_nil_r. eapply perm_trans; [exact Hk|].
      eapply perm_trans; [apply perm_skip; exact Hp|]. apply Permutation_cons_append.
    - intros x y _ [].
  Qed.

  Lemma topk_inv_refuse K kept off e :
    topk_inv K kept off -> (K <= length kept)%nat -> (forall x, In x kept -> key e <= key x) ->
    topk_inv K kept (off ++ [e]).
  Proof.
    intros [Hle [d [Hp [Hc Hd]]]] Hge He. split; [exact Hle|].
    exists (e :: d). repeat split.
    - eapply perm_trans; [apply Permutation_sym, Permutation_middle|].
      eapply perm_trans; [apply perm_skip; exact Hp|]. apply Permutation_cons_append.
    - intros x y Hx [<-|Hy]; [apply He; exact Hx|apply Hc; assumption].
    - intros Hlt. lia.
  Qed.

  Lemma topk_inv_replace K kept kept' rest off m e :
    topk_inv K kept off -> (K <= length kept)%nat ->
    Permutation kept (m :: rest) -> (forall x, In x kept -> key m <= key x) ->
    key m <= key e -> Permutation kept' (e :: rest) ->
    topk_inv K kept' (off ++ [e]).
  Proof.
    intros [Hle [d [Hp [Hc Hd]]]] Hge Hk Hm Hme Hk'.
    assert (Hlen : length kept' = length kept).
    { rewrite (Permutation_length Hk'), (Permutation_length Hk). reflexivity. }
    split; [lia|]. exists (m :: d). repeat split.
    - eapply perm_trans; [apply Permutation_app_tail; exact Hk'|]. cbn [app].
      eapply perm_trans; [|apply Permutation_cons_append]. apply perm_skip.
      eapply perm_trans; [|exact Hp].
      eapply perm_trans; [apply Permutation_sym, Permutation_middle|].
      apply Permutation_app_tail with (tl := d) in Hk. cbn [app] in Hk. apply Permutation_sym. exact Hk.
    - assert (Hmk : In m kept) by (eapply Permutation_in; [apply Permutation_sym; exact Hk|left; reflexivity]).
      intros x y Hx Hy.
      assert (Hx' : x = e \/ In x kept).
      { apply (Permutation_in _ Hk') in Hx. destruct Hx as [<-|Hx]; [left; reflexivity|].
        right. eapply Permutation_in; [apply Permutation_sym; exact Hk|right; exact Hx]. }
      destruct Hy as [<-|Hy]; destruct Hx' as [->|Hx'].
      + exact Hme.
      + apply Hm. exact Hx'.
      + specialize (Hc m y Hmk Hy). lia.
      + apply Hc; assumption.
    - intros Hlt. lia.
  Qed.
End Keyed.

(* ---- the executable checks mean what they say ---- *)
Lemma list_eqbZ_eq a : forall b, list_eqbZ a b = true <-> a = b.
Proof.
  induction a as [|x a IH]; intros [|y b]; cbn; split; intros H; try reflexivity; try discriminate.
  - apply andb_prop in H. destruct H as [H1 H2]. apply Z.eqb_eq in H1. apply IH in H2. congruence.
  - injection H as -> ->. rewrite Z.eqb_refl. apply IH. reflexivity.
Qed.

Lemma mon_topk_sound K offered retained :
  mon_topk K offered retained = true <-> sort_desc retained = firstn K (sort_desc offered).
Proof. unfold mon_topk. apply list_eqbZ_eq. Qed.

Lemma topk_rel_mon {A} (key : A -> Z) K kept off :
  topk_rel key K kept off -> mon_topk K (map key off) (map key kept) = true.
Proof. intros H. apply mon_topk_sound. apply topk_rel_sorted. exact H. Qed.

(* conversely the check implies the relation (so the monitor is exactly as strong as the theorem) *)
Lemma mon_topk_complete K offered retained :
  mon_topk K offered retained = true -> topk_rel (fun z => z) K retained offered.
Proof.
  intros H. apply mon_topk_sound in H.
  set (so := sort_desc offered) in *.
  exists (skipn K so). repeat split.
  - eapply perm_trans; [apply Permutation_app_tail; apply sort_desc_perm|]. rewrite H.
    rewrite firstn_skipn. apply Permutation_sym. apply sort_desc_perm.
  - intros x y Hx Hy.
    assert (Hx' : In x (firstn K so)).
    { rewrite <- H. eapply Permutation_in; [apply sort_desc_perm|exact Hx]. }
    pose proof (sort_desc_sorted offered) as Hs. fold so in Hs.
    rewrite <- (firstn_skipn K so) in Hs. clear - Hs Hx' Hy.
    induction (firstn K so) as [|a t IH]; [destruct Hx'|].
    cbn in Hs. inversion Hs as [|? ? Hs' Hf]; subst. destruct Hx' as [->|Hx'].
    + rewrite Forall_forall in Hf. apply Hf. apply in_or_app. right. exact Hy.
    + apply IH; assumption.
  - rewrite <- (sort_desc_length retained), H, firstn_length. unfold so. rewrite sort_desc_length. reflexivity.
Qed.
