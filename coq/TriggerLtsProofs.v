(* TriggerLtsProofs.v -- proofs about the goroutine LTS of TriggerLts.v: the executable twins agree with the
   relation; the reachable states for n = 1 and n = 6 are enumerated inside Coq and every one is checked. *)
From Coq Require Import NArith PArith List Bool Arith Lia FMapPositive.
From Verif Require Import TriggerLts.
Import ListNotations.

(* ---------- tstep <-> tstep_fn ---------- *)
Lemma tstep_fn_complete c s l s' : tstep c s l s' -> tstep_fn c s l = Some s'.
Proof.
  intros H. destruct H; unfold tstep_fn;
    repeat match goal with
           | H : crashed _ = false |- _ => rewrite H; clear H
           | H : nth_error _ _ = _ |- _ => rewrite H; clear H
           | H : fs _ = _ |- _ => rewrite H; clear H
           | H : bs _ = _ |- _ => rewrite H; clear H
           | H : cs _ = _ |- _ => rewrite H; clear H
           | H : trig_closed _ = _ |- _ => rewrite H; clear H
           | H : cancel_closed _ = _ |- _ => rewrite H; clear H
           | H : grouped _ = _ |- _ => rewrite H; clear H
           | H : ps _ = _ |- _ => rewrite H; clear H
           end;
    rewrite ?Nat.eqb_refl; try reflexivity.
  (* StartClose: ps s <> PW *)
  destruct (ps s); try reflexivity. congruence.
Qed.

Lemma tstep_fn_sound c s l s' : tstep_fn c s l = Some s' -> tstep c s l s'.
Proof.
  unfold tstep_fn. destruct (crashed s) eqn:Hc; [discriminate|].
  destruct l as [k|k|k|k| | | | |k|k| |k|k| | | | | |k]; intros H.
  - destruct (nth_error (ts s) k) as [[[|]|[|]| |]|] eqn:Hn; try discriminate; inversion H; subst;
      eauto using tstep.
  - destruct (nth_error (ts s) k) as [[[|]|[|]| |]|] eqn:Hn; try discriminate; inversion H; subst;
      eauto using tstep.
  - destruct (nth_error (ts s) k) as [[[|]|[|]| |]|] eqn:Hn; try discriminate; inversion H; subst;
      eauto using tstep.
  - destruct (nth_error (ts s) k) as [[b|b| |]|] eqn:Hn; try discriminate.
    destruct (fs s) eqn:Hf; try discriminate. destruct (trig_closed s) eqn:Ht; try discriminate.
    inversion H; subst. eapply s_deliver; eauto.
  - destruct (fs s) eqn:Hf; try discriminate. destruct (ps s) eqn:Hp; try discriminate.
    inversion H; subst. apply s_harvest; assumption.
  - destruct (ps s) eqn:Hp; try discriminate. inversion H; subst. apply s_pbusy; assumption.
  - destruct (ps s) eqn:Hp; try discriminate. inversion H; subst. apply s_pidle; assumption.
  - destruct (cs s) eqn:Hcs; try discriminate. destruct (ps s) eqn:Hp; try discriminate;
      inversion H; subst; rewrite <- Hp; apply s_start_close; try assumption; congruence.
  - destruct (grouped c) eqn:Hg; try discriminate. destruct (cs s) eqn:Hcs; try discriminate.
    destruct (nth_error (ts s) k) as [[b|b| |]|] eqn:Hn; try discriminate.
    inversion H; subst. eapply s_cancel_t; eauto.
  - destruct (grouped c) eqn:Hg; try discriminate. destruct (cs s) eqn:Hcs; try discriminate.
    destruct (nth_error (ts s) k) as [[b|b| |]|] eqn:Hn; try discriminate.
    inversion H; subst. eapply s_confirm_t; eauto.
  - destruct (cs s) eqn:Hcs; try discriminate. destruct (bs s) eqn:Hb; try discriminate.
    inversion H; subst. apply s_bcancel; assumption.
  - destruct (bs s) as [| |k'|k'| |] eqn:Hb; try discriminate.
    destruct (nth_error (ts s) k) as [[b|b| |]|] eqn:Hn; try discriminate.
    destruct (k' =? k) eqn:Hk; try discriminate. apply Nat.eqb_eq in Hk. subst k'.
    inversion H; subst. eapply s_mcancel; eauto.
  - destruct (bs s) as [| |k'|k'| |] eqn:Hb; try discriminate.
    destruct (nth_error (ts s) k) as [[b|b| |]|] eqn:Hn; try discriminate.
    destruct (k' =? k) eqn:Hk; try discriminate. apply Nat.eqb_eq in Hk. subst k'.
    inversion H; subst. eapply s_mconfirm; eauto.
  - destruct (bs s) eqn:Hb; try discriminate. destruct (cs s) eqn:Hcs; try discriminate.
    inversion H; subst. apply s_bconfirm; assumption.
  - destruct (cs s) eqn:Hcs; try discriminate. inversion H; subst. apply s_to_shutdown; assumption.
  - destruct (cs s) eqn:Hcs; try discriminate. destruct (trig_closed s) eqn:Ht; inversion H; subst.
    + apply s_close_trigger_twice; assumption.
    + apply s_close_trigger; assumption.
  - destruct (cs s) eqn:Hcs; try discriminate. destruct (cancel_closed s) eqn:Ht; inversion H; subst.
    + apply s_close_cancel_twice; assumption.
    + apply s_close_cancel; assumption.
  - destruct (fs s) eqn:Hf; try discriminate. destruct (trig_closed s) eqn:Ht; try discriminate.
    inversion H; subst. apply s_fclosed; assumption.
  - destruct (nth_error (ts s) k) as [[b|b| |]|] eqn:Hn; try discriminate.
    destruct (trig_closed s) eqn:Ht; try discriminate. inversion H; subst. eapply s_send_closed; eauto.
Qed.

Lemma tstep_fn_iff c s l s' : tstep_fn c s l = Some s' <-> tstep c s l s'.
Proof. split; [apply tstep_fn_sound|apply tstep_fn_complete]. Qed.

(* ---------- tenabled <-> tstep ---------- *)
Lemma labels_ts_in base l k x lab :
  nth_error l k = Some x -> In lab (labels_t (base + k) x) -> In lab (labels_ts base l).
Proof.
  revert base k. induction l as [|y r IH]; intros base k Hn Hin; [destruct k; discriminate|].
  cbn [labels_ts]. apply in_app_iff. destruct k; cbn [nth_error] in Hn.
  - inversion Hn; subst. left. rewrite Nat.add_0_r in Hin. exact Hin.
  - right. apply (IH (S base) k Hn). replace (S base + k) with (base + S k) by lia. exact Hin.
Qed.

Ltac kill_matches H :=
  repeat match type of H with
         | context [match ?e with _ => _ end] => destruct e
         end; discriminate H.

Lemma candidates_complete c s l s' : tstep_fn c s l = Some s' -> In l (candidates s).
Proof.
  unfold candidates. intros H. apply in_app_iff.
  assert (K : forall k x, nth_error (ts s) k = Some x -> In l (labels_t k x) ->
              In l labels_glob \/ In l (labels_ts 0 (ts s))).
  { intros k x Hn Hin. right. apply (labels_ts_in 0 (ts s) k x l Hn). exact Hin. }
  unfold tstep_fn in H. destruct (crashed s); [discriminate|].
  destruct l as [k|k|k|k| | | | |k|k| |k|k| | | | | |k];
    try solve [left; cbn; auto 14];
    (destruct (nth_error (ts s) k) as [[[|]|[|]| |]|] eqn:Hn;
     first [ solve [eapply K; [exact Hn|cbn; auto 14]] | exfalso; kill_matches H ]).
Qed.

Lemma tenabled_step_fn c s l s' : In (l, s') (tenabled c s) <-> tstep_fn c s l = Some s'.
Proof.
  unfold tenabled. rewrite in_flat_map. split.
  - intros [l0 [_ H]]. destruct (tstep_fn c s l0) as [s0|] eqn:E; [|destruct H].
    destruct H as [H|[]]. inversion H; subst. exact E.
  - intros H. exists l. split; [eapply candidates_complete; exact H|]. rewrite H. left. reflexivity.
Qed.

Lemma tenabled_iff c s l s' : In (l, s') (tenabled c s) <-> tstep c s l s'.
Proof. rewrite tenabled_step_fn. apply tstep_fn_iff. Qed.

(* ---------- structural equality ---------- *)
Lemma tst_eqb_eq a b : tst_eqb a b = true -> a = b.
Proof. destruct a as [[|]|[|]| |], b as [[|]|[|]| |]; cbn; intros H; try discriminate; reflexivity. Qed.

Lemma tsl_eqb_eq a b : tsl_eqb a b = true -> a = b.
Proof.
  revert b. induction a as [|x a IH]; intros [|y b] H; cbn in H; try discriminate; [reflexivity|].
  apply andb_prop in H. destruct H as [H1 H2]. apply tst_eqb_eq in H1. apply IH in H2. congruence.
Qed.

Lemma tstate_eqb_eq a b : tstate_eqb a b = true -> a = b.
Proof.
  destruct a as [ta fa ba ca pa xa ya za], b as [tb fb bb cb pb xb yb zb].
  unfold tstate_eqb. cbn [ts fs bs cs ps trig_closed cancel_closed crashed]. intros H.
  apply andb_prop in H. destruct H as [H Hz]. apply andb_prop in H. destruct H as [H Hy].
  apply andb_prop in H. destruct H as [H Hx]. apply andb_prop in H. destruct H as [H Hp].
  apply andb_prop in H. destruct H as [H Hc]. apply andb_prop in H. destruct H as [H Hb].
  apply andb_prop in H. destruct H as [Ht Hf].
  apply tsl_eqb_eq in Ht. apply Bool.eqb_prop in Hx, Hy, Hz. subst.
  assert (fa = fb) by (destruct fa, fb; try discriminate; reflexivity).
  assert (ba = bb) by (destruct ba, bb; try discriminate; try reflexivity; apply Nat.eqb_eq in Hb; congruence).
  assert (ca = cb) by (destruct ca, cb; try discriminate; reflexivity).
  assert (pa = pb) by (destruct pa, pb; try discriminate; reflexivity).
  subst. reflexivity.
Qed.

(* ---------- reachability and the lift from the enumerated set ---------- *)
Inductive treach (c : tcfg) : tstate -> Prop :=
| tr_init : treach c (tinit c)
| tr_step s l s' : treach c s -> tstep c s l s' -> treach c s'.

Lemma trun_reach c s tr s' : treach c s -> trun c s tr = Some s' -> treach c s'.
Proof.
  revert s. induction tr as [|l r IH]; intros s Hs H; cbn [trun] in H.
  - inversion H; subst. exact Hs.
  - destruct (tstep_fn c s l) as [s1|] eqn:E; [|discriminate].
    apply (IH s1); [|exact H]. eapply tr_step; [exact Hs|apply tstep_fn_sound; exact E].
Qed.

Lemma in_map_elements m s : in_map m s = true -> In (encode s, s) (PositiveMap.elements m).
Proof.
  unfold in_map. destruct (PositiveMap.find (encode s) m) as [s0|] eqn:E; [|discriminate].
  intros H. apply tstate_eqb_eq in H. subst s0. apply PositiveMap.elements_correct. exact E.
Qed.

Definition ck_rest (c : tcfg) (s : tstate) : bool :=
  ck_safe c s && ck_live c s && ck_rank c s && ck_stable c s && ck_proc c s.

Lemma check_state_split c m s :
  check_state c m s = true -> ck_closed c m s = true /\ ck_rest c s = true.
Proof.
  unfold check_state, ck_rest. intros H.
  repeat (apply andb_prop in H; let H' := fresh "E" in destruct H as [H H']).
  split; [exact H|]. rewrite E3, E2, E1, E0, E. reflexivity.
Qed.

Lemma reach_checked c fuel :
  check_all c fuel = true -> forall s, treach c s -> in_map (reach_map c fuel) s = true /\ ck_rest c s = true.
Proof.
  unfold check_all. intros H. apply andb_prop in H. destruct H as [Hinit Hall].
  rewrite forallb_forall in Hall.
  assert (Hin : forall s, in_map (reach_map c fuel) s = true ->
                          ck_closed c (reach_map c fuel) s = true /\ ck_rest c s = true).
  { intros s Hs. apply check_state_split. apply (Hall (encode s, s)). apply in_map_elements. exact Hs. }
  assert (Hr : forall s, treach c s -> in_map (reach_map c fuel) s = true).
  { intros s Hs. induction Hs as [|s l s' Hs IH Hstep]; [exact Hinit|].
    destruct (Hin s IH) as [Hc _]. unfold ck_closed in Hc. rewrite forallb_forall in Hc.
    apply (Hc (l, s')). apply tenabled_iff. exact Hstep. }
  intros s Hs. split; [apply Hr; exact Hs|apply (Hin s (Hr s Hs))].
Qed.

(* ---------- reading the checks ---------- *)
Section Checked.
  Variable c : tcfg.
  Variable fuel : nat.
  Hypothesis Hall : check_all c fuel = true.

  Lemma rest_of s : treach c s -> ck_rest c s = true.
  Proof. intros H. apply (reach_checked c fuel Hall s H). Qed.

  Lemma rest_parts s : ck_rest c s = true ->
    ck_safe c s = true /\ ck_live c s = true /\ ck_rank c s = true /\ ck_stable c s = true /\ ck_proc c s = true.
  Proof.
    unfold ck_rest. intros H.
    apply andb_prop in H. destruct H as [H H5]. apply andb_prop in H. destruct H as [H H4].
    apply andb_prop in H. destruct H as [H H3]. apply andb_prop in H. destruct H as [H1 H2].
    repeat split; assumption.
  Qed.

  (* no panic anywhere: never a send on a closed channel, never a double close *)
  Lemma safe s : treach c s ->
    crashed s = false /\
    forall l s', tstep c s l s' -> is_send_on_closed l = false /\ crashed s' = false.
  Proof.
    intros Hr. destruct (rest_parts s (rest_of s Hr)) as (Hs & _). unfold ck_safe in Hs.
    apply andb_prop in Hs. destruct Hs as [H1 H2]. split; [apply negb_true_iff; exact H1|].
    intros l s' Hst. rewrite forallb_forall in H2. specialize (H2 (l, s') (proj2 (tenabled_iff c s l s') Hst)).
    cbn [fst snd] in H2. apply andb_prop in H2. destruct H2 as [A B].
    split; apply negb_true_iff; assumption.
  Qed.

  (* no deadlock *)
  Lemma live s : treach c s -> is_final s = false ->
    (exists l s', tstep c s l s') /\
    (close_started s = true -> exists l s', tstep c s l s' /\ is_env l = false).
  Proof.
    intros Hr Hf. destruct (rest_parts s (rest_of s Hr)) as (_ & Hl & _). unfold ck_live in Hl.
    rewrite Hf in Hl. cbn [orb] in Hl. apply andb_prop in Hl. destruct Hl as [H1 H2]. split.
    - destruct (tenabled c s) as [|[l s'] r] eqn:E; [discriminate|].
      exists l, s'. apply tenabled_iff. rewrite E. left. reflexivity.
    - intros Hc. rewrite Hc in H2. cbn [negb orb] in H2. apply existsb_exists in H2.
      destruct H2 as [[l s'] [Hin Hl]]. exists l, s'. split; [apply tenabled_iff; exact Hin|].
      apply negb_true_iff. exact Hl.
  Qed.

  Lemma rank_decreases s l s' : treach c s -> close_started s = true -> tstep c s l s' -> is_env l = false ->
    (rank c s' < rank c s)%N.
  Proof.
    intros Hr Hc Hst He. destruct (rest_parts s (rest_of s Hr)) as (_ & _ & Hk & _). unfold ck_rank in Hk.
    rewrite Hc in Hk. cbn [negb orb] in Hk. rewrite forallb_forall in Hk.
    specialize (Hk (l, s') (proj2 (tenabled_iff c s l s') Hst)). cbn [fst snd] in Hk. rewrite He in Hk.
    cbn [orb] in Hk. apply N.ltb_lt. exact Hk.
  Qed.

  Lemma stable s l s' : treach c s -> tstep c s l s' ->
    (is_final s = true -> is_final s' = true) /\ (close_started s = true -> close_started s' = true).
  Proof.
    intros Hr Hst. destruct (rest_parts s (rest_of s Hr)) as (_ & _ & _ & Hs & _). unfold ck_stable in Hs.
    apply andb_prop in Hs. destruct Hs as [H1 H2]. pose proof (proj2 (tenabled_iff c s l s') Hst) as Hin. split.
    - intros Hf. rewrite Hf in H1. cbn [negb orb] in H1. rewrite forallb_forall in H1. apply (H1 (l, s') Hin).
    - intros Hf. rewrite Hf in H2. cbn [negb orb] in H2. rewrite forallb_forall in H2. apply (H2 (l, s') Hin).
  Qed.

  (* the processor *)
  Lemma proc s : treach c s ->
    ps s <> PW /\ (close_started s = false -> exists s', tstep c s StartClose s' /\ ps s' = ps s).
  Proof.
    intros Hr. destruct (rest_parts s (rest_of s Hr)) as (_ & _ & _ & _ & Hp). unfold ck_proc in Hp.
    apply andb_prop in Hp. destruct Hp as [H1 H2]. split.
    - intros E. rewrite E in H1. discriminate.
    - intros Hc. rewrite Hc in H2. cbn [orb] in H2. apply existsb_exists in H2.
      destruct H2 as [[l s'] [Hin Hl]]. cbn [fst snd] in Hl. apply andb_prop in Hl. destruct Hl as [A B].
      destruct l; try discriminate. exists s'. split; [apply tenabled_iff; exact Hin|].
      destruct (ps s'), (ps s); try discriminate; reflexivity.
  Qed.

  (* sequences of goroutine progress (no tick, no new work for the processor) *)
  Inductive psteps : tstate -> list tlabel -> tstate -> Prop :=
  | ps_nil s : psteps s [] s
  | ps_cons s l s1 tr s2 : tstep c s l s1 -> is_env l = false -> psteps s1 tr s2 -> psteps s (l :: tr) s2.

  (* every such sequence after Close has started is shorter than the rank ... *)
  Lemma psteps_bounded s tr s' : treach c s -> close_started s = true -> psteps s tr s' ->
    (N.of_nat (length tr) + rank c s' <= rank c s)%N /\ treach c s' /\ close_started s' = true.
  Proof.
    intros Hr Hc Hp. induction Hp as [s|s l s1 tr s2 Hst He Hp IH].
    - cbn. split; [lia|split; assumption].
    - pose proof (rank_decreases s l s1 Hr Hc Hst He) as Hd.
      assert (Hr1 : treach c s1) by (eapply tr_step; eassumption).
      destruct (stable s l s1 Hr Hst) as [_ Hc1]. specialize (Hc1 Hc).
      destruct (IH Hr1 Hc1) as (Hb & Hr2 & Hc2). split; [|split; assumption].
      cbn [length]. lia.
  Qed.

  (* ... and can always be extended until every goroutine is gone and both channels are closed *)
  Lemma close_terminates_gen s : treach c s -> close_started s = true ->
    exists tr s', psteps s tr s' /\ is_final s' = true.
  Proof.
    intros Hr Hc.
    assert (G : forall n s, treach c s -> close_started s = true -> (rank c s < N.of_nat n)%N ->
                exists tr s', psteps s tr s' /\ is_final s' = true).
    { clear s Hr Hc. induction n as [|n IH]; intros s Hr Hc Hn; [lia|].
      destruct (is_final s) eqn:Hf.
      - exists [], s. split; [apply ps_nil|exact Hf].
      - destruct (live s Hr Hf) as [_ Hp]. destruct (Hp Hc) as (l & s1 & Hst & He).
        pose proof (rank_decreases s l s1 Hr Hc Hst He) as Hd.
        assert (Hr1 : treach c s1) by (eapply tr_step; eassumption).
        destruct (stable s l s1 Hr Hst) as [_ Hc1]. specialize (Hc1 Hc).
        destruct (IH s1 Hr1 Hc1) as (tr & s2 & Hp2 & Hf2); [lia|].
        exists (l :: tr), s2. split; [eapply ps_cons; eassumption|exact Hf2]. }
    apply (G (S (N.to_nat (rank c s))) s Hr Hc). lia.
  Qed.
End Checked.

Lemma final_closed_once s : is_final s = true ->
  trig_closed s = true /\ cancel_closed s = true /\ crashed s = false /\ goroutines_gone s = true.
Proof.
  unfold is_final, goroutines_gone. intros H.
  apply andb_prop in H. destruct H as [H Hcr]. apply andb_prop in H. destruct H as [H Hcc].
  apply andb_prop in H. destruct H as [H Htc]. rewrite H. apply negb_true_iff in Hcr.
  repeat split; assumption.
Qed.

Lemma tlts_twins c s l s' :
  (In (l, s') (tenabled c s) <-> tstep c s l s') /\ (tstep_fn c s l = Some s' <-> tstep c s l s').
Proof. split; [apply tenabled_iff|apply tstep_fn_iff]. Qed.
