(* ExitMonitor.v -- judge one run of the real CleanExit with live harvest timers (C11; the exactly-once
   clause is C01's).  Inputs only: what was submitted, what every collector request carried, whether the
   collector accepted everything, whether CleanExit returned before the bound, how many requests were
   made after it had returned. *)
From Coq Require Import ZArith List Bool.
Import ListNotations.
Open Scope Z_scope.

Record exit_obs := {
  eo_offered : list Z;        (* tags of every unit of data submitted (all below the capacity limits) *)
  eo_delivered : list Z;      (* tags carried by every request the collector received, periodic and final *)
  eo_accepting : bool;        (* every harvest request was answered 202 *)
  eo_exited : bool;           (* CleanExit returned within the bound *)
  eo_after : Z                (* requests made after CleanExit had returned *)
}.

Definition countZ (x : Z) (l : list Z) : nat := length (filter (Z.eqb x) l).

(* violation codes *)
Definition X_HUNG : Z := 1.        (* the final flush did not return *)
(* (requests made after CleanExit has returned -- a periodic harvest goroutine scheduled late -- are recorded
   as evidence only: C11 does not forbid them) *)
Definition X_LOST : Z := 3.        (* accepting collector: a submitted unit was never delivered *)
Definition X_DUP : Z := 4.         (* accepting collector: a unit was delivered twice *)
Definition X_FOREIGN : Z := 5.     (* a delivered unit nobody submitted *)

Definition exit_monitor (o : exit_obs) : list Z :=
  (if eo_exited o then [] else [X_HUNG]) ++
  (if eo_exited o && eo_accepting o && existsb (fun t => Nat.eqb (countZ t (eo_delivered o)) 0) (eo_offered o) then [X_LOST] else []) ++
  (if eo_accepting o && existsb (fun t => Nat.ltb 1 (countZ t (eo_delivered o))) (eo_offered o) then [X_DUP] else []) ++
  (if existsb (fun t => Nat.eqb (countZ t (eo_offered o)) 0) (eo_delivered o) then [X_FOREIGN] else []).

Example exit_monitor_examples :
  exit_monitor {| eo_offered := [1; 2]; eo_delivered := [2; 1]; eo_accepting := true; eo_exited := true; eo_after := 0 |} = [] /\
  exit_monitor {| eo_offered := [1; 2]; eo_delivered := [2]; eo_accepting := true; eo_exited := false; eo_after := 0 |} = [X_HUNG] /\
  exit_monitor {| eo_offered := [1; 2]; eo_delivered := [2; 2]; eo_accepting := true; eo_exited := true; eo_after := 3 |} = [X_LOST; X_DUP].
Proof. vm_compute. repeat split. Qed.
