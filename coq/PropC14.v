(* C14 -- credentials never reach the logs (PARTIAL: the redaction functions and the typed table of
   log call sites are proved here; which errors net/http produces on which path is sampled dynamically).
   Statements only. *)
From Coq Require Import Ascii String.
From Coq Require Import NArith List Bool.
From Verif Require Import Redact RedactProofs LogSites LogSitesProofs.
From Verif.Gen Require Import LogSites_gen.
Import ListNotations.
Open Scope N_scope.

(* Two license keys of equal length > 6 that agree on their first and last two bytes are logged
   identically (LicenseKey.String and the obfuscated request URL), and what is logged is shorter than
   the key, so it cannot contain it. *)
Theorem C14_key_noninterference : forall k1 k2 host name runid,
  length k1 = length k2 -> (6 < length k1)%nat ->
  firstn 2 k1 = firstn 2 k2 -> skipn (length k1 - 2) k1 = skipn (length k1 - 2) k2 ->
  lk_string k1 = lk_string k2 /\
  rpm_url true host name runid k1 = rpm_url true host name runid k2 /\
  (length (lk_string k1) < length k1)%nat /\ contains k1 (lk_string k1) = false.
Proof. exact key_noninterference. Qed.
Print Assumptions C14_key_noninterference.

(* Short keys, honestly: a key of at most 4 bytes is logged in full (the "obfuscated" URL is the raw
   URL); some keys of 5 and 6 bytes are contained in what is logged. *)
Theorem C14_short_key_printed : forall k, (length k <= 4)%nat -> lk_string k = k /\
  forall host name runid, rpm_url true host name runid k = rpm_url false host name runid k.
Proof. exact short_key_printed. Qed.
Print Assumptions C14_short_key_printed.

Theorem C14_key_hidden_refuted :
  (exists k, k <> [] /\ lk_string k = k) /\
  (exists k, length k = 6%nat /\ lk_string k = k) /\
  (exists k, length k = 5%nat /\ contains k (lk_string k) = true).
Proof. exact key_printed_refuted. Qed.
Print Assumptions C14_key_hidden_refuted.

(* ARGV echo (redactArgs as of commit 3800b33).  `blank fl args` is args with the proxy value blanked out
   at every position where Go's flag syntax assigns the proxy setting (-proxy v, --proxy v, -proxy=v,
   --proxy=v, legacy -x v / -x=v, -define / --define with a setting that writes proxy; up to "--", the
   first non-flag argument or a parse error).  FULL statement: for every argv[0] and every two command
   lines that agree after blanking, the echoed lines are identical -- for any flag set on whose options
   redactArgs' takesValue (new flag set first, then legacy) answers like the flag set itself. *)
Theorem C14_argv_noninterference : forall fl prog a1 a2,
  agrees fl -> blank fl a1 = blank fl a2 ->
  redact_args (prog :: a1) = redact_args (prog :: a2).
Proof. exact argv_noninterference. Qed.
Print Assumptions C14_argv_noninterference.

(* Both of the daemon's flag sets qualify: no option is boolean in one set and value-taking in the other,
   and an option known to neither is a parse error (the daemon exits before the echo). *)
Theorem C14_flagsets_agree : agrees new_flags /\ agrees legacy_flags.
Proof. exact (conj new_flags_agree legacy_flags_agree). Qed.
Print Assumptions C14_flagsets_agree.

(* Equivalently: the echo is a function of the blanked command line. *)
Theorem C14_echo_of_blank : forall fl prog args, agrees fl ->
  redact_args (prog :: args) = redact_args (prog :: blank fl args).
Proof. exact echo_of_blank. Qed.
Print Assumptions C14_echo_of_blank.

(* The command lines on which the echo before 3800b33 printed the proxy (the value of another option
   reads like -x / --proxy / -define): the proxy is still what the flag parser assigns, and the echo no
   longer contains it. *)
Theorem C14_shadow_corpus_redacted :
  let secret := b "http://u:SECRET1@h:1"%string in
  forallb (fun a => echo_monitor (b "SECRET1"%string) (redact_args (b "/usr/bin/newrelic-daemon"%string :: a)))
          (shadow_corpus secret) = true /\
  map (parse_proxy new_flags []) (firstn 3 (shadow_corpus secret)) = [Some secret; Some secret; Some secret] /\
  parse_proxy legacy_flags [] (nth 3 (shadow_corpus secret) []) = Some secret.
Proof. exact shadow_corpus_redacted. Qed.
Print Assumptions C14_shadow_corpus_redacted.

(* A --define setting that writes cfg.Proxy (configuration lexer, any quoting / spacing / position in
   a multi-line setting) contains the text "proxy", which is what redactArgs tests for. *)
Theorem C14_define_proxy_visible : forall s, define_sets_proxy s = true -> contains s_proxy s = true.
Proof. exact define_sets_proxy_contains. Qed.
Print Assumptions C14_define_proxy_visible.

(* removeURLFromError: the text of the scrubbed error does not depend on the URL held by the first
   *url.Error of the chain (what http.Client.Do, http.NewRequest and url.Parse return), PROVIDED no
   wrapper above it was made with fmt.Errorf("...%w") before the scrub: such a wrapper has already
   frozen the URL into its text (second theorem) -- the daemon has no such caller today. *)
Theorem C14_urlerror_scrubbed : forall quote e u1 u2, lazy_chain e = true ->
  format quote (scrub (with_url u1 e)) = format quote (scrub (with_url u2 e)).
Proof. exact urlerror_scrubbed. Qed.
Print Assumptions C14_urlerror_scrubbed.

Theorem C14_urlerror_errorf_not_scrubbed : forall quote pre post op u inner,
  format quote (scrub (errorf quote pre post (EUrl op u inner))) =
  pre ++ (op ++ [32] ++ quote u ++ [58; 32] ++ format quote inner) ++ post.
Proof. exact errorf_defeats_scrub. Qed.
Print Assumptions C14_urlerror_errorf_not_scrubbed.

(* Translation: in the current sources no argument of any log call is a raw secret carrier
   (string(LicenseKey), RpmCmd.url(false), a configuration's .Proxy, os.Args outside redactArgs, a
   configuration struct whose Proxy was not redacted); the ARGV echo prints redactArgs(os.Args) and
   the collector client logs the URL only as cmd.url(true). *)
Theorem C14_logsites_typed :
  bad_sites log_sites = [] /\ table_sane log_sites = true /\ log_sites <> [].
Proof. exact logsites_typed. Qed.
Print Assumptions C14_logsites_typed.
