(* C06Check.v -- the evaluation functions used by the generated build/cases_c06_*.v files:
   correspondence (model vs. observed implementation output, on projections that do not depend on
   tie-breaks), the informational "strict" comparison (exact array order), and the model-independent
   monitors (property stated on inputs and implementation outputs only, with the documented numbers).
   Definitions only. *)
From Coq Require Import List ZArith NArith Arith Bool.
From Verif Require Import Heap TopK Reservoir ErrTrace SlowSQL.
Import ListNotations.
Open Scope nat_scope.

Definition pz := (Z * N)%type.                       (* (priority or duration, tag) *)
Definition pz_code (x : pz) : Z := (fst x * 2 ^ 32 + Z.of_N (snd x))%Z.
Definition pz_eqb (a b : pz) : bool := (fst a =? fst b)%Z && (snd a =? snd b)%N.
Fixpoint list_eqb {A} (eqb : A -> A -> bool) (a b : list A) : bool :=
  match a, b with
  | [], [] => true
  | x :: a', y :: b' => eqb x y && list_eqb eqb a' b'
  | _, _ => false
  end.
Definition same_mset (a b : list Z) : bool := list_eqbZ (sort_desc a) (sort_desc b).
Definition nodupZ_sorted (l : list Z) : bool :=      (* l sorted: no two equal neighbours *)
  (fix go (l : list Z) : bool :=
     match l with
     | x :: ((y :: _) as r) => negb (x =? y)%Z && go r
     | _ => true
     end) l.

(* ------------------------------------------------------------------ event reservoirs *)
Record half := Half { h_tags : list N; h_seen : Z; h_failed : Z; h_cap : nat }.
Record rcase := RC {
  rc_K : nat;
  rc_ops : list rop;                (* merged reservoirs are the OBSERVED ones, as literals *)
  rc_ret : list pz;                 (* observed: retained (stored priority, tag), array order *)
  rc_seen : Z; rc_failed : Z;       (* observed NumSeen / NumFailedAttempts *)
  rc_halves : list half;            (* observed Split() result, or [] *)
  rc_payload : option (list N * Z * Z)   (* observed payload: tags, events_seen, reservoir_size (-1: n/a) *)
}.

Definition ev_pz (e : ev) : pz := (prio e, tag e).

Definition corr_res (c : rcase) : bool :=
  let r := run_res (rc_K c) (rc_ops c) in
  same_mset (map prio (items r)) (map fst (rc_ret c)) &&
  (seen r =? rc_seen c)%Z && (failed r =? rc_failed c)%Z &&
  match rc_halves c with
  | [] => true
  | [h1; h2] =>
      let '(r1, r2) := split r in
      (length (items r1) =? length (h_tags h1)) && (length (items r2) =? length (h_tags h2)) &&
      (seen r1 =? h_seen h1)%Z && (seen r2 =? h_seen h2)%Z &&
      (failed r1 =? h_failed h1)%Z && (failed r2 =? h_failed h2)%Z &&
      (cap r1 =? h_cap h1) && (cap r2 =? h_cap h2)
  | _ => false
  end.

(* exact array order (and which of two tied events survived): informational *)
Definition strict_res (c : rcase) : bool :=
  let r := run_res (rc_K c) (rc_ops c) in
  list_eqb pz_eqb (map ev_pz (items r)) (rc_ret c) &&
  match rc_halves c with
  | [h1; h2] =>
      let '(r1, r2) := split r in
      list_eqb N.eqb (map tag (items r1)) (h_tags h1) && list_eqb N.eqb (map tag (items r2)) (h_tags h2)
  | _ => true
  end.

(* monitor side: what was offered, with the documented numbers (2 for synthetics, 10 attempts) *)
Definition m_two : Z := 2 * 2 ^ 20.
Definition m_carried (o : res) : bool := (failed o + 1 <=? 10)%Z.
Definition m_offered_op (op : rop) : list pz :=
  match op with
  | OAdd e => [ev_pz e]
  | OAddSynth e => [((m_two + prio e)%Z, tag e)]
  | OMerge o => map ev_pz (items o)
  | OMergeFailed o => if m_carried o then map ev_pz (items o) else []
  end.
Definition m_offered (ops : list rop) : list pz := flat_map m_offered_op ops.
Definition m_seen_op (op : rop) : Z :=
  match op with
  | OAdd _ | OAddSynth _ => 1
  | OMerge o => seen o
  | OMergeFailed o => if m_carried o then seen o else 0
  end.
Definition m_seen (ops : list rop) : Z := fold_left (fun acc op => (acc + m_seen_op op)%Z) ops 0%Z.
Definition m_failed (ops : list rop) : Z :=
  fold_left (fun acc op => match op with
                           | OMergeFailed o => if m_carried o then (failed o + 1)%Z else acc
                           | _ => acc end) ops 0%Z.

Definition mon_res (c : rcase) : bool :=
  let off := m_offered (rc_ops c) in
  let ret := rc_ret c in
  (* the K largest of everything offered; numSeen = number offered *)
  mon_events (rc_K c) (map fst off) (map fst ret) (rc_seen c) (m_seen (rc_ops c)) &&
  (* each retained event is one that was offered, with its own priority, at most once *)
  mon_submset (map pz_code ret) (map pz_code off) &&
  nodupZ_sorted (sort_desc (map (fun x => Z.of_N (snd x)) ret)) &&
  (* synthetics outrank *)
  mon_synth (map fst off) (map fst ret) &&
  (rc_failed c =? m_failed (rc_ops c))%Z &&
  (* Split: the halves partition the retained events and the events seen *)
  match rc_halves c with
  | [] => true
  | [h1; h2] =>
      same_mset (map Z.of_N (h_tags h1 ++ h_tags h2)) (map (fun x => Z.of_N (snd x)) ret) &&
      (h_seen h1 + h_seen h2 =? rc_seen c)%Z &&
      (h_failed h1 =? rc_failed c)%Z && (h_failed h2 =? rc_failed c)%Z &&
      (length (h_tags h1) =? length ret / 2)
  | _ => false
  end &&
  (* payload: the retained events, events_seen = numSeen, reservoir_size = K *)
  match rc_payload c with
  | None => true
  | Some (tags, pseen, psize) =>
      same_mset (map Z.of_N tags) (map (fun x => Z.of_N (snd x)) ret) &&
      ((pseen =? -1)%Z || (pseen =? rc_seen c)%Z) &&
      ((psize =? -1)%Z || (psize =? Z.of_nat (rc_K c))%Z)
  end.

(* ------------------------------------------------------------------ errors *)
Record ecase := EC {
  ec_K : nat;
  ec_offers : list pz;
  ec_panic : bool;
  ec_steps : list (list pz)         (* observed after each AddError, array order *)
}.
Definition err_pz (e : err) : pz := (e_prio e, e_tag e).
Definition pz_err (x : pz) : err := mkErr (fst x) (snd x).

(* all intermediate states of the model, None from the first panic on *)
Fixpoint scan_errors (h : option eheap) (es : list err) : list (option eheap) :=
  match es with
  | [] => []
  | e :: es' => let h' := opt_step add_error h e in h' :: scan_errors h' es'
  end.

Definition corr_err (c : ecase) : bool :=
  let sts := scan_errors (Some (new_error_heap (ec_K c))) (map pz_err (ec_offers c)) in
  if ec_panic c then existsb (fun s => match s with None => true | Some _ => false end) sts
  else
    (length sts =? length (ec_steps c)) &&
    forallb (fun p => match fst p with
                      | Some h => same_mset (map e_prio (e_items h)) (map fst (snd p))
                      | None => false end) (combine sts (ec_steps c)).

Definition strict_err (c : ecase) : bool :=
  let sts := scan_errors (Some (new_error_heap (ec_K c))) (map pz_err (ec_offers c)) in
  forallb (fun p => match fst p with
                    | Some h => list_eqb pz_eqb (map err_pz (e_items h)) (snd p)
                    | None => false end) (combine sts (ec_steps c)).

Definition mon_err (c : ecase) : bool :=
  if ec_K c =? 0 then true                       (* the daemon never builds an ErrorHeap of capacity 0 *)
  else negb (ec_panic c) &&
       mon_errors (ec_K c) (ec_offers c) (ec_steps c) &&
       mon_submset (map pz_code (last (ec_steps c) [])) (map pz_code (ec_offers c)).

(* ------------------------------------------------------------------ traces *)
Record tcase := TC {
  tc_offers : list trace;
  tc_gate : bool;
  tc_keeper : list bool;            (* observed IsKeeper before each offer *)
  tc_synth : list pz; tc_force : list pz; tc_regular : list pz;   (* observed pools (duration, tag) *)
  tc_ok : bool
}.
Definition trace_pz (t : trace) : pz := (t_dur t, t_tag t).

Fixpoint scan_traces (gate : bool) (ts : option traces) (l : list trace) : list (option bool) * option traces :=
  match l with
  | [] => ([], ts)
  | t :: l' =>
      let k := match ts with Some s => is_keeper s t | None => None end in
      let ts' := if gate then opt_step offer_trace ts t else opt_step add_txn_trace ts t in
      let '(ks, fin) := scan_traces gate ts' l' in (k :: ks, fin)
  end.

Definition corr_trace (c : tcase) : bool :=
  let '(ks, fin) := scan_traces (tc_gate c) (Some new_txn_traces) (tc_offers c) in
  tc_ok c &&
  list_eqb (fun a b => match a, b with Some x, Some y => Bool.eqb x y | _, _ => false end)
           ks (map Some (tc_keeper c)) &&
  match fin with
  | None => false
  | Some ts =>
      same_mset (map t_dur (t_items (synthetics ts))) (map fst (tc_synth c)) &&
      same_mset (map t_dur (t_items (force_persisted ts))) (map fst (tc_force c)) &&
      same_mset (map t_dur (t_items (regular ts))) (map fst (tc_regular c))
  end.

Definition strict_trace (c : tcase) : bool :=
  let '(_, fin) := scan_traces (tc_gate c) (Some new_txn_traces) (tc_offers c) in
  match fin with
  | None => false
  | Some ts =>
      list_eqb pz_eqb (map trace_pz (t_items (synthetics ts))) (tc_synth c) &&
      list_eqb pz_eqb (map trace_pz (t_items (force_persisted ts))) (tc_force c) &&
      list_eqb pz_eqb (map trace_pz (t_items (regular ts))) (tc_regular c)
  end.

(* IsKeeper, stated without any heap: a trace is a keeper iff fewer than `limit` traces of its kind were
   offered before it, or it runs at least as long as the limit-th longest of them *)
Fixpoint insert_desc (x : Z) (l : list Z) : list Z :=
  match l with
  | [] => [x]
  | y :: r => if (y <? x)%Z then x :: l else y :: insert_desc x r
  end.
Definition keeper_spec (limit : nat) (top : list Z) (d : Z) : bool :=
  (length top <? limit) || (last top 0 <=? d)%Z.
Fixpoint mon_keepers (sy fo re : list Z) (offers : list trace) (obs : list bool) : bool :=
  match offers, obs with
  | [], [] => true
  | t :: offers', k :: obs' =>
      match pool_of t with
      | PSynth => Bool.eqb k (keeper_spec 20 sy (t_dur t)) &&
                  mon_keepers (firstn 20 (insert_desc (t_dur t) sy)) fo re offers' obs'
      | PForce => Bool.eqb k (keeper_spec 10 fo (t_dur t)) &&
                  mon_keepers sy (firstn 10 (insert_desc (t_dur t) fo)) re offers' obs'
      | PRegular => Bool.eqb k (keeper_spec 1 re (t_dur t)) &&
                    mon_keepers sy fo (firstn 1 (insert_desc (t_dur t) re)) offers' obs'
      end
  | _, _ => false
  end.

Definition mon_trace (c : tcase) : bool :=
  let kind p := map trace_pz (of_pool p (tc_offers c)) in
  tc_ok c &&
  mon_trace_pool 20 (map fst (kind PSynth)) (map fst (tc_synth c)) &&
  mon_trace_pool 10 (map fst (kind PForce)) (map fst (tc_force c)) &&
  mon_trace_pool 1 (map fst (kind PRegular)) (map fst (tc_regular c)) &&
  mon_submset (map pz_code (tc_synth c)) (map pz_code (kind PSynth)) &&
  mon_submset (map pz_code (tc_force c)) (map pz_code (kind PForce)) &&
  mon_submset (map pz_code (tc_regular c)) (map pz_code (kind PRegular)) &&
  mon_keepers [] [] [] (tc_offers c) (tc_keeper c).

(* ------------------------------------------------------------------ slow SQLs *)
Record scase := SC {
  sc_K : nat;
  sc_obs : list slow;
  sc_tiefree : bool;                (* all MaxMicros in the case distinct: no tie-break involved *)
  sc_steps : list (list im);        (* observed retained (id, max) after each Observe *)
  sc_final : list slow              (* observed final records, array order *)
}.

Definition slow_eqb (a b : slow) : bool :=
  (s_id a =? s_id b)%N && (s_count a =? s_count b)%Z && (s_total a =? s_total b)%Z &&
  (s_min a =? s_min b)%Z && (s_max a =? s_max b)%Z &&
  (s_metric a =? s_metric b)%N && (s_query a =? s_query b)%N && (s_txn a =? s_txn b)%N &&
  (s_url a =? s_url b)%N && (s_params a =? s_params b)%N.

Definition corr_slow (c : scase) : bool :=
  let st := sl_items (run_slow (sc_K c) (sc_obs c)) in
  same_mset (map s_max st) (map s_max (sc_final c)) &&
  (if sc_tiefree c
   then (length st =? length (sc_final c)) &&
        forallb (fun s => existsb (slow_eqb s) (sc_final c)) st
   else true).

Definition strict_slow (c : scase) : bool :=
  list_eqb slow_eqb (sl_items (run_slow (sc_K c) (sc_obs c))) (sc_final c).

Definition mon_slow_case (c : scase) : bool :=
  mon_slow (sc_K c) (sc_obs c) (sc_steps c) (sc_final c).
