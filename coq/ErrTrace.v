(* ErrTrace.v -- models of daemon/internal/newrelic/errors.go (ErrorHeap.AddError) and
   txn_traces.go (TxnTraceHeap.AddTxnTrace / IsKeeper, the three pools of TxnTraces).
   Error priorities are Go ints (Z); trace durations are float64 milliseconds, modelled on the
   integers (exact in float64 below 2^53).  Definitions only; proofs are in ErrTraceProofs.v. *)
From Coq Require Import List ZArith Arith Bool Permutation.
From Verif Require Import Heap TopK.
From Verif.Gen Require Import Limits_gen.
Import ListNotations.
Open Scope nat_scope.

(* ------------------------------------------------------------------ errors.go *)
Record err := mkErr { e_prio : Z; e_tag : N }.           (* Error{Priority, Data} *)
(* func (h ErrorHeap) Less(i, j int) bool { return h[i].Priority < h[j].Priority } *)
Definition err_less (a b : err) : bool := (e_prio a <? e_prio b)%Z.

Record eheap := mkEH { e_cap : nat; e_items : list err }.   (* a slice: contents + fixed capacity *)

(* NewErrorHeap(max): make(ErrorHeap, 0, max); heap.Init *)
Definition new_error_heap (max : nat) : eheap := mkEH max (init err_less []).

(* func (h *ErrorHeap) AddError(priority int, dataNeedsCopy []byte)
   None = the index-out-of-range panic of h[0] when the capacity is 0 *)
Definition add_error (h : eheap) (e : err) : option eheap :=
  if length (e_items h) =? e_cap h then
    match e_items h with
    | [] => None
    | root :: _ =>
        if (e_prio e <=? e_prio root)%Z then Some h        (* equal priority never displaces *)
        else
          match pop err_less (e_items h) with              (* heap.Pop(h) *)
          | Some (_, it') => Some (mkEH (e_cap h) (push err_less it' e))
          | None => None
          end
    end
  else Some (mkEH (e_cap h) (push err_less (e_items h) e)).

Definition opt_step {S X} (f : S -> X -> option S) (os : option S) (x : X) : option S :=
  match os with Some s => f s x | None => None end.

Definition run_errors (K : nat) (es : list err) : option eheap :=
  fold_left (opt_step add_error) es (Some (new_error_heap K)).

(* what one AddError may do to the retained errors *)
Definition err_step_ok (K : nat) (before : list err) (e : err) (after : list err) : Prop :=
  (* room: kept *)
  (length before < K /\ Permutation after (e :: before)) \/
  (* full and e is not higher than any retained error: refused, nothing changes *)
  (length before = K /\ after = before /\ forall x, In x before -> (e_prio e <= e_prio x)%Z) \/
  (* full: e displaces a retained error of minimal and strictly lower priority *)
  (length before = K /\
   exists m rest, Permutation before (m :: rest) /\ Permutation after (e :: rest) /\
                  (e_prio m < e_prio e)%Z /\ forall x, In x before -> (e_prio m <= e_prio x)%Z).

(* ------------------------------------------------------------------ txn_traces.go *)
Record trace := mkTrace { t_dur : Z; t_synth : bool; t_force : bool; t_tag : N }.
(* SyntheticsResourceID != "" -> t_synth; ForcePersist -> t_force *)
Definition trace_less (a b : trace) : bool := (t_dur a <? t_dur b)%Z.

Record theap := mkTH { t_cap : nat; t_items : list trace }.
Definition new_txn_trace_heap (max : nat) : theap := mkTH max (init trace_less []).

(* func (h *TxnTraceHeap) IsKeeper(tt *TxnTrace) bool ; None = index panic (capacity 0) *)
Definition heap_is_keeper (h : theap) (t : trace) : option bool :=
  if length (t_items h) <? t_cap h then Some true
  else match t_items h with
       | [] => None
       | root :: _ => Some (t_dur root <=? t_dur t)%Z
       end.

(* func (h *TxnTraceHeap) AddTxnTrace(t *TxnTrace) *)
Definition heap_add_trace (h : theap) (t : trace) : option theap :=
  if length (t_items h) <? t_cap h then Some (mkTH (t_cap h) (push trace_less (t_items h) t))
  else match t_items h with
       | [] => None
       | root :: _ =>
           if (t_dur t <? t_dur root)%Z then Some h         (* shorter than the shortest kept *)
           else
             match pop trace_less (t_items h) with
             | Some (_, it') => Some (mkTH (t_cap h) (push trace_less it' t))
             | None => None
             end
       end.

Record traces := mkTraces { regular : theap; force_persisted : theap; synthetics : theap }.

Definition new_txn_traces : traces :=
  mkTraces (new_txn_trace_heap (Z.to_nat MaxRegularTraces))
           (new_txn_trace_heap (Z.to_nat MaxForcePersistTraces))
           (new_txn_trace_heap (Z.to_nat MaxSyntheticsTraces)).

Inductive pool := PRegular | PForce | PSynth.
(* which pool a trace belongs to: synthetics wins over force-persist *)
Definition pool_of (t : trace) : pool :=
  if t_synth t then PSynth else if t_force t then PForce else PRegular.
Definition get_pool (ts : traces) (p : pool) : theap :=
  match p with PRegular => regular ts | PForce => force_persisted ts | PSynth => synthetics ts end.
Definition pool_limit (p : pool) : nat :=          (* the documented 1 / 10 / 20 *)
  match p with PRegular => 1 | PForce => 10 | PSynth => 20 end.
Definition pool_eqb (a b : pool) : bool :=
  match a, b with PRegular, PRegular | PForce, PForce | PSynth, PSynth => true | _, _ => false end.

(* func (traces *TxnTraces) IsKeeper(tt *TxnTrace) bool *)
Definition is_keeper (ts : traces) (t : trace) : option bool :=
  if t_synth t then heap_is_keeper (synthetics ts) t
  else if t_force t then heap_is_keeper (force_persisted ts) t
  else heap_is_keeper (regular ts) t.

(* func (traces *TxnTraces) AddTxnTrace(t *TxnTrace) *)
Definition add_txn_trace (ts : traces) (t : trace) : option traces :=
  if t_synth t then
    match heap_add_trace (synthetics ts) t with
    | Some h => Some (mkTraces (regular ts) (force_persisted ts) h) | None => None end
  else if t_force t then
    match heap_add_trace (force_persisted ts) t with
    | Some h => Some (mkTraces (regular ts) h (synthetics ts)) | None => None end
  else
    match heap_add_trace (regular ts) t with
    | Some h => Some (mkTraces h (force_persisted ts) (synthetics ts)) | None => None end.

Definition run_traces (l : list trace) : option traces :=
  fold_left (opt_step add_txn_trace) l (Some new_txn_traces).

(* the daemon's call site (commands.go): if h.TxnTraces.IsKeeper(tt) { h.TxnTraces.AddTxnTrace(tt) } *)
Definition offer_trace (ts : traces) (t : trace) : option traces :=
  match is_keeper ts t with
  | Some true => add_txn_trace ts t
  | Some false => Some ts
  | None => None
  end.
Definition run_offers (l : list trace) : option traces :=
  fold_left (opt_step offer_trace) l (Some new_txn_traces).

Definition of_pool (p : pool) (l : list trace) : list trace :=
  filter (fun t => pool_eqb (pool_of t) p) l.

(* ------------------------------------------------------------------ monitors *)
(* errors: observed = the retained (priority, tag) list after every AddError; tags are unique *)
Definition pt := (Z * N)%type.
Definition pt_eqb (a b : pt) : bool := (fst a =? fst b)%Z && (snd a =? snd b)%N.
Definition pt_mem (x : pt) (l : list pt) : bool := existsb (pt_eqb x) l.

(* one AddError, judged on the retained sets before/after: at most K kept, nothing appears except
   the new error, anything that disappears has strictly lower priority than the new error and then
   the new error is in, nothing disappears while there is room, and the new error is refused only when
   the heap is full of errors of at least its priority *)
Definition mon_err_step (K : nat) (before : list pt) (e : pt) (after : list pt) : bool :=
  let removed := filter (fun x => negb (pt_mem x after)) before in
  let added := filter (fun x => negb (pt_mem x before)) after in
  (length after <=? K) &&
  forallb (fun x => pt_eqb x e) added &&
  forallb (fun x => (fst x <? fst e)%Z) removed &&
  (match removed with [] => true | _ => pt_mem e after && (length before =? K) end) &&
  (pt_mem e after || (forallb (fun x => (fst e <=? fst x)%Z) before && (length before =? K))) &&
  (if length before <? K then pt_mem e after && (length after =? S (length before)) else length after =? K).

Fixpoint mon_err_steps (K : nat) (before : list pt) (offers : list pt) (obs : list (list pt)) : bool :=
  match offers, obs with
  | [], [] => true
  | e :: offers', after :: obs' => mon_err_step K before e after && mon_err_steps K after offers' obs'
  | _, _ => false
  end.

Definition mon_errors (K : nat) (offers : list pt) (obs : list (list pt)) : bool :=
  mon_err_steps K [] offers obs &&
  mon_topk K (map fst offers) (map fst (last obs [])).

(* traces: per pool the retained durations are the 1 / 10 / 20 largest offered of that kind *)
Definition mon_trace_pool (limit : nat) (offered_d retained_d : list Z) : bool :=
  mon_topk limit offered_d retained_d.
