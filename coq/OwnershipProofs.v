(* OwnershipProofs.v -- C17: non-vacuity examples (a whole worker life as a protocol trace), racy traces
   the checker rejects, steps the protocol refuses, and the exactness of the access-table check.
   The proofs proper are in OwnershipSound.v (checker vs happens-before), OwnershipCap.v (ownership
   discipline => race free), OwnershipProto.v (protocol => discipline), OwnershipExec.v (executable twin). *)
From Coq Require Import String.
From Coq Require Import Arith List Bool Lia Permutation.
From Verif Require Import Ownership OwnershipSound OwnershipCap OwnershipProto OwnershipExec.
Import ListNotations.

(* object numbers are allocation order; goroutine numbers are spawn order *)
Definition worker_schedule : list plabel := [
  (* worker main: NewProcessor; logger; go p.Run(); listener *)
  LNew 0; LWr 0 0; LFreeze 0 0;              (* o0: Processor's channel fields and cfg *)
  LNew 0; LWr 0 1;                           (* o1: p.apps / p.harvests / p.util *)
  LNew 0; LWr 0 2; LSend 0 sLogMu [2] [];    (* o2: logger buffer, parked under its mutex *)
  LDup 0 0; LGo 0 KProc [1] [0];             (* g1 = Run *)
  LDup 0 0; LGo 0 KListener [] [0];          (* g2 = Serve *)
  LDup 2 0; LGo 2 KConn [] [0];              (* g3, g4 = serve(conn) *)
  LDup 2 0; LGo 2 KConn [] [0];
  LGo 1 KUtil [] [];                         (* g5 = utilization.Gather *)
  LNew 5; LWr 5 3; LSend 5 sUtil [3] [];     (* o3: *utilization.Data *)
  LRecv 1 sUtil; LWr 1 1; LFreeze 1 3;
  (* connection 3: AppInfo *)
  LNew 3; LWr 3 4; LRd 3 0; LSend 3 sAppInfo [4] [];       (* o4: *AppInfo *)
  LRd 1 0; LRecv 1 sAppInfo; LRd 1 4; LFreeze 1 4;
  LNew 1; LWr 1 5; LWr 1 1;                                (* o5: App *)
  LNew 1; LWr 1 6; LSend 1 16 [6] [];                      (* o6: AppInfoReply on ResultChan 16 *)
  LRecv 3 16; LRd 3 6; LDropOwn 3 6;
  (* considerConnect *)
  LWr 1 5; LNew 1; LWr 1 7; LRd 1 3;                       (* o7: ConnectArgs / RawConnectPayload *)
  LDup 1 4; LDup 1 0; LGo 1 KConnect [7] [4; 0];           (* g6 *)
  LRd 6 4; LWr 6 7; LAcq 6 sSem; LRel 6 sSem; LAcq 6 sSem; LRel 6 sSem;
  LNew 6; LWr 6 8; LRd 6 0; LSend 6 sAttempt [8] [];       (* o8: ConnectAttempt incl. *ConnectReply *)
  (* processConnectAttempt *)
  LRecv 1 sAttempt; LRd 1 8; LWr 1 8; LWr 1 5; LFreeze 1 8;
  LNew 1; LWr 1 9; LNew 1; LWr 1 10;                       (* o9: Harvest, o10: its containers *)
  LNew 1; LWr 1 11; LFreeze 1 11;                          (* o11: AppHarvest (channels, TraceObserver ptr) *)
  LNew 1; LWr 1 12;                                        (* o12: to.messagesRemainingCapacity *)
  LDup 1 11; LDup 1 0; LGo 1 KToSupport [] [11; 0];        (* g7 handleSupportability *)
  LDup 1 11; LDup 1 0; LGo 1 KToWorker [] [11; 0];         (* g8 worker *)
  LDup 1 11; LDup 1 0; LGo 1 KSync [] [11; 0];             (* g9 forwarder *)
  LDup 1 11; LDup 1 0; LGo 1 KSync [] [11; 0];             (* g10 trigger *)
  LWr 1 1;
  LNew 7; LWr 7 13;                                        (* o13: supportability metrics map *)
  LNew 8; LWr 8 14;                                        (* o14: to.sender / to.responseError *)
  (* connection 4: a transaction, then a span batch *)
  LNew 4; LWr 4 15; LRd 4 0; LSend 4 sTxn [15] [];
  LRecv 1 sTxn; LRd 1 1; LRd 1 15; LWr 1 9; LWr 1 10; LWr 1 5; LDropOwn 1 15;
  LNew 4; LWr 4 16; LRd 4 0; LSend 4 sSpan [16] [];
  LRecv 1 sSpan; LRd 1 1; LRd 1 11; LAcq 1 19; LRd 1 12; LSend 1 17 [16] []; LWr 1 12;
  LRecv 8 17; LRd 8 16; LWr 8 14; LRel 8 19; LRel 8 23; LDropOwn 8 16;
  LAcq 7 23; LWr 7 13;
  (* the logger: any goroutine, under the mutex *)
  LRecv 8 sLogMu; LWr 8 2; LSend 8 sLogMu [2] [];
  LAcq 1 sLevel; LRecv 1 sLogMu; LWr 1 2; LSend 1 sLogMu [2] [];
  (* harvest tick -> doHarvest: detach, go harvestAll *)
  LRel 10 27; LAcq 9 27; LRd 9 11; LRel 9 sTick;
  LAcq 1 sTick; LRd 1 5; LRd 1 8; LNew 1; LWr 1 17; LNew 1; LWr 1 18; LWr 1 5;
  LDup 1 8; LDup 1 11; LDup 1 0; LGo 1 KHarvest [9; 10] [8; 11; 0];   (* g11 harvestAll *)
  LSend 7 18 [13] []; LNew 7; LWr 7 19;                     (* dump, fresh map o19 *)
  LRd 11 9; LRd 11 11; LRecv 11 18; LRd 11 13; LWr 11 10; LRd 11 8; LDropOwn 11 13;
  LDup 11 8; LDup 11 0; LGo 11 KPayload [10] [8; 0];        (* g12 harvestPayload *)
  LDup 11 0; LGo 11 KUsage [] [0];                          (* g13 harvestDataUsage *)
  LRd 12 10; LAcq 12 sSem; LRel 12 sSem; LRel 12 sUsage; LRel 12 31;
  LRd 12 0; LSend 12 sHarvErr [10] [];                      (* failed: container goes back *)
  LAcq 13 31; LAcq 13 sUsage; LNew 13; LWr 13 20; LDup 13 0; LGo 13 KPayload [20] [0];
  LRd 14 20; LAcq 14 sSem; LRel 14 sSem;
  (* processHarvestError: merge into the attached harvest, restart *)
  LRecv 1 sHarvErr; LRd 1 10; LWr 1 18; LWr 1 17; LWr 1 5; LWr 1 1;
  LDup 1 11; LDup 1 0; LGo 1 KSync [] [11; 0];              (* g15 go Close() *)
  LRel 15 35; LAcq 10 35; LRel 10 35; LAcq 15 35; LRd 15 11; LRel 15 39;
  (* shutdown: CleanExit on the main goroutine while connection 4 is still sending *)
  LNew 4; LWr 4 21; LRd 4 0;
  LRel 0 sQuit; LAcq 1 sQuit; LQuit 1; LRecv 0 sQuitAck;
  LSend 4 sTxn [21] [];
  LRd 0 1; LRd 0 5; LRd 0 8; LWr 0 17; LWr 0 18; LAcq 0 sSem; LRel 0 sSem; LWr 0 5
].


(* ---- non-vacuity: a whole life of the worker is a protocol trace *)
Definition worker_trace : trace :=
  Eval vm_compute in match schedule_trace worker_schedule with Some tr => tr | None => [] end.

Example worker_schedule_accepted : schedule_trace worker_schedule = Some worker_trace.
Proof. vm_compute. reflexivity. Qed.

Example worker_trace_size : length worker_trace = 149 /\ length worker_schedule = 203.
Proof. vm_compute. split; reflexivity. Qed.

Example worker_trace_is_protocol : protocol_trace worker_trace.
Proof. apply (schedule_protocol worker_schedule). exact worker_schedule_accepted. Qed.

(* the checker agrees (computed, not through the theorem) *)
Example worker_trace_checked : race_free worker_trace = true.
Proof. vm_compute. reflexivity. Qed.

(* the trace has conflicting accesses by different goroutines, so data_race_free says something:
   position 2 is main's write of o1 (p.apps...), a later position is the processor's write of it *)
Example worker_trace_has_conflicts :
  exists i j, i < j /\ conflict worker_trace i j /\
              exists ei ej, nth_error worker_trace i = Some ei /\ nth_error worker_trace j = Some ej /\
                            gof ei <> gof ej.
Proof.
  exists 1, 12. split; [lia|]. split.
  - exists (EWr 0 1), (EWr 1 1), 1. vm_compute. repeat split; auto.
  - exists (EWr 0 1), (EWr 1 1). vm_compute. repeat split; auto. discriminate.
Qed.

(* ---- the protocol refuses what the fixed defects did *)

(* 6c84d6e: the old CleanExit stored nil into p.txnDataChannel / p.appInfoChannel (object o0, frozen
   after NewProcessor) from the signal goroutine: not a step of the protocol ... *)
Definition fixed_6c84d6e_cleanexit_schedule : list plabel := [
  LNew 0; LWr 0 0; LFreeze 0 0; LNew 0; LWr 0 1;
  LDup 0 0; LGo 0 KProc [1] [0]; LDup 0 0; LGo 0 KListener [] [0]; LDup 2 0; LGo 2 KConn [] [0];
  LRd 3 0;                                        (* IncomingTxnData reads p.txnDataChannel *)
  LRel 0 sQuit; LAcq 1 sQuit; LQuit 1; LRecv 0 sQuitAck;
  LWr 0 0;                                        (* p.txnDataChannel = nil *)
  LRd 3 0 ].
Example fixed_6c84d6e_cleanexit_not_protocol : pexec_stuck pinit fixed_6c84d6e_cleanexit_schedule 0 = Some 16.
Proof. vm_compute. reflexivity. Qed.

(* ... and the trace it produced is rejected by the checker: the write at position 9 is unordered
   with the connection goroutine's read at position 5 *)
Definition fixed_6c84d6e_cleanexit_trace : trace := [
  EWr 0 0; EWr 0 1; EGo 0 1; EGo 0 2; EGo 2 3;
  ERd 3 0;
  ERel 0 sQuit; EAcq 1 sQuit; ERel 1 sQuitAck; EAcq 0 sQuitAck;
  EWr 0 0;
  ERd 3 0 ].
Example fixed_6c84d6e_cleanexit_racy : race_free fixed_6c84d6e_cleanexit_trace = false /\ first_race rinit 0 fixed_6c84d6e_cleanexit_trace = Some 10.
Proof. vm_compute. split; reflexivity. Qed.
(* without the store the same trace is fine *)
Example fixed_cleanexit_ok :
  race_free [EWr 0 0; EWr 0 1; EGo 0 1; EGo 0 2; EGo 2 3; ERd 3 0;
             ERel 0 sQuit; EAcq 1 sQuit; ERel 1 sQuitAck; EAcq 0 sQuitAck; ERd 0 1; EWr 0 1; ERd 3 0] = true.
Proof. vm_compute. reflexivity. Qed.
(* CleanExit without the receive->send-completion edge of the unbuffered quitChan would race on
   the processor's state *)
Example quit_needs_the_ack_edge :
  race_free [EWr 0 1; EGo 0 1; EWr 1 1; ERel 0 sQuit; EAcq 1 sQuit; EWr 0 1] = false.
Proof. vm_compute. reflexivity. Qed.

(* before fc40238: QueueBatch / doStreaming: the producer writes the capacity counter after the
   send, the worker read it (as a Debugf argument) after the receive: unordered *)
Definition fixed_fc40238_capacity_trace : trace := [
  EWr 1 12;            (* NewTraceObserver: messagesRemainingCapacity = QueueSize *)
  EGo 1 8;             (* go worker *)
  ERel 1 17;           (* QueueBatch: to.messages <- b *)
  EWr 1 12;            (*             to.messagesRemainingCapacity -= count *)
  EAcq 8 17;           (* doStreaming: msg := <-to.messages *)
  ERd 8 12 ].          (*              Debugf(..., to.messagesRemainingCapacity, ...) *)
Example fixed_fc40238_capacity_racy : race_free fixed_fc40238_capacity_trace = false /\ first_race rinit 0 fixed_fc40238_capacity_trace = Some 5.
Proof. vm_compute. split; reflexivity. Qed.
(* in the protocol the worker holds no pointer to the counter *)
Example fixed_fc40238_capacity_not_protocol :
  pexec_stuck pinit [LNew 0; LGo 0 KProc [0] []; LGo 1 KToWorker [] []; LRd 2 0] 0 = Some 3.
Proof. vm_compute. reflexivity. Qed.

(* ---- regression traces of the two other defects the race detector found (fixed in 00696d1, c8aacc8) *)

(* before 00696d1: ConnectPayloadInternal copies *util shallowly, every connect payload points to
   the one vendors struct (object 3) that Gather filled; OverrideDockerId wrote it on the processor
   while an earlier connect goroutine encoded its payload *)
Definition fixed_00696d1_vendors_trace : trace := [
  EGo 1 5; EWr 5 3; ERel 5 sUtil; EAcq 1 sUtil;   (* Gather -> utilChan -> p.util *)
  ERd 1 3; EGo 1 6;                               (* considerConnect (app A): go ConnectApplication *)
  EWr 1 3;                                        (* considerConnect (app B, docker id): OverrideDockerId *)
  ERd 6 3 ].                                      (* EncodePayload of app A reads Vendors.Docker *)
Example fixed_00696d1_vendors_racy : race_free fixed_00696d1_vendors_trace = false /\ first_race rinit 0 fixed_00696d1_vendors_trace = Some 7.
Proof. vm_compute. split; reflexivity. Qed.
(* in the protocol the published utilization data is immutable: the processor cannot write it *)
Example fixed_00696d1_vendors_not_protocol :
  pexec_stuck pinit [LNew 0; LGo 0 KProc [0] []; LGo 1 KUtil [] []; LNew 2; LWr 2 1; LSend 2 sUtil [1] [];
                     LRecv 1 sUtil; LFreeze 1 1; LDup 1 1; LGo 1 KConnect [] [1]; LWr 1 1] 0 = Some 10.
Proof. vm_compute. reflexivity. Qed.

(* before c8aacc8: grpcSpanBatchSender.connect stored s.stream (object 14) and started a receive
   goroutine that read the field on every iteration; after an error the worker calls connect again
   on the same sender while the previous receive goroutine is still looping *)
Definition fixed_c8aacc8_stream_trace : trace := [
  EWr 8 14; EGo 8 9; ERd 9 14;       (* connect #1: s.stream = stream; go func(){ s.stream.Recv() ... } *)
  EAcq 8 21;                         (* worker: status := <-to.responseError *)
  EWr 8 14;                          (* connect #2: s.stream = stream *)
  ERd 9 14 ].                        (* old receive goroutine: s.stream.Recv() *)
Example fixed_c8aacc8_stream_racy : race_free fixed_c8aacc8_stream_trace = false /\ first_race rinit 0 fixed_c8aacc8_stream_trace = Some 4.
Proof. vm_compute. split; reflexivity. Qed.

(* after the fixes the same interleavings are race free: the worker no longer reads the counter, the
   receive goroutine no longer reads the field, OverrideDockerId writes a fresh struct (object 4) *)
Example after_fixes_ok :
  race_free [EWr 1 12; EGo 1 8; ERel 1 17; EWr 1 12; EAcq 8 17] = true /\
  race_free [EWr 8 14; EGo 8 9; EAcq 8 21; EWr 8 14] = true /\
  race_free [EGo 1 5; EWr 5 3; ERel 5 sUtil; EAcq 1 sUtil; ERd 1 3; EGo 1 6; ERd 1 3; EWr 1 4; ERd 6 3] = true.
Proof. vm_compute. repeat split; reflexivity. Qed.

(* a harvest goroutine reading a container that is still attached (not detached) is refused *)
Example attached_container_not_protocol :
  pexec_stuck pinit [LNew 0; LGo 0 KProc [0] []; LNew 1; LGo 1 KHarvest [] []; LWr 1 1; LRd 2 1] 0 = Some 5.
Proof. vm_compute. reflexivity. Qed.
(* sharing one metric table between two harvest goroutines is refused: the second go cannot move it *)
Example shared_table_not_protocol :
  pexec_stuck pinit [LNew 0; LGo 0 KProc [0] []; LNew 1; LGo 1 KPayload [1] []; LGo 1 KPayload [1] []] 0 = Some 4.
Proof. vm_compute. reflexivity. Qed.
(* two goroutines cannot both hold the logger: the buffer is wherever the mutex token is *)
Example log_mutex_excludes :
  pexec_stuck pinit [LNew 0; LSend 0 sLogMu [0] []; LGo 0 KProc [] []; LRecv 0 sLogMu; LRecv 1 sLogMu] 0 = Some 4.
Proof. vm_compute. reflexivity. Qed.

(* ---- the discipline check: what it reports is exactly what fails *)
Lemma violations_nil_iff rn fnm l : violations rn fnm l = [] <-> table_ok rn fnm l = true.
Proof.
  unfold violations, table_ok. split.
  - intros H. apply forallb_forall. intros a Ha.
    destruct (access_ok rn fnm l a) eqn:E; [reflexivity|].
    assert (Hin : In a (filter (fun a => negb (access_ok rn fnm l a)) l)).
    { apply filter_In. split; [exact Ha|]. now rewrite E. }
    destruct (filter (fun a => negb (access_ok rn fnm l a)) l); [contradiction | discriminate].
  - intros H. rewrite forallb_forall in H.
    assert (Hf : filter (fun a => negb (access_ok rn fnm l a)) l = []).
    { destruct (filter (fun a => negb (access_ok rn fnm l a)) l) as [|x r] eqn:E; [reflexivity|].
      assert (Hin : In x (filter (fun a => negb (access_ok rn fnm l a)) l)) by (rewrite E; now left).
      apply filter_In in Hin. destruct Hin as [Hx Hn]. rewrite (H x Hx) in Hn. discriminate. }
    now rewrite Hf.
Qed.

(* the check is not vacuous: a cross-goroutine write of a Processor channel field is reported
   with the field and both roles; reads of it are not *)
Example table_catches_cleanexit_store :
  let rn := [rExit; rConn]%string in
  let fnm := ["newrelic.Processor.txnDataChannel"]%string in
  violations rn fnm [(0, 0, true); (1, 0, false)] = [(0, 0, 1)] /\
  violations rn fnm [(0, 0, false); (1, 0, false)] = [].
Proof. vm_compute. split; reflexivity. Qed.
(* an unlisted field is fine while one role uses it and reported once another role conflicts *)
Example table_unlisted :
  let rn := [rRun; rPayload]%string in
  let fnm := ["newrelic.Brandnew.field"]%string in
  violations rn fnm [(0, 0, true); (0, 0, false)] = [] /\
  violations rn fnm [(0, 0, true); (1, 0, false)] = [(0, 0, 1); (1, 0, 0)].
Proof. vm_compute. split; reflexivity. Qed.
Example table_atomic_only :
  violations [rMain]%string ["log.daemonLevel"]%string [(0, 0, false)] = [(0, 0, 0)].
Proof. vm_compute. reflexivity. Qed.
