(* ProtoDecodeProofs.v -- C10: containment of malformed agent messages in the model of ProtoDecode.v.

   msg_never_crashes     every byte string, as a message: connection part Ok/Err/recovered panic, the
                         processor keeps running
   crash_iff             the only step that reaches Crashed: the connect of an application whose App message
                         carried a trace observer host and a span queue size the machine cannot allocate
   others_untouched      frame: other runs, the set of runs, the applications
   dropped_changes_nothing, service_continues   state after a dropped message *)
From Coq Require Import NArith ZArith String List Bool Lia.
From Verif Require Import SchemaTypes Flatbuf2 ProtoDecode.
Import ListNotations.
Open Scope N_scope.

Lemma bytes_eqb_eq : forall a b, bytes_eqb a b = true <-> a = b.
Proof. intros a b. unfold bytes_eqb. destruct (list_eq_dec N.eq_dec a b); split; congruence. Qed.

Lemma bytes_eqb_refl : forall a, bytes_eqb a a = true.
Proof. intros. apply bytes_eqb_eq. reflexivity. Qed.

Lemma bytes_eqb_neq : forall a b, bytes_eqb a b = false <-> a <> b.
Proof. intros a b. unfold bytes_eqb. destruct (list_eq_dec N.eq_dec a b); split; congruence. Qed.

(* ---- run table *)
Lemma find_add_same : forall id cs hs h, find_run id hs = Some h ->
  find_run id (add_to_run id cs hs) = Some (h ++ cs)%list.
Proof.
  intros id cs hs. induction hs as [|[k h0] r IH]; cbn [find_run add_to_run]; intros h H; [discriminate|].
  destruct (bytes_eqb id k) eqn:E; cbn [find_run]; rewrite E.
  - inversion H. reflexivity.
  - apply IH. exact H.
Qed.

Lemma find_add_other : forall id rid cs hs, rid <> id ->
  find_run rid (add_to_run id cs hs) = find_run rid hs.
Proof.
  intros id rid cs hs Hne. induction hs as [|[k h0] r IH]; cbn [find_run add_to_run]; [reflexivity|].
  destruct (bytes_eqb id k) eqn:E; cbn [find_run].
  - apply bytes_eqb_eq in E. subst k.
    destruct (bytes_eqb rid id) eqn:E2; [apply bytes_eqb_eq in E2; contradiction|reflexivity].
  - destruct (bytes_eqb rid k); [reflexivity|exact IH].
Qed.

Lemma keys_add : forall id cs hs, map fst (add_to_run id cs hs) = map fst hs.
Proof.
  intros id cs hs. induction hs as [|[k h0] r IH]; cbn [add_to_run map fst]; [reflexivity|].
  destruct (bytes_eqb id k); cbn [map fst]; [reflexivity|rewrite IH; reflexivity].
Qed.

Section P.
  Variable budget : N.     (* the largest span queue the machine can allocate *)

  (* ---- 1. no byte string, delivered as a message, stops the processor *)
  Theorem msg_never_crashes : forall st bs,
    exists st' o, step budget st (EvMsg bs) = Running st' o.
  Proof.
    intros st bs. unfold step.
    destruct (process_binary bs) as [[| |[id|id info|id c b]]|]; try (eexists; eexists; reflexivity).
    - destruct (find_run id (ps_harvests st)); eexists; eexists; reflexivity.
    - destruct (match id with Some i => match find_run i (ps_harvests st) with Some _ => true | None => false end
                              | None => false end); [eexists; eexists; reflexivity|].
      destruct (existsb (key_eqb info) (ps_apps st)); [eexists; eexists; reflexivity|].
      destruct (app_limit <=? lenN (map ai_to_port (ps_apps st))); eexists; eexists; reflexivity.
  Qed.

  (* the connection goroutine's part: one of the four outcomes; a panic there is OutPanic (recovered) *)
  Theorem conn_outcome_classes : forall st bs st' o, step budget st (EvMsg bs) = Running st' o ->
    (process_binary bs = None <-> o = OutPanic) /\
    (process_binary bs = Some ConnErr <-> o = OutErr).
  Proof.
    intros st bs st' o H. unfold step in H.
    destruct (process_binary bs) as [[| |[id|id info|id c b]]|].
    - inversion H; subst; split; split; intros; congruence.
    - inversion H; subst; split; split; intros; congruence.
    - destruct (find_run id (ps_harvests st)); inversion H; subst; split; split; intros; congruence.
    - destruct (match id with Some i => match find_run i (ps_harvests st) with Some _ => true | None => false end
                              | None => false end); [inversion H; subst; split; split; intros; congruence|].
      destruct (existsb (key_eqb info) (ps_apps st)); [inversion H; subst; split; split; intros; congruence|].
      destruct (app_limit <=? lenN (map ai_to_port (ps_apps st))); inversion H; subst; split; split; intros; congruence.
    - inversion H; subst; split; split; intros; congruence.
    - inversion H; subst; split; split; intros; congruence.
  Qed.

  (* ---- 2. the one way to crash *)
  Theorem crash_iff : forall st ev,
    step budget st ev = Crashed <->
    exists k rid info, ev = EvConnected k rid /\ nth_error (ps_apps st) k = Some info /\
                       lenN (ai_to_host info) <> 0 /\ budget < ai_queue_size info.
  Proof.
    intros st ev. split.
    - destruct ev as [bs|k rid].
      + intros H. destruct (msg_never_crashes st bs) as [st' [o Hr]]. rewrite Hr in H. discriminate.
      + cbn [step]. destruct (nth_error (ps_apps st) k) as [info|] eqn:En; [|discriminate].
        destruct (negb (lenN (ai_to_host info) =? 0) && negb (ai_queue_size info <=? budget)) eqn:Ec; [|discriminate].
        intros _. apply andb_true_iff in Ec. destruct Ec as [E1 E2].
        apply negb_true_iff in E1. apply negb_true_iff in E2.
        apply N.eqb_neq in E1. apply N.leb_gt in E2.
        exists k, rid, info. repeat split; assumption.
    - intros [k [rid [info [-> [En [Hh Hq]]]]]]. cbn [step]. rewrite En.
      apply N.eqb_neq in Hh. apply N.leb_gt in Hq. rewrite Hh, Hq. reflexivity.
  Qed.

  Definition queue_ok (info : appinfo) : Prop := lenN (ai_to_host info) = 0 \/ ai_queue_size info <= budget.

  Lemma apps_step : forall st ev st' o, step budget st ev = Running st' o ->
    ps_apps st' = ps_apps st \/
    exists bs id info, ev = EvMsg bs /\ process_binary bs = Some (ConnAct (ActApp id info)) /\
                       ps_apps st' = (ps_apps st ++ [info])%list.
  Proof.
    intros st ev st' o H. destruct ev as [bs|k rid]; cbn [step] in H.
    - destruct (process_binary bs) as [[| |[id|id info|id c b]]|] eqn:Ep; try (inversion H; subst; left; reflexivity).
      + destruct (find_run id (ps_harvests st)); inversion H; subst; left; reflexivity.
      + destruct (match id with Some i => match find_run i (ps_harvests st) with Some _ => true | None => false end
                                | None => false end); [inversion H; subst; left; reflexivity|].
        destruct (existsb (key_eqb info) (ps_apps st)); [inversion H; subst; left; reflexivity|].
        destruct (app_limit <=? lenN (map ai_to_port (ps_apps st))); inversion H; subst; [left; reflexivity|].
        right. exists bs, id, info. split; [reflexivity|split; [exact Ep|reflexivity]].
    - destruct (nth_error (ps_apps st) k) as [info|]; [|inversion H; subst; left; reflexivity].
      destruct (negb (lenN (ai_to_host info) =? 0) && negb (ai_queue_size info <=? budget)); [discriminate|].
      inversion H; subst. left. reflexivity.
  Qed.

  (* under the guard that excludes exactly the finding -- every application announced with a trace observer
     host has a span queue size the machine can allocate -- no sequence of events stops the processor *)
  Definition msg_queue_ok (ev : event) : Prop :=
    match ev with
    | EvMsg bs => match process_binary bs with
                  | Some (ConnAct (ActApp _ info)) => queue_ok info
                  | _ => True end
    | EvConnected _ _ => True
    end.

  Theorem no_crash_partial : forall evs st,
    Forall queue_ok (ps_apps st) -> Forall msg_queue_ok evs ->
    exists st', run budget st evs = Some st'.
  Proof.
    induction evs as [|ev r IH]; intros st Hst Hev; cbn [run]; [eexists; reflexivity|].
    inversion Hev as [|x l Hok Hr]. subst x l.
    destruct (step budget st ev) as [st' o|] eqn:Es.
    - apply IH; [|exact Hr].
      destruct (apps_step st ev st' o Es) as [E|[bs [id [info [-> [Ep E]]]]]]; rewrite E; [exact Hst|].
      apply Forall_app. split; [exact Hst|]. constructor; [|constructor].
      cbn [msg_queue_ok] in Hok. rewrite Ep in Hok. exact Hok.
    - exfalso. apply crash_iff in Es. destruct Es as [k [rid [info [-> [En [Hh Hq]]]]]].
      rewrite Forall_forall in Hst. specialize (Hst info (nth_error_In _ _ En)).
      destruct Hst as [H0|Hle]; [contradiction|lia].
  Qed.

  (* ---- 3. frame *)
  Definition addressed (bs : bytes) : option bytes :=
    match process_binary bs with Some (ConnAct (ActTxn id)) => Some id | _ => None end.

  Theorem others_untouched : forall st bs st' o, step budget st (EvMsg bs) = Running st' o ->
    (forall rid, addressed bs <> Some rid -> find_run rid (ps_harvests st') = find_run rid (ps_harvests st)) /\
    (forall rid h, addressed bs = Some rid -> find_run rid (ps_harvests st) = Some h ->
        find_run rid (ps_harvests st') = Some (h ++ snd (decode_txn bs))%list) /\
    map fst (ps_harvests st') = map fst (ps_harvests st) /\
    (ps_apps st' = ps_apps st \/ exists info, ps_apps st' = (ps_apps st ++ [info])%list).
  Proof.
    intros st bs st' o H. unfold addressed. cbn [step] in H.
    destruct (process_binary bs) as [[| |[id|id info|id c b]]|] eqn:Ep;
      try (inversion H; subst; repeat split; try (intros; congruence); left; reflexivity).
    - destruct (find_run id (ps_harvests st)) as [h0|] eqn:Ef; inversion H; subst; cbn [ps_harvests ps_apps].
      + repeat split.
        * intros rid Hne. apply find_add_other. intros E. apply Hne. subst. reflexivity.
        * intros rid h E Hf. inversion E. subst rid. apply find_add_same. exact Hf.
        * apply keys_add.
        * left. reflexivity.
      + repeat split; try (intros; congruence). left. reflexivity.
    - destruct (match id with Some i => match find_run i (ps_harvests st) with Some _ => true | None => false end
                              | None => false end);
        [inversion H; subst; repeat split; try (intros; congruence); left; reflexivity|].
      destruct (existsb (key_eqb info) (ps_apps st));
        [inversion H; subst; repeat split; try (intros; congruence); left; reflexivity|].
      destruct (app_limit <=? lenN (map ai_to_port (ps_apps st))); inversion H; subst; cbn [ps_harvests ps_apps];
        repeat split; try (intros; congruence); [left; reflexivity|right; eexists; reflexivity].
  Qed.

  (* ---- 4. a dropped message leaves no trace but its own partial contribution *)
  Theorem dropped_changes_nothing : forall st bs st' o, step budget st (EvMsg bs) = Running st' o ->
    (o = OutPanic \/ o = OutErr -> st' = st) /\
    (addressed bs = None -> ps_harvests st' = ps_harvests st).
  Proof.
    intros st bs st' o H. unfold addressed. cbn [step] in H.
    destruct (process_binary bs) as [[| |[id|id info|id c b]]|] eqn:Ep;
      try (inversion H; subst; split; [intros [E|E]; try discriminate; reflexivity|intros _; reflexivity]).
    - destruct (find_run id (ps_harvests st)); inversion H; subst; split; try (intros [E|E]; discriminate); intros E; discriminate.
    - destruct (match id with Some i => match find_run i (ps_harvests st) with Some _ => true | None => false end
                              | None => false end);
        [inversion H; subst; split; [intros [E|E]; discriminate|intros _; reflexivity]|].
      destruct (existsb (key_eqb info) (ps_apps st));
        [inversion H; subst; split; [intros [E|E]; discriminate|intros _; reflexivity]|].
      destruct (app_limit <=? lenN (map ai_to_port (ps_apps st))); inversion H; subst;
        (split; [intros [E|E]; discriminate|intros _; reflexivity]).
  Qed.

  (* st' is st with something inserted into the harvest of run r (and nothing else different) *)
  Definition entry_rel (r : bytes) (p p' : bytes * list contrib) : Prop :=
    fst p' = fst p /\ (fst p <> r -> snd p' = snd p) /\
    exists a x b, snd p = (a ++ b)%list /\ snd p' = (a ++ x ++ b)%list.
  Definition same_but (r : bytes) (st st' : pstate) : Prop :=
    ps_apps st' = ps_apps st /\ Forall2 (entry_rel r) (ps_harvests st) (ps_harvests st').

  Lemma entry_rel_refl : forall r p, entry_rel r p p.
  Proof. intros r p. repeat split. exists (snd p), [], []. rewrite !app_nil_r. split; reflexivity. Qed.

  Lemma same_but_refl : forall r st, same_but r st st.
  Proof.
    intros r st. split; [reflexivity|]. induction (ps_harvests st); constructor; [apply entry_rel_refl|assumption].
  Qed.

  Lemma rel_find : forall r id hs hs', Forall2 (entry_rel r) hs hs' ->
    match find_run id hs, find_run id hs' with
    | Some h, Some h' => (id <> r -> h' = h) /\ exists a x b, h = (a ++ b)%list /\ h' = (a ++ x ++ b)%list
    | None, None => True
    | _, _ => False
    end.
  Proof.
    intros r id hs hs' H. induction H as [|[k h] [k' h'] l l' Hp Hl IH]; cbn [find_run]; [exact I|].
    destruct Hp as [Hk [Hne Hex]]. cbn [fst snd] in *. subst k'.
    destruct (bytes_eqb id k) eqn:E; [|exact IH].
    apply bytes_eqb_eq in E. subst k. split; [exact Hne|exact Hex].
  Qed.

  Lemma rel_add : forall r id cs hs hs', Forall2 (entry_rel r) hs hs' ->
    Forall2 (entry_rel r) (add_to_run id cs hs) (add_to_run id cs hs').
  Proof.
    intros r id cs hs hs' H. induction H as [|[k h] [k' h'] l l' Hp Hl IH]; cbn [add_to_run]; [constructor|].
    destruct Hp as [Hk [Hne [a [x [b [Ha Hb]]]]]]. cbn [fst snd] in *. subst k'.
    destruct (bytes_eqb id k) eqn:E.
    - constructor; [|exact Hl]. repeat split; cbn [fst snd].
      + intros Hn. rewrite (Hne Hn). reflexivity.
      + exists a, x, (b ++ cs)%list. subst h h'. rewrite !app_assoc. split; reflexivity.
    - constructor; [|exact IH]. repeat split; cbn [fst snd]; [exact Hne|].
      exists a, x, b. split; assumption.
  Qed.

  Lemma rel_set : forall r rid hs hs', Forall2 (entry_rel r) hs hs' ->
    Forall2 (entry_rel r) (set_run rid hs) (set_run rid hs').
  Proof.
    intros r rid hs hs' H. induction H as [|[k h] [k' h'] l l' Hp Hl IH]; cbn [set_run].
    - constructor; [apply entry_rel_refl|constructor].
    - destruct Hp as [Hk [Hne Hex]]. cbn [fst snd] in *. subst k'.
      destruct (bytes_eqb rid k); constructor; try assumption.
      + apply entry_rel_refl.
      + repeat split; assumption.
  Qed.

  (* After a hostile message the processor answers all later traffic exactly as if the message had never
     arrived, and the two states keep differing only by that message's own contribution to its run. *)
  Theorem service_continues : forall r st st', same_but r st st' -> forall ev,
    match step budget st ev, step budget st' ev with
    | Running s1 o1, Running s2 o2 => o1 = o2 /\ same_but r s1 s2
    | Crashed, Crashed => True
    | _, _ => False
    end.
  Proof.
    intros r st st' [Ha Hh] ev. destruct ev as [bs|k rid]; cbn [step].
    - destruct (process_binary bs) as [[| |[id|id info|id c b]]|];
        try (split; [reflexivity|split; assumption]).
      + pose proof (rel_find r id _ _ Hh) as Hf.
        destruct (find_run id (ps_harvests st)), (find_run id (ps_harvests st')); try contradiction.
        * split; [reflexivity|]. split; cbn [ps_apps ps_harvests]; [exact Ha|apply rel_add; exact Hh].
        * split; [reflexivity|split; assumption].
      + assert (Hv : match id with Some i => match find_run i (ps_harvests st') with Some _ => true | None => false end
                                | None => false end =
                     match id with Some i => match find_run i (ps_harvests st) with Some _ => true | None => false end
                                | None => false end).
        { destruct id as [i|]; [|reflexivity]. pose proof (rel_find r i _ _ Hh) as Hf.
          destruct (find_run i (ps_harvests st)), (find_run i (ps_harvests st')); try contradiction; reflexivity. }
        rewrite Hv, Ha.
        destruct (match id with Some i => match find_run i (ps_harvests st) with Some _ => true | None => false end
                                | None => false end); [split; [reflexivity|split; assumption]|].
        destruct (existsb (key_eqb info) (ps_apps st)); [split; [reflexivity|split; assumption]|].
        destruct (app_limit <=? lenN (map ai_to_port (ps_apps st))); split; try reflexivity; split; cbn [ps_apps ps_harvests];
          try assumption; try reflexivity.
    - rewrite Ha. destruct (nth_error (ps_apps st) k) as [info|]; [|split; [reflexivity|split; assumption]].
      destruct (negb (lenN (ai_to_host info) =? 0) && negb (ai_queue_size info <=? budget)); [exact I|].
      split; [reflexivity|]. split; cbn [ps_apps ps_harvests]; [reflexivity|apply rel_set; exact Hh].
  Qed.

  (* the state after a transaction message (well-formed or cut short by a panic) is the state before it plus
     that message's contribution to the addressed run *)
  Theorem after_txn_same_but : forall st bs st' o r, step budget st (EvMsg bs) = Running st' o ->
    addressed bs = Some r -> same_but r st st'.
  Proof.
    intros st bs st' o r H Hadd. unfold addressed in Hadd. cbn [step] in H.
    destruct (process_binary bs) as [[| |[id|id info|id c b]]|]; try discriminate.
    inversion Hadd. subst id.
    destruct (find_run r (ps_harvests st)); inversion H; subst; [|apply same_but_refl].
    split; [reflexivity|]. cbn [ps_harvests]. generalize (snd (decode_txn bs)). intros cs. clear H Hadd.
    induction (ps_harvests st) as [|[k h] tl IH]; cbn [add_to_run]; [constructor|].
    destruct (bytes_eqb r k) eqn:E.
    - constructor.
      + repeat split; cbn [fst snd]. { intros Hn. apply bytes_eqb_eq in E. congruence. }
        exists h, cs, []. rewrite !app_nil_r. split; reflexivity.
      + clear. induction tl; constructor; [apply entry_rel_refl|assumption].
    - constructor; [apply entry_rel_refl|exact IH].
  Qed.
End P.

(* ---- hostile values *)
Lemma agent_limit_range : forall v m, (0 <= m)%Z -> (0 <= agent_limit v m <= m)%Z.
Proof.
  intros v m Hm. unfold agent_limit. destruct ((to_int64 v <? m)%Z && (0 <=? to_int64 v)%Z) eqn:E; [|lia].
  apply andb_true_iff in E. destruct E as [E1 E2]. apply Z.ltb_lt in E1. apply Z.leb_le in E2. lia.
Qed.

Lemma final_log_limit_range : forall v c, (0 <= c)%Z -> (0 <= final_log_limit v c <= c)%Z.
Proof.
  intros v c Hc. unfold final_log_limit. destruct ((0 <=? to_int64 v)%Z && (to_int64 v <? c)%Z) eqn:E; [|lia].
  apply andb_true_iff in E. destruct E as [E1 E2]. apply Z.ltb_lt in E2. apply Z.leb_le in E1. lia.
Qed.
