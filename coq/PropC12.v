(* C12 -- harvest cadence follows the negotiated periods and stops cleanly.  Statements only. *)
From Coq Require Import NArith ZArith List Bool.
From Verif Require Import Trigger TriggerProofs TriggerLts TriggerLtsProofs TriggerThms TriggerEnumN.
From Verif.Gen Require Import Limits_gen HarvestBits_gen.
Import ListNotations.

(* Plan: for every reply whose limits are not negative (it parses) and whose periods are below 2^63 ns:
   one ticker (HarvestAll, 60 s) exactly when the code's condition holds -- all five category periods equal the
   report period and that is 60 s -- which on the reply means: event_harvest_config present with report period
   60 s (absent / 0 / 60000 ms) and span_event_harvest_config present with span period 60 s; otherwise
   DefaultData @ 60 s and Txn / Custom / Error / Span / Log each at its assigned period (absent or zero = 60 s). *)
Theorem C12_plan : forall r plan,
  reply_in_range r = true -> trigger_plan r = Some plan ->
  exists h, parse_reply r = Some h /\
  (plan = [(HarvestAll, S60)] <-> all_periods_equal_report h /\ report_period h = S60) /\
  (plan = [(HarvestAll, S60)] <->
     exists e s, r_ehc r = Some e /\ r_sehc r = Some s /\ spec_ms (e_ms e) = S60 /\ spec_period r CatSpan = S60) /\
  (plan = [(HarvestAll, S60)] \/
   plan = [ (HarvestDefaultData, S60); (HarvestTxnEvents, spec_period r CatTxn);
            (HarvestCustomEvents, spec_period r CatCustom); (HarvestErrorEvents, spec_period r CatError);
            (HarvestSpanEvents, spec_period r CatSpan); (HarvestLogEvents, spec_period r CatLog) ]).
Proof. exact plan_theorem. Qed.
Print Assumptions C12_plan.

(* Cadence: each of the ten data-category bits is covered by exactly one plan entry, whose period is the
   one the collector assigned to that category. *)
Theorem C12_cadence : forall r plan,
  reply_in_range r = true -> trigger_plan r = Some plan ->
  forall b, In b all_bits -> covering plan b = [spec_period r (bit_category b)].
Proof. exact cadence_theorem. Qed.
Print Assumptions C12_cadence.

(* In the model of harvestByType's guards (containers created with the limit as capacity, Empty() containers
   skipped): for every sequence of additions and harvests with ANY type mask, a category whose limit is 0 is
   never emitted. *)
Theorem C12_zero_limit_never_sent : forall (l : ecat -> N) ops c,
  l c = 0%N -> ~ In (EmEvents c) (fst (hrun l ops)).
Proof. exact zero_limit_never_sent. Qed.
Print Assumptions C12_zero_limit_never_sent.

(* The executable twins of the goroutine LTS are the relation. *)
Theorem C12_lts_twins : forall c s l s',
  (In (l, s') (tenabled c s) <-> tstep c s l s') /\ (tstep_fn c s l = Some s' <-> tstep c s l s').
Proof. exact tlts_twins. Qed.
Print Assumptions C12_lts_twins.

(* n in {1, 6}: every reachable state that is not final has an enabled transition, and once Close has started
   one that is neither a tick nor new work for the processor (a busy processor returning to its select counts:
   the processor is eventually receptive). *)
Theorem C12_no_deadlock : forall c, c = cfg1 \/ c = cfg6 -> forall s, treach c s -> is_final s = false ->
  (exists l s', tstep c s l s') /\
  (close_started s = true -> exists l s', tstep c s l s' /\ is_env l = false).
Proof. exact no_deadlock. Qed.
Print Assumptions C12_no_deadlock.

Theorem C12_close_terminates : forall c, c = cfg1 \/ c = cfg6 -> forall s, treach c s ->
  (crashed s = false /\ forall l s', tstep c s l s' -> is_send_on_closed l = false /\ crashed s' = false) /\
  (close_started s = true ->
     (forall l s', tstep c s l s' -> is_env l = false -> (rank c s' < rank c s)%N) /\
     (forall tr s', psteps c s tr s' -> (N.of_nat (length tr) + rank c s' <= rank c s)%N) /\
     (exists tr s', psteps c s tr s' /\ is_final s' = true /\
        trig_closed s' = true /\ cancel_closed s' = true /\ crashed s' = false /\ goroutines_gone s' = true)).
Proof. exact close_terminates. Qed.
Print Assumptions C12_close_terminates.

(* `go Close()`: the processor is never inside the hand-shake, and shutdownAppHarvest is enabled in every
   reachable state in which Close was not called, whatever the triggers / forwarder are doing. *)
Theorem C12_processor_never_waits : forall c, c = cfg1 \/ c = cfg6 -> forall s, treach c s ->
  ps s <> PW /\ (close_started s = false -> exists s', tstep c s StartClose s' /\ ps s' = ps s).
Proof. exact processor_never_waits. Qed.
Print Assumptions C12_processor_never_waits.

(* ... whereas with a synchronous Close the processor can be stuck for ever (only ticks remain enabled). *)
Theorem C12_sync_close_can_block : forall c, c = cfg1 \/ c = cfg6 ->
  exists s, treach (sync_of c) s /\ ps s = PW /\ is_final s = false /\
            forall l s', tstep (sync_of c) s l s' -> is_env l = true.
Proof. exact sync_close_can_block. Qed.
Print Assumptions C12_sync_close_can_block.

(* The plan monitor used on implementation runs asks nothing beyond the theorems. *)
Theorem C12_plan_monitor_sound : forall r plan,
  reply_in_range r = true -> trigger_plan r = Some plan -> plan_monitor r plan = true.
Proof. exact plan_monitor_sound. Qed.
Print Assumptions C12_plan_monitor_sound.

(* The cancel hand-shake of the broadcast group for EVERY group size up to six (cfgG 6 is the configuration of
   customTriggerBuilder): no deadlock, progress towards the end once Close was called ... *)
Theorem C12_group_no_deadlock : forall n, (n <= 6)%nat -> forall s, treach (cfgG n) s -> is_final s = false ->
  (exists l s', tstep (cfgG n) s l s') /\
  (close_started s = true -> exists l s', tstep (cfgG n) s l s' /\ is_env l = false).
Proof. exact group_no_deadlock. Qed.
Print Assumptions C12_group_no_deadlock.

(* ... no send on a closed channel and no second close, every internal step lowers the rank, and the closing
   phase can always be completed with every goroutine gone and both channels closed once ... *)
Theorem C12_group_close_terminates : forall n, (n <= 6)%nat -> forall s, treach (cfgG n) s ->
  (crashed s = false /\ forall l s', tstep (cfgG n) s l s' -> is_send_on_closed l = false /\ crashed s' = false) /\
  (close_started s = true ->
     (forall l s', tstep (cfgG n) s l s' -> is_env l = false -> (rank (cfgG n) s' < rank (cfgG n) s)%N) /\
     (exists tr s', psteps (cfgG n) s tr s' /\ is_final s' = true /\
        trig_closed s' = true /\ cancel_closed s' = true /\ crashed s' = false /\ goroutines_gone s' = true)).
Proof. exact group_close_terminates. Qed.
Print Assumptions C12_group_close_terminates.

(* ... and the processor never waits inside it. *)
Theorem C12_group_processor_never_waits : forall n, (n <= 6)%nat -> forall s, treach (cfgG n) s ->
  ps s <> PW /\ (close_started s = false -> exists s', tstep (cfgG n) s StartClose s' /\ ps s' = ps s).
Proof. exact group_processor_never_waits. Qed.
Print Assumptions C12_group_processor_never_waits.
