(* TraceObsProofs.v -- proofs about the TraceObserver LTS of TraceObs.v (property C16). *)
From Coq Require Import NArith ZArith List Bool Arith Lia ZifyBool ZifyNat ZifyN.
From Verif Require Import TraceObs.
Local Ltac Zify.zify_post_hook ::= Z.div_mod_to_equations.
Import ListNotations.
Open Scope N_scope.

(* ------------------------------------------------------------------ tactics *)
Ltac unf :=
  unfold e_call, e_chkinit, e_chkcomplete, e_close, e_closedrain1, e_drainsent, e_draindone, e_emptyrecv,
    e_emptydone, e_suppdump, e_recheck, e_suppdrop, e_send, e_dec, e_shutdown, e_connect, e_recv,
    e_recvclosed, e_report, e_status, ret_cont, after_err in *.
Ltac simp :=
  cbn [rem msgs closed sent init_sd complete app_sd supp_alive prod work wrapped zero_seen big_seen taken
       closed_early g_off g_sent g_fail g_dump g_ref g_left
       set_rem set_msgs set_closed set_sent set_init_sd set_complete set_app_sd set_supp_alive set_prod
       set_work set_wrapped set_zero_seen set_big_seen set_taken set_closed_early set_g_off set_g_sent
       set_g_fail set_g_dump set_g_ref set_g_left] in *.
(* split on every `if`/`match` scrutinee that is a variable-free-standing term of the goal *)
Ltac split_ifs :=
  repeat match goal with
         | |- context [if ?b then _ else _] => destruct b eqn:?
         | |- context [match ?k with KRefuse _ => _ | KShutdown => _ end] => destruct k
         | |- context [match ?r with ROk => _ | RFail _ _ => _ end] => destruct r
         | |- context [match ?x with SOk => _ | SShutdown => _ | SRestart => _ | SReconnect => _ | SImmediate => _ end] =>
             destruct x
         end.

(* ------------------------------------------------------------------ list sums *)
Lemma qsum_app l x : qsum (l ++ [x]) = qsum l + x.
Proof. unfold qsum. induction l as [|a l IH]; cbn [app fold_right] in *; [lia|]. rewrite IH. lia. Qed.

Lemma qsum_cons a l : qsum (a :: l) = a + qsum l.
Proof. reflexivity. Qed.

Lemma lenN_app l x : lenN (l ++ [x]) = lenN l + 1.
Proof. unfold lenN. rewrite app_length. cbn [length]. lia. Qed.

Lemma lenN_cons (a : N) l : lenN (a :: l) = lenN l + 1.
Proof. unfold lenN. cbn [length]. lia. Qed.

Lemma lenN_le_qsum l : Forall (fun x => 1 <= x) l -> lenN l <= qsum l.
Proof.
  induction 1 as [|a l Ha _ IH]; [unfold lenN; cbn; lia|].
  rewrite lenN_cons, qsum_cons. lia.
Qed.

(* ------------------------------------------------------------------ the relation and its twins *)
Lemma step_fn_sound c s l s' : step_fn c s l = Some s' -> lstep c s l s'.
Proof.
  intros H. destruct l; cbn [step_fn] in H;
    repeat match type of H with
           | context [match prod s with _ => _ end] => destruct (prod s) eqn:?
           | context [match work s with _ => _ end] => destruct (work s) eqn:?
           | context [match msgs s with _ => _ end] => destruct (msgs s) eqn:?
           | context [match sent s with _ => _ end] => destruct (sent s) eqn:?
           | context [match ?k with O => _ | S _ => _ end] => destruct k
           | context [if ?b then _ else _] => destruct b eqn:?
           end; try discriminate; inversion H; subst; clear H;
    try (econstructor; eauto; fail);
    try (econstructor; eauto; apply N.ltb_lt; assumption).
Qed.

Lemma step_fn_complete c s l s' : lstep c s l s' -> step_fn c s l = Some s'.
Proof.
  intros H. destruct H; cbn [step_fn];
    repeat match goal with
           | H : _ = _ |- _ => rewrite H
           end; try reflexivity;
    try (match goal with H : _ < _ |- _ => apply N.ltb_lt in H; rewrite H end; reflexivity).
Qed.

Lemma step_fn_iff c s l s' : step_fn c s l = Some s' <-> lstep c s l s'.
Proof. split; [apply step_fn_sound|apply step_fn_complete]. Qed.

Lemma lstep_det c s l s1 s2 : lstep c s l s1 -> lstep c s l s2 -> s1 = s2.
Proof. intros H1 H2. apply step_fn_complete in H1, H2. congruence. Qed.

Lemma label_in_labels_over counts l : label_over counts l -> In l (labels_over counts).
Proof.
  unfold labels_over. intros H. destruct l; cbn [label_over] in H;
    try (apply in_or_app; right; apply in_or_app; left; cbn; tauto).
  - apply in_or_app. left. apply in_map. exact H.
  - apply in_or_app; right; apply in_or_app; right. destruct r as [|[] []]; cbn; tauto.
  - apply in_or_app; right; apply in_or_app; right. destruct code, metric; cbn; tauto.
  - apply in_or_app; right; apply in_or_app; right. destruct r as [|[] []]; cbn; tauto.
  - apply in_or_app; right; apply in_or_app; left. destruct ok; cbn; tauto.
Qed.

Lemma labels_over_label counts l : In l (labels_over counts) -> label_over counts l.
Proof.
  unfold labels_over. intros H. destruct l; cbn [label_over]; try exact I.
  apply in_app_or in H. destruct H as [H|H].
  - apply in_map_iff in H. destruct H as [x [E Hx]]. inversion E; subst. exact Hx.
  - exfalso. apply in_app_or in H. destruct H as [H|H].
    + cbn in H. repeat (destruct H as [H|H]; [discriminate H|]). exact H.
    + cbn in H. repeat (destruct H as [H|H]; [discriminate H|]). exact H.
Qed.

Lemma enabled_iff c counts s l s' :
  In (l, s') (enabled c counts s) <-> lstep c s l s' /\ label_over counts l.
Proof.
  unfold enabled. rewrite in_flat_map. split.
  - intros [l0 [Hl0 H]]. destruct (step_fn c s l0) as [s0|] eqn:E; [|destruct H].
    destruct H as [H|[]]. inversion H; subst. split; [apply step_fn_sound; exact E|].
    apply labels_over_label. exact Hl0.
  - intros [H Hl]. exists l. split; [apply label_in_labels_over; exact Hl|].
    rewrite (step_fn_complete _ _ _ _ H). left. reflexivity.
Qed.

(* ------------------------------------------------------------------ traces *)
Lemma steps_cons c s l s1 tr s2 : lstep c s l s1 -> steps c s1 tr s2 -> steps c s (l :: tr) s2.
Proof.
  intros H1 H2. induction H2 as [s1|s1 tr sa l' sb Hs IH Hl].
  - change [l] with ([] ++ [l]). eapply steps_snoc; [apply steps_nil|exact H1].
  - change (l :: tr ++ [l']) with ((l :: tr) ++ [l']). eapply steps_snoc; [apply IH; exact H1|exact Hl].
Qed.

Lemma steps_app c s tr1 s1 tr2 s2 : steps c s tr1 s1 -> steps c s1 tr2 s2 -> steps c s (tr1 ++ tr2) s2.
Proof.
  intros H1 H2. induction H2 as [s1|s1 tr sa l' sb Hs IH Hl].
  - rewrite app_nil_r. exact H1.
  - rewrite app_assoc. eapply steps_snoc; [apply IH; exact H1|exact Hl].
Qed.

Lemma run_trace_steps c s tr s' : run_trace c s tr = Some s' -> steps c s tr s'.
Proof.
  revert s. induction tr as [|l r IH]; intros s H; cbn [run_trace] in H.
  - inversion H; subst. apply steps_nil.
  - destruct (step_fn c s l) as [s1|] eqn:E; [|discriminate].
    eapply steps_cons; [apply step_fn_sound; exact E|apply IH; exact H].
Qed.

Lemma steps_run_trace c s tr s' : steps c s tr s' -> run_trace c s tr = Some s'.
Proof.
  intros H. induction H as [s|s tr s1 l s2 Hs IH Hl]; [reflexivity|].
  clear Hs. revert s IH. induction tr as [|a tr IHtr]; intros s IH; cbn [run_trace app] in *.
  - inversion IH; subst. rewrite (step_fn_complete _ _ _ _ Hl). reflexivity.
  - destruct (step_fn c s a) as [sa|]; [|discriminate]. apply IHtr. exact IH.
Qed.

Lemma reachable_init c : reachable c (init c).
Proof. exists []. apply steps_nil. Qed.

Lemma reachable_step c s l s' : reachable c s -> lstep c s l s' -> reachable c s'.
Proof. intros [tr H] Hl. exists (tr ++ [l]). eapply steps_snoc; eassumption. Qed.

(* invariant principle: the induction hypothesis comes with reachability of the pre-state *)
Lemma reach_ind c (P : state -> Prop) :
  P (init c) ->
  (forall s l s', reachable c s -> P s -> lstep c s l s' -> P s') ->
  forall s, reachable c s -> P s.
Proof.
  intros H0 Hs s [tr H].
  remember (init c) as s0 eqn:E. induction H as [s0|s0 tr s1 l s2 Hst IH Hl]; subst; [exact H0|].
  eapply Hs; [exists tr; exact Hst|apply IH; [reflexivity|exact H0]|exact Hl].
Qed.

(* ------------------------------------------------------------------ structural invariant *)
Definition pcount (p : ppc) : option N :=
  match p with
  | PChkInit n | PChkComplete n | PClose (KRefuse n) | PCloseDrain (KRefuse n) | PDrain n | PEmpty n _
  | PSuppDump n _ | PRecheck n | PSuppDrop n | PSend n | PDec n => Some n
  | _ => None
  end.
Definition in_qb (p : ppc) : bool :=
  match p with
  | PDrain _ | PEmpty _ _ | PSuppDump _ _ | PRecheck _ | PSuppDrop _ | PSend _ | PDec _ => true
  | _ => false
  end.
Definition is_closedrain (p : ppc) : bool := match p with PCloseDrain _ => true | _ => false end.
Definition needs_init (p : ppc) : bool :=
  match p with PChkComplete _ | PClose _ | PCloseDrain _ | PWait => true | _ => false end.
Definition allW (l : list N) : Prop := Forall (fun x => x < W) l.

Definition Sinv (s : state) : Prop :=
  rem s < W /\ allW (msgs s) /\ allW (sent s) /\ hand (work s) < W /\
  (forall n, pcount (prod s) = Some n -> n < W) /\
  (closed s = true -> init_sd s = true) /\
  (in_qb (prod s) = true -> closed s = false) /\
  (closed s = false -> g_left s = 0) /\
  pdrop (prod s) < W /\
  (is_closedrain (prod s) = true -> closed s = true) /\
  (needs_init (prod s) = true -> init_sd s = true).

Lemma W_pos : 0 < W. Proof. reflexivity. Qed.
Lemma wadd_lt a b : wadd a b < W. Proof. unfold wadd. apply N.mod_lt. discriminate. Qed.
Lemma wsub_lt a b : wsub a b < W. Proof. unfold wsub. apply N.mod_lt. discriminate. Qed.

Lemma allW_cons_inv a l : allW (a :: l) -> a < W /\ allW l.
Proof. intros H. inversion H; subst. split; assumption. Qed.
Lemma allW_app l x : allW l -> x < W -> allW (l ++ [x]).
Proof. intros H Hx. apply Forall_app. split; [exact H|constructor; [exact Hx|constructor]]. Qed.

Lemma sinv_init c : wf c -> Sinv (init c).
Proof.
  intros [_ H]. unfold Sinv, init. simp. cbn [hand pcount in_qb pdrop is_closedrain needs_init].
  repeat split; try assumption; try constructor; try discriminate; try reflexivity.
Qed.

Ltac use_eqs :=
  repeat match goal with
         | H : prod _ = _ |- _ => rewrite H in *; clear H
         | H : work _ = _ |- _ => rewrite H in *; clear H
         | H : msgs _ = _ |- _ => rewrite H in *; clear H
         | H : sent _ = _ |- _ => rewrite H in *; clear H
         end.

Lemma sinv_step c s l s' : Sinv s -> lstep c s l s' -> Sinv s'.
Proof.
  intros (S1 & S2 & S2' & S2'' & S3 & S4 & S5 & S6 & S7 & S8 & S9) H.
  destruct H; unfold Sinv; unf; split_ifs; simp; use_eqs;
    cbn [hand pcount in_qb pdrop is_closedrain needs_init wsupp] in *;
    try (apply allW_cons_inv in S2; destruct S2 as [S2a S2]);
    try (apply allW_cons_inv in S2'; destruct S2' as [S2a' S2']);
    split_ifs; simp; cbn [hand pcount in_qb pdrop is_closedrain needs_init wsupp] in *;
    repeat match goal with |- _ /\ _ => split end;
    try assumption; try (intros; discriminate); try apply wadd_lt; try apply wsub_lt;
    try (apply W_pos);
    try (intros ? E; inversion E; subst; first [assumption|apply S3; reflexivity]);
    try (intros; first [apply S4|apply S5|apply S6|apply S8|apply S9]; auto; fail);
    try (apply allW_app; first [assumption|apply S3; reflexivity]).
  all: try (intros; reflexivity).
  all: try (destruct (closed s); intuition congruence).
  all: try (destruct k; [destruct nx|]; cbn [wsupp hand]; apply W_pos).
Qed.

Lemma sinv_reach c s : wf c -> reachable c s -> Sinv s.
Proof.
  intros Hwf. apply reach_ind; [apply sinv_init; exact Hwf|].
  intros s0 l s1 _ Hi Hl. eapply sinv_step; eassumption.
Qed.

(* ------------------------------------------------------------------ C16_counter_inv (mod 2^64) *)
Definition total (s : state) : N :=
  rem s + qsum (msgs s) + hand (work s) + qsum (sent s) + pdrop (prod s) + g_left s.

Definition Cinv (c : cfg) (s : state) : Prop := total s mod W = (qsize c + ppend (prod s)) mod W.

Lemma hand_wsupp k nx : hand (wsupp k nx) = 0.
Proof. destruct k; [destruct nx|]; reflexivity. Qed.

Lemma cinv_step c s l s' : Sinv s -> Cinv c s -> lstep c s l s' -> Cinv c s'.
Proof.
  intros (S1 & S2 & S2' & S2'' & S3 & S4 & S5 & S6 & S7 & S8 & S9) Hc H.
  unfold Cinv, total in *.
  destruct H; unf; split_ifs; simp; use_eqs;
    cbn [hand pdrop ppend pcount] in *; rewrite ?hand_wsupp, ?qsum_app, ?qsum_cons in *;
    try exact Hc;
    try (rewrite <- Hc; f_equal; lia).
  all: try (assert (closed s = false) by (apply S5; reflexivity); congruence).
  all: try (pose proof (S3 _ eq_refl)); unfold wadd, wsub, W in *; lia.
Qed.

Lemma cinv_init c : Cinv c (init c).
Proof. unfold Cinv, total, init. simp. cbn [hand pdrop ppend qsum fold_right]. f_equal. lia. Qed.

Lemma cinv_reach c s : wf c -> reachable c s -> Cinv c s.
Proof.
  intros Hwf Hr. revert s Hr. apply reach_ind; [apply cinv_init|].
  intros s0 l s1 Hr Hi Hl. eapply cinv_step; [apply (sinv_reach c); eassumption|exact Hi|exact Hl].
Qed.

(* ------------------------------------------------------------------ exact counter while it has not wrapped *)
Lemma wadd_small a b : a + b < W -> wadd a b = a + b.
Proof. intros H. unfold wadd. apply N.mod_small. exact H. Qed.
Lemma wsub_small a n : n <= a -> a < W -> wsub a n = a - n.
Proof. intros H1 H2. unfold wsub, W in *. lia. Qed.

Definition Einv (c : cfg) (s : state) : Prop :=
  wrapped s = false -> total s = qsize c + ppend (prod s).

Lemma einv_step c s l s' : wf c -> Sinv s -> Einv c s -> lstep c s l s' -> Einv c s'.
Proof.
  intros [Hq1 Hq2] (S1 & S2 & S2' & S2'' & S3 & S4 & S5 & S6 & S7 & S8 & S9) He H.
  unfold Einv, total in *.
  destruct H; unf; split_ifs; simp; use_eqs;
    cbn [hand pdrop ppend pcount] in *; rewrite ?hand_wsupp, ?qsum_app, ?qsum_cons in *;
    try exact He; intros Hw;
    try (apply orb_false_iff in Hw; destruct Hw as [Hw Hw2]);
    specialize (He Hw);
    try (assert (closed s = false) by (apply S5; reflexivity); congruence);
    try (pose proof (S3 _ eq_refl));
    try (rewrite wadd_small by lia); try (rewrite wsub_small by lia); try lia.
Qed.

Lemma einv_init c : Einv c (init c).
Proof. unfold Einv, total, init. simp. cbn [hand pdrop ppend qsum fold_right]. intros _. lia. Qed.

Lemma einv_reach c s : wf c -> reachable c s -> Einv c s.
Proof.
  intros Hwf Hr. revert s Hr. apply reach_ind; [apply einv_init|].
  intros s0 l s1 Hr Hi Hl.
  eapply einv_step; [exact Hwf|apply (sinv_reach c); eassumption|exact Hi|exact Hl].
Qed.

(* ------------------------------------------------------------------ counts are positive unless a zero batch came *)
Definition handopt (w : wpc) : option N :=
  match w with WSending m | WReport m _ => Some m | _ => None end.
Definition allpos (l : list N) : Prop := Forall (fun x => 1 <= x) l.

Definition Pinv (s : state) : Prop :=
  zero_seen s = false ->
  allpos (msgs s) /\ allpos (sent s) /\ (forall m, handopt (work s) = Some m -> 1 <= m) /\
  (forall n, pcount (prod s) = Some n -> 1 <= n).

Lemma allpos_cons_inv a l : allpos (a :: l) -> 1 <= a /\ allpos l.
Proof. intros H. inversion H; subst. split; assumption. Qed.
Lemma allpos_app l x : allpos l -> 1 <= x -> allpos (l ++ [x]).
Proof. intros H Hx. apply Forall_app. split; [exact H|constructor; [exact Hx|constructor]]. Qed.
Lemma handopt_wsupp k nx : handopt (wsupp k nx) = None.
Proof. destruct k; [destruct nx|]; reflexivity. Qed.

Lemma pinv_step c s l s' : Pinv s -> lstep c s l s' -> Pinv s'.
Proof.
  intros Hp H. unfold Pinv in *.
  destruct H; unf; split_ifs; simp; use_eqs; cbn [handopt pcount] in *; rewrite ?handopt_wsupp in *;
    try exact Hp; intros Hz;
    try (apply orb_false_iff in Hz; destruct Hz as [Hz Hz2]);
    specialize (Hp Hz); destruct Hp as (P1 & P2 & P3 & P4);
    try (apply allpos_cons_inv in P1; destruct P1 as [P1a P1]);
    try (apply allpos_cons_inv in P2; destruct P2 as [P2a P2]);
    repeat match goal with |- _ /\ _ => split end; try assumption;
    try (intros ? E; inversion E; subst; first [assumption|apply P4; reflexivity|apply P3; reflexivity]);
    try (intros; discriminate);
    try (apply allpos_app; first [assumption|apply P4; reflexivity|apply P3; reflexivity]).
  intros n0 E. inversion E; subst. destruct (fixed c); cbn [negb andb] in *; lia.
Qed.

Lemma pinv_reach c s : reachable c s -> Pinv s.
Proof.
  revert s. apply reach_ind.
  - unfold Pinv, init. simp. cbn [handopt pcount]. intros _.
    repeat split; try constructor; intros; discriminate.
  - intros s0 l s1 _ Hi Hl. eapply pinv_step; eassumption.
Qed.

(* ------------------------------------------------------------------ the supportability goroutine stays alive *)
Lemma supp_alive_reach c s :
  app_sd_callable c = false -> reachable c s -> app_sd s = false /\ supp_alive s = true.
Proof.
  intros Ha. revert s. apply reach_ind; [split; reflexivity|].
  intros s0 l s1 _ [H1 H2] Hl.
  destruct Hl; unf; split_ifs; simp; try (split; assumption); congruence.
Qed.

(* ------------------------------------------------------------------ repaired variant: the counter never wraps *)
Definition need_room (p : ppc) : option N := match p with PSend n | PDec n => Some n | _ => None end.

Definition Finv (s : state) : Prop :=
  wrapped s = false /\ (forall n, need_room (prod s) = Some n -> n <= rem s).

Lemma finv_step c s l s' : fixed c = true -> Finv s -> lstep c s l s' -> Finv s'.
Proof.
  intros Hf [F1 F2] H. unfold Finv in *.
  destruct H; unf; rewrite ?Hf; split_ifs; simp; use_eqs; cbn [need_room] in *;
    (split; [try assumption|try assumption; try (intros; discriminate)]).
  all: try (intros n0 E; inversion E; subst; lia).
  rewrite F1. specialize (F2 _ eq_refl). cbn [orb]. lia.
Qed.

Lemma finv_reach c s : fixed c = true -> reachable c s -> Finv s.
Proof.
  intros Hf. revert s. apply reach_ind.
  - split; [reflexivity|]. cbn. intros; discriminate.
  - intros s0 l s1 _ Hi Hl. eapply finv_step; eassumption.
Qed.

Lemma fixed_wrap_free c s : fixed c = true -> reachable c s -> wrap_free c s = true.
Proof.
  intros Hf Hr. destruct (finv_reach c s Hf Hr) as [F1 F2].
  unfold wrap_free, wrap_pending. rewrite F1, Hf. cbn [negb andb].
  destruct (prod s) eqn:E; cbn [need_room] in F2; try reflexivity;
    specialize (F2 _ eq_refl); lia.
Qed.

Lemma fixed_no_zero c s : fixed c = true -> reachable c s -> zero_seen s = false.
Proof.
  intros Hf. revert s. apply reach_ind; [reflexivity|].
  intros s0 l s1 _ Hi Hl. destruct Hl; unf; rewrite ?Hf; split_ifs; simp; try assumption.
  all: rewrite Hi; reflexivity.
Qed.

(* ------------------------------------------------------------------ the bound, and nobody blocks, while wrap_free *)
Lemma wrap_free_facts c s :
  wrap_free c s = true ->
  wrapped s = false /\ (forall n, need_room (prod s) = Some n -> n <= rem s).
Proof.
  unfold wrap_free, wrap_pending. intros H. apply andb_true_iff in H. destruct H as [H1 H2].
  apply negb_true_iff in H1. split; [exact H1|].
  intros n E. destruct (prod s); cbn [need_room] in E; try discriminate; inversion E; subst;
    apply negb_true_iff in H2; lia.
Qed.

Lemma bound_wrap_free c s :
  wf c -> reachable c s -> wrap_free c s = true -> qsum (msgs s) <= qsize c.
Proof.
  intros Hwf Hr Hw. destruct (wrap_free_facts _ _ Hw) as [W1 W2].
  pose proof (einv_reach c s Hwf Hr W1) as E. unfold total in E.
  destruct (prod s) eqn:Ep; cbn [ppend need_room] in *; try lia.
  specialize (W2 _ eq_refl). lia.
Qed.

Lemma counter_le_wrap_free c s :
  wf c -> reachable c s -> wrap_free c s = true -> rem s <= qsize c + ppend (prod s).
Proof.
  intros Hwf Hr Hw. destruct (wrap_free_facts _ _ Hw) as [W1 W2].
  pose proof (einv_reach c s Hwf Hr W1) as E. unfold total in E. lia.
Qed.

Lemma producer_not_blocked c s :
  wf c -> app_sd_callable c = false -> reachable c s ->
  wrap_free c s = true -> zero_seen s = false -> producer_blocked c s = false.
Proof.
  intros Hwf Ha Hr Hw Hz. destruct (wrap_free_facts _ _ Hw) as [W1 W2].
  pose proof (einv_reach c s Hwf Hr W1) as E. unfold total in E.
  pose proof (sinv_reach c s Hwf Hr) as (S1 & S2 & S2' & S2'' & S3 & S4 & S5 & S6 & S7 & S8 & S9).
  destruct (pinv_reach c s Hr Hz) as (P1 & P2 & P3 & P4).
  destruct (supp_alive_reach c s Ha Hr) as [A1 A2].
  unfold producer_blocked. destruct (prod s) eqn:Ep; try reflexivity; try (rewrite A2; reflexivity).
  cbn [ppend need_room pcount in_qb] in *. rewrite (S5 eq_refl). cbn [negb andb].
  specialize (W2 _ eq_refl). specialize (P4 _ eq_refl). pose proof (lenN_le_qsum _ P1).
  apply N.leb_gt. lia.
Qed.

Lemma worker_not_blocked c s :
  wf c -> app_sd_callable c = false -> reachable c s ->
  wrap_free c s = true -> zero_seen s = false -> worker_blocked c s = false.
Proof.
  intros Hwf Ha Hr Hw Hz. destruct (wrap_free_facts _ _ Hw) as [W1 W2].
  pose proof (einv_reach c s Hwf Hr W1) as E. unfold total in E.
  destruct (pinv_reach c s Hr Hz) as (P1 & P2 & P3 & P4).
  destruct (supp_alive_reach c s Ha Hr) as [A1 A2].
  unfold worker_blocked. destruct (work s) eqn:Ew; try reflexivity.
  - destruct k; [reflexivity|]. rewrite A2. reflexivity.
  - cbn [hand handopt] in *. specialize (P3 _ eq_refl). pose proof (lenN_le_qsum _ P2).
    apply N.leb_gt. destruct (prod s) eqn:Ep; cbn [ppend need_room] in *; try lia.
    specialize (W2 _ eq_refl). lia.
Qed.

(* ------------------------------------------------------------------ when can the counter wrap?
   Only when a batch larger than the queue is offered, or after the worker has taken a batch. *)
Definition need_room2 (p : ppc) : option N :=
  match p with PSuppDump n _ | PRecheck n | PSend n | PDec n => Some n | _ => None end.

Lemma hand_of_handopt w : handopt w = None -> hand w = 0.
Proof. destruct w; cbn; intros; try reflexivity; discriminate. Qed.

Definition Ninv (c : cfg) (s : state) : Prop :=
  big_seen s = false -> taken s = false ->
  wrapped s = false /\ handopt (work s) = None /\ sent s = [] /\
  (forall n, pcount (prod s) = Some n -> n <= qsize c) /\
  (forall n, need_room2 (prod s) = Some n -> n <= rem s).

Lemma ninv_step c s l s' :
  wf c -> Sinv s -> Einv c s -> Ninv c s -> lstep c s l s' -> Ninv c s'.
Proof.
  intros [Hq1 Hq2] (S1 & S2 & S2' & S2'' & S3 & S4 & S5 & S6 & S7 & S8 & S9) He Hn H.
  unfold Ninv, Einv, total in *.
  destruct H; unf; split_ifs; simp; use_eqs;
    cbn [handopt hand pcount need_room2 pdrop ppend in_qb] in *; rewrite ?handopt_wsupp in *;
    try exact Hn; intros Hb Ht;
    try discriminate;
    try (apply orb_false_iff in Hb; destruct Hb as [Hb Hb2]);
    specialize (Hn Hb Ht); destruct Hn as (N1 & N2 & N3 & N4 & N5);
    try discriminate;
    try (specialize (He N1));
    repeat match goal with |- _ /\ _ => split end; try assumption; try reflexivity;
    try (intros; discriminate);
    try (intros ? E; inversion E; subst; first [apply N4; reflexivity|apply N5; reflexivity|lia]).
  - intros n0 E. inversion E; subst. rewrite N3 in He. rewrite (hand_of_handopt _ N2) in He.
    rewrite (S6 H1) in He. cbn [qsum fold_right] in He. rewrite wadd_small by lia.
    specialize (N4 _ eq_refl). lia.
  - rewrite N1. specialize (N5 _ eq_refl). cbn [orb]. lia.
Qed.

Lemma ninv_reach c s : wf c -> reachable c s -> Ninv c s.
Proof.
  intros Hwf Hr. revert s Hr. apply reach_ind.
  - unfold Ninv, init. simp. cbn [handopt pcount need_room2]. intros _ _.
    repeat split; intros; discriminate.
  - intros s0 l s1 Hr Hi Hl.
    eapply ninv_step; [exact Hwf|apply (sinv_reach c); eassumption|apply einv_reach; assumption|exact Hi|exact Hl].
Qed.

Lemma nowrap_sufficient c s :
  wf c -> reachable c s -> big_seen s = false -> taken s = false -> wrap_free c s = true.
Proof.
  intros Hwf Hr Hb Ht. destruct (ninv_reach c s Hwf Hr Hb Ht) as (N1 & _ & _ & _ & N5).
  unfold wrap_free, wrap_pending. rewrite N1. cbn [negb andb].
  destruct (prod s); cbn [need_room2] in N5; try reflexivity; specialize (N5 _ eq_refl).
  - destruct (fixed c); cbn [negb andb]; [reflexivity|]. lia.
  - lia.
  - lia.
Qed.

(* ------------------------------------------------------------------ C16_accounting: the span ledger *)
Definition ledger (s : state) : N :=
  g_sent s + g_fail s + g_dump s + g_ref s + g_left s + qsum (msgs s) + hand (work s)
  + pdrop_acc (prod s) + pcall (prod s).

Definition Acc (s : state) : Prop := g_off s < W -> g_off s = ledger s.

Lemma g_off_mono c s l s' : lstep c s l s' -> g_off s <= g_off s'.
Proof. intros H. destruct H; unf; split_ifs; simp; lia. Qed.

Lemma acc_step c s l s' : Sinv s -> Acc s -> lstep c s l s' -> Acc s'.
Proof.
  intros (S1 & S2 & S2' & S2'' & S3 & S4 & S5 & S6 & S7 & S8 & S9) Ha H.
  unfold Acc in *. intros Hlt. pose proof (g_off_mono _ _ _ _ H) as Hm.
  assert (Hs : g_off s < W) by lia. specialize (Ha Hs). clear Hm. revert Hlt. unfold ledger in *.
  destruct H; unf; split_ifs; simp; use_eqs;
    cbn [hand pdrop_acc pcall in_qb] in *; rewrite ?hand_wsupp, ?qsum_app, ?qsum_cons in *;
    intros Hlt;
    try (assert (closed s = false) by (apply S5; reflexivity); congruence);
    try (rewrite wadd_small by lia); try lia.
Qed.

Lemma acc_reach c s : wf c -> reachable c s -> Acc s.
Proof.
  intros Hwf Hr. revert s Hr. apply reach_ind.
  - unfold Acc, ledger, init. simp. cbn. reflexivity.
  - intros s0 l s1 Hr Hi Hl. eapply acc_step; [apply (sinv_reach c); eassumption|exact Hi|exact Hl].
Qed.

(* ------------------------------------------------------------------ crashes *)
Lemma producer_never_crashes c s : wf c -> reachable c s -> is_pcrash (prod s) = false.
Proof.
  intros Hwf Hr. revert s Hr. apply reach_ind; [reflexivity|].
  intros s0 l s1 Hr Hi Hl.
  pose proof (sinv_reach c s0 Hwf Hr) as (S1 & S2 & S2' & S2'' & S3 & S4 & S5 & S6 & S7 & S8 & S9).
  destruct Hl; unf; split_ifs; simp; try assumption; try reflexivity;
    try (match goal with E : prod _ = _ |- _ => rewrite E in S5 end;
         assert (closed s = false) by (apply S5; reflexivity); congruence).
Qed.

Definition Kinv (s : state) : Prop :=
  closed_early s = false ->
  work s <> WCrash /\ (closed s = true -> worker_left (work s) = true).

Lemma kinv_step c s l s' : Kinv s -> lstep c s l s' -> Kinv s'.
Proof.
  intros Hk H. unfold Kinv in *.
  destruct H; unf; split_ifs; simp; try exact Hk; intros He;
    try (apply orb_false_iff in He; destruct He as [He He2]);
    specialize (Hk He); destruct Hk as [K1 K2];
    try (split; [assumption|assumption]);
    try (split; [assumption|intros; apply negb_false_iff; assumption]);
    try (match goal with E : work _ = _ |- _ => rewrite E in * end;
         split; [try discriminate; try (destruct k; [destruct nx|]; discriminate)|
                 intros Hc; specialize (K2 Hc); try discriminate; try reflexivity]).
  - split; [assumption|intros _; apply K2; reflexivity].
  - split; [assumption|intros _; apply K2; reflexivity].
  - exfalso. match goal with Hc : closed s = true |- _ => specialize (K2 Hc) end. discriminate.
Qed.

Lemma kinv_reach c s : reachable c s -> Kinv s.
Proof.
  revert s. apply reach_ind.
  - intros _. split; [discriminate|intros; discriminate].
  - intros s0 l s1 _ Hi Hl. eapply kinv_step; eassumption.
Qed.

Lemma fixed_worker_never_crashes c s : fixed c = true -> reachable c s -> work s <> WCrash.
Proof.
  intros Hf. revert s. apply reach_ind; [discriminate|].
  intros s0 l s1 _ Hi Hl.
  destruct Hl; unf; rewrite ?Hf; split_ifs; simp; try assumption; try discriminate.
  destruct k; [destruct nx|]; discriminate.
Qed.

Lemma no_crash_wf c s :
  wf c -> reachable c s -> (fixed c = true \/ closed_early s = false) -> crashed s = false.
Proof.
  intros Hwf Hr Hg. pose proof (producer_never_crashes c s Hwf Hr) as Hp.
  assert (Hw : work s <> WCrash).
  { destruct Hg as [Hf|He]; [apply (fixed_worker_never_crashes c); assumption|].
    apply (kinv_reach c s Hr He). }
  unfold crashed. destruct (work s); try congruence; destruct (prod s); try reflexivity; discriminate.
Qed.

(* ------------------------------------------------------------------ Shutdown returns by the producer's own steps *)
Definition producer_own (l : label) : Prop :=
  match l with LShutdownTimeout | LClose | LCloseDrain1 | LCloseDrainEnd => True | _ => False end.

Lemma closedrain_returns c k : forall q s,
  msgs s = q -> prod s = PCloseDrain k ->
  exists tr s', steps c s tr s' /\ prod s' = PIdle /\ Forall producer_own tr /\
                length tr = S (length q).
Proof.
  induction q as [|m r IH]; intros s Hm Hp.
  - exists [LCloseDrainEnd], (ret_cont k s). split; [|split; [|split]].
    + change [LCloseDrainEnd] with ([] ++ [LCloseDrainEnd]).
      eapply steps_snoc; [apply steps_nil|eapply st_closedrainend; eassumption].
    + destruct k; reflexivity.
    + constructor; [exact I|constructor].
    + reflexivity.
  - destruct (IH (e_closedrain1 m r s)) as (tr & s' & Hs & Hi & Hf & Hl); [reflexivity|exact Hp|].
    exists (LCloseDrain1 :: tr), s'. split; [|split; [|split]].
    + eapply steps_cons; [eapply st_closedrain1; eassumption|exact Hs].
    + exact Hi.
    + constructor; [exact I|exact Hf].
    + cbn [length]. rewrite Hl. reflexivity.
Qed.

Lemma shutdown_returns c s :
  prod s = PWait ->
  exists tr s', steps c s tr s' /\ prod s' = PIdle /\ Forall producer_own tr /\
                (length tr <= 3 + length (msgs s))%nat.
Proof.
  intros Hp.
  pose (s1 := set_prod (PClose KShutdown) s).
  assert (H1 : lstep c s LShutdownTimeout s1) by (apply st_shutdowntimeout; exact Hp).
  assert (H2 : lstep c s1 LClose (e_close KShutdown s1)) by (apply st_close; reflexivity).
  destruct (closed s) eqn:Ec.
  - exists [LShutdownTimeout; LClose], (e_close KShutdown s1). split; [|split; [|split]].
    + eapply steps_cons; [exact H1|]. eapply steps_cons; [exact H2|apply steps_nil].
    + unfold e_close, s1. simp. rewrite Ec. reflexivity.
    + repeat constructor.
    + cbn [length]. lia.
  - destruct (closedrain_returns c KShutdown (msgs s) (e_close KShutdown s1)) as (tr & s' & Hs & Hi & Hf & Hl).
    + unfold e_close, s1. simp. rewrite Ec. reflexivity.
    + unfold e_close, s1. simp. rewrite Ec. reflexivity.
    + exists (LShutdownTimeout :: LClose :: tr), s'. split; [|split; [|split]].
      * eapply steps_cons; [exact H1|]. eapply steps_cons; [exact H2|exact Hs].
      * exact Hi.
      * constructor; [exact I|constructor; [exact I|exact Hf]].
      * cbn [length]. rewrite Hl. lia.
Qed.

(* ------------------------------------------------------------------ the ghost flags, read off the trace *)
Definition trig_zero (c : cfg) (l : label) : bool :=
  match l with LCall n => negb (fixed c) && (n =? 0) | _ => false end.
Definition trig_big (c : cfg) (l : label) : bool :=
  match l with LCall n => qsize c <? n | _ => false end.
Definition trig_taken (l : label) : bool := match l with LRecv => true | _ => false end.

Lemma flags_step c s l s' :
  lstep c s l s' ->
  zero_seen s' = zero_seen s || trig_zero c l /\
  big_seen s' = big_seen s || trig_big c l /\
  taken s' = taken s || trig_taken l.
Proof.
  intros H. destruct H; unf; split_ifs; simp; cbn [trig_zero trig_big trig_taken];
    rewrite ?orb_false_r, ?orb_true_r; repeat split; reflexivity.
Qed.

Lemma flags_trace c tr s :
  steps c (init c) tr s ->
  zero_seen s = existsb (trig_zero c) tr /\
  big_seen s = existsb (trig_big c) tr /\
  taken s = existsb trig_taken tr.
Proof.
  intros H. remember (init c) as s0 eqn:E.
  induction H as [s0|s0 tr s1 l s2 Hs IH Hl]; subst; [repeat split; reflexivity|].
  destruct (IH eq_refl) as (I1 & I2 & I3). destruct (flags_step _ _ _ _ Hl) as (F1 & F2 & F3).
  rewrite !existsb_app. cbn [existsb]. rewrite !orb_false_r. rewrite F1, F2, F3, I1, I2, I3.
  repeat split; reflexivity.
Qed.

Lemma no_zero_of_counts c tr s :
  steps c (init c) tr s -> (forall n, In (LCall n) tr -> 1 <= n) -> zero_seen s = false.
Proof.
  intros H Hc. destruct (flags_trace _ _ _ H) as (F & _ & _). rewrite F.
  apply not_true_is_false. intros E. apply existsb_exists in E. destruct E as [l [Hl Ht]].
  destruct l; cbn [trig_zero] in Ht; try discriminate. specialize (Hc _ Hl).
  apply andb_true_iff in Ht. destruct Ht as [_ Ht]. apply N.eqb_eq in Ht. lia.
Qed.

Lemma no_big_of_counts c tr s :
  steps c (init c) tr s -> (forall n, In (LCall n) tr -> n <= qsize c) -> big_seen s = false.
Proof.
  intros H Hc. destruct (flags_trace _ _ _ H) as (_ & F & _). rewrite F.
  apply not_true_is_false. intros E. apply existsb_exists in E. destruct E as [l [Hl Ht]].
  destruct l; cbn [trig_big] in Ht; try discriminate. specialize (Hc _ Hl).
  apply N.ltb_lt in Ht. lia.
Qed.

Lemma not_taken_of_trace c tr s : steps c (init c) tr s -> ~ In LRecv tr -> taken s = false.
Proof.
  intros H Hn. destruct (flags_trace _ _ _ H) as (_ & _ & F). rewrite F.
  apply not_true_is_false. intros E. apply existsb_exists in E. destruct E as [l [Hl Ht]].
  destruct l; cbn [trig_taken] in Ht; try discriminate. exact (Hn Hl).
Qed.

(* ------------------------------------------------------------------ witnesses (as-is code) *)
Definition c_asis (q : N) : cfg := {| qsize := q; fixed := false; app_sd_callable := false |}.
Definition c_fix (q : N) : cfg := {| qsize := q; fixed := true; app_sd_callable := false |}.

Lemma wf_small q : (1 <=? q) && (q <? W) = true -> wf (c_asis q) /\ wf (c_fix q).
Proof. intros H. apply andb_true_iff in H. destruct H as [H1 H2]. unfold wf. cbn [qsize c_asis c_fix]. lia. Qed.

(* (1) two batches of count 0 into a queue of one slot: the second `to.messages <- b` has no room *)
Definition tr_zero : list label :=
  [LCall 0; LChkInit; LDrainDone; LSend; LDec; LCall 0; LChkInit; LDrainDone].
(* (2) one batch of 2 spans into a queue of 1: queued spans = 2, and after the decrement the counter is 2^64-1;
       the next batch then finds the only slot taken *)
Definition tr_big : list label := [LCall 2; LChkInit; LDrainDone; LEmptyDone; LSuppDump; LSend].
Definition tr_big_blocks : list label := tr_big ++ [LDec; LCall 1; LChkInit; LDrainDone].
(* (2') counts all equal to 1 = QueueSize, sender connected and slow: the worker holds the first batch, the
       second makes the counter wrap (emptyQueue finds nothing to reclaim), the third blocks *)
Definition tr_inflight : list label :=
  [LConnect ROk; LCall 1; LChkInit; LDrainDone; LSend; LDec; LRecv;
   LCall 1; LChkInit; LDrainDone; LEmptyDone; LSuppDump; LSend; LDec; LCall 1; LChkInit; LDrainDone].
(* same with QueueSize 2 and counts 2: 4 spans queued *)
Definition tr_inflight_bound : list label :=
  [LConnect ROk; LCall 2; LChkInit; LDrainDone; LSend; LDec; LRecv;
   LCall 2; LChkInit; LDrainDone; LEmptyDone; LSuppDump; LSend; LDec; LCall 2; LChkInit; LDrainDone; LSend].
(* (3) Shutdown times out while the worker is still in connect(); closeMessages closes the queue; connect()
       then succeeds and the select receives nil from the closed channel *)
Definition tr_crash : list label :=
  [LShutdown; LShutdownTimeout; LClose; LCloseDrainEnd; LConnect ROk; LRecvClosed].
(* zero-count batches fill messagesSent too: the worker ends on `to.messagesSent <- 0` with nobody to drain it *)
Definition tr_worker_stuck : list label :=
  [LConnect ROk; LCall 0; LChkInit; LDrainDone; LSend; LDec; LRecv; LCall 0; LChkInit; LDrainDone; LSend; LDec;
   LSendRet ROk; LReport; LWSupp; LWSupp; LRecv; LSendRet ROk;
   LShutdown; LShutdownTimeout; LClose; LCloseDrainEnd].
(* (4, latent) were closeInitiateAppShutdown ever called: the supportability goroutine returns and emptyQueue's
       send on the unbuffered channel has no partner *)
Definition c_appsd : cfg := {| qsize := 1; fixed := false; app_sd_callable := true |}.
Definition tr_appsd : list label :=
  [LAppShutdown; LSuppReturn; LCall 1; LChkInit; LDrainDone; LSend; LDec; LCall 1; LChkInit; LDrainDone;
   LEmptyRecv; LEmptyDone].

Definition all_counts_in (lo hi : N) (tr : list label) : bool :=
  forallb (fun l => match l with LCall n => (lo <=? n) && (n <=? hi) | _ => true end) tr.

Lemma all_counts_in_spec lo hi tr :
  all_counts_in lo hi tr = true -> forall n, In (LCall n) tr -> lo <= n <= hi.
Proof.
  unfold all_counts_in. rewrite forallb_forall. intros H n Hn. specialize (H _ Hn). cbn in H.
  apply andb_true_iff in H. destruct H as [H1 H2]. apply N.leb_le in H1, H2. lia.
Qed.

Ltac witness tr :=
  match goal with
  | |- exists _ _, steps ?c (init ?c) _ _ /\ _ =>
      let r := eval vm_compute in (run_trace c (init c) tr) in
      match r with
      | Some ?s => exists tr, s; split; [apply run_trace_steps; vm_compute; reflexivity|]
      end
  end.

Lemma never_blocks_refuted :
  exists tr s, steps (c_asis 1) (init (c_asis 1)) tr s /\ producer_blocked (c_asis 1) s = true.
Proof. witness tr_zero. vm_compute. reflexivity. Qed.

Lemma never_blocks_big_refuted :
  exists tr s, steps (c_asis 1) (init (c_asis 1)) tr s /\
               producer_blocked (c_asis 1) s = true /\ all_counts_in 1 2 tr = true.
Proof. witness tr_big_blocks. vm_compute. split; reflexivity. Qed.

Lemma never_blocks_inrange_refuted :
  exists tr s, steps (c_asis 1) (init (c_asis 1)) tr s /\
               producer_blocked (c_asis 1) s = true /\ all_counts_in 1 1 tr = true.
Proof. witness tr_inflight. vm_compute. split; reflexivity. Qed.

Lemma bound_refuted :
  exists tr s, steps (c_asis 1) (init (c_asis 1)) tr s /\ qsize (c_asis 1) < qsum (msgs s).
Proof. witness tr_big. vm_compute. reflexivity. Qed.

Lemma bound_inrange_refuted :
  exists tr s, steps (c_asis 2) (init (c_asis 2)) tr s /\
               qsize (c_asis 2) < qsum (msgs s) /\ all_counts_in 1 2 tr = true.
Proof. witness tr_inflight_bound. vm_compute. split; reflexivity. Qed.

Lemma counter_wraps_witness :
  exists tr s, steps (c_asis 1) (init (c_asis 1)) tr s /\ rem s = W - 1 /\ all_counts_in 1 1 tr = true.
Proof.
  witness (firstn 14 tr_inflight). vm_compute. split; reflexivity.
Qed.

Lemma shutdown_crash_refuted :
  exists tr s, steps (c_asis 1) (init (c_asis 1)) tr s /\ crashed s = true /\ work s = WCrash.
Proof. witness tr_crash. vm_compute. split; reflexivity. Qed.

Lemma worker_stuck_refuted :
  exists tr s, steps (c_asis 1) (init (c_asis 1)) tr s /\
               worker_blocked (c_asis 1) s = true /\ prod s = PIdle /\ closed s = true.
Proof. witness tr_worker_stuck. vm_compute. repeat split; reflexivity. Qed.

Lemma supp_block_latent :
  exists tr s, steps c_appsd (init c_appsd) tr s /\
               producer_blocked c_appsd s = true /\ all_counts_in 1 1 tr = true.
Proof. witness tr_appsd. vm_compute. split; reflexivity. Qed.

(* the same traces on the repaired variant: either not a trace any more, or harmless *)
Lemma fixed_replays :
  option_map (producer_blocked (c_fix 1)) (run_trace (c_fix 1) (init (c_fix 1)) [LCall 0; LCall 0; LCall 0]) = Some false /\
  run_trace (c_fix 1) (init (c_fix 1)) tr_big = None /\
  option_map (fun s => (prod s, msgs s, rem s, g_dump s))
     (run_trace (c_fix 1) (init (c_fix 1)) [LCall 2; LChkInit; LDrainDone; LEmptyDone; LSuppDump; LRecheck; LSuppDrop])
    = Some (PIdle, [], 1, 2) /\
  option_map work (run_trace (c_fix 1) (init (c_fix 1)) (tr_crash ++ [LStatus; LComplete])) = Some WDone.
Proof. vm_compute. repeat split; reflexivity. Qed.

(* ------------------------------------------------------------------ non-vacuity *)
(* an as-is run within the guards of the partial theorems: never connected, counts 1, 2 (= QueueSize: the
   queue is dumped), 1, then Shutdown times out and a late batch is refused *)
Definition tr_clean : list label :=
  [LCall 1; LChkInit; LDrainDone; LSend; LDec;
   LCall 2; LChkInit; LDrainDone; LEmptyRecv; LEmptyDone; LSuppDump; LSend; LDec;
   LCall 1; LChkInit; LDrainDone; LEmptyRecv; LEmptyDone; LSuppDump; LSend; LDec;
   LShutdown; LShutdownTimeout; LClose; LCloseDrain1; LCloseDrainEnd;
   LCall 2; LChkInit; LChkComplete; LClose].

Example clean_run_meets_guards :
  exists tr s, steps (c_asis 2) (init (c_asis 2)) tr s /\
    wrap_free (c_asis 2) s = true /\ zero_seen s = false /\ closed_early s = true /\ taken s = false /\
    all_counts_in 1 2 tr = true /\ g_dump s = 3 /\ g_left s = 1 /\ g_ref s = 2 /\ g_off s = 6 /\ prod s = PIdle.
Proof. witness tr_clean. vm_compute. repeat split; reflexivity. Qed.

(* connected, lock step: every batch reaches the sender, one send fails, back-off, reconnect, orderly shutdown *)
Definition tr_clean_connected : list label :=
  [LConnect ROk; LCall 2; LChkInit; LDrainDone; LSend; LDec; LRecv; LSendRet ROk; LReport; LWSupp; LWSupp;
   LCall 1; LChkInit; LDrainSent; LDrainDone; LSend; LDec; LRecv; LSendRet (RFail SRestart true); LReport;
   LWSupp; LWSupp; LWSupp; LStatus; LWake; LConnect ROk;
   LShutdown; LSeeShutdown; LStatus; LComplete; LShutdownDone; LClose; LCloseDrainEnd].

Example connected_run_meets_guards :
  exists tr s, steps (c_asis 2) (init (c_asis 2)) tr s /\
    wrap_free (c_asis 2) s = true /\ zero_seen s = false /\ closed_early s = false /\ taken s = true /\
    g_sent s = 2 /\ g_fail s = 1 /\ g_off s = 3 /\ work s = WDone /\ prod s = PIdle.
Proof. witness tr_clean_connected. vm_compute. repeat split; reflexivity. Qed.

(* the repaired variant takes zero and oversized batches in its stride *)
Definition tr_fixed_mixed : list label :=
  [LConnect ROk; LCall 0; LCall 1; LChkInit; LDrainDone; LSend; LDec; LRecv;
   LCall 1; LChkInit; LDrainDone; LEmptyDone; LSuppDump; LRecheck; LSuppDrop;
   LCall 5; LChkInit; LDrainDone; LEmptyDone; LSuppDump; LRecheck; LSuppDrop;
   LShutdown; LShutdownTimeout; LClose; LCloseDrainEnd; LSendRet ROk; LReport; LWSupp; LWSupp; LRecvClosed;
   LStatus; LComplete].

Example fixed_run :
  exists tr s, steps (c_fix 1) (init (c_fix 1)) tr s /\
    g_off s = 7 /\ g_sent s = 1 /\ g_dump s = 6 /\ closed_early s = true /\ work s = WDone /\ prod s = PIdle.
Proof. witness tr_fixed_mixed. vm_compute. repeat split; reflexivity. Qed.


(* ------------------------------------------------------------------ accepts is sound:
   an accepted log is the visible part of a run of the LTS *)
Definition vis (tr : list label) : list label := filter (fun l => negb (is_tau l)) tr.
Definition obs_labels (os : list obs) : list label :=
  flat_map (fun o => match obs_label o with Some l => [l] | None => [] end) os.

Lemma vis_app a b : vis (a ++ b) = vis a ++ vis b.
Proof. unfold vis. apply filter_app. Qed.

Lemma vis_taus tr : Forall (fun l => is_tau l = true) tr -> vis tr = [].
Proof.
  induction 1 as [|l tr Hl _ IH]; [reflexivity|]. unfold vis in *. cbn [filter]. rewrite Hl. cbn [negb]. exact IH.
Qed.

Lemma obs_label_visible o l : obs_label o = Some l -> is_tau l = false.
Proof. destruct o as [| | | | |[]| | | | | | | | |]; cbn; intros E; inversion E; reflexivity. Qed.

Lemma in_add_new cand : forall acc s, In s (add_new cand acc) -> In s cand \/ In s acc.
Proof.
  induction cand as [|x r IH]; intros acc s H; cbn [add_new] in H; [right; exact H|].
  destruct (mem_state x acc).
  - destruct (IH _ _ H) as [H1|H1]; [left; right; exact H1|right; exact H1].
  - destruct (IH _ _ H) as [H1|H1]; [left; right; exact H1|].
    apply in_app_or in H1. destruct H1 as [H1|[H1|[]]]; [right; exact H1|left; left; exact H1].
Qed.

Lemma succ_over_sound c s s' (ls : list label) :
  In s' (succ_over c ls s) -> exists l, In l ls /\ lstep c s l s'.
Proof.
  unfold succ_over. intros H. apply in_flat_map in H. destruct H as [l [Hl H]].
  destruct (step_fn c s l) as [s1|] eqn:E; [|destruct H]. destruct H as [H|[]]. subst.
  exists l. split; [exact Hl|apply step_fn_sound; exact E].
Qed.

Lemma tau_labels_spec : tau_labels = filter is_tau plain_labels.
Proof. vm_compute. reflexivity. Qed.

Lemma tau_labels_tau l : In l tau_labels -> is_tau l = true.
Proof.
  intros H. unfold tau_labels in H. cbn [In] in H.
  repeat (destruct H as [H|H]; [subst; reflexivity|]). destruct H.
Qed.

Lemma tau_succ_step c s s' :
  In s' (tau_succ c s) -> exists l, is_tau l = true /\ lstep c s l s'.
Proof.
  unfold tau_succ. intros H. apply succ_over_sound in H. destruct H as (l & Hl & Hs).
  exists l. split; [apply tau_labels_tau; exact Hl|exact Hs].
Qed.

Definition tau_reach (c : cfg) (X : list state) (s : state) : Prop :=
  exists s0 tr, In s0 X /\ steps c s0 tr s /\ Forall (fun l => is_tau l = true) tr.

Lemma tau_close_sound c : forall fuel acc X s,
  tau_close c fuel acc = Some X -> In s X -> tau_reach c acc s.
Proof.
  induction fuel as [|f IH]; intros acc X s H Hs; cbn [tau_close] in H; [discriminate|].
  destruct (Nat.eqb _ _).
  - inversion H; subst. exists s, []. repeat split; [exact Hs|apply steps_nil|constructor].
  - destruct (IH _ _ _ H Hs) as (s0 & tr & H0 & Hst & Hf).
    destruct (in_add_new _ _ _ H0) as [H1|H1].
    + apply in_flat_map in H1. destruct H1 as [sa [Ha Hsucc]].
      destruct (tau_succ_step _ _ _ Hsucc) as (l & Hl & Hstep).
      exists sa, (l :: tr). repeat split; [exact Ha|eapply steps_cons; eassumption|constructor; assumption].
    + exists s0, tr. repeat split; assumption.
Qed.

Lemma fire_sound c l X s : In s (fire c l X) -> exists s0, In s0 X /\ lstep c s0 l s.
Proof.
  unfold fire. intros H. destruct (in_add_new _ _ _ H) as [H1|[]].
  apply in_flat_map in H1. destruct H1 as [s0 [H0 H1]].
  apply succ_over_sound in H1. destruct H1 as (l0 & [Hl|[]] & Hs). subst.
  exists s0. split; assumption.
Qed.

(* every state of X is reached by a run whose visible labels are ls *)
Definition covers (c : cfg) (X : list state) (ls : list label) : Prop :=
  forall s, In s X -> exists tr, steps c (init c) tr s /\ vis tr = ls.

Lemma covers_tau c X ls Y :
  covers c X ls -> (forall s, In s Y -> tau_reach c X s) -> covers c Y ls.
Proof.
  intros Hc Hy s Hs. destruct (Hy _ Hs) as (s0 & tr & H0 & Hst & Hf).
  destruct (Hc _ H0) as (tr0 & Hr & Hv). exists (tr0 ++ tr). split; [eapply steps_app; eassumption|].
  rewrite vis_app, (vis_taus _ Hf), app_nil_r. exact Hv.
Qed.

Lemma covers_fire c X ls l :
  is_tau l = false -> covers c X ls -> covers c (fire c l X) (ls ++ [l]).
Proof.
  intros Hl Hc s Hs. destruct (fire_sound _ _ _ _ Hs) as (s0 & H0 & Hstep).
  destruct (Hc _ H0) as (tr0 & Hr & Hv). exists (tr0 ++ [l]). split; [eapply steps_snoc; eassumption|].
  rewrite vis_app, Hv. unfold vis at 1. cbn [filter]. rewrite Hl. reflexivity.
Qed.

Lemma covers_filter c X ls f : covers c X ls -> covers c (filter f X) ls.
Proof. intros Hc s Hs. apply filter_In in Hs. apply Hc. apply Hs. Qed.

Lemma obs_step_f_sound c fuel o X Y ls :
  covers c X ls -> obs_step_f c fuel o X = Some Y ->
  covers c Y (ls ++ match obs_label o with Some l => [l] | None => [] end).
Proof.
  intros Hc H. unfold obs_step_f in H.
  destruct (tau_close c fuel X) as [X1|] eqn:E1; [|discriminate].
  assert (C1 : covers c X1 ls).
  { eapply covers_tau; [exact Hc|]. intros s Hs. eapply tau_close_sound; eassumption. }
  set (X2 := match obs_label o with Some l => fire c l X1 | None => X1 end) in *.
  assert (C2 : covers c X2 (ls ++ match obs_label o with Some l => [l] | None => [] end)).
  { unfold X2. destruct (obs_label o) as [l|] eqn:El.
    - apply covers_fire; [eapply obs_label_visible; exact El|exact C1].
    - rewrite app_nil_r. exact C1. }
  destruct (is_shutdownret o); cbv iota in H.
  - destruct (tau_close c fuel X2) as [X3|] eqn:E3; [|discriminate].
    injection H as H. subst Y. apply covers_filter.
    eapply covers_tau; [exact C2|]. intros s Hs. eapply tau_close_sound; eassumption.
  - injection H as H. subst Y. apply covers_filter. exact C2.
Qed.

Lemma obs_step_sound c o X Y ls :
  covers c X ls -> obs_step c o X = Some Y ->
  covers c Y (ls ++ match obs_label o with Some l => [l] | None => [] end).
Proof. unfold obs_step. apply obs_step_f_sound. Qed.

Opaque obs_step.

Lemma accepts_from_sound c : forall os X k ls,
  X <> [] -> covers c X ls -> accepts_from c X os k = Accept ->
  exists tr s, steps c (init c) tr s /\ vis tr = ls ++ obs_labels os.
Proof.
  induction os as [|o r IH]; intros X k ls Hne Hc H; cbn [accepts_from] in H.
  - destruct X as [|s X]; [congruence|]. destruct (Hc s (or_introl eq_refl)) as (tr & Hr & Hv).
    exists tr, s. split; [exact Hr|]. cbn [obs_labels flat_map]. rewrite app_nil_r. exact Hv.
  - destruct (obs_step c o X) as [Y|] eqn:E; [|discriminate].
    destruct Y as [|y Y]; [discriminate|].
    pose proof (obs_step_sound _ _ _ _ _ Hc E) as C.
    assert (Hn : y :: Y <> []) by discriminate.
    destruct (IH _ _ _ Hn C H) as (tr & s & Hr & Hv).
    exists tr, s. split; [exact Hr|]. rewrite Hv. unfold obs_labels. cbn [flat_map].
    rewrite app_assoc. reflexivity.
Qed.

Lemma accepts_sound c os :
  accepts c os = Accept -> exists tr s, steps c (init c) tr s /\ vis tr = obs_labels os.
Proof.
  intros H. unfold accepts in H.
  apply (accepts_from_sound c os [init c] 0%nat []); [discriminate| |exact H].
  intros s [Hs|[]]. subst. exists []. split; [apply steps_nil|reflexivity].
Qed.

Transparent obs_step.

(* ------------------------------------------------------------------ channel capacities, and the monitor's probe test *)
Lemma chan_caps c s : reachable c s -> lenN (msgs s) <= qsize c /\ lenN (sent s) <= qsize c.
Proof.
  revert s. apply reach_ind; [unfold init, lenN; simp; cbn; lia|].
  intros s0 l s1 _ [H1 H2] Hl.
  destruct Hl; unf; split_ifs; simp; use_eqs; rewrite ?lenN_app, ?lenN_cons in *;
    try (split; assumption); try (split; lia).
Qed.

Definition probe_of (s : state) (pos : wpos) (peek : bool) : probe :=
  {| p_rem := rem s; p_nmsgs := lenN (msgs s); p_queued := if peek then Some (msgs s) else None;
     p_nsent := lenN (sent s); p_init := init_sd s; p_complete := complete s; p_wpos := pos |}.

Lemma probe_bound_sound c s pos peek :
  wf c -> reachable c s -> wrap_free c s = true -> ppend (prod s) = 0 ->
  probe_bound_ok (qsize c) (probe_of s pos peek) = true.
Proof.
  intros Hwf Hr Hw Hp. pose proof (counter_le_wrap_free c s Hwf Hr Hw) as H1.
  pose proof (bound_wrap_free c s Hwf Hr Hw) as H2. destruct (chan_caps c s Hr) as [H3 _].
  unfold probe_bound_ok, probe_of. cbn [p_rem p_nmsgs p_queued]. rewrite Hp in H1.
  destruct peek; repeat (apply andb_true_iff; split); try reflexivity; apply N.leb_le; lia.
Qed.

(* ------------------------------------------------------------------ the statements of PropC16.v *)
Lemma thm_lts_twins : forall c counts s l s',
  (In (l, s') (enabled c counts s) <-> lstep c s l s' /\ label_over counts l) /\
  (step_fn c s l = Some s' <-> lstep c s l s').
Proof. intros. split; [apply enabled_iff|apply step_fn_iff]. Qed.

Lemma thm_counter_inv : forall c s, wf c -> reachable c s ->
  rem s < W /\
  (rem s + qsum (msgs s) + hand (work s) + qsum (sent s) + pdrop (prod s) + g_left s) mod W
  = (qsize c + ppend (prod s)) mod W.
Proof.
  intros c s Hwf Hr. split; [destruct (sinv_reach c s Hwf Hr) as [H _]; exact H|exact (cinv_reach c s Hwf Hr)].
Qed.

Lemma thm_counter_exact : forall c s, wf c -> reachable c s -> wrapped s = false ->
  rem s + qsum (msgs s) + hand (work s) + qsum (sent s) + pdrop (prod s) + g_left s
  = qsize c + ppend (prod s).
Proof. intros c s Hwf Hr Hw. exact (einv_reach c s Hwf Hr Hw). Qed.

Lemma thm_wrap_only_if : forall c tr s, wf c -> steps c (init c) tr s ->
  (forall n, In (LCall n) tr -> n <= qsize c) -> ~ In LRecv tr ->
  wrap_free c s = true.
Proof.
  intros c tr s Hwf Hs Hc Hn. apply nowrap_sufficient; [exact Hwf|exists tr; exact Hs| |].
  - eapply no_big_of_counts; eassumption.
  - eapply not_taken_of_trace; eassumption.
Qed.

Lemma thm_never_blocks_partial : forall c tr s,
  wf c -> app_sd_callable c = false -> steps c (init c) tr s ->
  (forall n, In (LCall n) tr -> 1 <= n) -> wrap_free c s = true ->
  producer_blocked c s = false /\ worker_blocked c s = false.
Proof.
  intros c tr s Hwf Ha Hs Hc Hw. assert (Hr : reachable c s) by (exists tr; exact Hs).
  pose proof (no_zero_of_counts c tr s Hs Hc) as Hz.
  split; [apply producer_not_blocked|apply worker_not_blocked]; assumption.
Qed.

Lemma thm_never_blocks_fixed : forall c s,
  wf c -> fixed c = true -> app_sd_callable c = false -> reachable c s ->
  producer_blocked c s = false /\ worker_blocked c s = false.
Proof.
  intros c s Hwf Hf Ha Hr. pose proof (fixed_wrap_free c s Hf Hr). pose proof (fixed_no_zero c s Hf Hr).
  split; [apply producer_not_blocked|apply worker_not_blocked]; assumption.
Qed.

Lemma thm_bound_partial : forall c s, wf c -> reachable c s -> wrap_free c s = true ->
  qsum (msgs s) <= qsize c /\ rem s <= qsize c + ppend (prod s) /\ lenN (msgs s) <= qsize c.
Proof.
  intros c s Hwf Hr Hw. split; [apply bound_wrap_free; assumption|].
  split; [apply counter_le_wrap_free; assumption|apply (chan_caps c s Hr)].
Qed.

Lemma thm_bound_fixed : forall c s, wf c -> fixed c = true -> reachable c s ->
  qsum (msgs s) <= qsize c /\ rem s <= qsize c + ppend (prod s) /\ wrapped s = false.
Proof.
  intros c s Hwf Hf Hr. pose proof (fixed_wrap_free c s Hf Hr) as Hw.
  split; [apply bound_wrap_free; assumption|].
  split; [apply counter_le_wrap_free; assumption|apply (finv_reach c s Hf Hr)].
Qed.

Lemma thm_accounting : forall c s, wf c -> reachable c s -> g_off s < W ->
  g_off s = g_sent s + g_fail s + g_dump s + g_ref s + g_left s + qsum (msgs s) + hand (work s)
            + pdrop_acc (prod s) + pcall (prod s).
Proof. intros c s Hwf Hr Hlt. exact (acc_reach c s Hwf Hr Hlt). Qed.

Lemma thm_accounting_quiescent : forall c s, wf c -> reachable c s -> g_off s < W ->
  prod s = PIdle -> hand (work s) = 0 ->
  g_off s = g_sent s + g_fail s + g_dump s + g_ref s + g_left s + qsum (msgs s).
Proof.
  intros c s Hwf Hr Hlt Hp Hh. pose proof (acc_reach c s Hwf Hr Hlt) as H. unfold ledger in H.
  rewrite Hp, Hh in H. cbn [pdrop_acc pcall] in H. rewrite H. rewrite !N.add_0_r. reflexivity.
Qed.

Lemma thm_shutdown_bounded_partial : forall c s, wf c -> reachable c s ->
  is_pcrash (prod s) = false /\ (closed_early s = false -> crashed s = false).
Proof.
  intros c s Hwf Hr. split; [apply (producer_never_crashes c s Hwf Hr)|].
  intros He. apply (no_crash_wf c s Hwf Hr). right. exact He.
Qed.

Lemma thm_shutdown_bounded_fixed : forall c s,
  wf c -> fixed c = true -> app_sd_callable c = false -> reachable c s ->
  crashed s = false /\ worker_blocked c s = false /\ producer_blocked c s = false.
Proof.
  intros c s Hwf Hf Ha Hr. split; [apply (no_crash_wf c s Hwf Hr); left; exact Hf|].
  pose proof (fixed_wrap_free c s Hf Hr). pose proof (fixed_no_zero c s Hf Hr).
  split; [apply worker_not_blocked|apply producer_not_blocked]; assumption.
Qed.

(* ------------------------------------------------------------------ statements about the current code (fixed c = true) *)
Lemma thm_counter_inv_current : forall c s, wf c -> fixed c = true -> reachable c s ->
  wrapped s = false /\ rem s < W /\
  rem s + qsum (msgs s) + hand (work s) + qsum (sent s) + pdrop (prod s) + g_left s
  = qsize c + ppend (prod s).
Proof.
  intros c s Hwf Hf Hr. destruct (finv_reach c s Hf Hr) as [F1 _].
  split; [exact F1|]. split; [destruct (sinv_reach c s Hwf Hr) as [H _]; exact H|].
  exact (einv_reach c s Hwf Hr F1).
Qed.

Lemma thm_monitor_probe_sound_current : forall c s pos peek,
  wf c -> fixed c = true -> reachable c s -> ppend (prod s) = 0 ->
  probe_bound_ok (qsize c) (probe_of s pos peek) = true.
Proof.
  intros c s pos peek Hwf Hf Hr Hp. apply probe_bound_sound; try assumption.
  apply fixed_wrap_free; assumption.
Qed.

Lemma thm_shutdown_bounded_current : forall c s,
  wf c -> fixed c = true -> app_sd_callable c = false -> reachable c s ->
  crashed s = false /\ worker_blocked c s = false /\ producer_blocked c s = false /\
  (prod s = PWait ->
   exists tr s', steps c s tr s' /\ prod s' = PIdle /\ Forall producer_own tr /\
                 (length tr <= 3 + length (msgs s))%nat).
Proof.
  intros c s Hwf Hf Ha Hr. destruct (thm_shutdown_bounded_fixed c s Hwf Hf Ha Hr) as (H1 & H2 & H3).
  repeat split; try assumption. apply shutdown_returns.
Qed.

(* latent: with a caller of closeInitiateAppShutdown the current code's emptyQueue can block as well *)
Definition c_appsd_cur : cfg := {| qsize := 1; fixed := true; app_sd_callable := true |}.
Lemma supp_block_latent_current :
  exists tr s, steps c_appsd_cur (init c_appsd_cur) tr s /\
               producer_blocked c_appsd_cur s = true /\ all_counts_in 1 1 tr = true.
Proof. witness tr_appsd. vm_compute. split; reflexivity. Qed.
