(* C15 -- agent and daemon agree on the wire schema and shared limits.  Statements only. *)
From Coq Require Import NArith ZArith String List Bool.
From Verif Require Import SchemaTypes Flatbuf FlatbufProofs Schema SchemaProofs.
From Verif.Gen Require Import Schema_gen SharedLimits_gen.
Import ListNotations.
Open Scope string_scope.

(* The three renderings of the protocol -- protocol.fbs, the daemon's generated Go getters / builders /
   constants, the agent's hand-maintained enums and their use in the transmit code -- are equal table by
   table and field by field: slot numbers, vtable offsets (4 + 2*slot), field kinds, defaults, field
   counts, enum values, union tags, struct member offsets / size / alignment, vector element layout.
   The domain is the whole schema as extracted from the current tree. *)
Theorem C15_tables_agree :
  map read_view fbs_tables = go_read_tables /\
  map build_view fbs_tables = go_build_tables /\
  map slot_view fbs_tables = c_slot_tables /\
  fbs_enums = go_enums /\ fbs_enums = c_enums /\ fbs_enum_bases = go_enum_bases /\
  fbs_structs = go_struct_read /\ fbs_structs = go_struct_build /\
  map struct_offsets fbs_structs = c_struct_offsets /\
  incl c_struct_builds (map struct_shape fbs_structs) /\
  fbs_vectors = go_vectors /\
  incl c_uses coarse_uses /\ incl go_mutators read_triples /\
  Forall (fun o : string * list string => snd o = [fst o] \/ snd o = []) c_objects.
Proof. exact tables_agree_holds. Qed.
Print Assumptions C15_tables_agree.

(* Every limit documented as shared has the same value on both sides (and was found on both sides). *)
Theorem C15_shared_limits_equal :
  Forall (fun p : string * option Z * string * option Z => let '(_, cv, _, gv) := p in cv = gv /\ cv <> None)
         shared_limits /\
  Forall (fun p : string * option string * string * option string => let '(_, cv, _, gv) := p in cv = gv /\ cv <> None)
         shared_strings.
Proof. exact shared_limits_equal. Qed.
Print Assumptions C15_shared_limits_equal.

(* Generic flatbuffers table, any schema, any value type with at least two values: for a builder slot map
   sigma usable with StartObject(n), the reader's slot map sigma' gives every field name the same slot and
   default as sigma  IF AND ONLY IF  every message built with sigma decodes with sigma' to exactly the
   fields that were sent.  So equality of the renderings is exactly the condition. *)
Theorem C15_roundtrip_generic :
  forall (V : Type) (V_eq_dec : forall a b : V, {a = b} + {a <> b}) (other : V -> V),
  (forall v, other v <> v) ->
  forall (sigma sigma' : slotmap V) (n : N), wf sigma n ->
  ((forall f, lookup f sigma' = lookup f sigma) <->
   (forall vals f, NoDup (map fst vals) ->
      read sigma' (build V_eq_dec sigma n vals) f = sent sigma vals f)).
Proof. exact roundtrip_iff. Qed.
Print Assumptions C15_roundtrip_generic.

(* and the witness direction spelled out: a field on which the maps differ has a message that decodes wrongly *)
Theorem C15_roundtrip_differs :
  forall (V : Type) (V_eq_dec : forall a b : V, {a = b} + {a <> b}) (other : V -> V),
  (forall v, other v <> v) ->
  forall (sigma sigma' : slotmap V) (n : N) (f : string),
  lookup f sigma' <> lookup f sigma ->
  exists vals, NoDup (map fst vals) /\ read sigma' (build V_eq_dec sigma n vals) f <> sent sigma vals f.
Proof. exact roundtrip_differs. Qed.
Print Assumptions C15_roundtrip_differs.

(* The real protocol: every table, every message.  Built with the agent's numbers and read with the daemon's
   getters; built with the daemon's builders and read with the agent's numbers; daemon to daemon. *)
Theorem C15_roundtrip_real : forall T vals f, NoDup (map fst vals) ->
  read (snd (sigma_go_read T)) (build Z.eq_dec (snd (sigma_c T)) (fst (sigma_c T)) vals) f
    = sent (snd (sigma_c T)) vals f /\
  read (snd (sigma_c T)) (build Z.eq_dec (snd (sigma_go_build T)) (fst (sigma_go_build T)) vals) f
    = sent (snd (sigma_go_build T)) vals f /\
  read (snd (sigma_go_read T)) (build Z.eq_dec (snd (sigma_go_build T)) (fst (sigma_go_build T)) vals) f
    = sent (snd (sigma_go_build T)) vals f.
Proof. exact real_roundtrip. Qed.
Print Assumptions C15_roundtrip_real.
