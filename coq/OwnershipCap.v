(* OwnershipCap.v -- C17, layer 1: every run of the capability machine (each object has one
   exclusive owner or only readers; claims move only along go / release / acquire) is accepted by
   the vector-clock checker, hence free of data races. *)
From Coq Require Import Arith List Bool Lia Permutation.
From Verif Require Import Ownership OwnershipSound.
Import ListNotations.

Definition hvc (st : rstate) (h : holder) : vc :=
  match h with HG g => C st g | HS s => L st s end.
Definition vle (a b : vc) : Prop := forall g, a g <= b g.

Lemma vle_refl a : vle a a.
Proof. intros g. lia. Qed.

Lemma known_mono v v' s : vle v v' -> known v s = true -> known v' s = true.
Proof. intros H K. apply known_le in K. apply known_le. specialize (H (st_g s)). lia. Qed.
Lemma wknown_mono v v' w : vle v v' -> wknown v w = true -> wknown v' w = true.
Proof. destruct w; simpl; [apply known_mono | auto]. Qed.
Lemma rknown_mono v v' l : vle v v' -> forallb (known v) l = true -> forallb (known v') l = true.
Proof.
  intros H K. rewrite forallb_forall in *. intros x Hx. eapply known_mono; eauto.
Qed.

(* ---- "each object has one owner": an object with an exclusive claim has no other claim *)
Definition sig (cl : list claim) : list (obj * mode) := map (fun c => (cobj c, cmode c)) cl.
Definition objs (cl : list claim) : list obj := map cobj cl.
Definition excl (cl : list claim) : Prop :=
  forall o, In (o, MX) (sig cl) -> count_occ Nat.eq_dec (objs cl) o = 1.

Lemma sig_give h xs : sig (give h xs) = xs.
Proof.
  unfold sig, give. rewrite map_map. unfold cobj, cmode. simpl.
  induction xs as [|[o m] xs IH]; simpl; [reflexivity | now rewrite IH].
Qed.
Lemma objs_give h xs : objs (give h xs) = map fst xs.
Proof. unfold objs, give. rewrite map_map. reflexivity. Qed.
Lemma sig_app a b : sig (a ++ b) = sig a ++ sig b.
Proof. unfold sig. apply map_app. Qed.
Lemma objs_app a b : objs (a ++ b) = objs a ++ objs b.
Proof. unfold objs. apply map_app. Qed.

Lemma excl_by_shape cl cl' :
  Permutation (sig cl) (sig cl') -> Permutation (objs cl) (objs cl') -> excl cl -> excl cl'.
Proof.
  intros Hs Ho E o Hin.
  rewrite <- (proj1 (Permutation_count_occ Nat.eq_dec _ _) Ho o).
  apply E. eapply Permutation_in; [apply Permutation_sym; exact Hs | exact Hin].
Qed.

Lemma excl_perm cl cl' : Permutation cl cl' -> excl cl -> excl cl'.
Proof.
  intros P. apply excl_by_shape; unfold sig, objs; now apply Permutation_map.
Qed.

Lemma in_sig c cl : In c cl -> In (cobj c, cmode c) (sig cl).
Proof. intros H. unfold sig. apply in_map_iff. exists c. auto. Qed.
Lemma in_objs c cl : In c cl -> In (cobj c) (objs cl).
Proof. intros H. unfold objs. now apply in_map. Qed.

(* under excl, an exclusive claim on o is the only claim on o *)
Lemma excl_unique cl h o c2 :
  excl cl -> In (h, o, MX) cl -> In c2 cl -> cobj c2 = o -> c2 = (h, o, MX).
Proof.
  intros E H1 H2 Ho.
  pose proof (E o (in_sig (h, o, MX) cl H1)) as Hc.
  destruct (in_split _ _ H1) as [l1 [l2 Hcl]]. subst cl.
  rewrite objs_app, count_occ_app in Hc.
  change (objs ((h, o, MX) :: l2)) with (o :: objs l2) in Hc.
  rewrite count_occ_cons_eq in Hc by reflexivity.
  apply in_app_or in H2. simpl in H2.
  unfold obj in *.
  assert (Hn1 : ~ In o (objs l1)) by (apply (count_occ_not_In Nat.eq_dec); lia).
  assert (Hn2 : ~ In o (objs l2)) by (apply (count_occ_not_In Nat.eq_dec); lia).
  destruct H2 as [H2|[H2|H2]].
  - exfalso. apply Hn1. rewrite <- Ho. now apply in_objs.
  - now symmetry.
  - exfalso. apply Hn2. rewrite <- Ho. now apply in_objs.
Qed.

(* ---- the invariant between the machine and the checker *)
Record Kinv (s : cstate) (st : rstate) : Prop := {
  k_excl : excl (c_cl s);
  k_w : forall h o m, In (h, o, m) (c_cl s) -> wknown (hvc st h) (W st o) = true;
  k_r : forall h o, In (h, o, MX) (c_cl s) -> forallb (known (hvc st h)) (R st o) = true;
  k_lt : forall h o m, In (h, o, m) (c_cl s) -> o < c_next s;
  k_fresh : forall o, c_next s <= o -> W st o = None /\ R st o = []
}.

Lemma kinv_init : Kinv cinit rinit.
Proof.
  constructor; simpl; try contradiction; auto.
  intros o H. contradiction.
Qed.

(* moving claims from holder h to holder h2 along an edge that makes h2 at least as informed *)
Lemma move_kinv s s' st st' h h2 xs rest :
  Permutation (c_cl s) (give h xs ++ rest) -> Permutation (c_cl s') (give h2 xs ++ rest) ->
  c_next s' = c_next s -> W st' = W st -> R st' = R st ->
  (forall h0, vle (hvc st h0) (hvc st' h0)) -> vle (hvc st h) (hvc st' h2) ->
  Kinv s st -> Kinv s' st'.
Proof.
  intros P1 P2 Hn HW HR Hmono Hmove K.
  assert (Hsrc : forall h0 o m, In (h0, o, m) (c_cl s') ->
                   (h0 = h2 /\ In (h, o, m) (c_cl s)) \/ In (h0, o, m) (c_cl s)).
  { intros h0 o m Hin. eapply Permutation_in in Hin; [|exact P2].
    apply in_app_or in Hin. destruct Hin as [Hin|Hin].
    - left. unfold give in Hin. apply in_map_iff in Hin. destruct Hin as [[o1 m1] [Heq Hx]].
      simpl in Heq. inversion Heq; subst. split; [reflexivity|].
      eapply Permutation_in; [apply Permutation_sym; exact P1|].
      apply in_or_app. left. unfold give. apply in_map_iff. exists (o, m). auto.
    - right. eapply Permutation_in; [apply Permutation_sym; exact P1|]. apply in_or_app. now right. }
  constructor.
  - eapply excl_by_shape; [| |exact (k_excl _ _ K)].
    + eapply Permutation_trans; [apply Permutation_map; exact P1|].
      eapply Permutation_trans; [|apply Permutation_sym; apply Permutation_map; exact P2].
      fold (sig (give h xs ++ rest)). fold (sig (give h2 xs ++ rest)).
      rewrite !sig_app, !sig_give. apply Permutation_refl.
    + eapply Permutation_trans; [apply Permutation_map; exact P1|].
      eapply Permutation_trans; [|apply Permutation_sym; apply Permutation_map; exact P2].
      fold (objs (give h xs ++ rest)). fold (objs (give h2 xs ++ rest)).
      rewrite !objs_app, !objs_give. apply Permutation_refl.
  - intros h0 o m Hin. rewrite HW. destruct (Hsrc _ _ _ Hin) as [[-> Hin']|Hin'].
    + eapply wknown_mono; [exact Hmove|]. eapply (k_w _ _ K); eauto.
    + eapply wknown_mono; [apply Hmono|]. eapply (k_w _ _ K); eauto.
  - intros h0 o Hin. rewrite HR. destruct (Hsrc _ _ _ Hin) as [[-> Hin']|Hin'].
    + eapply rknown_mono; [exact Hmove|]. eapply (k_r _ _ K); eauto.
    + eapply rknown_mono; [apply Hmono|]. eapply (k_r _ _ K); eauto.
  - intros h0 o m Hin. rewrite Hn. destruct (Hsrc _ _ _ Hin) as [[-> Hin']|Hin'];
      eapply (k_lt _ _ K); eauto.
  - intros o Ho. rewrite HW, HR. apply (k_fresh _ _ K). lia.
Qed.

(* a ghost step: the claims change, the checker state does not *)
Lemma ghost_kinv s s' st :
  excl (c_cl s') -> c_next s <= c_next s' ->
  (forall h o m, In (h, o, m) (c_cl s') ->
     (exists m', In (h, o, m') (c_cl s)) \/ (c_next s <= o /\ o < c_next s')) ->
  (forall h o, In (h, o, MX) (c_cl s') -> In (h, o, MX) (c_cl s) \/ (c_next s <= o /\ o < c_next s')) ->
  Kinv s st -> Kinv s' st.
Proof.
  intros E Hn Hsrc HsrcX K. constructor; auto.
  - intros h o m Hin. destruct (Hsrc _ _ _ Hin) as [[m' Hin']|[Ho _]].
    + eapply (k_w _ _ K); eauto.
    + destruct (k_fresh _ _ K o Ho) as [-> _]. reflexivity.
  - intros h o Hin. destruct (HsrcX _ _ Hin) as [Hin'|[Ho _]].
    + eapply (k_r _ _ K); eauto.
    + destruct (k_fresh _ _ K o Ho) as [_ ->]. reflexivity.
  - intros h o m Hin. destruct (Hsrc _ _ _ Hin) as [[m' Hin']|[_ Ho]]; [|exact Ho].
    pose proof (k_lt _ _ K _ _ _ Hin'). lia.
  - intros o Ho. apply (k_fresh _ _ K). lia.
Qed.

Lemma cstep_kinv s a s' st n :
  cstep s a s' -> Kinv s st -> exists st', rrun st n (erase1 a) = Some st' /\ Kinv s' st'.
Proof.
  intros Hstep K. inversion Hstep; subst; simpl.
  - (* read *)
    rename H into Hin, H0 into P, H1 into Hn.
    pose proof (k_w _ _ K _ _ _ Hin) as Hk. simpl in Hk. rewrite Hk.
    eexists. split; [reflexivity|].
    assert (Hback : forall c, In c (c_cl s') -> In c (c_cl s)).
    { intros c Hc. eapply Permutation_in; [apply Permutation_sym; exact P | exact Hc]. }
    constructor; simpl.
    + eapply excl_perm; [exact P | exact (k_excl _ _ K)].
    + intros h o0 m0 Hc. assert (hvc {| C := C st; L := L st; W := W st; R := upd (R st) o
          ({| st_idx := n; st_g := g; st_c := C st g g |} :: R st o) |} h = hvc st h) as -> by (destruct h; reflexivity).
      eapply (k_w _ _ K); eauto.
    + intros h o0 Hc. apply Hback in Hc.
      assert (hvc {| C := C st; L := L st; W := W st; R := upd (R st) o
          ({| st_idx := n; st_g := g; st_c := C st g g |} :: R st o) |} h = hvc st h) as -> by (destruct h; reflexivity).
      unfold upd. destruct (o0 =? o) eqn:Eo.
      * apply Nat.eqb_eq in Eo. subst o0.
        pose proof (excl_unique _ _ _ _ (k_excl _ _ K) Hc Hin eq_refl) as Heq.
        inversion Heq; subst. pose proof (k_r _ _ K _ _ Hc) as Hr0. simpl in Hr0.
        simpl. rewrite Hr0. unfold known. simpl. rewrite Nat.leb_refl. reflexivity.
      * eapply (k_r _ _ K); eauto.
    + intros h o0 m0 Hc. rewrite Hn. eapply (k_lt _ _ K); eauto.
    + intros o0 Ho. rewrite Hn in Ho. destruct (k_fresh _ _ K o0 Ho) as [HW HR]. split; [exact HW|].
      rewrite upd_other; [exact HR|]. pose proof (k_lt _ _ K _ _ _ Hin). lia.
  - (* write *)
    rename H into Hin, H0 into P, H1 into Hn.
    pose proof (k_w _ _ K _ _ _ Hin) as Hk. simpl in Hk. rewrite Hk.
    pose proof (k_r _ _ K _ _ Hin) as Hkr. simpl in Hkr. rewrite Hkr. simpl.
    eexists. split; [reflexivity|].
    assert (Hback : forall c, In c (c_cl s') -> In c (c_cl s)).
    { intros c Hc. eapply Permutation_in; [apply Permutation_sym; exact P | exact Hc]. }
    constructor; simpl.
    + eapply excl_perm; [exact P | exact (k_excl _ _ K)].
    + intros h o0 m0 Hc. apply Hback in Hc.
      assert (hvc {| C := C st; L := L st; W := upd (W st) o
          (Some {| st_idx := n; st_g := g; st_c := C st g g |}); R := R st |} h = hvc st h) as -> by (destruct h; reflexivity).
      unfold upd. destruct (o0 =? o) eqn:Eo.
      * apply Nat.eqb_eq in Eo. subst o0.
        pose proof (excl_unique _ _ _ _ (k_excl _ _ K) Hin Hc eq_refl) as Heq.
        inversion Heq; subst. simpl. unfold known. simpl. apply Nat.leb_refl.
      * eapply (k_w _ _ K); eauto.
    + intros h o0 Hc.
      assert (hvc {| C := C st; L := L st; W := upd (W st) o
          (Some {| st_idx := n; st_g := g; st_c := C st g g |}); R := R st |} h = hvc st h) as -> by (destruct h; reflexivity).
      eapply (k_r _ _ K); eauto.
    + intros h o0 m0 Hc. rewrite Hn. eapply (k_lt _ _ K); eauto.
    + intros o0 Ho. rewrite Hn in Ho. destruct (k_fresh _ _ K o0 Ho) as [HW HR]. split; [|exact HR].
      rewrite upd_other; [exact HW|]. pose proof (k_lt _ _ K _ _ _ Hin). lia.
  - (* go *)
    rename H into Hgc, H0 into P1, H1 into P2, H2 into Hn.
    apply Nat.eqb_neq in Hgc. rewrite Hgc. apply Nat.eqb_neq in Hgc.
    eexists. split; [reflexivity|].
    eapply (move_kinv s s' st _ (HG g) (HG c)); eauto.
    + intros h0 x. destruct h0 as [g0|s0]; simpl; [|lia].
      destruct (Nat.eq_dec g0 g) as [->|Hg0].
      * rewrite upd_same. apply vinc_ge.
      * rewrite upd_other by assumption. destruct (Nat.eq_dec g0 c) as [->|Hc0].
        -- rewrite upd_same. unfold vjoin. lia.
        -- rewrite upd_other by assumption. lia.
    + intros x. simpl. rewrite upd_other by congruence. rewrite upd_same. unfold vjoin. lia.
  - (* release *)
    rename H into P1, H0 into P2, H1 into Hn.
    eexists. split; [reflexivity|].
    eapply (move_kinv s s' st _ (HG g) (HS sy)); eauto.
    + intros h0 x. destruct h0 as [g0|s0]; simpl.
      * destruct (Nat.eq_dec g0 g) as [->|Hg0].
        -- rewrite upd_same. apply vinc_ge.
        -- rewrite upd_other by assumption. lia.
      * destruct (Nat.eq_dec s0 sy) as [->|Hs0].
        -- rewrite upd_same. unfold vjoin. lia.
        -- rewrite upd_other by assumption. lia.
    + intros x. simpl. rewrite upd_same. unfold vjoin. lia.
  - (* acquire *)
    rename H into P1, H0 into P2, H1 into Hn.
    eexists. split; [reflexivity|].
    eapply (move_kinv s s' st _ (HS sy) (HG g)); eauto.
    + intros h0 x. destruct h0 as [g0|s0]; simpl; [|lia].
      destruct (Nat.eq_dec g0 g) as [->|Hg0].
      * rewrite upd_same. unfold vjoin. lia.
      * rewrite upd_other by assumption. lia.
    + intros x. simpl. rewrite upd_same. unfold vjoin. lia.
  - (* new *)
    rename H0 into P, H1 into Hn.
    exists st. split; [reflexivity|].
    assert (Hsrc : forall h o m, In (h, o, m) (c_cl s') ->
                     In (h, o, m) (c_cl s) \/ (c_next s <= o /\ o < c_next s')).
    { intros h o m Hin. eapply Permutation_in in Hin; [|exact P]. destruct Hin as [Heq|Hin]; [|now left].
      inversion Heq; subst. right. lia. }
    apply (ghost_kinv s s' st); [ | lia | | | exact K].
    + (* excl *)
      intros o Hin. unfold objs.
      rewrite (proj1 (Permutation_count_occ Nat.eq_dec _ _)
                 (Permutation_map cobj P) o).
      simpl. unfold cobj at 1. simpl.
      destruct (Nat.eq_dec (c_next s) o) as [<-|Hne].
      * assert (Hni : ~ In (c_next s) (objs (c_cl s))).
        { intros Hi. unfold objs in Hi. apply in_map_iff in Hi. destruct Hi as [[[h1 o1] m1] [Ho1 Hi]].
          unfold cobj in Ho1. simpl in Ho1. subst o1. pose proof (k_lt _ _ K _ _ _ Hi). lia. }
        apply (count_occ_not_In Nat.eq_dec) in Hni. unfold objs in Hni. rewrite Hni. reflexivity.
      * apply (k_excl _ _ K).
        eapply Permutation_in in Hin; [|apply Permutation_map; exact P]. simpl in Hin.
        destruct Hin as [Heq|Hin]; [|exact Hin]. unfold cobj, cmode in Heq. simpl in Heq. congruence.
    + intros h o m Hin. destruct (Hsrc _ _ _ Hin) as [Hin'|Hf]; [left; eauto | now right].
    + intros h o Hin. apply (Hsrc h o MX Hin).
  - (* freeze *)
    rename H into P1, H0 into P2, H1 into Hn.
    exists st. split; [reflexivity|].
    assert (Hgo : In (HG g, o, MX) (c_cl s)).
    { eapply Permutation_in; [apply Permutation_sym; exact P1|]. now left. }
    assert (Hsrc : forall h o0 m, In (h, o0, m) (c_cl s') ->
                     (m = MR /\ h = HG g /\ o0 = o) \/ In (h, o0, m) (c_cl s)).
    { intros h o0 m Hin. eapply Permutation_in in Hin; [|exact P2]. destruct Hin as [Heq|Hin].
      - left. inversion Heq; auto.
      - right. eapply Permutation_in; [apply Permutation_sym; exact P1|]. now right. }
    apply (ghost_kinv s s' st); [ | lia | | | exact K].
    + intros o0 Hin.
      assert (Hobjs : Permutation (objs (c_cl s)) (objs (c_cl s'))).
      { eapply Permutation_trans; [apply Permutation_map; exact P1|].
        eapply Permutation_trans; [|apply Permutation_sym; apply Permutation_map; exact P2].
        simpl. apply Permutation_refl. }
      rewrite <- (proj1 (Permutation_count_occ Nat.eq_dec _ _) Hobjs o0).
      apply (k_excl _ _ K).
      eapply Permutation_in in Hin; [|apply Permutation_map; exact P2]. simpl in Hin.
      destruct Hin as [Heq|Hin]; [unfold cobj, cmode in Heq; simpl in Heq; congruence|].
      eapply Permutation_in; [apply Permutation_sym; apply Permutation_map; exact P1|]. now right.
    + intros h o0 m Hin. left. destruct (Hsrc _ _ _ Hin) as [[-> [-> ->]]|Hin']; eauto.
    + intros h o0 Hin. left. destruct (Hsrc _ _ _ Hin) as [[Hm _]|Hin']; [discriminate|exact Hin'].
  - (* drop *)
    rename H into P, H0 into Hn.
    exists st. split; [reflexivity|].
    assert (Hsub : forall c, In c (c_cl s') -> In c (c_cl s)).
    { intros c Hc. eapply Permutation_in; [apply Permutation_sym; exact P|]. now right. }
    apply (ghost_kinv s s' st); [ | lia | | | exact K].
    + intros o0 Hin.
      assert (Hin0 : In (o0, MX) (sig (c_cl s))).
      { eapply Permutation_in; [apply Permutation_sym; apply Permutation_map; exact P|]. now right. }
      pose proof (k_excl _ _ K o0 Hin0) as Hc. unfold objs in Hc.
      rewrite (proj1 (Permutation_count_occ Nat.eq_dec _ _) (Permutation_map cobj P) o0) in Hc.
      simpl in Hc.
      assert (Hpos : count_occ Nat.eq_dec (objs (c_cl s')) o0 > 0).
      { apply (count_occ_In Nat.eq_dec). unfold sig in Hin. apply in_map_iff in Hin.
        destruct Hin as [c [Hc1 Hc2]]. inversion Hc1; subst. now apply in_objs. }
      unfold objs in *. destruct (Nat.eq_dec (cobj (HG g, o, m)) o0); lia.
    + intros h o0 m0 Hin. left. eauto.
    + intros h o0 Hin. left. eauto.
  - (* dup *)
    rename H into Hin0, H0 into P, H1 into Hn.
    exists st. split; [reflexivity|].
    assert (Hsrc : forall c, In c (c_cl s') -> In c (c_cl s)).
    { intros c Hc. eapply Permutation_in in Hc; [|exact P]. destruct Hc as [<-|Hc]; assumption. }
    apply (ghost_kinv s s' st); [ | lia | | | exact K].
    + intros o0 Hin.
      assert (Hin1 : In (o0, MX) (sig (c_cl s))).
      { eapply Permutation_in in Hin; [|apply Permutation_map; exact P]. simpl in Hin.
        destruct Hin as [Heq|Hin]; [unfold cobj, cmode in Heq; simpl in Heq; congruence | exact Hin]. }
      unfold objs.
      rewrite (proj1 (Permutation_count_occ Nat.eq_dec _ _) (Permutation_map cobj P) o0).
      simpl. unfold cobj at 1. simpl.
      destruct (Nat.eq_dec o o0) as [<-|Hne]; [|apply (k_excl _ _ K); exact Hin1].
      exfalso. unfold sig in Hin1. apply in_map_iff in Hin1. destruct Hin1 as [[[h1 o1] m1] [Hc1 Hc2]].
      unfold cobj, cmode in Hc1. simpl in Hc1. inversion Hc1; subst.
      pose proof (excl_unique _ _ _ _ (k_excl _ _ K) Hc2 Hin0 eq_refl) as Heq. discriminate.
    + intros h o0 m0 Hin. left. eauto.
    + intros h o0 Hin. left. eauto.
Qed.

Lemma rrun_app st n l1 l2 st1 :
  rrun st n l1 = Some st1 -> rrun st n (l1 ++ l2) = rrun st1 (n + length l1) l2.
Proof.
  revert st n. induction l1 as [|e l1 IH]; intros st n H; simpl in *.
  - inversion H; subst. now rewrite Nat.add_0_r.
  - destruct (rstep st n e) as [st'|]; [|discriminate].
    rewrite (IH _ _ H). f_equal. lia.
Qed.

Lemma crun_kinv s atr s' : crun s atr s' -> forall st n, Kinv s st ->
  exists st', rrun st n (erase atr) = Some st' /\ Kinv s' st'.
Proof.
  induction 1 as [s|s a s1 l s2 Hstep Hrun IH]; intros st n K.
  - exists st. split; [reflexivity|exact K].
  - destruct (cstep_kinv _ _ _ st n Hstep K) as [st1 [Hr1 K1]].
    destruct (IH st1 (n + length (erase1 a)) K1) as [st2 [Hr2 K2]].
    exists st2. split; [|exact K2].
    simpl. rewrite (rrun_app _ _ _ _ _ Hr1). exact Hr2.
Qed.

(* every disciplined trace is accepted by the checker ... *)
Theorem disciplined_race_free tr : disciplined tr -> race_free tr = true.
Proof.
  intros [atr [s [Hrun <-]]].
  destruct (crun_kinv _ _ _ Hrun rinit 0 kinv_init) as [st' [Hr _]].
  unfold race_free. now rewrite Hr.
Qed.

(* ... hence has no two conflicting accesses unordered by happens-before *)
Corollary disciplined_drf tr : disciplined tr -> data_race_free tr.
Proof. intros H. apply race_free_sound. now apply disciplined_race_free. Qed.
