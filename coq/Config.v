(* Config.v -- model of the daemon's settings resolution (C19).  Definitions only.

   Go code modelled (as of /repo HEAD, after fix 4bb5693):
     internal/newrelic/config/config.go     Decoder.Decode and the lex* state functions, processKeyword,
                                            getTypeInfo (through Gen/Flags_gen.v: fd_tag), FlagParserShim
     internal/newrelic/config/unmarshal.go  unmarshalValue per kind
     internal/newrelic/config/timeout.go    Timeout.UnmarshalText
     internal/newrelic/log/log.go           Level.Set / UnmarshalText (parseAxiomLevel)
     cmd/daemon/main.go                     createDaemonFlagSet / createLegacyFlagSet (Gen/Flags_gen.v),
                                            DaemonFlagSet.Parse, parseConfigFile, configure
     $GOROOT/src/flag/flag.go               FlagSet.Parse / parseOne
     $GOROOT/src/strconv, time, unicode/utf8, bytes: ParseInt/ParseUint/ParseBool, ParseDuration,
                                            DecodeRune/DecodeLastRune/EncodeRune, TrimRightFunc, IndexAny

   Conventions.  A Go string / []byte is a `list N` of bytes.  A rune is an N.  The input reader never
   fails other than by EOF (strings.Reader / a regular file).  Every flag and every file assignment only
   OVERWRITES one Config field with a value that does not depend on the current Config, so a parse is
   modelled as the ordered list of its `effect`s (field, value) plus a status, and the Config after the
   parse is `apply_effects`.  The Config state left behind by a parse that FAILED is not modelled beyond
   the effects before the failure (configure discards it: cfg = defaultCfg). *)
From Coq Require Import NArith ZArith List Bool.
From Verif Require Import ConfigBase.
Import ListNotations.
Open Scope N_scope.

(* ------------------------------------------------------------------ UTF-8 (unicode/utf8) *)

Definition rune_error : N := 65533.
Definition is_cont (b : N) : bool := (128 <=? b) && (b <=? 191).

(* utf8.DecodeRune as used by bufio.Reader.ReadRune: None at EOF, otherwise the rune and the remaining
   input; an invalid or truncated encoding yields U+FFFD and consumes ONE byte. *)
Definition decode_rune (l : bytes) : option (N * bytes) :=
  match l with
  | [] => None
  | b0 :: t0 =>
    if b0 <? 128 then Some (b0, t0)
    else
      let bad := Some (rune_error, t0) in
      if (b0 <? 194) || (244 <? b0) then bad
      else match t0 with
      | [] => bad
      | b1 :: t1 =>
        if b0 <? 224 then
          if is_cont b1 then Some (N.land b0 31 * 64 + N.land b1 63, t1) else bad
        else
          let lo := if b0 =? 224 then 160 else if b0 =? 240 then 144 else 128 in
          let hi := if b0 =? 237 then 159 else if b0 =? 244 then 143 else 191 in
          if negb ((lo <=? b1) && (b1 <=? hi)) then bad
          else match t1 with
          | [] => bad
          | b2 :: t2 =>
            if negb (is_cont b2) then bad
            else if b0 <? 240 then
              Some (N.land b0 15 * 4096 + N.land b1 63 * 64 + N.land b2 63, t2)
            else match t2 with
            | [] => bad
            | b3 :: t3 =>
              if is_cont b3 then
                Some (N.land b0 7 * 262144 + N.land b1 63 * 4096 + N.land b2 63 * 64 + N.land b3 63, t3)
              else bad
            end
          end
      end
  end.

(* utf8.AppendRune / bytes.Buffer.WriteRune *)
Definition encode_rune (r : N) : bytes :=
  if r <? 128 then [r]
  else if r <? 2048 then [192 + r / 64; 128 + r mod 64]
  else if (r <? 55296) || ((57343 <? r) && (r <? 65536)) then
    [224 + r / 4096; 128 + (r / 64) mod 64; 128 + r mod 64]
  else if (65536 <=? r) && (r <=? 1114111) then
    [240 + r / 262144; 128 + (r / 4096) mod 64; 128 + (r / 64) mod 64; 128 + r mod 64]
  else [239; 191; 189].

(* utf8.DecodeLastRune on the REVERSED slice: (rune, size).  The nearest rune start among the 2nd..4th
   byte from the end is tried; the decoding must end exactly at the end. *)
Definition try_last (bs : bytes) : N * nat :=
  match decode_rune bs with
  | Some (r, []) => (r, length bs)
  | _ => (rune_error, 1%nat)
  end.

Definition decode_last_rev (rp : bytes) : N * nat :=
  match rp with
  | [] => (rune_error, 0%nat)
  | l0 :: t =>
    if l0 <? 128 then (l0, 1%nat)
    else match t with
    | [] => (rune_error, 1%nat)
    | l1 :: t1 =>
      if negb (is_cont l1) then try_last [l1; l0]
      else match t1 with
      | [] => (rune_error, 1%nat)
      | l2 :: t2 =>
        if negb (is_cont l2) then try_last [l2; l1; l0]
        else match t2 with
        | [] => (rune_error, 1%nat)
        | l3 :: _ => if negb (is_cont l3) then try_last [l3; l2; l1; l0] else (rune_error, 1%nat)
        end
      end
    end
  end.

(* ------------------------------------------------------------------ byte-string helpers *)

Definition mem (x : N) (l : bytes) : bool := existsb (N.eqb x) l.

(* bufio.Reader.ReadBytes(delim): the bytes up to and INCLUDING the first delim, whether it was found,
   and the rest of the input *)
Fixpoint read_bytes (d : N) (inp : bytes) : bytes * bool * bytes :=
  match inp with
  | [] => ([], false, [])
  | b :: r =>
    if b =? d then ([b], true, r)
    else let '(v, f, rest) := read_bytes d r in (b :: v, f, rest)
  end.

(* the Go slice expression s[:n]: None = index out of range (run-time panic) *)
Definition slice_to (s : bytes) (n : Z) : option bytes :=
  if (n <? 0)%Z || (Z.of_nat (length s) <? n)%Z then None else Some (firstn (Z.to_nat n) s).

(* stripTrailingComment: cut at the first '#' or ';' (bytes.IndexAny) *)
Fixpoint strip_comment (s : bytes) : bytes :=
  match s with
  | [] => []
  | b :: r => if (b =? 35) || (b =? 59) then [] else b :: strip_comment r
  end.

(* strings.NewReplacer(`\b`,..,`\\`): left to right, non-overlapping; an unlisted pair is left alone *)
Definition unescape_char (c : N) : option N :=
  if c =? 98 then Some 8 else if c =? 116 then Some 9 else if c =? 110 then Some 10
  else if c =? 118 then Some 11 else if c =? 102 then Some 12 else if c =? 114 then Some 13
  else if c =? 34 then Some 34 else if c =? 92 then Some 92 else None.

Fixpoint unescape (s : bytes) : bytes :=
  match s with
  | [] => []
  | b :: r =>
    if b =? 92 then
      match r with
      | [] => [b]
      | c :: r' =>
        match unescape_char c with
        | Some x => x :: unescape r'
        | None => b :: unescape r
        end
      end
    else b :: unescape r
  end.

(* lexComment: ReadLine until a complete line has been consumed *)
Fixpoint drop_line (inp : bytes) : bytes :=
  match inp with
  | [] => []
  | b :: r => if b =? 10 then r else drop_line r
  end.

Definition lower_ascii (b : N) : N := if (65 <=? b) && (b <=? 90) then b + 32 else b.
Definition is_digit (b : N) : bool := (48 <=? b) && (b <=? 57).
Definition all_ascii (s : bytes) : bool := forallb (fun b => b <? 128) s.

(* ------------------------------------------------------------------ value parsers *)

(* result of a value parser; PUnsup: outside the syntax this model covers (stated at each parser) *)
Inductive pres (A : Type) := POk (a : A) | PErr | PUnsup.
Arguments POk {A} a.
Arguments PErr {A}.
Arguments PUnsup {A}.

Definition pmap {A B} (f : A -> B) (p : pres A) : pres B :=
  match p with POk a => POk (f a) | PErr => PErr | PUnsup => PUnsup end.

(* strconv.ParseBool, exact *)
Definition parse_bool_flag (s : bytes) : option bool :=
  if bytes_eqb s [49] || bytes_eqb s [116] || bytes_eqb s [84] || bytes_eqb s [116;114;117;101]
     || bytes_eqb s [84;82;85;69] || bytes_eqb s [84;114;117;101] then Some true
  else if bytes_eqb s [48] || bytes_eqb s [102] || bytes_eqb s [70] || bytes_eqb s [102;97;108;115;101]
     || bytes_eqb s [70;65;76;83;69] || bytes_eqb s [70;97;108;115;101] then Some false
  else None.

(* unmarshalBool: bytes.ToLower, then y/yes/on/n/no/off, else strconv.ParseBool of the lowered text.
   Exact: no non-ASCII rune lower-cases into one of these ASCII words (the only non-ASCII runes with an
   ASCII lower case are U+212A -> k and U+0130 -> i), so a value with a byte >= 128 is an error. *)
Definition parse_bool_word (s : bytes) : option bool :=
  if negb (all_ascii s) then None
  else
    let l := map lower_ascii s in
    if bytes_eqb l [121] || bytes_eqb l [121;101;115] || bytes_eqb l [111;110] then Some true
    else if bytes_eqb l [110] || bytes_eqb l [110;111] || bytes_eqb l [111;102;102] then Some false
    else parse_bool_flag l.

(* strconv.ParseUint(s, 0, 64): base prefixes 0x 0o 0b and leading 0 (octal), '_' separators *)
Inductive usaw := SawStart | SawDigit | SawUnder | SawOther.

Fixpoint uok_loop (hex : bool) (s : bytes) (saw : usaw) : bool :=
  match s with
  | [] => match saw with SawUnder => false | _ => true end
  | c :: r =>
    let lc := N.lor c 32 in
    if is_digit c || (hex && (97 <=? lc) && (lc <=? 102)) then uok_loop hex r SawDigit
    else if c =? 95 then
      match saw with SawDigit => uok_loop hex r SawUnder | _ => false end
    else match saw with SawUnder => false | _ => uok_loop hex r SawOther end
  end.

Definition underscore_ok (s : bytes) : bool :=
  let s1 := match s with c :: r => if (c =? 45) || (c =? 43) then r else s | [] => s end in
  match s1 with
  | 48 :: c :: r =>
    let lc := N.lor c 32 in
    if (lc =? 98) || (lc =? 111) || (lc =? 120) then uok_loop (lc =? 120) r SawDigit
    else uok_loop false s1 SawStart
  | _ => uok_loop false s1 SawStart
  end.

Definition two64 : N := 18446744073709551616.
Definition two63 : N := 9223372036854775808.

(* the digit loop: None = syntax or range error; Some (n, saw an underscore) *)
Fixpoint uint_digits (base : N) (s : bytes) (n : N) (us : bool) : option (N * bool) :=
  match s with
  | [] => Some (n, us)
  | c :: r =>
    if c =? 95 then uint_digits base r n true
    else
      let lc := N.lor c 32 in
      let od := if is_digit c then Some (c - 48)
                else if (97 <=? lc) && (lc <=? 122) then Some (lc - 97 + 10) else None in
      match od with
      | None => None
      | Some d =>
        if base <=? d then None
        else let n1 := n * base + d in
             if two64 <=? n1 then None else uint_digits base r n1 us
      end
  end.

Definition parse_uint (s : bytes) : option N :=
  match s with
  | [] => None
  | _ =>
    let '(base, digits) :=
      match s with
      | 48 :: c :: _ :: _ =>
        let lc := N.lor c 32 in
        if lc =? 98 then (2, skipn 2 s) else if lc =? 111 then (8, skipn 2 s)
        else if lc =? 120 then (16, skipn 2 s) else (8, skipn 1 s)
      | 48 :: _ => (8, skipn 1 s)
      | _ => (10, s)
      end in
    match uint_digits base digits 0 false with
    | None => None
    | Some (n, us) => if us && negb (underscore_ok s) then None else Some n
    end
  end.

(* strconv.ParseInt(s, 0, 64) *)
Definition parse_int (s : bytes) : option Z :=
  match s with
  | [] => None
  | c :: r =>
    let '(neg, body) := if c =? 43 then (false, r) else if c =? 45 then (true, r) else (false, s) in
    match parse_uint body with
    | None => None
    | Some un =>
      if negb neg && (two63 <=? un) then None
      else if neg && (two63 <? un) then None
      else Some (if neg then (- Z.of_N un)%Z else Z.of_N un)
    end
  end.

(* time.ParseDuration, WITHOUT fractions: a '.' anywhere a number may continue gives PUnsup.
   Units ns us µs(U+00B5) μs(U+03BC) ms s m h; the overflow checks are those of the Go code. *)
Fixpoint leading_int (s : bytes) (x : N) : option (N * bytes) :=
  match s with
  | [] => Some (x, [])
  | c :: r =>
    if is_digit c then
      if two63 / 10 <? x then None
      else let x1 := x * 10 + (c - 48) in
           if two63 <? x1 then None else leading_int r x1
    else Some (x, s)
  end.

Fixpoint span_unit (s : bytes) : bytes * bytes :=
  match s with
  | [] => ([], [])
  | c :: r => if (c =? 46) || is_digit c then ([], s)
              else let '(u, rest) := span_unit r in (c :: u, rest)
  end.

Definition unit_ns (u : bytes) : option N :=
  if bytes_eqb u [110;115] then Some 1
  else if bytes_eqb u [117;115] || bytes_eqb u [194;181;115] || bytes_eqb u [206;188;115] then Some 1000
  else if bytes_eqb u [109;115] then Some 1000000
  else if bytes_eqb u [115] then Some 1000000000
  else if bytes_eqb u [109] then Some 60000000000
  else if bytes_eqb u [104] then Some 3600000000000
  else None.

Fixpoint dur_terms (fuel : nat) (s : bytes) (d : N) : pres N :=
  match fuel with
  | O => PUnsup
  | S fuel' =>
    match s with
    | [] => POk d
    | c :: _ =>
      if c =? 46 then PUnsup
      else if negb (is_digit c) then PErr
      else match leading_int s 0 with
      | None => PErr
      | Some (v, rest) =>
        match rest with
        | 46 :: _ => PUnsup
        | _ =>
          let '(u, rest') := span_unit rest in
          match u with
          | [] => PErr
          | _ =>
            match unit_ns u with
            | None => PErr
            | Some unit =>
              if two63 / unit <? v then PErr
              else let d1 := d + v * unit in
                   if two63 <? d1 then PErr else dur_terms fuel' rest' d1
            end
          end
        end
      end
    end
  end.

Definition parse_duration (s : bytes) : pres Z :=
  let '(neg, body) :=
    match s with
    | c :: r => if c =? 45 then (true, r) else if c =? 43 then (false, r) else (false, s)
    | [] => (false, s)
    end in
  if bytes_eqb body [48] then POk 0%Z
  else match body with
  | [] => PErr
  | _ =>
    match dur_terms (S (length body)) body 0 with
    | POk d => if neg then POk (- Z.of_N d)%Z
               else if two63 <=? d then PErr else POk (Z.of_N d)
    | PErr => PErr
    | PUnsup => PUnsup
    end
  end.

(* config.Timeout.UnmarshalText: a text whose last byte is a digit gets the unit "ms" *)
Definition timeout_unmarshal (s : bytes) : pres Z :=
  match rev s with
  | l :: _ => if is_digit l then parse_duration (s ++ [109; 115]) else parse_duration s
  | [] => parse_duration s
  end.

(* strings.FieldsFunc(s, r == ',' || r == ';'): non-empty maximal runs of other bytes *)
Fixpoint fields_aux (s : bytes) (cur : bytes) : list bytes :=
  match s with
  | [] => match cur with [] => [] | _ => [rev cur] end
  | c :: r =>
    if (c =? 44) || (c =? 59) then
      match cur with [] => fields_aux r [] | _ => rev cur :: fields_aux r [] end
    else fields_aux r (c :: cur)
  end.

(* splitSubsystem: strings.SplitN(clause, "=", 2) *)
Fixpoint split_eq (s : bytes) : bytes * option bytes :=
  match s with
  | [] => ([], None)
  | c :: r => if c =? 61 then ([], Some r)
              else let '(a, b) := split_eq r in (c :: a, b)
  end.

(* log.parseAxiomLevel.  PUnsup: a level word with a byte >= 128 (strings.ToLower maps U+212A to k). *)
Section Levels.
  Variables (LAlways LError LWarning LInfo LHealth LDebug : Z).

  Definition parse_level (s : bytes) : pres Z :=
    if negb (all_ascii s) then PUnsup
    else
      let l := map lower_ascii s in
      if bytes_eqb l [97;108;119;97;121;115] then POk LAlways
      else if bytes_eqb l [101;114;114;111;114] then POk LError
      else if bytes_eqb l [119;97;114;110;105;110;103] then POk LWarning
      else if bytes_eqb l [104;101;97;108;116;104;99;104;101;99;107] then POk LHealth
      else if bytes_eqb l [105;110;102;111] || bytes_eqb l [] then POk LInfo
      else if bytes_eqb l [100;101;98;117;103] || bytes_eqb l [118;101;114;98;111;115;101]
              || bytes_eqb l [118;101;114;98;111;115;101;100;101;98;117;103] then POk LDebug
      else PErr.

  Fixpoint level_clauses (cs : list bytes) (final : Z) : pres Z :=
    match cs with
    | [] => POk final
    | cl :: r =>
      let '(subsys, lvl) := match split_eq cl with
                            | (a, Some b) => (a, b)
                            | (a, None) => ([97;108;108], a)
                            end in
      match parse_level lvl with
      | POk l =>
        let ls := map lower_ascii subsys in
        if bytes_eqb ls [97;108;108] || bytes_eqb ls [42] then level_clauses r l
        else level_clauses r (if (final <? l)%Z then l else final)
      | PErr => PErr
      | PUnsup => PUnsup
      end
    end.

  Definition parse_axiom_level (s : bytes) : pres Z := level_clauses (fields_aux s []) LInfo.
End Levels.

(* ------------------------------------------------------------------ the whole model, over the rune classes *)

Inductive lstate := SInit | SKeyword | SDelim | SValue | SSingle | SDouble | SRaw | SComment.

Inductive lexerr :=
| ErrExpectedKeyword    (* "syntax error, expected keyword or comment" *)
| ErrBadKeywordChar     (* "invalid character %q following keyword" *)
| ErrNoDelimEOF         (* "expected delimiter after keyword" at EOF *)
| ErrBadDelim           (* "expected delimiter after keyword '%s', got %q" *)
| ErrUnclosedQuote.     (* "unexpected EOF: %q is missing a closing quote" *)

(* how a lexer run ends.  EndFuel: the fuel ran out (shown impossible with fuel S (length input));
   EndCrash: a Go run-time panic (slice bounds) (shown impossible) *)
Inductive lend := EndOk | EndErr (e : lexerr) | EndFuel | EndCrash.

Definition assignment := (bytes * bytes)%type.   (* keyword, value token *)
Definition effect := (N * value)%type.           (* Config field id, new value *)
Definition cfg := list (N * value).              (* association list, first match wins *)

Inductive dstatus :=
| DecOk
| DecSyntax (e : lexerr)
| DecValue (k : bytes)      (* unmarshalValue failed for known keyword k *)
| DecUnsup                  (* a value outside the modelled value syntax *)
| DecFuel | DecCrash.

Inductive fstatus :=
| FlOk
| FlHelp                    (* flag.ErrHelp *)
| FlBadSyntax               (* "bad flag syntax" *)
| FlUndefined (name : bytes)
| FlNeedsArg (name : bytes)
| FlBadValue (name : bytes)
| FlUnsup.

Inductive pstatus := POkay (warning : bool) | PHelp | PError.

(* what configure() does: return a Config (new or legacy flags; with or without the port/address
   warning) or os.Exit *)
Inductive outcome := Run (c : cfg) (legacy : bool) (warning : bool) | Exit (code : N).

Fixpoint get_opt (f : N) (c : cfg) : option value :=
  match c with
  | [] => None
  | (g, v) :: r => if g =? f then Some v else get_opt f r
  end.
Definition get (f : N) (c : cfg) : value := match get_opt f c with Some v => v | None => VUnknown end.
Definition set (f : N) (v : value) (c : cfg) : cfg := (f, v) :: c.
Definition apply_effects (es : list effect) (c : cfg) : cfg := fold_left (fun c e => e :: c) es c.

Definition zero_of (k : kind) : value :=
  match k with
  | KString => VStr []
  | KBool => VBool false
  | _ => VInt 0
  end.

Definition str_of (v : value) : bytes := match v with VStr s => s | _ => [] end.
Definition is_nil (s : bytes) : bool := match s with [] => true | _ => false end.

Section Model.
  (* unicode.IsSpace / IsLetter / IsNumber *)
  Variables (is_space is_letter is_number : N -> bool).
  (* the log.Level constants *)
  Variables (LAlways LError LWarning LInfo LHealth LDebug : Z).

  Definition is_alnum (r : N) : bool := (r =? 95) || is_letter r || is_number r.

  (* bytes.TrimRightFunc(s, unicode.IsSpace) on the reversed slice *)
  Fixpoint trim_rev (fuel : nat) (rp : bytes) : bytes :=
    match fuel with
    | O => rp
    | S fuel' =>
      let '(r, sz) := decode_last_rev rp in
      if (0 <? sz)%nat && is_space r then trim_rev fuel' (skipn sz rp) else rp
    end.
  Definition trim_right (s : bytes) : bytes := rev (trim_rev (length s) (rev s)).

  (* Decoder.Decode: one iteration per rune read in lexInitial/lexKeyword/lexDelimiter/lexValue, one per
     call of the bulk states.  Result: the (keyword, token) pairs handed to processKeyword, in order, and how
     the run ends.  tok = d.token, kw = d.keyword.  lex_step is one iteration, `next` the rest of the run. *)
  Definition lex_step (next : lstate -> bytes -> bytes -> bytes -> list assignment * lend)
             (st : lstate) (tok kw : bytes) (inp : bytes) : list assignment * lend :=
    match st with
    | SInit =>
      match decode_rune inp with
      | None => ([], EndOk)
      | Some (ch, rest) =>
        if is_space ch then next SInit tok kw rest
        else if (ch =? 35) || (ch =? 59) then next SComment tok kw rest
        else if is_letter ch then next SKeyword (tok ++ encode_rune ch) kw rest
        else ([], EndErr ErrExpectedKeyword)
      end
    | SKeyword =>
      match decode_rune inp with
      | None => ([], EndOk)          (* io.EOF inside a keyword: Decode returns nil *)
      | Some (ch, rest) =>
        if is_alnum ch || (ch =? 46) then next SKeyword (tok ++ encode_rune ch) kw rest
        else if is_space ch then next SDelim [] tok rest
        else if ch =? 61 then next SValue [] tok rest
        else ([], EndErr ErrBadKeywordChar)
      end
    | SDelim =>
      match decode_rune inp with
      | None => ([], EndErr ErrNoDelimEOF)
      | Some (ch, rest) =>
        if is_space ch then next SDelim tok kw rest
        else if ch =? 61 then next SValue tok kw rest
        else ([], EndErr ErrBadDelim)
      end
    | SValue =>
      match decode_rune inp with
      | None => ([(kw, tok)], EndOk)
      | Some (ch, rest) =>
        if negb (is_space ch) then
          if ch =? 39 then next SSingle tok kw rest
          else if ch =? 34 then next SDouble tok kw rest
          else next SRaw (tok ++ encode_rune ch) kw rest
        else if ch =? 10 then
          let '(a, e) := next SInit [] [] rest in ((kw, tok) :: a, e)
        else next SValue tok kw rest
      end
    | SSingle =>
      let '(value, found, rest) := read_bytes 39 inp in
      if negb found then ([], EndErr ErrUnclosedQuote)
      else match slice_to value (Z.of_nat (length value) - 1) with
      | None => ([], EndCrash)
      | Some v =>
        let '(a, e) := next SInit [] [] rest in ((kw, tok ++ v) :: a, e)
      end
    | SDouble =>
      let '(value, found, rest) := read_bytes 34 inp in
      if negb found then ([], EndErr ErrUnclosedQuote)
      else match slice_to value (Z.of_nat (length value) - 1) with
      | None => ([], EndCrash)
      | Some v =>
        let '(a, e) := next SInit [] [] rest in ((kw, unescape (tok ++ v)) :: a, e)
      end
    | SRaw =>
      let '(value, found, rest) := read_bytes 10 inp in
      let v := trim_right (strip_comment value) in
      if negb found then ([(kw, tok ++ v)], EndOk)
      else let '(a, e) := next SInit [] [] rest in ((kw, tok ++ v) :: a, e)
    | SComment =>
      match inp with
      | [] => ([], EndOk)
      | _ => next SInit tok kw (drop_line inp)
      end
    end.

  Fixpoint lex (fuel : nat) (st : lstate) (tok kw : bytes) (inp : bytes) : list assignment * lend :=
    match fuel with
    | O => ([], EndFuel)
    | S fuel' => lex_step (lex fuel') st tok kw inp
    end.

  Definition lex_all (inp : bytes) : list assignment * lend := lex (S (length inp)) SInit [] [] inp.

  (* unmarshalValue for a field of the given kind.  TextUnmarshalers (log.Level, config.Timeout) come
     before the empty-value rule.  int is 64 bits wide (amd64), so OverflowInt never holds. *)
  Definition unmarshal_value (k : kind) (s : bytes) : pres value :=
    match k with
    | KLevel => pmap VInt (parse_axiom_level LAlways LError LWarning LInfo LHealth LDebug s)
    | KTimeout => pmap VInt (timeout_unmarshal s)
    | _ =>
      if is_nil s then POk (zero_of k)
      else match k with
      | KBool => match parse_bool_word s with Some b => POk (VBool b) | None => PErr end
      | KInt | KDuration => match parse_int s with Some z => POk (VInt z) | None => PErr end
      | KUint64 => match parse_uint s with Some n => POk (VInt (Z.of_N n)) | None => PErr end
      | KString => POk (VStr s)
      | _ => PUnsup
      end
    end.

  Section Tables.
    Variable fields : list fielddef.

    Definition tag_lookup (k : bytes) : option fielddef :=
      find (fun fd => match fd_tag fd with Some t => bytes_eqb t k | None => false end) fields.

    (* processKeyword over the assignments, in order; stops at the first failing value *)
    Fixpoint assign_effects (asg : list assignment) : list effect * option dstatus :=
      match asg with
      | [] => ([], None)
      | (k, v) :: r =>
        match tag_lookup k with
        | None => assign_effects r          (* no match found, ignore keyword *)
        | Some fd =>
          match unmarshal_value (fd_kind fd) v with
          | POk x => let '(es, st) := assign_effects r in ((fd_id fd, x) :: es, st)
          | PErr => ([], Some (DecValue k))
          | PUnsup => ([], Some DecUnsup)
          end
        end
      end.

    (* config.ParseString / ParseFile content *)
    Definition decode_effects (inp : bytes) : list effect * dstatus :=
      let '(asg, e) := lex_all inp in
      match assign_effects asg with
      | (es, Some err) => (es, err)
      | (es, None) =>
        (es, match e with
             | EndOk => DecOk
             | EndErr le => DecSyntax le
             | EndFuel => DecFuel
             | EndCrash => DecCrash
             end)
      end.

    (* flag.Value.Set per kind of flag *)
    Definition flag_value (fk : flagkind) (s : bytes) : pres value :=
      match fk with
      | FkString => POk (VStr s)
      | FkBool => match parse_bool_flag s with Some b => POk (VBool b) | None => PErr end
      | FkInt => match parse_int s with Some z => POk (VInt z) | None => PErr end
      | FkDuration => pmap VInt (parse_duration s)
      | FkLevel => pmap VInt (parse_axiom_level LAlways LError LWarning LInfo LHealth LDebug s)
      | _ => PUnsup
      end.

    Definition flag_effects (fd : flagdef) (s : bytes) : list effect * option fstatus :=
      match fl_kind fd with
      | FkDefine =>
        match decode_effects s with
        | (es, DecOk) => (es, None)
        | (es, DecUnsup) => (es, Some FlUnsup)
        | (es, _) => (es, Some (FlBadValue (fl_name fd)))
        end
      | fk =>
        match flag_value fk s with
        | POk x => ([(fl_target fd, x)], None)
        | PErr => ([], Some (FlBadValue (fl_name fd)))
        | PUnsup => ([], Some FlUnsup)
        end
      end.

    Definition find_flag (tbl : list flagdef) (name : bytes) : option flagdef :=
      find (fun fd => bytes_eqb (fl_name fd) name) tbl.

    Definition is_bool_flag (fd : flagdef) : bool :=
      match fl_kind fd with FkBool => true | _ => false end.

    Definition s_true : bytes := [116; 114; 117; 101].
    Definition s_help : bytes := [104; 101; 108; 112].

    (* flag.FlagSet.Parse: parseOne until a non-flag argument, "--", the end, or an error *)
    Fixpoint parse_flags (tbl : list flagdef) (args : list bytes) : list effect * fstatus :=
      match args with
      | [] => ([], FlOk)
      | s :: rest =>
        match s with
        | 45 :: c1 :: s2 =>
          if (c1 =? 45) && is_nil s2 then ([], FlOk)           (* "--" terminates the flags *)
          else
            let name0 := if c1 =? 45 then s2 else c1 :: s2 in
            match name0 with
            | [] => ([], FlBadSyntax)
            | n0 :: nr =>
              if (n0 =? 45) || (n0 =? 61) then ([], FlBadSyntax)
              else
                let '(nm, ov) := split_eq nr in
                let name := n0 :: nm in
                match find_flag tbl name with
                | None =>
                  if bytes_eqb name s_help || bytes_eqb name [104] then ([], FlHelp)
                  else ([], FlUndefined name)
                | Some fd =>
                  if is_bool_flag fd then
                    match flag_effects fd (match ov with Some v => v | None => s_true end) with
                    | (es, None) => let '(es2, st) := parse_flags tbl rest in (es ++ es2, st)
                    | (es, Some err) => (es, err)
                    end
                  else
                    match ov with
                    | Some v =>
                      match flag_effects fd v with
                      | (es, None) => let '(es2, st) := parse_flags tbl rest in (es ++ es2, st)
                      | (es, Some err) => (es, err)
                      end
                    | None =>
                      match rest with
                      | [] => ([], FlNeedsArg name)
                      | v :: rest' =>
                        match flag_effects fd v with
                        | (es, None) => let '(es2, st) := parse_flags tbl rest' in (es ++ es2, st)
                        | (es, Some err) => (es, err)
                        end
                      end
                    end
                end
            end
        | _ => ([], FlOk)                                        (* first non-flag argument *)
        end
      end.

    (* the XxxVar calls assign their `value` argument when the flag is defined *)
    Definition init_flagset (tbl : list flagdef) (c : cfg) : cfg :=
      fold_left (fun c fd => match fl_init fd with Some v => set (fl_target fd) v c | None => c end) tbl c.

    Section Env.
      Variables (F_ConfigFile F_BindPort F_BindAddr : N).
      Variable platform_default : bytes.            (* newrelic.DefaultListenSocket() *)
      Variable fs : bytes -> option bytes.          (* path -> file content *)

      (* parseConfigFile *)
      Definition parse_config_file (c : cfg) : cfg * bool :=
        let p := str_of (get F_ConfigFile c) in
        if is_nil p then (c, true)
        else match fs p with
        | None => (c, false)
        | Some content =>
          let '(es, st) := decode_effects content in
          (apply_effects es c, match st with DecOk => true | _ => false end)
        end.

      (* DaemonFlagSet.Parse, fourth pass *)
      Definition resolve_new (c : cfg) : cfg * bool :=
        let port := str_of (get F_BindPort c) in
        let addr := str_of (get F_BindAddr c) in
        if is_nil addr && is_nil port then (set F_BindAddr (VStr platform_default) c, false)
        else if negb (is_nil addr) && negb (is_nil port) then (c, true)
        else if is_nil addr then (set F_BindAddr (VStr port) c, false)
        else (c, false).

      (* configure(), legacy branch (fix 4bb5693) *)
      Definition resolve_legacy (c : cfg) : cfg :=
        if is_nil (str_of (get F_BindAddr c)) then
          if negb (is_nil (str_of (get F_BindPort c))) then set F_BindAddr (get F_BindPort c) c
          else set F_BindAddr (VStr platform_default) c
        else c.

      (* DaemonFlagSet.Parse on a flag set created over c0 *)
      Definition daemon_parse (tbl : list flagdef) (args : list bytes) (c0 : cfg) : cfg * pstatus :=
        let '(e1, s1) := parse_flags tbl args in
        let c1 := apply_effects e1 c0 in
        match s1 with
        | FlOk =>
          let '(c2, ok) := parse_config_file c1 in
          if ok then
            let '(e3, s3) := parse_flags tbl args in
            let c3 := apply_effects e3 c2 in
            match s3 with
            | FlOk => let '(c4, w) := resolve_new c3 in (c4, POkay w)
            | FlHelp => (c3, PHelp)
            | _ => (c3, PError)
            end
          else (c2, PError)
        | FlHelp => (c1, PHelp)
        | _ => (c1, PError)
        end.

      Definition configure (new_tbl legacy_tbl : list flagdef) (default_cfg : cfg) (args : list bytes) : outcome :=
        match daemon_parse new_tbl args (init_flagset new_tbl default_cfg) with
        | (c, POkay w) => Run c false w
        | (_, PHelp) => Exit 2
        | (_, PError) =>
          let '(e1, s1) := parse_flags legacy_tbl args in
          match s1 with
          | FlOk =>
            let c1 := apply_effects e1 (init_flagset legacy_tbl default_cfg) in
            let '(c2, ok) := parse_config_file c1 in
            if ok then
              let '(e3, _) := parse_flags legacy_tbl args in      (* the result of this Parse is discarded *)
              Run (resolve_legacy (apply_effects e3 c2)) true false
            else Exit 1
          | _ => Exit 1
          end
        end.
    End Env.
  End Tables.
End Model.
