(* TriggerProofs.v -- proofs about the functional harvest plan and the zero-limit guards (Trigger.v) *)
From Coq Require Import NArith ZArith List Bool Lia.
From Verif Require Import Trigger.
From Verif.Gen Require Import Limits_gen HarvestBits_gen.
Import ListNotations.
Open Scope Z_scope.

Definition S60 : Z := 60000000000.

Lemma default_period_60 : DefaultReportPeriod = S60.
Proof. reflexivity. Qed.

Lemma wrap64_id z : - 2^63 <= z < 2^63 -> wrap64 z = z.
Proof. intros H. unfold wrap64. rewrite Z.mod_small; lia. Qed.

Lemma dur_of_ms_ok m : ms_okb m = true -> dur_of_ms m = Z.of_N m * 1000000.
Proof. unfold ms_okb, dur_of_ms. intros H. apply Z.ltb_lt in H. apply wrap64_id. lia. Qed.

Lemma report_period_spec ms :
  match ms with Some m => ms_okb m = true | None => True end -> report_period_of ms = spec_ms ms.
Proof.
  destruct ms as [m|]; [|reflexivity]. intros H. destruct m as [|p]; [reflexivity|].
  cbn [report_period_of spec_ms]. apply dur_of_ms_ok. exact H.
Qed.

Lemma spec_ms_pos ms : 0 < spec_ms ms.
Proof. destruct ms as [[|p]|]; cbn [spec_ms]; lia. Qed.

Lemma gec_period raw rate dl e :
  get_event_config raw rate dl = Some e ->
  period e = match raw with None => S60 | Some _ => rate end.
Proof.
  unfold get_event_config. destruct raw as [l|].
  - destruct (l <? 0); [discriminate|]. intros H. inversion H. reflexivity.
  - intros H. inversion H. reflexivity.
Qed.

Lemma check_pos p : 0 < p -> check_report_period p = p.
Proof. intros H. unfold check_report_period. destruct (p =? 0) eqn:E; [apply Z.eqb_eq in E; lia|reflexivity]. Qed.

(* ---- periods after parsing, in terms of the property's reading ---- *)
Definition ehc_ok (r : reply) : Prop :=
  match r_ehc r with Some j => match e_ms j with Some m => ms_okb m = true | None => True end | None => True end.
Definition sehc_ok (r : reply) : Prop :=
  match r_sehc r with Some j => match s_ms j with Some m => ms_okb m = true | None => True end | None => True end.

Lemma in_range_split r : reply_in_range r = true -> ehc_ok r /\ sehc_ok r.
Proof.
  unfold reply_in_range, ehc_ok, sehc_ok. intros H. apply andb_prop in H. destruct H as [H1 H2].
  split.
  - destruct (r_ehc r) as [j|]; [|exact I]. destruct (e_ms j); [exact H1|exact I].
  - destruct (r_sehc r) as [j|]; [|exact I]. destruct (s_ms j); [exact H2|exact I].
Qed.

(* what parse_reply yields *)
Lemma parse_periods r h :
  reply_in_range r = true -> parse_reply r = Some h ->
  (match r_ehc r with
   | Some j => report_period h = spec_ms (e_ms j) /\
               period (c_txn (configs h)) = spec_period r CatTxn /\
               period (c_custom (configs h)) = spec_period r CatCustom /\
               period (c_error (configs h)) = spec_period r CatError /\
               period (c_log (configs h)) = spec_period r CatLog
   | None => report_period h = 0 /\ period (c_txn (configs h)) = 0 /\ period (c_custom (configs h)) = 0 /\
             period (c_error (configs h)) = 0 /\ period (c_log (configs h)) = 0
   end) /\
  (match r_sehc r with
   | Some _ => period (c_span (configs h)) = spec_period r CatSpan
   | None => period (c_span (configs h)) = 0
   end).
Proof.
  intros Hr Hp. destruct (in_range_split r Hr) as [He Hs]. unfold ehc_ok in He. unfold sehc_ok in Hs.
  unfold parse_reply in Hp. unfold spec_period.
  destruct (r_ehc r) as [j|] eqn:Ej.
  - destruct (unmarshal_ehc j) as [ehc|] eqn:Eu; [|discriminate].
    unfold unmarshal_ehc in Eu.
    destruct (get_event_config (e_error j) _ _) as [er|] eqn:G1; [|discriminate].
    destruct (get_event_config (e_txn j) _ _) as [tx|] eqn:G2; [|discriminate].
    destruct (get_event_config (e_custom j) _ _) as [cu|] eqn:G3; [|discriminate].
    destruct (get_event_config (e_span j) _ _) as [sp|] eqn:G4; [|discriminate].
    destruct (get_event_config (e_log j) _ _) as [lg|] eqn:G5; [|discriminate].
    inversion Eu; subst ehc; clear Eu.
    apply gec_period in G1, G2, G3, G5. rewrite (report_period_spec _ He) in G1, G2, G3, G5.
    assert (Hsp : match r_sehc r with
                  | Some _ => forall spv, (match r_sehc r with None => Some zero_event | Some j0 => unmarshal_sehc j0 end) = Some spv ->
                                          period spv = match r_sehc r with
                                                       | Some j0 => match s_limit j0 with SLNull => 60000000000 | _ => spec_ms (s_ms j0) end
                                                       | None => 60000000000 end
                  | None => forall spv, (match r_sehc r with None => Some zero_event | Some j0 => unmarshal_sehc j0 end) = Some spv -> period spv = 0
                  end).
    { destruct (r_sehc r) as [sj|] eqn:Es.
      - intros spv Hu. unfold unmarshal_sehc in Hu. apply gec_period in Hu.
        rewrite (report_period_spec _ Hs) in Hu. rewrite Hu. destruct (s_limit sj); reflexivity.
      - intros spv Hu. inversion Hu. reflexivity. }
    destruct (match r_sehc r with None => Some zero_event | Some j0 => unmarshal_sehc j0 end) as [spv|] eqn:Esp; [|discriminate].
    inversion Hp; subst h; clear Hp. cbn [report_period configs c_txn c_custom c_error c_log c_span].
    split.
    + rewrite (report_period_spec _ He). repeat split.
      * rewrite G2. destruct (e_txn j); reflexivity.
      * rewrite G3. destruct (e_custom j); reflexivity.
      * rewrite G1. destruct (e_error j); reflexivity.
      * rewrite G5. destruct (e_log j); reflexivity.
    + destruct (r_sehc r) as [sj|]; apply Hsp; reflexivity.
  - assert (Hsp : match r_sehc r with
                  | Some _ => forall spv, (match r_sehc r with None => Some zero_event | Some j0 => unmarshal_sehc j0 end) = Some spv ->
                                          period spv = match r_sehc r with
                                                       | Some j0 => match s_limit j0 with SLNull => 60000000000 | _ => spec_ms (s_ms j0) end
                                                       | None => 60000000000 end
                  | None => forall spv, (match r_sehc r with None => Some zero_event | Some j0 => unmarshal_sehc j0 end) = Some spv -> period spv = 0
                  end).
    { destruct (r_sehc r) as [sj|] eqn:Es.
      - intros spv Hu. unfold unmarshal_sehc in Hu. apply gec_period in Hu.
        rewrite (report_period_spec _ Hs) in Hu. rewrite Hu. destruct (s_limit sj); reflexivity.
      - intros spv Hu. inversion Hu. reflexivity. }
    destruct (match r_sehc r with None => Some zero_event | Some j0 => unmarshal_sehc j0 end) as [spv|] eqn:Esp; [|discriminate].
    inversion Hp; subst h; clear Hp. cbn [report_period configs c_txn c_custom c_error c_log c_span zero_ehconfig zero_event period].
    split; [repeat split|].
    destruct (r_sehc r) as [sj|]; apply Hsp; reflexivity.
Qed.

Lemma spec_period_pos r c : 0 < spec_period r c.
Proof.
  unfold spec_period. destruct c; try lia.
  - destruct (r_ehc r) as [j|]; [|lia]. destruct (e_txn j); [apply spec_ms_pos|lia].
  - destruct (r_ehc r) as [j|]; [|lia]. destruct (e_custom j); [apply spec_ms_pos|lia].
  - destruct (r_ehc r) as [j|]; [|lia]. destruct (e_error j); [apply spec_ms_pos|lia].
  - destruct (r_sehc r) as [j|]; [|lia]. destruct (s_limit j); try apply spec_ms_pos; lia.
  - destruct (r_ehc r) as [j|]; [|lia]. destruct (e_log j); [apply spec_ms_pos|lia].
Qed.

Lemma spec_period_no_ehc r c : r_ehc r = None -> c <> CatSpan -> spec_period r c = S60.
Proof. intros H Hc. unfold spec_period. rewrite H. destruct c; try reflexivity. congruence. Qed.

Lemma check_zero : check_report_period 0 = S60.
Proof. reflexivity. Qed.

(* the code's condition, as a proposition *)
Definition all_periods_equal_report (h : ehconfig) : Prop :=
  let c := configs h in
  period (c_error c) = report_period h /\ period (c_txn c) = report_period h /\
  period (c_custom c) = report_period h /\ period (c_span c) = report_period h /\
  period (c_log c) = report_period h.

Lemma is_harvest_all_iff h :
  is_harvest_all h = true <-> all_periods_equal_report h /\ report_period h = S60.
Proof.
  unfold is_harvest_all, all_periods_equal_report. cbv zeta.
  destruct (period (c_error (configs h)) =? report_period h) eqn:E1;
  destruct (period (c_txn (configs h)) =? report_period h) eqn:E2;
  destruct (period (c_custom (configs h)) =? report_period h) eqn:E3;
  destruct (period (c_span (configs h)) =? report_period h) eqn:E4;
  destruct (period (c_log (configs h)) =? report_period h) eqn:E5;
  cbn [negb orb];
  rewrite ?Z.eqb_eq, ?Z.eqb_neq in *;
  try (split; [discriminate|intros [(A1 & A2 & A3 & A4 & A5) _]; congruence]).
  rewrite default_period_60. tauto.
Qed.

Definition spec_custom_plan (r : reply) : list (N * Z) :=
  [ (HarvestDefaultData, S60); (HarvestTxnEvents, spec_period r CatTxn);
    (HarvestCustomEvents, spec_period r CatCustom); (HarvestErrorEvents, spec_period r CatError);
    (HarvestSpanEvents, spec_period r CatSpan); (HarvestLogEvents, spec_period r CatLog) ].

Lemma custom_plan_spec r h :
  reply_in_range r = true -> parse_reply r = Some h -> custom_plan h = spec_custom_plan r.
Proof.
  intros Hr Hp. destruct (parse_periods r h Hr Hp) as [He Hs].
  unfold custom_plan, spec_custom_plan. cbv zeta. rewrite default_period_60.
  assert (Sp : check_report_period (period (c_span (configs h))) = spec_period r CatSpan).
  { destruct (r_sehc r) as [sj|] eqn:Es.
    - rewrite Hs. apply check_pos. apply spec_period_pos.
    - rewrite Hs. rewrite check_zero. unfold spec_period. rewrite Es. reflexivity. }
  rewrite Sp.
  destruct (r_ehc r) as [j|] eqn:Ej.
  - destruct He as (_ & H2 & H3 & H4 & H5). rewrite H2, H3, H4, H5.
    rewrite !check_pos by apply spec_period_pos. reflexivity.
  - destruct He as (_ & H2 & H3 & H4 & H5). rewrite H2, H3, H4, H5. rewrite !check_zero.
    rewrite (spec_period_no_ehc r CatTxn Ej), (spec_period_no_ehc r CatCustom Ej),
            (spec_period_no_ehc r CatError Ej), (spec_period_no_ehc r CatLog Ej) by discriminate.
    reflexivity.
Qed.

Lemma spec_period_ehc_60 r j c :
  r_ehc r = Some j -> spec_ms (e_ms j) = S60 -> c <> CatSpan -> spec_period r c = S60.
Proof.
  intros Ej H60 Hc. unfold spec_period. rewrite Ej.
  destruct c; try reflexivity; try congruence.
  - destruct (e_txn j); [exact H60|reflexivity].
  - destruct (e_custom j); [exact H60|reflexivity].
  - destruct (e_error j); [exact H60|reflexivity].
  - destruct (e_log j); [exact H60|reflexivity].
Qed.

Lemma harvest_all_input_iff r h :
  reply_in_range r = true -> parse_reply r = Some h ->
  (is_harvest_all h = true <->
   exists e s, r_ehc r = Some e /\ r_sehc r = Some s /\ spec_ms (e_ms e) = S60 /\ spec_period r CatSpan = S60).
Proof.
  intros Hr Hp. destruct (parse_periods r h Hr Hp) as [He Hs]. rewrite is_harvest_all_iff.
  unfold all_periods_equal_report. cbv zeta. split.
  - intros [(A1 & A2 & A3 & A4 & A5) R60].
    destruct (r_ehc r) as [j|] eqn:Ej.
    + destruct He as (HR & _). destruct (r_sehc r) as [sj|] eqn:Es.
      * exists j, sj. repeat split; congruence.
      * rewrite Hs in A4. pose proof (spec_ms_pos (e_ms j)). lia.
    + destruct He as (HR & _). unfold S60 in R60. lia.
  - intros (e & s & Ee & Es & R60 & Sp60). rewrite Ee in He. rewrite Es in Hs.
    destruct He as (HR & H2 & H3 & H4 & H5).
    rewrite H2, H3, H4, H5, Hs, HR.
    rewrite (spec_period_ehc_60 r e CatTxn Ee R60), (spec_period_ehc_60 r e CatCustom Ee R60),
            (spec_period_ehc_60 r e CatError Ee R60), (spec_period_ehc_60 r e CatLog Ee R60) by discriminate.
    rewrite Sp60, R60. repeat split.
Qed.

(* ---------------- C12_plan ---------------- *)
Lemma plan_theorem r plan :
  reply_in_range r = true -> trigger_plan r = Some plan ->
  exists h, parse_reply r = Some h /\
  (* the condition in the code *)
  (plan = [(HarvestAll, S60)] <-> all_periods_equal_report h /\ report_period h = S60) /\
  (* the same condition on the reply *)
  (plan = [(HarvestAll, S60)] <->
     exists e s, r_ehc r = Some e /\ r_sehc r = Some s /\ spec_ms (e_ms e) = S60 /\ spec_period r CatSpan = S60) /\
  (* otherwise: default data at 60 s and each event category at its own period *)
  (plan = [(HarvestAll, S60)] \/ plan = spec_custom_plan r).
Proof.
  intros Hr Ht. unfold trigger_plan in Ht. destruct (parse_reply r) as [h|] eqn:Hp; [|discriminate].
  inversion Ht; subst plan; clear Ht. exists h. split; [reflexivity|].
  pose proof (custom_plan_spec r h Hr Hp) as Hc.
  pose proof (harvest_all_input_iff r h Hr Hp) as Hi.
  pose proof (is_harvest_all_iff h) as Hh.
  unfold plan_of. rewrite default_period_60. destruct (is_harvest_all h) eqn:E.
  - split; [|split].
    + split; [intros _; apply Hh; reflexivity|reflexivity].
    + split; [intros _; apply Hi; reflexivity|reflexivity].
    + left. reflexivity.
  - rewrite Hc. split; [|split].
    + split; [unfold spec_custom_plan; discriminate|]. intros G. apply Hh in G. discriminate.
    + split; [unfold spec_custom_plan; discriminate|]. intros G. apply Hi in G. discriminate.
    + right. reflexivity.
Qed.

(* the reply fails to parse exactly when some limit is negative *)
Definition neg_limit (o : option Z) : Prop := exists z, o = Some z /\ z < 0.

Lemma gec_none raw rate dl : get_event_config raw rate dl = None <-> neg_limit raw.
Proof.
  unfold get_event_config, neg_limit. destruct raw as [l|].
  - destruct (l <? 0) eqn:E.
    + apply Z.ltb_lt in E. split; [intros _; eauto|reflexivity].
    + apply Z.ltb_ge in E. split; [discriminate|]. intros [z [Hz Hl]]. inversion Hz. lia.
  - split; [discriminate|]. intros [z [Hz _]]. discriminate.
Qed.

(* ---------------- C12_cadence ---------------- *)
Lemma covering_single p b : In b all_bits -> covering [(HarvestAll, p)] b = [p].
Proof. cbn [all_bits In]. intros H. repeat (destruct H as [<-|H]; [reflexivity|]). destruct H. Qed.

Lemma covering_custom p0 p1 p2 p3 p4 p5 b : In b all_bits ->
  covering [(HarvestDefaultData, p0); (HarvestTxnEvents, p1); (HarvestCustomEvents, p2);
            (HarvestErrorEvents, p3); (HarvestSpanEvents, p4); (HarvestLogEvents, p5)] b =
  [match bit_category b with CatDefault => p0 | CatTxn => p1 | CatCustom => p2 | CatError => p3
                           | CatSpan => p4 | CatLog => p5 end].
Proof. cbn [all_bits In]. intros H. repeat (destruct H as [<-|H]; [reflexivity|]). destruct H. Qed.

Lemma cadence_theorem r plan :
  reply_in_range r = true -> trigger_plan r = Some plan ->
  forall b, In b all_bits -> covering plan b = [spec_period r (bit_category b)].
Proof.
  intros Hr Ht b Hb. destruct (plan_theorem r plan Hr Ht) as (h & Hp & _ & Hi & Hor).
  destruct Hor as [Hall|Hcus].
  - pose proof (proj1 Hi Hall) as (e & s & Ee & Es & R60 & Sp60). rewrite Hall.
    rewrite covering_single by exact Hb. f_equal.
    destruct (bit_category b) eqn:Ec; try (symmetry; apply (spec_period_ehc_60 r e); (assumption || discriminate)).
    symmetry. exact Sp60.
  - rewrite Hcus. unfold spec_custom_plan. rewrite covering_custom by exact Hb.
    destruct (bit_category b); reflexivity.
Qed.

(* the model's plan passes the monitor *)
Lemma plan_positive r plan : reply_in_range r = true -> trigger_plan r = Some plan ->
  forallb (fun e => (fst e <? 1024)%N && (0 <? snd e)) plan = true.
Proof.
  intros Hr Ht. destruct (plan_theorem r plan Hr Ht) as (h & Hp & _ & _ & Hor).
  destruct Hor as [->| ->]; [reflexivity|]. unfold spec_custom_plan. cbn [forallb fst snd].
  repeat match goal with |- context [0 <? spec_period r ?c] =>
    let H := fresh in assert (H : (0 <? spec_period r c) = true) by (apply Z.ltb_lt; apply spec_period_pos);
    rewrite H; clear H end.
  reflexivity.
Qed.

Lemma plan_monitor_sound r plan :
  reply_in_range r = true -> trigger_plan r = Some plan -> plan_monitor r plan = true.
Proof.
  intros Hr Ht. pose proof (cadence_theorem r plan Hr Ht) as Hc.
  destruct (plan_theorem r plan Hr Ht) as (h & Hp & _ & Hi & Hor).
  unfold plan_monitor. apply andb_true_intro. split; [apply andb_true_intro; split|].
  - unfold cadence_ok. rewrite (plan_positive r plan Hr Ht). rewrite andb_true_r.
    apply forallb_forall. intros b Hb. rewrite (Hc b Hb). apply Z.eqb_refl.
  - destruct (combined_expected r) eqn:Ece; [|reflexivity].
    assert (Hall : plan = [(HarvestAll, S60)]).
    { apply Hi. unfold combined_expected in Ece. apply andb_prop in Ece. destruct Ece as [E1 E2].
      destruct (r_ehc r) as [e|] eqn:Ee; [|discriminate]. destruct (r_sehc r) as [s|] eqn:Es; [|discriminate].
      rewrite forallb_forall in E1. exists e, s. repeat split.
      - apply Z.eqb_eq. exact E2.
      - apply Z.eqb_eq. apply E1. cbn. tauto. }
    rewrite Hall. reflexivity.
  - destruct Hor as [->| ->]; reflexivity.
Qed.

(* ---------------- C12_zero_limit_never_sent ---------------- *)
Definition hinv (l : ecat -> N) (h : hstate) : Prop :=
  (forall c, lims h c = l c) /\ (forall c, (lens h c <= lims h c)%N).

Lemma ecat_eqb_eq a b : ecat_eqb a b = true <-> a = b.
Proof. destruct a, b; cbn; split; intros H; try reflexivity; try discriminate. Qed.

Lemma consider_in h c c' : In (EmEvents c) (consider h c') -> c' = c /\ lens h c <> 0%N.
Proof.
  unfold consider. destruct (lens h c' =? 0)%N eqn:E; [intros []|].
  intros [H|[]]. inversion H; subst. split; [reflexivity|]. apply N.eqb_neq. exact E.
Qed.

Lemma hinv_set_len0 l h c : hinv l h -> hinv l (set_len h c 0%N).
Proof.
  intros [H1 H2]. split; [exact H1|]. intros x. cbn [set_len lens lims].
  destruct (ecat_eqb x c); [lia|apply H2].
Qed.

Lemma hinv_add l h c : hinv l h -> hinv l (add_event h c).
Proof.
  intros [H1 H2]. unfold add_event. destruct (lens h c <? lims h c)%N eqn:E; [|split; assumption].
  apply N.ltb_lt in E. split; [exact H1|]. intros x. cbn [set_len lens lims].
  destruct (ecat_eqb x c) eqn:Ex; [apply ecat_eqb_eq in Ex; subst; lia|apply H2].
Qed.

Lemma fold_zero l ht c cats out hh :
  l c = 0%N -> hinv l hh -> ~ In (EmEvents c) out ->
  let r := fold_left (zstep ht) cats (out, hh) in hinv l (snd r) /\ ~ In (EmEvents c) (fst r).
Proof.
  intros Hl. revert out hh. induction cats as [|c' cats IH]; intros out hh Hi Hn; cbn [fold_left].
  - split; assumption.
  - assert (E : zstep ht (out, hh) c' =
                 if has_mask ht (ecat_bit c') && negb (lims hh c' =? 0)%N
                 then (out ++ consider hh c', set_len hh c' 0%N) else (out, hh)) by reflexivity.
    rewrite E. clear E. destruct (has_mask ht (ecat_bit c') && negb (lims hh c' =? 0)%N).
    + apply IH; [apply hinv_set_len0; exact Hi|].
      intros G. apply in_app_iff in G. destruct G as [G|G]; [exact (Hn G)|].
      apply consider_in in G. destruct G as [-> G]. destruct Hi as [H1 H2].
      specialize (H2 c). rewrite H1, Hl in H2. apply G. lia.
    + apply IH; assumption.
Qed.

Lemma harvest_by_type_fold h ht :
  ~ has_mask ht HarvestAll = true ->
  harvest_by_type h ht =
    fold_left (zstep ht) ecats
      (if has_mask ht HarvestDefaultData
       then ((if default_nonempty h then [EmDefault] else []),
             {| lims := lims h; lens := lens h; default_nonempty := false |})
       else ([], h)).
Proof.
  intros H. unfold harvest_by_type. destruct (has_mask ht HarvestAll); [congruence|].
  destruct (has_mask ht HarvestDefaultData); reflexivity.
Qed.

Lemma harvest_zero l h ht c :
  l c = 0%N -> hinv l h ->
  hinv l (snd (harvest_by_type h ht)) /\ ~ In (EmEvents c) (fst (harvest_by_type h ht)).
Proof.
  intros Hl Hi. destruct (has_mask ht HarvestAll) eqn:Ea.
  - unfold harvest_by_type. rewrite Ea. cbn [fst snd]. split.
    + destruct Hi as [H1 H2]. split; [exact H1|]. intros x. cbn [fresh lens]. lia.
    + intros G. apply in_app_iff in G. destruct G as [G|G].
      * destruct (default_nonempty h); [destruct G as [G|[]]; discriminate|destruct G].
      * apply in_flat_map in G. destruct G as [c' [_ G]]. apply consider_in in G. destruct G as [-> G].
        destruct Hi as [H1 H2]. specialize (H2 c). rewrite H1, Hl in H2. apply G. lia.
  - rewrite harvest_by_type_fold by congruence.
    destruct (has_mask ht HarvestDefaultData).
    + apply fold_zero; [exact Hl| |].
      * destruct Hi as [H1 H2]. split; assumption.
      * destruct (default_nonempty h); [intros [G|[]]; discriminate|intros []].
    + apply fold_zero; [exact Hl|exact Hi|intros []].
Qed.

Lemma hrun_zero l ops c :
  l c = 0%N -> hinv l (snd (hrun l ops)) /\ ~ In (EmEvents c) (fst (hrun l ops)).
Proof.
  intros Hl. unfold hrun.
  assert (G : forall acc, hinv l (snd acc) -> ~ In (EmEvents c) (fst acc) ->
              hinv l (snd (fold_left hstep ops acc)) /\ ~ In (EmEvents c) (fst (fold_left hstep ops acc))).
  { induction ops as [|o ops IH]; intros [out h] Hi Hn; cbn [fold_left]; [split; assumption|].
    cbn [fst snd] in Hi, Hn. apply IH.
    - destruct o as [c'| |ht]; cbn [hstep snd].
      + apply hinv_add. exact Hi.
      + destruct Hi as [H1 H2]. split; assumption.
      + destruct (harvest_by_type h ht) as [o' h'] eqn:E. cbn [snd].
        pose proof (harvest_zero l h ht c Hl Hi) as [Hz _]. rewrite E in Hz. exact Hz.
    - destruct o as [c'| |ht]; cbn [hstep fst]; try exact Hn.
      destruct (harvest_by_type h ht) as [o' h'] eqn:E. cbn [fst].
      pose proof (harvest_zero l h ht c Hl Hi) as [_ Hz]. rewrite E in Hz. cbn [fst] in Hz.
      intros G. apply in_app_iff in G. tauto. }
  apply G; cbn [hinit fst snd].
  - split; [reflexivity|]. intros x. cbn. lia.
  - intros [].
Qed.

Lemma zero_limit_never_sent l ops c : l c = 0%N -> ~ In (EmEvents c) (fst (hrun l ops)).
Proof. intros H. apply (hrun_zero l ops c H). Qed.

(* non-vacuity: a category with a non-zero limit IS sent, on both paths; one with limit 0 is not *)
Definition ex_lims (c : ecat) : N := match c with ESpan => 0%N | _ => 5%N end.
Example ex_zero_limit :
  ex_lims ESpan = 0%N /\
  fst (hrun ex_lims [HAdd ESpan; HAdd ETxn; HAddDefault; HHarvest HarvestAll]) = [EmDefault; EmEvents ETxn] /\
  fst (hrun ex_lims [HAdd ESpan; HAdd ETxn; HHarvest HarvestSpanEvents; HHarvest HarvestTxnEvents]) = [EmEvents ETxn].
Proof. repeat split. Qed.

(* non-vacuity for the plan theorems *)
Definition ex_reply_all : reply :=
  {| r_ehc := Some {| e_ms := Some 60000%N; e_error := Some 100; e_txn := Some 10000; e_custom := None;
                      e_span := None; e_log := Some 0 |};
     r_sehc := Some {| s_ms := None; s_limit := SLVal 1000 |} |}.
Definition ex_reply_custom : reply :=
  {| r_ehc := Some {| e_ms := Some 5000%N; e_error := Some 100; e_txn := None; e_custom := Some 0;
                      e_span := None; e_log := None |};
     r_sehc := Some {| s_ms := Some 0%N; s_limit := SLAbsent |} |}.
Example ex_plans :
  reply_in_range ex_reply_all = true /\ trigger_plan ex_reply_all = Some [(HarvestAll, S60)] /\
  reply_in_range ex_reply_custom = true /\
  trigger_plan ex_reply_custom =
    Some [(HarvestDefaultData, S60); (HarvestTxnEvents, S60); (HarvestCustomEvents, 5000000000);
          (HarvestErrorEvents, 5000000000); (HarvestSpanEvents, S60); (HarvestLogEvents, S60)] /\
  plan_limits ex_reply_custom = Some [10000; 0; 100; 10000; 20000].
Proof. repeat split. Qed.

(* outside the stated range: a report period of 2^63 ns or more wraps to a non-positive Duration
   (time.NewTicker panics on those); the statement of C12_plan excludes them *)
Example ex_overflow : ms_okb 9223372036855%N = false /\ dur_of_ms 9223372036855%N < 0.
Proof. split; [reflexivity|]. vm_compute. reflexivity. Qed.
