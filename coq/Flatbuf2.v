(* Flatbuf2.v -- C10: byte-level model of the flatbuffers Go runtime's read side
   (github.com/google/flatbuffers/go table.go, encode.go) as used by the generated accessors.
   Definitions only.

   Offsets are uint32 and wrap (UOffsetT arithmetic); nothing is verified by the runtime, so every
   access is an unchecked slice operation: the model returns None exactly where Go panics
   (index out of range / slice bounds out of range).  The message buffer has cap = len
   (listener.go ReadMessage: make([]byte, dataSize)). *)
From Coq Require Import NArith List Bool.
Import ListNotations.
Open Scope N_scope.

Definition W32 : N := 4294967296.
Definition wrap32 (x : N) : N := x mod W32.

(* little-endian value of a byte list *)
Fixpoint le_val (bs : list N) : N :=
  match bs with
  | [] => 0
  | b :: r => b + 256 * le_val r
  end.

(* skipn / firstn with N counts (structural on the list, never through a big nat) *)
Fixpoint dropN (n : N) (l : list N) : list N :=
  match l with
  | [] => []
  | x :: r => if n =? 0 then l else dropN (n - 1) r
  end.
Fixpoint takeN (n : N) (l : list N) : list N :=
  match l with
  | [] => []
  | x :: r => if n =? 0 then [] else x :: takeN (n - 1) r
  end.

Definition lenN (l : list N) : N := N.of_nat (length l).

Section Buf.
  Variable bs : list N.     (* Table.Bytes; [] also stands for the nil slice of a zero Table *)
  Let len : N := lenN bs.

  (* t.Bytes[off:] followed by buf[k-1] and the reads below it: fine iff off + k <= len *)
  Definition get_le (off k : N) : option N :=
    if off + k <=? len then Some (le_val (takeN k (dropN off bs))) else None.
  Definition get_u8 (off : N) := get_le off 1.
  Definition get_u16 (off : N) := get_le off 2.
  Definition get_u32 (off : N) := get_le off 4.
  Definition get_u64 (off : N) := get_le off 8.
  (* GetBool: buf[0] == 1 *)
  Definition get_bool (off : N) : option bool :=
    match get_u8 off with Some b => Some (b =? 1) | None => None end.

  (* Table.Offset(vtableOffset):
       vtable := UOffsetT(SOffsetT(t.Pos) - t.GetSOffsetT(t.Pos))
       if vtableOffset < t.GetVOffsetT(vtable) { return t.GetVOffsetT(vtable + UOffsetT(vtableOffset)) }
       return 0 *)
  Definition tab_offset (pos vo : N) : option N :=
    match get_u32 pos with
    | None => None
    | Some so =>
        let vt := wrap32 (pos + W32 - so) in
        match get_u16 vt with
        | None => None
        | Some vlen => if vo <? vlen then get_u16 (wrap32 (vt + vo)) else Some 0
        end
    end.

  (* Table.Indirect(off) = off + GetUOffsetT(t.Bytes[off:]) *)
  Definition tab_indirect (off : N) : option N :=
    match get_u32 off with Some d => Some (wrap32 (off + d)) | None => None end.

  (* Table.ByteVector(off):
       off += GetUOffsetT(t.Bytes[off:]); start := off + 4; length := GetUOffsetT(t.Bytes[off:])
       return t.Bytes[start : start+length]          (uint32 arithmetic; start <= end <= cap needed) *)
  Definition tab_bytevector (off : N) : option (list N) :=
    match get_u32 off with
    | None => None
    | Some d =>
        let off' := wrap32 (off + d) in
        match get_u32 off' with
        | None => None
        | Some l =>
            let start := wrap32 (off' + 4) in
            let stop := wrap32 (start + l) in
            if (start <=? stop) && (stop <=? len) then Some (takeN (stop - start) (dropN start bs)) else None
        end
    end.

  (* Table.VectorLen(off): off += t.Pos; off += GetUOffsetT(t.Bytes[off:]); return int(GetUOffsetT(t.Bytes[off:])) *)
  Definition tab_vectorlen (pos o : N) : option N :=
    let off := wrap32 (o + pos) in
    match get_u32 off with
    | None => None
    | Some d => get_u32 (wrap32 (off + d))
    end.

  (* Table.Vector(off): off += t.Pos; x := off + GetUOffsetT(t.Bytes[off:]); x += 4 *)
  Definition tab_vector (pos o : N) : option N :=
    let off := wrap32 (o + pos) in
    match get_u32 off with
    | None => None
    | Some d => Some (wrap32 (wrap32 (off + d) + 4))
    end.

  (* Table.Union(t2, off): off += t.Pos; t2.Pos = off + t.GetUOffsetT(off) *)
  Definition tab_union (pos o : N) : option N :=
    let off := wrap32 (o + pos) in
    match get_u32 off with
    | None => None
    | Some d => Some (wrap32 (off + d))
    end.

  (* ---- the shapes of the generated accessors; vo = the vtable offset the accessor passes to Offset.
     Outer None = panic. *)

  (* func (rcv *T) F() []byte { o := Offset(vo); if o != 0 { return ByteVector(o + Pos) }; return nil } *)
  Definition acc_bytes (pos vo : N) : option (option (list N)) :=
    match tab_offset pos vo with
    | None => None
    | Some o => if o =? 0 then Some None
                else match tab_bytevector (wrap32 (o + pos)) with Some v => Some (Some v) | None => None end
    end.

  (* func (rcv *T) F() uintK { o := Offset(vo); if o != 0 { return GetUintK(o + Pos) }; return 0 } *)
  Definition acc_scalar (k pos vo : N) : option N :=
    match tab_offset pos vo with
    | None => None
    | Some o => if o =? 0 then Some 0 else get_le (wrap32 (o + pos)) k
    end.

  Definition acc_bool (pos vo : N) : option bool :=
    match tab_offset pos vo with
    | None => None
    | Some o => if o =? 0 then Some false else get_bool (wrap32 (o + pos))
    end.

  (* func (rcv *T) F(obj *U) *U { o := Offset(vo); if o != 0 { x := Indirect(o + Pos); obj.Init(Bytes, x); return obj }; return nil } *)
  Definition acc_table (pos vo : N) : option (option N) :=
    match tab_offset pos vo with
    | None => None
    | Some o => if o =? 0 then Some None
                else match tab_indirect (wrap32 (o + pos)) with Some x => Some (Some x) | None => None end
    end.

  (* func (rcv *T) FLength() int { o := Offset(vo); if o != 0 { return VectorLen(o) }; return 0 } *)
  Definition acc_veclen (pos vo : N) : option N :=
    match tab_offset pos vo with
    | None => None
    | Some o => if o =? 0 then Some 0 else tab_vectorlen pos o
    end.

  (* func (rcv *T) F(obj *U, j int) bool { o := Offset(vo); if o != 0 { x := Vector(o); x += UOffsetT(j) * 4;
       x = Indirect(x); obj.Init(Bytes, x); return true }; return false }     inner None: obj left as it was *)
  Definition acc_vecelem (pos vo j : N) : option (option N) :=
    match tab_offset pos vo with
    | None => None
    | Some o => if o =? 0 then Some None
                else match tab_vector pos o with
                     | None => None
                     | Some x => match tab_indirect (wrap32 (x + wrap32 (j * 4))) with
                                 | Some y => Some (Some y) | None => None end
                     end
    end.

  (* func (rcv *T) F(obj *S) *S { o := Offset(vo); if o != 0 { x := o + Pos; obj.Init(Bytes, x); return obj }; return nil } *)
  Definition acc_struct (pos vo : N) : option (option N) :=
    match tab_offset pos vo with
    | None => None
    | Some o => if o =? 0 then Some None else Some (Some (wrap32 (o + pos)))
    end.

  (* func (rcv *Message) Data(obj *flatbuffers.Table) bool { o := Offset(vo); if o != 0 { Union(obj, o); return true }; return false } *)
  Definition acc_union (pos vo : N) : option (option N) :=
    match tab_offset pos vo with
    | None => None
    | Some o => if o =? 0 then Some None
                else match tab_union pos o with Some x => Some (Some x) | None => None end
    end.

  (* struct member: rcv._tab.GetFloat64(rcv._tab.Pos + flatbuffers.UOffsetT(k)) *)
  Definition struct_get (spos k w : N) : option N := get_le (wrap32 (spos + k)) w.
End Buf.
