(* TriggerEnumN.v -- the harvest-trigger LTS with the broadcast goroutine for EVERY group size 0..6, not only
   the size customTriggerBuilder uses today (6): a category added to or taken out of the broadcast group keeps
   the cancel hand-shake free of deadlock, double close and a waiting processor.  Each size is one in-Coq
   enumeration (vm_compute) of all reachable states; the theorems below lift them through the generic
   lemmas of TriggerLtsProofs (which only need `check_all c fuel = true`). *)
From Coq Require Import Arith NArith PArith List Bool Lia.
From Verif Require Import TriggerLts TriggerLtsProofs TriggerEnum.
Import ListNotations.

Definition cfgG (n : nat) : tcfg := {| n_trig := n; grouped := true; sync_close := false |}.

Lemma cfgG_6 : cfgG 6 = cfg6.
Proof. reflexivity. Qed.

Lemma check_all_groups_upto5 : forallb (fun n => check_all (cfgG n) 200) [0; 1; 2; 3; 4; 5]%nat = true.
Proof. vm_cast_no_check (eq_refl true). Qed.

Lemma group_checked n : (n <= 6)%nat -> check_all (cfgG n) 200 = true.
Proof.
  intros Hn. pose proof check_all_groups_upto5 as H. rewrite forallb_forall in H.
  destruct (Nat.eq_dec n 6) as [->|Hne]; [exact check_all_cfg6|].
  apply H. assert (Hin : (n < 6)%nat) by lia.
  do 6 (destruct n as [|n]; [simpl; tauto|]). lia.
Qed.

Lemma group_no_deadlock n : (n <= 6)%nat -> forall s, treach (cfgG n) s -> is_final s = false ->
  (exists l s', tstep (cfgG n) s l s') /\
  (close_started s = true -> exists l s', tstep (cfgG n) s l s' /\ is_env l = false).
Proof. intros Hn. apply (live (cfgG n) 200 (group_checked n Hn)). Qed.

Lemma group_close_terminates n : (n <= 6)%nat -> forall s, treach (cfgG n) s ->
  (crashed s = false /\ forall l s', tstep (cfgG n) s l s' -> is_send_on_closed l = false /\ crashed s' = false) /\
  (close_started s = true ->
     (forall l s', tstep (cfgG n) s l s' -> is_env l = false -> (rank (cfgG n) s' < rank (cfgG n) s)%N) /\
     (exists tr s', psteps (cfgG n) s tr s' /\ is_final s' = true /\
        trig_closed s' = true /\ cancel_closed s' = true /\ crashed s' = false /\ goroutines_gone s' = true)).
Proof.
  intros Hn s Hr. pose proof (group_checked n Hn) as H. split; [apply (safe (cfgG n) 200 H s Hr)|].
  intros Hcs. split.
  - intros l s' Hst He. apply (rank_decreases (cfgG n) 200 H s l s' Hr Hcs Hst He).
  - destruct (close_terminates_gen (cfgG n) 200 H s Hr Hcs) as (tr & s' & Hp & Hf).
    exists tr, s'. split; [exact Hp|]. split; [exact Hf|]. apply final_closed_once. exact Hf.
Qed.

Lemma group_processor_never_waits n : (n <= 6)%nat -> forall s, treach (cfgG n) s ->
  ps s <> PW /\ (close_started s = false -> exists s', tstep (cfgG n) s StartClose s' /\ ps s' = ps s).
Proof. intros Hn. apply (proc (cfgG n) 200 (group_checked n Hn)). Qed.

(* the hypotheses are met by a non-trivial state of a group of three *)
Example ex_group3_closing : exists s, treach (cfgG 3) s /\ close_started s = true /\ is_final s = false.
Proof.
  destruct (trun (cfgG 3) (tinit (cfgG 3)) [Tick 2; TakeTick 2; Deliver 2; Tick 1; TakeTick 1; StartClose; BCancel]) as [s|] eqn:E.
  - exists s. split; [eapply trun_reach; [apply tr_init|exact E]|].
    revert E. vm_compute. intros E. injection E as <-. split; reflexivity.
  - revert E. vm_compute. discriminate.
Qed.
