(* JsonProofs.v -- C08: soundness of the JSON recogniser, validity of jsonx.AppendString output for
   every byte string, Go's UTF-8 decoder facts.  The payload encoders are in JsonPayloadProofs.v. *)
From Coq Require Import NArith Arith List Bool Lia ZifyBool ZifyN.
From Verif Require Import Common Json.
Import ListNotations.
Open Scope N_scope.

(* ------------------------------------------------------------------ small facts *)

Lemma Ws_nil : Ws [].
Proof. reflexivity. Qed.

Lemma Ws_app a b : Ws a -> Ws b -> Ws (a ++ b).
Proof. unfold Ws. intros Ha Hb. rewrite forallb_app, Ha, Hb. reflexivity. Qed.

Lemma Ws_cons c r : is_ws c = true -> Ws r -> Ws (c :: r).
Proof. unfold Ws. intros Hc Hr. cbn [forallb]. rewrite Hc, Hr. reflexivity. Qed.

Lemma StrBody_app a b : StrBody a -> StrBody b -> StrBody (a ++ b).
Proof.
  intros Ha Hb. induction Ha as [|c r Hc Hr IH]; [exact Hb|].
  rewrite <- app_assoc. constructor; assumption.
Qed.

Lemma StrBody_one c : StrChar c -> StrBody c.
Proof. intros H. rewrite <- (app_nil_r c). constructor; [exact H|constructor]. Qed.

Lemma bytes_eqb_refl a : bytes_eqb a a = true.
Proof. induction a as [|x a IH]; [reflexivity|]. cbn [bytes_eqb]. rewrite N.eqb_refl, IH. reflexivity. Qed.

Lemma bytes_eqb_eq a b : bytes_eqb a b = true -> a = b.
Proof.
  revert b. induction a as [|x a IH]; intros [|y b] H; cbn [bytes_eqb] in H; try discriminate; [reflexivity|].
  apply andb_prop in H. destruct H as [H1 H2]. apply N.eqb_eq in H1. subst. f_equal. apply IH. exact H2.
Qed.

Lemma join_cons sep v r : r <> [] -> join sep (v :: r) = v ++ sep :: join sep r.
Proof. destruct r; [congruence|reflexivity]. Qed.

Lemma join_one sep v : join sep [v] = v.
Proof. reflexivity. Qed.

Lemma Forall2_cons_inv {A B} (R : A -> B -> Prop) x l y l' :
  Forall2 R (x :: l) (y :: l') -> R x y /\ Forall2 R l l'.
Proof. intros H. inversion H; subst. split; assumption. Qed.

Lemma Forall2_nonnil {A B} (R : A -> B -> Prop) l1 l2 : Forall2 R l1 l2 -> l1 <> [] -> l2 <> [].
Proof. intros H. destruct H; congruence. Qed.

(* ------------------------------------------------------------------ skip_ws, span_digits, strip_prefix *)

Lemma skip_ws_spec bs : exists w, bs = w ++ skip_ws bs /\ Ws w.
Proof.
  induction bs as [|c r IH].
  - exists []. split; reflexivity.
  - cbn [skip_ws]. destruct (is_ws c) eqn:Hc.
    + destruct IH as [w [E Hw]]. exists (c :: w). split.
      * cbn [app]. f_equal. exact E.
      * apply Ws_cons; assumption.
    + exists []. split; reflexivity.
Qed.

Lemma span_digits_spec bs ds rest :
  span_digits bs = (ds, rest) -> bs = ds ++ rest /\ forallb is_digit ds = true.
Proof.
  revert ds rest. induction bs as [|c r IH]; intros ds rest H; cbn [span_digits] in H.
  - inversion H; subst. split; reflexivity.
  - destruct (is_digit c) eqn:Hc.
    + destruct (span_digits r) as [ds' rest'] eqn:E. inversion H; subst.
      destruct (IH _ _ eq_refl) as [E1 E2]. split.
      * cbn [app]. f_equal. exact E1.
      * cbn [forallb]. rewrite Hc, E2. reflexivity.
    + inversion H; subst. split; reflexivity.
Qed.

Lemma strip_prefix_spec p bs r : strip_prefix p bs = Some r -> bs = p ++ r.
Proof.
  revert bs. induction p as [|x p IH]; intros bs H.
  - cbn in H. inversion H. reflexivity.
  - destruct bs as [|y bs]; cbn [strip_prefix] in H; [discriminate|].
    destruct (x =? y) eqn:E; [|discriminate]. apply N.eqb_eq in E. subst. cbn [app]. f_equal. apply IH. exact H.
Qed.

(* ------------------------------------------------------------------ scan_str *)

Local Ltac kcase H IH :=
  match type of H with
  | match scan_str ?r with _ => _ end = Some _ =>
      let B := fresh "body'" in let R := fresh "rest'" in let E := fresh "E" in
      destruct (scan_str r) as [[B R]|] eqn:E; [|discriminate H];
      inversion H; subst; clear H;
      let Q1 := fresh "Q" in let Q2 := fresh "Q" in
      destruct (IH r ltac:(cbn [length] in *; lia) _ _ E) as [Q1 Q2]
  end.

Lemma scan_str_sound_n n : forall bs, (length bs <= n)%nat -> forall body rest,
  scan_str bs = Some (body, rest) -> bs = body ++ QUOTE :: rest /\ StrBody body.
Proof.
  induction n as [|n IH]; intros bs Hlen body rest H.
  - destruct bs; [discriminate H|cbn in Hlen; lia].
  - destruct bs as [|a r]; [discriminate H|]. cbn [scan_str] in H. cbn [length] in Hlen.
    destruct (a =? QUOTE) eqn:Eq.
    { apply N.eqb_eq in Eq. inversion H; subst. split; [reflexivity|constructor]. }
    destruct (a =? BSLASH) eqn:Eb.
    { apply N.eqb_eq in Eb. subst a. destruct r as [|e r2]; [discriminate H|].
      destruct (is_simple_esc e) eqn:Ee.
      - kcase H IH. split; [rewrite Q at 1; reflexivity|].
        apply (SB_cons [BSLASH; e] body'); [constructor; exact Ee|exact Q0].
      - destruct (e =? 117) eqn:Eu; [|discriminate H]. apply N.eqb_eq in Eu. subst e.
        destruct r2 as [|h1 [|h2 [|h3 [|h4 r3]]]]; try discriminate H.
        destruct (is_hex h1 && is_hex h2 && is_hex h3 && is_hex h4) eqn:Eh; [|discriminate H].
        kcase H IH. split; [rewrite Q at 1; reflexivity|].
        apply (SB_cons [BSLASH; 117; h1; h2; h3; h4] body'); [constructor; exact Eh|exact Q0]. }
    destruct (utf8_1 a) eqn:E1.
    { kcase H IH. split; [rewrite Q at 1; reflexivity|]. apply (SB_cons [a] body'); [constructor; exact E1|exact Q0]. }
    destruct r as [|b r2]; [discriminate H|].
    destruct (utf8_2 a b) eqn:E2.
    { kcase H IH. split; [rewrite Q at 1; reflexivity|]. apply (SB_cons [a; b] body'); [constructor; exact E2|exact Q0]. }
    destruct r2 as [|c r3]; [discriminate H|].
    destruct (utf8_3 a b c) eqn:E3.
    { kcase H IH. split; [rewrite Q at 1; reflexivity|]. apply (SB_cons [a; b; c] body'); [constructor; exact E3|exact Q0]. }
    destruct r3 as [|d r4]; [discriminate H|].
    destruct (utf8_4 a b c d) eqn:E4; [|discriminate H].
    kcase H IH. split; [rewrite Q at 1; reflexivity|]. apply (SB_cons [a; b; c; d] body'); [constructor; exact E4|exact Q0].
Qed.

Lemma scan_str_sound bs body rest :
  scan_str bs = Some (body, rest) -> bs = body ++ QUOTE :: rest /\ StrBody body.
Proof. apply (scan_str_sound_n (length bs)). lia. Qed.

(* a boolean test for string bodies, used to lift finite sweeps *)
Definition strbody_check (l : list N) : bool :=
  match scan_str (l ++ [QUOTE]) with Some (_, []) => true | _ => false end.

Lemma strbody_check_sound l : strbody_check l = true -> StrBody l.
Proof.
  unfold strbody_check. destruct (scan_str (l ++ [QUOTE])) as [[body rest]|] eqn:E; [|discriminate].
  destruct rest; [|discriminate]. intros _. apply scan_str_sound in E. destruct E as [E Hb].
  apply app_inj_tail in E. destruct E as [E _]. subst. exact Hb.
Qed.

Lemma string_monitor_sound bs : string_monitor bs = true -> JsonString bs.
Proof.
  unfold string_monitor. destruct bs as [|q r]; [discriminate|]. intros H. apply andb_prop in H.
  destruct H as [Hq H]. apply N.eqb_eq in Hq. subst q.
  destruct (scan_str r) as [[body rest]|] eqn:E; [|discriminate]. destruct rest; [|discriminate].
  apply scan_str_sound in E. destruct E as [E Hb]. subst r. constructor. exact Hb.
Qed.

(* ------------------------------------------------------------------ numbers *)

Lemma scan_int_sound bs ip rest : scan_int bs = Some (ip, rest) -> bs = ip ++ rest /\ IntPart ip.
Proof.
  unfold scan_int. destruct bs as [|d r]; [discriminate|].
  destruct (d =? 48) eqn:E0.
  - apply N.eqb_eq in E0. subst. intros H. inversion H; subst. split; [reflexivity|constructor].
  - destruct (is_digit19 d) eqn:E1; [|discriminate].
    destruct (span_digits r) as [ds rest'] eqn:E. intros H. inversion H; subst.
    apply span_digits_spec in E. destruct E as [E Hd]. split; [cbn [app]; f_equal; exact E|].
    constructor; assumption.
Qed.

Lemma scan_frac_sound bs fp rest : scan_frac bs = Some (fp, rest) -> bs = fp ++ rest /\ FracPart fp.
Proof.
  unfold scan_frac. intros H.
  assert (Hdef : Some (@nil N, bs) = Some (fp, rest) -> bs = fp ++ rest /\ FracPart fp).
  { intros H'. inversion H'; subst. split; [reflexivity|constructor]. }
  destruct bs as [|c r]; [exact (Hdef H)|].
  destruct (N.eq_dec c 46) as [->|Hne].
  - destruct (span_digits r) as [ds rest'] eqn:E. apply span_digits_spec in E. destruct E as [E Hd].
    destruct ds as [|d ds]; [discriminate H|]. inversion H; subst. split; [reflexivity|].
    constructor. split; [discriminate|exact Hd].
  - assert (Hc : match c with 46 => false | _ => true end = true).
    { destruct c as [|p]; [reflexivity|]. do 6 (destruct p as [p|p|]; try reflexivity). congruence. }
    revert H. destruct c as [|p]; [exact Hdef|]. do 6 (destruct p as [p|p|]; try exact Hdef). congruence.
Qed.

Lemma scan_exp_sound bs ep rest : scan_exp bs = Some (ep, rest) -> bs = ep ++ rest /\ ExpPart ep.
Proof.
  unfold scan_exp. destruct bs as [|e r].
  - intros H. inversion H; subst. split; [reflexivity|constructor].
  - destruct ((e =? 101) || (e =? 69)) eqn:Ee.
    + assert (He : e = 101 \/ e = 69).
      { apply orb_prop in Ee. destruct Ee as [Ee|Ee]; apply N.eqb_eq in Ee; auto. }
      set (sgr := match r with
                  | s :: r' => if (s =? 43) || (s =? 45) then ([s], r') else ([], r)
                  | [] => ([], r) end).
      assert (Hsg : r = fst sgr ++ snd sgr /\ (fst sgr = [] \/ fst sgr = [43] \/ fst sgr = [45])).
      { subst sgr. destruct r as [|s r']; [split; [reflexivity|auto]|].
        destruct ((s =? 43) || (s =? 45)) eqn:Es; cbn [fst snd]; [|split; [reflexivity|auto]].
        split; [reflexivity|]. apply orb_prop in Es. destruct Es as [Es|Es]; apply N.eqb_eq in Es; subst; auto. }
      destruct sgr as [sg r1]. cbn [fst snd] in Hsg. destruct Hsg as [Er Hsg].
      destruct (span_digits r1) as [ds rest'] eqn:E. apply span_digits_spec in E. destruct E as [E Hd].
      destruct ds as [|d ds]; [discriminate|]. intros H. inversion H; subst. split.
      * cbn [app]. f_equal. rewrite <- app_assoc. reflexivity.
      * constructor; [exact He|exact Hsg|]. split; [discriminate|exact Hd].
    + intros H. inversion H; subst. split; [reflexivity|constructor].
Qed.

Lemma scan_num_sound bs n rest : scan_num bs = Some (n, rest) -> bs = n ++ rest /\ JsonNumber n.
Proof.
  unfold scan_num.
  set (sgr := match bs with
              | c :: r => if c =? 45 then ([45], r) else ([], bs)
              | [] => ([], bs) end).
  assert (Hsg : bs = fst sgr ++ snd sgr /\ (fst sgr = [] \/ fst sgr = [45])).
  { subst sgr. destruct bs as [|c r]; [split; [reflexivity|auto]|].
    destruct (c =? 45) eqn:Ec; cbn [fst snd]; [|split; [reflexivity|auto]].
    apply N.eqb_eq in Ec. subst. split; [reflexivity|auto]. }
  destruct sgr as [sg r0]. cbn [fst snd] in Hsg. destruct Hsg as [E0 Hsg].
  destruct (scan_int r0) as [[ip r1]|] eqn:Ei; [|discriminate].
  destruct (scan_frac r1) as [[fp r2]|] eqn:Ef; [|discriminate].
  destruct (scan_exp r2) as [[ep r3]|] eqn:Ee; [|discriminate].
  intros H. inversion H; subst.
  apply scan_int_sound in Ei. apply scan_frac_sound in Ef. apply scan_exp_sound in Ee.
  destruct Ei as [-> Hi]. destruct Ef as [-> Hf]. destruct Ee as [-> He]. split.
  - repeat rewrite <- app_assoc. reflexivity.
  - constructor; assumption.
Qed.

(* ------------------------------------------------------------------ parser soundness *)

Definition mk_member (kv : list N * list N) : list N := fst kv ++ COLON :: snd kv.

Lemma JsonT_pad_right t v : JsonT t v -> forall w, Ws w -> JsonT t (v ++ w).
Proof.
  intros H w Hw. pose proof (JT_pad t [] v w Ws_nil H Hw) as P. exact P.
Qed.

Lemma JsonT_arr_intro ts vs : Forall2 JsonT ts vs -> JsonT (JArr ts) (LBR :: join COMMA vs ++ [RBR]).
Proof.
  intros H. destruct ts as [|t ts].
  - inversion H; subst. apply (JT_arr0 []). exact Ws_nil.
  - apply JT_arr; [discriminate|exact H].
Qed.

Lemma JsonT_obj_intro (ms : list (list N * jtree)) (kvs : list (list N * list N)) :
  Forall2 JsonKey (map fst ms) (map fst kvs) -> Forall2 JsonT (map snd ms) (map snd kvs) ->
  JsonT (JObj ms) (LBRACE :: join COMMA (map (fun kv => fst kv ++ COLON :: snd kv) kvs) ++ [RBRACE]).
Proof.
  intros Hk Hv. destruct ms as [|m ms].
  - destruct kvs; [|inversion Hk]. apply (JT_obj0 []). exact Ws_nil.
  - apply JT_obj; [discriminate|exact Hk|exact Hv].
Qed.

Definition P_val (f : list N) : Prop := forall bs t rest,
  parse_val f bs = Some (t, rest) -> exists pre, bs = pre ++ rest /\ JsonT t pre.
Definition P_elems (f : list N) : Prop := forall bs ts rest,
  parse_elems f bs = Some (ts, rest) ->
  exists vs, ts <> [] /\ Forall2 JsonT ts vs /\ bs = join COMMA vs ++ RBR :: rest.
Definition P_members (f : list N) : Prop := forall bs ms rest,
  parse_members f bs = Some (ms, rest) ->
  exists kvs : list (list N * list N), ms <> [] /\ Forall2 JsonKey (map fst ms) (map fst kvs) /\
    Forall2 JsonT (map snd ms) (map snd kvs) /\
    bs = join COMMA (map (fun kv => fst kv ++ COLON :: snd kv) kvs) ++ RBRACE :: rest.

(* ws v ws' followed by rest, where rest = skip_ws r' *)
Lemma wrap_value t v bs r r' :
  JsonT t v -> skip_ws bs = v ++ r' -> r = skip_ws r' -> exists pre, bs = pre ++ r /\ JsonT t pre.
Proof.
  intros Ht E ->. destruct (skip_ws_spec bs) as [w1 [E1 Hw1]]. destruct (skip_ws_spec r') as [w2 [E2 Hw2]].
  exists (w1 ++ v ++ w2). split.
  - rewrite E1 at 1. rewrite E. rewrite E2 at 1. repeat rewrite <- app_assoc. reflexivity.
  - apply JT_pad; assumption.
Qed.

Lemma parse_sound f : P_val f /\ P_elems f /\ P_members f.
Proof.
  induction f as [|x f [IHv [IHe IHm]]].
  - repeat split; intros bs t rest H; discriminate H.
  - repeat split.
    + (* parse_val *)
      intros bs t rest H. cbn [parse_val] in H.
      destruct (skip_ws bs) as [|c r] eqn:Es; [discriminate H|].
      destruct (c =? QUOTE) eqn:Eq.
      { apply N.eqb_eq in Eq. subst c. destruct (scan_str r) as [[body r']|] eqn:E; [|discriminate H].
        inversion H; subst t rest. apply scan_str_sound in E. destruct E as [E Hb].
        apply (wrap_value _ (QUOTE :: body ++ [QUOTE]) bs _ r'); [constructor; exact Hb| |reflexivity].
        rewrite Es, E. cbn [app]. rewrite <- app_assoc. reflexivity. }
      destruct (c =? LBR) eqn:Ea.
      { apply N.eqb_eq in Ea. subst c. destruct (skip_ws_spec r) as [w [Er Hw]].
        destruct (skip_ws r) as [|c2 r2] eqn:Es2; [discriminate H|].
        destruct (c2 =? RBR) eqn:Ec2.
        - apply N.eqb_eq in Ec2. subst c2. inversion H; subst t rest.
          apply (wrap_value _ (LBR :: w ++ [RBR]) bs _ r2); [constructor; exact Hw| |reflexivity].
          rewrite Es, Er. cbn [app]. rewrite <- app_assoc. reflexivity.
        - destruct (parse_elems f (c2 :: r2)) as [[ts r']|] eqn:E; [|discriminate H].
          inversion H; subst t rest. apply IHe in E. destruct E as [vs [Hne [Hf E]]].
          (* leading whitespace w belongs to the first element *)
          destruct ts as [|t0 ts']; [congruence|].
          destruct vs as [|v0 vs']; [inversion Hf|].
          apply Forall2_cons_inv in Hf. destruct Hf as [Ht0 Hf'].
          assert (Hf2 : Forall2 JsonT (t0 :: ts') ((w ++ v0) :: vs')).
          { constructor; [|exact Hf']. pose proof (JT_pad t0 w v0 [] Hw Ht0 Ws_nil) as P.
            rewrite app_nil_r in P. exact P. }
          apply (wrap_value _ (LBR :: join COMMA ((w ++ v0) :: vs') ++ [RBR]) bs _ r');
            [apply JT_arr; [discriminate|exact Hf2]| |reflexivity].
          rewrite Es, Er, E. cbn [app]. f_equal. destruct vs' as [|v1 vs''].
          + cbn [join]. repeat rewrite <- app_assoc. reflexivity.
          + rewrite (join_cons COMMA (w ++ v0) (v1 :: vs'')), (join_cons COMMA v0 (v1 :: vs'')) by discriminate.
            repeat rewrite <- app_assoc. cbn [app]. reflexivity. }
      destruct (c =? LBRACE) eqn:Eo.
      { apply N.eqb_eq in Eo. subst c. destruct (skip_ws_spec r) as [w [Er Hw]].
        destruct (skip_ws r) as [|c2 r2] eqn:Es2; [discriminate H|].
        destruct (c2 =? RBRACE) eqn:Ec2.
        - apply N.eqb_eq in Ec2. subst c2. inversion H; subst t rest.
          apply (wrap_value _ (LBRACE :: w ++ [RBRACE]) bs _ r2); [constructor; exact Hw| |reflexivity].
          rewrite Es, Er. cbn [app]. rewrite <- app_assoc. reflexivity.
        - destruct (parse_members f (c2 :: r2)) as [[ms r']|] eqn:E; [|discriminate H].
          inversion H; subst t rest. apply IHm in E. destruct E as [kvs [Hne [Hk [Hv E]]]].
          destruct kvs as [|[k0 v0] kvs']; [destruct ms; [congruence|inversion Hk]|].
          destruct ms as [|[mk0 mt0] ms']; [congruence|].
          cbn [map fst snd] in Hk, Hv. apply Forall2_cons_inv in Hk. destruct Hk as [Hk0 Hk'].
          assert (Hk0' : JsonKey mk0 (w ++ k0)).
          { destruct Hk0 as [w1 body w2 Hw1 Hb Hw2]. rewrite app_assoc. constructor; [apply Ws_app; assumption|exact Hb|exact Hw2]. }
          apply (wrap_value _ (LBRACE :: join COMMA (map (fun kv => fst kv ++ COLON :: snd kv) ((w ++ k0, v0) :: kvs')) ++ [RBRACE]) bs _ r');
            [apply (JT_obj ((mk0, mt0) :: ms') ((w ++ k0, v0) :: kvs')); [discriminate| |exact Hv]| |reflexivity].
          { cbn [map fst snd]. constructor; assumption. }
          rewrite Es, Er, E. cbn [app]. f_equal. cbn [map fst snd]. destruct kvs' as [|kv1 kvs''].
          + cbn [map join]. repeat rewrite <- app_assoc. reflexivity.
          + cbn [map fst snd].
            rewrite (join_cons COMMA ((w ++ k0) ++ COLON :: v0)), (join_cons COMMA (k0 ++ COLON :: v0)) by discriminate.
            repeat rewrite <- app_assoc. cbn [app]. reflexivity. }
      destruct (c =? 110) eqn:En.
      { destruct (strip_prefix lit_null (c :: r)) as [r'|] eqn:E; [|discriminate H]. inversion H; subst t rest.
        apply strip_prefix_spec in E.
        apply (wrap_value _ lit_null bs _ r'); [constructor| |reflexivity]. rewrite Es. exact E. }
      destruct (c =? 116) eqn:Et.
      { destruct (strip_prefix lit_true (c :: r)) as [r'|] eqn:E; [|discriminate H]. inversion H; subst t rest.
        apply strip_prefix_spec in E.
        apply (wrap_value _ lit_true bs _ r'); [constructor| |reflexivity]. rewrite Es. exact E. }
      destruct (c =? 102) eqn:Ef.
      { destruct (strip_prefix lit_false (c :: r)) as [r'|] eqn:E; [|discriminate H]. inversion H; subst t rest.
        apply strip_prefix_spec in E.
        apply (wrap_value _ lit_false bs _ r'); [constructor| |reflexivity]. rewrite Es. exact E. }
      destruct (scan_num (c :: r)) as [[n r']|] eqn:E; [|discriminate H]. inversion H; subst t rest.
      apply scan_num_sound in E. destruct E as [E Hn].
      apply (wrap_value _ n bs _ r'); [constructor; exact Hn| |reflexivity]. rewrite Es. exact E.
    + (* parse_elems *)
      intros bs ts rest H. cbn [parse_elems] in H.
      destruct (parse_val f bs) as [[t [|c r]]|] eqn:Ev; try discriminate H.
      apply IHv in Ev. destruct Ev as [pre [Eb Ht]].
      destruct (c =? COMMA) eqn:Ec.
      * apply N.eqb_eq in Ec. subst c. destruct (parse_elems f r) as [[ts' r']|] eqn:Ee; [|discriminate H].
        inversion H; subst. apply IHe in Ee. destruct Ee as [vs [Hne [Hf E]]].
        exists (pre :: vs). split; [discriminate|]. split; [constructor; assumption|].
        rewrite join_cons by (eapply Forall2_nonnil; eassumption). rewrite E.
        repeat rewrite <- app_assoc. reflexivity.
      * destruct (c =? RBR) eqn:Ec2; [|discriminate H]. apply N.eqb_eq in Ec2. subst c.
        inversion H; subst. exists [pre]. split; [discriminate|]. split; [constructor; [exact Ht|constructor]|].
        reflexivity.
    + (* parse_members *)
      intros bs ms rest H. cbn [parse_members] in H.
      destruct (skip_ws_spec bs) as [w1 [Eb Hw1]].
      destruct (skip_ws bs) as [|q r0] eqn:Es; [discriminate H|].
      destruct (q =? QUOTE) eqn:Eq; [|discriminate H]. apply N.eqb_eq in Eq. subst q.
      destruct (scan_str r0) as [[key r1]|] eqn:Ek; [|discriminate H].
      apply scan_str_sound in Ek. destruct Ek as [Ek Hkb].
      destruct (skip_ws_spec r1) as [w2 [Er1 Hw2]].
      destruct (skip_ws r1) as [|col r2] eqn:Es1; [discriminate H|].
      destruct (col =? COLON) eqn:Ecol; [|discriminate H]. apply N.eqb_eq in Ecol. subst col.
      destruct (parse_val f r2) as [[t [|c r]]|] eqn:Ev; try discriminate H.
      apply IHv in Ev. destruct Ev as [pre [Ev Ht]].
      assert (Hkey : JsonKey key (w1 ++ QUOTE :: key ++ QUOTE :: w2)) by (constructor; assumption).
      assert (Ebs : bs = (w1 ++ QUOTE :: key ++ QUOTE :: w2) ++ COLON :: pre ++ c :: r).
      { rewrite Eb, Ek, Er1, Ev. repeat (rewrite <- app_assoc; cbn [app]). reflexivity. }
      destruct (c =? COMMA) eqn:Ec.
      * apply N.eqb_eq in Ec. subst c. destruct (parse_members f r) as [[ms' r']|] eqn:Em; [|discriminate H].
        inversion H; subst ms rest. apply IHm in Em. destruct Em as [kvs [Hne [Hk [Hv E]]]].
        exists ((w1 ++ QUOTE :: key ++ QUOTE :: w2, pre) :: kvs). split; [discriminate|].
        cbn [map fst snd]. split; [constructor; assumption|]. split; [constructor; assumption|].
        rewrite join_cons.
        2:{ destruct kvs; [destruct ms'; [congruence|inversion Hk]|discriminate]. }
        rewrite Ebs, E. repeat (rewrite <- app_assoc; cbn [app]). reflexivity.
      * destruct (c =? RBRACE) eqn:Ec2; [|discriminate H]. apply N.eqb_eq in Ec2. subst c.
        inversion H; subst ms rest. exists [(w1 ++ QUOTE :: key ++ QUOTE :: w2, pre)].
        split; [discriminate|]. cbn [map fst snd join]. split; [constructor; [exact Hkey|constructor]|].
        split; [constructor; [exact Ht|constructor]|]. rewrite Ebs. repeat (rewrite <- app_assoc; cbn [app]). reflexivity.
Qed.

Lemma json_parse_sound bs t : json_parse bs = Some t -> JsonT t bs.
Proof.
  unfold json_parse. destruct (parse_val (fuel_for bs) bs) as [[t' [|c r]]|] eqn:E; try discriminate.
  intros H. inversion H; subst. apply (proj1 (parse_sound _)) in E. destruct E as [pre [E Ht]].
  rewrite app_nil_r in E. subst. exact Ht.
Qed.

Lemma json_validb_sound bs : json_validb bs = true -> JsonValue bs.
Proof.
  unfold json_validb. destruct (json_parse bs) as [t|] eqn:E; [|discriminate]. intros _.
  exists t. apply json_parse_sound. exact E.
Qed.

Lemma shape_monitor_sound s bs : shape_monitor s bs = true -> HasShape s bs.
Proof.
  unfold shape_monitor. destruct (json_parse bs) as [t|] eqn:E; [|discriminate]. intros H.
  exists t. split; [apply json_parse_sound; exact E|exact H].
Qed.

Lemma HasShape_valid s bs : HasShape s bs -> JsonValue bs.
Proof. intros [t [H _]]. exists t. exact H. Qed.

(* ------------------------------------------------------------------ utf8.DecodeRuneInString and AppendString *)

(* every escape written for a byte below RuneSelf is a valid string body (sweep over the 128 bytes) *)
Lemma escape_ascii_sweep :
  forallb (fun b => strbody_check (escape_ascii b)) (upto 128) = true.
Proof. vm_compute. reflexivity. Qed.

Lemma escape_ascii_ok b : b < 128 -> StrBody (escape_ascii b).
Proof.
  intros H. apply strbody_check_sound.
  exact (forall_lt_by_compute (fun b => strbody_check (escape_ascii b)) 128 escape_ascii_sweep b H).
Qed.

Definition first_class_b (c : N) : bool :=
  (c <? 0x80) && (first_info c =? as_) ||
  (first_info c =? xx) && negb (c <? 0x80) ||
  (first_info c =? s1) && in_range 0xC2 0xDF c ||
  (first_info c =? s2) && (c =? 0xE0) ||
  (first_info c =? s3) && (in_range 0xE1 0xEC c || in_range 0xEE 0xEF c) ||
  (first_info c =? s4) && (c =? 0xED) ||
  (first_info c =? s5) && (c =? 0xF0) ||
  (first_info c =? s6) && in_range 0xF1 0xF3 c ||
  (first_info c =? s7) && (c =? 0xF4).

Lemma first_class_sweep : forallb first_class_b (upto 256) = true.
Proof. vm_compute. reflexivity. Qed.

Lemma first_class c : first_class_b c = true.
Proof.
  destruct (N.ltb_spec c 256) as [H|H].
  - exact (forall_lt_by_compute first_class_b 256 first_class_sweep c H).
  - unfold first_class_b, first_info. destruct (N.ltb_spec c 256) as [H'|H']; [lia|].
    assert (E : (c <? 0x80) = false) by (apply N.ltb_ge; lia). rewrite E. reflexivity.
Qed.

(* the multi-byte decoder either rejects (RuneError, 1) or accepts sz bytes that passed the range checks *)
Lemma decode_multi_spec sz lo hi c0 t0 c size :
  (sz = 2 \/ sz = 3 \/ sz = 4) -> decode_multi sz lo hi c0 t0 = (c, size) ->
  (size = 1 /\ c = RuneError) \/
  (size = sz /\
   match sz, t0 with
   | 2, c1 :: _ => in_range lo hi c1 = true
   | 3, c1 :: c2 :: _ => in_range lo hi c1 = true /\ is_cont c2 = true
   | 4, c1 :: c2 :: c3 :: _ => in_range lo hi c1 = true /\ is_cont c2 = true /\ is_cont c3 = true
   | _, _ => False
   end).
Proof.
  unfold decode_multi, in_range, is_cont, in_range.
  intros [->|[->| ->]] H.
  - destruct t0 as [|c1 t1]; [cbn [len4] in H; change (1 <? 2) with true in H; cbv iota in H; inversion H; auto|].
    assert (E : (len4 (c0 :: c1 :: t1) <? 2) = false) by (destruct t1 as [|? [|? [|? ?]]]; reflexivity).
    rewrite E in H. clear E.
    destruct ((c1 <? lo) || (hi <? c1)) eqn:E1; [inversion H; auto|].
    change (2 <=? 2) with true in H. cbv iota in H. inversion H; subst. right. split; [reflexivity|]. lia.
  - destruct t0 as [|c1 [|c2 t2]];
      [cbn [len4] in H; change (1 <? 3) with true in H; cbv iota in H; inversion H; auto
      |cbn [len4] in H; change (2 <? 3) with true in H; cbv iota in H; inversion H; auto|].
    assert (E : (len4 (c0 :: c1 :: c2 :: t2) <? 3) = false) by (destruct t2 as [|? [|? ?]]; reflexivity).
    rewrite E in H. clear E.
    destruct ((c1 <? lo) || (hi <? c1)) eqn:E1; [inversion H; auto|].
    change (3 <=? 2) with false in H. cbv iota in H.
    destruct ((c2 <? 128) || (191 <? c2)) eqn:E2; [inversion H; auto|].
    change (3 <=? 3) with true in H. cbv iota in H. inversion H; subst. right. split; [reflexivity|]. lia.
  - destruct t0 as [|c1 [|c2 [|c3 t3]]];
      [cbn [len4] in H; change (1 <? 4) with true in H; cbv iota in H; inversion H; auto
      |cbn [len4] in H; change (2 <? 4) with true in H; cbv iota in H; inversion H; auto
      |cbn [len4] in H; change (3 <? 4) with true in H; cbv iota in H; inversion H; auto|].
    cbn [len4] in H. change (4 <? 4) with false in H. cbv iota in H.
    destruct ((c1 <? lo) || (hi <? c1)) eqn:E1; [inversion H; auto|].
    change (4 <=? 2) with false in H. cbv iota in H.
    destruct ((c2 <? 128) || (191 <? c2)) eqn:E2; [inversion H; auto|].
    change (4 <=? 3) with false in H. cbv iota in H.
    destruct ((c3 <? 128) || (191 <? c3)) eqn:E3; [inversion H; auto|].
    inversion H; subst. right. split; [reflexivity|]. lia.
Qed.

Lemma decode_spec c0 t0 c size : 0x80 <= c0 -> decode_rune (c0 :: t0) = (c, size) ->
  (size = 1 /\ c = RuneError) \/
  (exists chars rest, c0 :: t0 = chars ++ rest /\ N.to_nat size = length chars /\ 2 <= size /\ StrChar chars).
Proof.
  intros Hc0 H. pose proof (first_class c0) as Hc. unfold first_class_b in Hc.
  assert (E80 : (c0 <? 0x80) = false) by (apply N.ltb_ge; exact Hc0). rewrite E80 in Hc.
  cbn [andb orb negb] in Hc. rewrite andb_true_r in Hc.
  unfold decode_rune in H.
  repeat (apply orb_prop in Hc; destruct Hc as [Hc|Hc]);
    try (apply andb_prop in Hc; destruct Hc as [Hf Hr]); try rename Hc into Hf;
    apply N.eqb_eq in Hf; rewrite Hf in H.
  - (* xx *) vm_compute in H. inversion H; auto.
  - (* s1 *)
    change (as_ <=? s1) with false in H. cbv iota in H.
    apply decode_multi_spec in H; [|vm_compute; auto]. destruct H as [H|[Hs H]]; [auto|right].
    change (N.land s1 7) with 2 in H, Hs. destruct t0 as [|c1 t1]; [destruct H|].
    exists [c0; c1], t1. subst size. repeat split; [lia|]. constructor. unfold utf8_2, is_cont.
    rewrite Hr. exact H.
  - (* s2 *)
    change (as_ <=? s2) with false in H. cbv iota in H.
    apply decode_multi_spec in H; [|vm_compute; auto]. destruct H as [H|[Hs H]]; [auto|right].
    change (N.land s2 7) with 3 in H, Hs. destruct t0 as [|c1 [|c2 t2]]; try (exfalso; exact H).
    destruct H as [H1 H2]. exists [c0; c1; c2], t2. subst size. repeat split; [lia|]. constructor. unfold utf8_3.
    rewrite Hr, H2. change (fst (accept_range (N.shiftr s2 4))) with 0xA0 in H1.
    change (snd (accept_range (N.shiftr s2 4))) with 0xBF in H1. rewrite H1. reflexivity.
  - (* s3 *)
    change (as_ <=? s3) with false in H. cbv iota in H.
    apply decode_multi_spec in H; [|vm_compute; auto]. destruct H as [H|[Hs H]]; [auto|right].
    change (N.land s3 7) with 3 in H, Hs. destruct t0 as [|c1 [|c2 t2]]; try (exfalso; exact H).
    destruct H as [H1 H2]. exists [c0; c1; c2], t2. subst size. repeat split; [lia|]. constructor. unfold utf8_3.
    rewrite H2. unfold is_cont. change (fst (accept_range (N.shiftr s3 4))) with 0x80 in H1.
    change (snd (accept_range (N.shiftr s3 4))) with 0xBF in H1. rewrite H1.
    apply orb_prop in Hr. destruct Hr as [Hr|Hr]; rewrite Hr; repeat rewrite orb_true_r; reflexivity.
  - (* s4 *)
    change (as_ <=? s4) with false in H. cbv iota in H.
    apply decode_multi_spec in H; [|vm_compute; auto]. destruct H as [H|[Hs H]]; [auto|right].
    change (N.land s4 7) with 3 in H, Hs. destruct t0 as [|c1 [|c2 t2]]; try (exfalso; exact H).
    destruct H as [H1 H2]. exists [c0; c1; c2], t2. subst size. repeat split; [lia|]. constructor. unfold utf8_3.
    rewrite Hr, H2. change (fst (accept_range (N.shiftr s4 4))) with 0x80 in H1.
    change (snd (accept_range (N.shiftr s4 4))) with 0x9F in H1. rewrite H1.
    repeat rewrite orb_true_r; reflexivity.
  - (* s5 *)
    change (as_ <=? s5) with false in H. cbv iota in H.
    apply decode_multi_spec in H; [|vm_compute; auto]. destruct H as [H|[Hs H]]; [auto|right].
    change (N.land s5 7) with 4 in H, Hs. destruct t0 as [|c1 [|c2 [|c3 t3]]]; try (exfalso; exact H).
    destruct H as [H1 [H2 H3]]. exists [c0; c1; c2; c3], t3. subst size. repeat split; [lia|]. constructor. unfold utf8_4.
    rewrite Hr, H2, H3. change (fst (accept_range (N.shiftr s5 4))) with 0x90 in H1.
    change (snd (accept_range (N.shiftr s5 4))) with 0xBF in H1. rewrite H1. reflexivity.
  - (* s6 *)
    change (as_ <=? s6) with false in H. cbv iota in H.
    apply decode_multi_spec in H; [|vm_compute; auto]. destruct H as [H|[Hs H]]; [auto|right].
    change (N.land s6 7) with 4 in H, Hs. destruct t0 as [|c1 [|c2 [|c3 t3]]]; try (exfalso; exact H).
    destruct H as [H1 [H2 H3]]. exists [c0; c1; c2; c3], t3. subst size. repeat split; [lia|]. constructor. unfold utf8_4.
    rewrite Hr, H2, H3. unfold is_cont. change (fst (accept_range (N.shiftr s6 4))) with 0x80 in H1.
    change (snd (accept_range (N.shiftr s6 4))) with 0xBF in H1. rewrite H1.
    repeat rewrite orb_true_r; reflexivity.
  - (* s7 *)
    change (as_ <=? s7) with false in H. cbv iota in H.
    apply decode_multi_spec in H; [|vm_compute; auto]. destruct H as [H|[Hs H]]; [auto|right].
    change (N.land s7 7) with 4 in H, Hs. destruct t0 as [|c1 [|c2 [|c3 t3]]]; try (exfalso; exact H).
    destruct H as [H1 [H2 H3]]. exists [c0; c1; c2; c3], t3. subst size. repeat split; [lia|]. constructor. unfold utf8_4.
    rewrite Hr, H2, H3. change (fst (accept_range (N.shiftr s7 4))) with 0x80 in H1.
    change (snd (accept_range (N.shiftr s7 4))) with 0x8F in H1. rewrite H1.
    repeat rewrite orb_true_r; reflexivity.
Qed.

Lemma decode_no_crash s : decode_rune s <> rune_crash.
Proof.
  destruct s as [|c0 t0]; [discriminate|].
  destruct (decode_rune (c0 :: t0)) as [c size] eqn:E.
  destruct (N.ltb_spec c0 0x80) as [Hlt|Hge].
  - pose proof (first_class c0) as Hc. unfold first_class_b in Hc.
    assert (E80 : (c0 <? 0x80) = true) by (apply N.ltb_lt; exact Hlt). rewrite E80 in Hc.
    cbn [negb andb] in Hc. repeat rewrite andb_false_r in Hc. cbn [orb] in Hc.
    assert (Hf : first_info c0 = as_).
    { destruct (first_info c0 =? as_) eqn:Ef; [apply N.eqb_eq; exact Ef|].
      cbn [orb] in Hc. unfold in_range in Hc. lia. }
    unfold decode_rune in E. rewrite Hf in E. vm_compute in E. inversion E. unfold rune_crash. intros Q. inversion Q.
  - apply decode_spec in E; [|exact Hge]. unfold rune_crash. intros Q. inversion Q; subst.
    destruct E as [[E _]|[chars [rest [_ [_ [E _]]]]]]; lia.
Qed.

Lemma hex_2028 : is_hex (hex_digit (N.land 0x2028 0xF)) = true. Proof. reflexivity. Qed.
Lemma hex_2029 : is_hex (hex_digit (N.land 0x2029 0xF)) = true. Proof. reflexivity. Qed.

Lemma firstn_skipn_app {A} (chars rest : list A) n : n = length chars ->
  firstn n (chars ++ rest) = chars /\ skipn n (chars ++ rest) = rest.
Proof.
  intros ->. split.
  - rewrite firstn_app, Nat.sub_diag, firstn_all. cbn [firstn]. apply app_nil_r.
  - rewrite skipn_app, Nat.sub_diag, skipn_all. reflexivity.
Qed.

Lemma escape_loop_body fuel : forall s, (length s <= length fuel)%nat -> StrBody (escape_loop fuel s).
Proof.
  induction fuel as [|x f IH]; intros s Hlen; [constructor|].
  cbn [escape_loop]. destruct s as [|b r]; [constructor|]. cbn [length] in Hlen.
  destruct (b <? RuneSelf) eqn:Eb.
  - apply StrBody_app; [apply escape_ascii_ok; apply N.ltb_lt in Eb; exact Eb|apply IH; lia].
  - destruct (decode_rune (b :: r)) as [c size] eqn:D.
    apply decode_spec in D; [|apply N.ltb_ge in Eb; exact Eb].
    destruct D as [[-> ->]|[chars [rest [Es [Hn [H2 Hch]]]]]].
    + change ((RuneError =? RuneError) && (1 =? 1)) with true. cbv iota.
      apply StrBody_app; [apply strbody_check_sound; reflexivity|].
      change (skipn (N.to_nat 1) (b :: r)) with r. apply IH. lia.
    + assert (Esz : (size =? 1) = false) by (apply N.eqb_neq; lia). rewrite Esz, andb_false_r.
      destruct (firstn_skipn_app chars rest (N.to_nat size) Hn) as [Ef Esk]. rewrite Es, Ef, Esk.
      assert (Hrest : (length rest <= length f)%nat).
      { assert (L : length (b :: r) = (length chars + length rest)%nat) by (rewrite Es; apply app_length).
        cbn [length] in L. lia. }
      destruct ((c =? 0x2028) || (c =? 0x2029)) eqn:E28.
      * apply (SB_cons [BSLASH; 117; 50; 48; 50; hex_digit (N.land c 0xF)]); [|apply IH; exact Hrest].
        constructor. apply orb_prop in E28. destruct E28 as [E|E]; apply N.eqb_eq in E; subst c; reflexivity.
      * apply StrBody_app; [apply StrBody_one; exact Hch|apply IH; exact Hrest].
Qed.

Lemma append_string_valid s : JsonString (append_string s).
Proof. unfold append_string. constructor. apply escape_loop_body. lia. Qed.
