(* SchemaProofs.v -- C15: the three renderings agree (exhaustive: the whole schema, by computation);
   the shared limits are equal; the real tables round-trip in the generic table model. *)
From Coq Require Import NArith ZArith String List Bool Lia.
From Verif Require Import SchemaTypes Flatbuf FlatbufProofs Schema.
From Verif.Gen Require Import Schema_gen SharedLimits_gen.
Import ListNotations.
Open Scope string_scope.

Lemma eqb_of_true : forall (A : Type) (dec : forall a b : A, {a = b} + {a <> b}) (a b : A),
  eqb_of dec a b = true -> a = b.
Proof. intros A dec a b H. unfold eqb_of in H. destruct (dec a b); [assumption|discriminate]. Qed.

Lemma inclb_sound : forall (A : Type) (dec : forall a b : A, {a = b} + {a <> b}) (l m : list A),
  inclb dec l m = true -> incl l m.
Proof.
  intros A dec l m H x Hx. unfold inclb in H. rewrite forallb_forall in H. specialize (H x Hx).
  destruct (in_dec dec x m); [assumption|discriminate].
Qed.

Lemma tables_agreeb_sound : tables_agreeb = true -> tables_agree.
Proof.
  unfold tables_agreeb, tables_agree. intros H.
  repeat (apply andb_true_iff in H; let K := fresh "K" in destruct H as [H K]).
  repeat split;
    try (eapply eqb_of_true; eassumption);
    try (eapply inclb_sound; eassumption).
  apply Forall_forall. intros o Ho.
  match goal with K : forallb _ c_objects = true |- _ => rewrite forallb_forall in K; specialize (K o Ho);
    apply orb_true_iff in K; destruct K as [K|K]; [left|right]; eapply eqb_of_true; exact K end.
Qed.

(* the domain is the whole schema: every table, field, enum member, union tag, struct member *)
Theorem tables_agree_holds : tables_agree.
Proof. apply tables_agreeb_sound. vm_compute. reflexivity. Qed.

Example schema_diffs_empty : schema_diffs = [].
Proof. vm_compute. reflexivity. Qed.

(* non-vacuity: the schema is not empty, and the comparison does distinguish renderings *)
Example schema_nonempty :
  (10 <= List.length fbs_tables)%nat /\ (60 <= List.length coarse_uses)%nat /\ (2 <= List.length fbs_enums)%nat /\
  (1 <= List.length fbs_structs)%nat /\ In "Transaction" (map (fun t : slotsr => fst (fst t)) c_slot_tables).
Proof. vm_compute. repeat split; try lia. repeat ((left; reflexivity) || right). Qed.

Example renumbering_is_seen :
  let mutated := map (map_fields (fun f => if String.eqb (fname f) "app_name" then mkF (fname f) 8%N (fkind f) (fdef f) else f))
                     go_read_tables in
  eqb_of (list_eq_dec tabler_eq_dec) (map read_view fbs_tables) mutated = false /\
  diff_tables "protocol.fbs" "Go getters" (map read_view fbs_tables) mutated =
    [("App", "app_name", "number differs between protocol.fbs and Go getters")].
Proof. vm_compute. split; reflexivity. Qed.

(* ---- shared limits *)
Lemma limit_okb_sound : forall p, limit_okb p = true -> limit_ok p.
Proof.
  intros [[[c cv] g] gv]. unfold limit_okb, limit_ok. destruct cv as [a|], gv as [b|]; try discriminate.
  intros H. apply Z.eqb_eq in H. subst. split; [reflexivity|discriminate].
Qed.

Lemma string_okb_sound : forall p, string_okb p = true -> string_ok p.
Proof.
  intros [[[c cv] g] gv]. unfold string_okb, string_ok. destruct cv as [a|], gv as [b|]; try discriminate.
  intros H. apply String.eqb_eq in H. subst. split; [reflexivity|discriminate].
Qed.

Theorem shared_limits_equal : Forall limit_ok shared_limits /\ Forall string_ok shared_strings.
Proof.
  split; apply Forall_forall; intros p Hp.
  - apply limit_okb_sound. assert (H : forallb limit_okb shared_limits = true) by (vm_compute; reflexivity).
    rewrite forallb_forall in H. apply H. exact Hp.
  - apply string_okb_sound. assert (H : forallb string_okb shared_strings = true) by (vm_compute; reflexivity).
    rewrite forallb_forall in H. apply H. exact Hp.
Qed.

Example shared_limits_nonvacuous :
  (6 <= List.length shared_limits)%nat /\ (2 <= List.length shared_strings)%nat /\ bad_limits = [] /\
  In "NR_APP_LIMIT" (map (fun p : string * option Z * string * option Z => fst (fst (fst p))) shared_limits).
Proof. vm_compute. repeat split; try lia. repeat ((left; reflexivity) || right). Qed.

(* ---- the real tables in the generic model *)
Lemma lookup_In : forall (A : Type) (l : list (string * A)) f a, lookup f l = Some a -> In (f, a) l.
Proof.
  intros A l. induction l as [|[g b] l IH]; cbn [lookup]; intros f a H; [discriminate|].
  destruct (String.eqb f g) eqn:E.
  - apply String.eqb_eq in E. inversion H. subst. left. reflexivity.
  - right. apply IH. exact H.
Qed.

Lemma sigma_c_eq_read : map sigma_of_slots c_slot_tables = map sigma_of_getters go_read_tables.
Proof. vm_compute. reflexivity. Qed.

Lemma sigma_c_eq_build : map sigma_of_slots c_slot_tables = map sigma_of_builders go_build_tables.
Proof. vm_compute. reflexivity. Qed.

Lemma sigma_c_wf : forall T, wf (snd (sigma_c T)) (fst (sigma_c T)).
Proof.
  intros T. unfold sigma_c, lookup_sigma.
  destruct (lookup T (map sigma_of_slots c_slot_tables)) as [x|] eqn:E.
  - apply lookup_In in E.
    assert (H : forallb (fun p : string * (N * slotmap Z) => wfb (snd (snd p)) (fst (snd p)))
                        (map sigma_of_slots c_slot_tables) = true) by (vm_compute; reflexivity).
    rewrite forallb_forall in H. specialize (H _ E). cbn [snd fst] in H. apply wfb_sound. exact H.
  - cbn [fst snd]. split; intros; discriminate.
Qed.

(* Messages built with the agent's numbers decode faithfully with the daemon's getters; messages built with the
   daemon's builders decode faithfully with the agent's numbers and with the daemon's own getters. *)
Theorem real_roundtrip : forall T vals f, NoDup (map fst vals) ->
  read (snd (sigma_go_read T)) (build Z.eq_dec (snd (sigma_c T)) (fst (sigma_c T)) vals) f
    = sent (snd (sigma_c T)) vals f /\
  read (snd (sigma_c T)) (build Z.eq_dec (snd (sigma_go_build T)) (fst (sigma_go_build T)) vals) f
    = sent (snd (sigma_go_build T)) vals f /\
  read (snd (sigma_go_read T)) (build Z.eq_dec (snd (sigma_go_build T)) (fst (sigma_go_build T)) vals) f
    = sent (snd (sigma_go_build T)) vals f.
Proof.
  intros T vals f Hnd.
  assert (Hr : sigma_go_read T = sigma_c T) by (unfold sigma_go_read, sigma_c; rewrite sigma_c_eq_read; reflexivity).
  assert (Hb : sigma_go_build T = sigma_c T) by (unfold sigma_go_build, sigma_c; rewrite sigma_c_eq_build; reflexivity).
  rewrite Hr, Hb.
  assert (H : read (snd (sigma_c T)) (build Z.eq_dec (snd (sigma_c T)) (fst (sigma_c T)) vals) f
              = sent (snd (sigma_c T)) vals f).
  { apply roundtrip_same; [apply sigma_c_wf|exact Hnd|reflexivity]. }
  repeat split; exact H.
Qed.

Example real_roundtrip_concrete :
  let vals := [("license", 11%Z); ("app_name", 12%Z); ("high_security", 1%Z); ("span_queue_size", 4611686018427387904%Z)] in
  NoDup (map fst vals) /\
  read (snd (sigma_go_read "App")) (build Z.eq_dec (snd (sigma_c "App")) (fst (sigma_c "App")) vals) "span_queue_size"
    = Some 4611686018427387904%Z /\
  read (snd (sigma_go_read "App")) (build Z.eq_dec (snd (sigma_c "App")) (fst (sigma_c "App")) vals) "docker_id" = Some 0%Z.
Proof.
  cbv zeta. split.
  - repeat constructor; cbn; intuition discriminate.
  - vm_compute. split; reflexivity.
Qed.
