(* LogSitesProofs.v -- the typed log-site table of the current sources has no raw secret carrier. *)
From Coq Require Import Ascii String.
From Coq Require Import NArith List Bool.
From Verif Require Import LogSites.
From Verif.Gen Require Import LogSites_gen.
Import ListNotations.

Theorem logsites_typed :
  bad_sites log_sites = [] /\ table_sane log_sites = true /\ log_sites <> [].
Proof. split; [vm_compute; reflexivity|]. split; [vm_compute; reflexivity|discriminate]. Qed.

(* the predicate is not vacuous: it rejects each kind of raw carrier *)
Example rejects_raw_carriers :
  map arg_ok
    [mkArg "string(cmd.License)" "string" "conv:string" "" ["conv_license"];
     mkArg "url" "string" "ident" "cmd.url(false)" ["def:url_raw"];
     mkArg "cfg.Proxy" "string" "selector" "" ["proxy_field"];
     mkArg "os.Args[1]" "string" "index:os.Args" "" ["os_args"];
     mkArg "arg" "string" "ident" "range:os.Args" ["def:os_args"];
     mkArg "clientCfg" "*newrelic.ClientConfig" "ident" "" ["proxy_struct"];
     mkArg "clientCfg" "*newrelic.ClientConfig" "ident" "" ["proxy_struct"; "redacted_lit"];
     mkArg "cleanURL" "string" "ident" "cmd.url(true)" []]%string
  = [false; false; false; false; false; false; true; true].
Proof. vm_compute. reflexivity. Qed.
