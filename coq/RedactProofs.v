(* RedactProofs.v -- lemmas about Redact.v. *)
From Coq Require Import Ascii String.
From Coq Require Import NArith PeanoNat List Bool Lia.
From Verif Require Import Redact.
Import ListNotations.
Open Scope N_scope.

(* ----------------------------------------------------------------------------- strings *)

Lemma str_eqb_refl x : str_eqb x x = true.
Proof. induction x as [|c x IH]; cbn; [reflexivity|]. rewrite N.eqb_refl. exact IH. Qed.

Lemma str_eqb_eq x y : str_eqb x y = true <-> x = y.
Proof.
  split.
  - revert y. induction x as [|c x IH]; intros [|d y] H; cbn in H; try discriminate; [reflexivity|].
    destruct (N.eqb c d) eqn:E; [|discriminate]. apply N.eqb_eq in E. subst d. f_equal. apply IH. exact H.
  - intros ->. apply str_eqb_refl.
Qed.

Definition infix (x s : str) : Prop := exists p q, s = p ++ x ++ q.

Lemma is_prefix_app x q : is_prefix x (x ++ q) = true.
Proof. induction x as [|c x IH]; cbn; [reflexivity|]. rewrite N.eqb_refl. exact IH. Qed.

Lemma is_prefix_inv x s : is_prefix x s = true -> exists q, s = x ++ q.
Proof.
  revert s. induction x as [|c x IH]; intros s H; cbn in H.
  - exists s. reflexivity.
  - destruct s as [|d s]; [discriminate|]. destruct (N.eqb c d) eqn:E; [|discriminate].
    apply N.eqb_eq in E. subst d. destruct (IH s H) as [q ->]. exists q. reflexivity.
Qed.

Lemma contains_infix x s : contains x s = true <-> infix x s.
Proof.
  split.
  - induction s as [|d s IH]; cbn.
    + destruct (is_prefix x []) eqn:P; [|discriminate]. intros _.
      apply is_prefix_inv in P. destruct P as [q Hq]. exists [], q. exact Hq.
    + destruct (is_prefix x (d :: s)) eqn:P.
      * intros _. apply is_prefix_inv in P. destruct P as [q Hq]. exists [], q. exact Hq.
      * intros H. destruct (IH H) as [p [q ->]]. exists (d :: p), q. reflexivity.
  - intros [p [q ->]]. induction p as [|d p IH]; cbn.
    + destruct (x ++ q) eqn:E; cbn.
      * rewrite <- E, is_prefix_app. reflexivity.
      * rewrite <- E, is_prefix_app. reflexivity.
    + destruct (is_prefix x (d :: p ++ x ++ q)); [reflexivity|exact IH].
Qed.

Lemma contains_refl x : contains x x = true.
Proof. apply contains_infix. exists [], []. rewrite app_nil_r. reflexivity. Qed.

Lemma infix_length x s : infix x s -> (length x <= length s)%nat.
Proof. intros [p [q ->]]. rewrite !app_length. lia. Qed.

Lemma index_byte_split c s i : index_byte c s = Some i -> s = firstn i s ++ c :: skipn (S i) s.
Proof.
  revert i. induction s as [|d s IH]; intros i H; cbn in H; [discriminate|].
  destruct (N.eqb c d) eqn:E.
  - inversion H. subst i. apply N.eqb_eq in E. subst d. reflexivity.
  - destruct (index_byte c s) as [j|] eqn:J; [|discriminate]. inversion H. subst i.
    cbn. f_equal. apply IH. reflexivity.
Qed.

Lemma index_byte_none_app c x y : index_byte c x = None ->
  index_byte c (x ++ c :: y) = Some (length x).
Proof.
  induction x as [|d x IH]; cbn; intros H.
  - rewrite N.eqb_refl. reflexivity.
  - destruct (N.eqb c d); [discriminate|]. destruct (index_byte c x); [discriminate|].
    rewrite IH by reflexivity. reflexivity.
Qed.

Lemma index_byte_firstn_none c s i : index_byte c s = Some i -> index_byte c (firstn i s) = None.
Proof.
  revert i. induction s as [|d s IH]; intros i H; cbn in H; [discriminate|].
  destruct (N.eqb c d) eqn:E.
  - inversion H. reflexivity.
  - destruct (index_byte c s) as [j|] eqn:J; [|discriminate]. inversion H. subst i. cbn. rewrite E.
    rewrite (IH j eq_refl). reflexivity.
Qed.

Lemma firstn_app_exact {A} (x y : list A) : firstn (length x) (x ++ y) = x.
Proof. induction x as [|a x IH]; cbn; [destruct y; reflexivity|]. rewrite IH. reflexivity. Qed.

Lemma skipn_app_exact {A} (x y : list A) : skipn (length x) (x ++ y) = y.
Proof. induction x as [|a x IH]; cbn; [reflexivity|exact IH]. Qed.

(* ------------------------------------------------------------------- LicenseKey.String *)

Lemma lk_string_long k : (4 < length k)%nat ->
  lk_string k = firstn 2 k ++ dotdot ++ skipn (length k - 2) k.
Proof. intros H. unfold lk_string. apply Nat.ltb_lt in H. rewrite H. reflexivity. Qed.

Lemma lk_string_short k : (length k <= 4)%nat -> lk_string k = k.
Proof.
  intros H. unfold lk_string. destruct (Nat.ltb 4 (length k)) eqn:E; [|reflexivity].
  apply Nat.ltb_lt in E. lia.
Qed.

Lemma lk_string_length k : (4 < length k)%nat -> length (lk_string k) = 6%nat.
Proof.
  intros H. rewrite (lk_string_long k H), !app_length, firstn_length, skipn_length.
  unfold dotdot. cbn [length]. rewrite Nat.min_l by lia. lia.
Qed.

(* two keys longer than 4 bytes that agree on their first two and last two bytes are printed alike *)
Lemma lk_noninterference k1 k2 : (4 < length k1)%nat -> (4 < length k2)%nat ->
  firstn 2 k1 = firstn 2 k2 -> skipn (length k1 - 2) k1 = skipn (length k2 - 2) k2 ->
  lk_string k1 = lk_string k2.
Proof. intros H1 H2 Hf Hl. rewrite (lk_string_long _ H1), (lk_string_long _ H2), Hf, Hl. reflexivity. Qed.

(* a key longer than 6 bytes is longer than its printed form, so the printed form cannot contain it *)
Lemma lk_not_contained k : (6 < length k)%nat -> contains k (lk_string k) = false.
Proof.
  intros H. destruct (contains k (lk_string k)) eqn:E; [|reflexivity].
  apply contains_infix, infix_length in E. rewrite lk_string_length in E by lia. lia.
Qed.

Lemma key_noninterference k1 k2 host name runid :
  length k1 = length k2 -> (6 < length k1)%nat ->
  firstn 2 k1 = firstn 2 k2 -> skipn (length k1 - 2) k1 = skipn (length k1 - 2) k2 ->
  lk_string k1 = lk_string k2 /\
  rpm_url true host name runid k1 = rpm_url true host name runid k2 /\
  (length (lk_string k1) < length k1)%nat /\ contains k1 (lk_string k1) = false.
Proof.
  intros Hl H6 Hf Hs.
  assert (E : lk_string k1 = lk_string k2).
  { apply lk_noninterference; try lia; [exact Hf|]. rewrite <- Hl. exact Hs. }
  split; [exact E|]. split; [unfold rpm_url; rewrite E; reflexivity|].
  split; [rewrite lk_string_length; lia|apply lk_not_contained; exact H6].
Qed.

(* honest about short keys: up to 4 bytes the whole key is printed; and keys of 5 or 6 bytes with
   dots in the middle are contained in (or equal to) their printed form *)
Lemma short_key_printed k : (length k <= 4)%nat -> lk_string k = k /\
  forall host name runid, rpm_url true host name runid k = rpm_url false host name runid k.
Proof.
  intros H. split; [apply lk_string_short; exact H|]. intros. unfold rpm_url.
  rewrite lk_string_short by exact H. reflexivity.
Qed.

Lemma key_printed_refuted :
  (exists k, k <> [] /\ lk_string k = k) /\
  (exists k, length k = 6%nat /\ lk_string k = k) /\
  (exists k, length k = 5%nat /\ contains k (lk_string k) = true).
Proof.
  split; [exists (b "abcd"%string); split; [discriminate|reflexivity]|].
  split; [exists (b "ab..ef"%string); split; reflexivity|].
  exists (b "ab..."%string). split; reflexivity.
Qed.

(* ---------------------------------------------------------------------------- url.Error *)

Lemma scrub_with_url u e : lazy_chain e = true -> scrub (with_url u e) = scrub e.
Proof.
  induction e as [m|p q i IH|t i IH|op u' i IH]; cbn; intros H;
    [reflexivity|rewrite IH by exact H; reflexivity|discriminate|reflexivity].
Qed.

Lemma scrub_idem e : scrub (scrub e) = scrub e.
Proof.
  induction e as [m|p q i IH|t i IH|op u' i IH]; cbn;
    [reflexivity|rewrite IH; reflexivity|rewrite IH; reflexivity|reflexivity].
Qed.

(* the text logged for a scrubbed error does not depend on the URL held by the (first) *url.Error,
   when no wrapper above it has already frozen its text *)
Lemma urlerror_scrubbed quote e u1 u2 : lazy_chain e = true ->
  format quote (scrub (with_url u1 e)) = format quote (scrub (with_url u2 e)).
Proof. intros H. rewrite !scrub_with_url by exact H. reflexivity. Qed.

(* what http.Client.Do returns: a *url.Error around the transport's error *)
Lemma urlerror_do_scrubbed quote op u inner :
  format quote (scrub (EUrl op u inner)) =
  op ++ [32] ++ quote s_redacted_url ++ [58; 32] ++ format quote inner.
Proof. reflexivity. Qed.

(* limits, stated: (1) a wrapper made with fmt.Errorf("...%w", urlError) BEFORE the scrub keeps the URL
   in its text -- removeURLFromError is ineffective on such a value; (2) a second *url.Error further
   down the chain keeps its URL; (3) an error whose text merely contains the URL is not touched *)
Lemma errorf_defeats_scrub quote pre post op u inner :
  format quote (scrub (errorf quote pre post (EUrl op u inner))) =
  pre ++ (op ++ [32] ++ quote u ++ [58; 32] ++ format quote inner) ++ post.
Proof. reflexivity. Qed.

Lemma nested_url_kept quote op u op2 u2 inner :
  format quote (scrub (EUrl op u (EUrl op2 u2 inner))) =
  op ++ [32] ++ quote s_redacted_url ++ [58; 32] ++ (op2 ++ [32] ++ quote u2 ++ [58; 32] ++ format quote inner).
Proof. reflexivity. Qed.

Lemma plain_text_kept quote m : format quote (scrub (EPlain m)) = m.
Proof. reflexivity. Qed.

Example ex_lazy_chain :
  lazy_chain (EWrap (b "proxyconnect tcp: "%string) [] (EUrl (b "Post"%string) (b "https://h/?license_key=K"%string) (EPlain (b "EOF"%string)))) = true.
Proof. reflexivity. Qed.

(* ------------------------------------------------------------------- flag text, classify *)

Definition dashes (two : bool) : str := if two then [45; 45] else [45].

Definition flag_text (two : bool) (name : str) (value : option str) : str :=
  dashes two ++ name ++ match value with Some v => 61 :: v | None => [] end.

Definition good_name (name : str) : Prop :=
  match name with
  | n0 :: nr => n0 <> 45 /\ n0 <> 61 /\ index_byte 61 nr = None
  | [] => False
  end.

Lemma good_name_no_eq name : good_name name -> index_byte 61 name = None.
Proof.
  destruct name as [|n0 nr]; [intros []|]. intros [_ [H1 H2]]. cbn [index_byte].
  destruct (N.eqb_spec 61 n0) as [E|E]; [congruence|]. rewrite H2. reflexivity.
Qed.

Lemma classify_inv a name value : classify a = TFlag name value ->
  exists two, a = flag_text two name value /\ good_name name.
Proof.
  unfold classify. destruct a as [|s0 [|c r]]; try discriminate.
  destruct (N.eqb_spec s0 45) as [->|Hs]; cbn [negb]; [|discriminate].
  destruct (N.eqb_spec c 45) as [->|Hc]; cbn [andb].
  - destruct r as [|n0 nr]; cbn [is_nil]; [discriminate|].
    destruct (N.eqb_spec n0 45) as [->|H45]; cbn [orb]; [discriminate|].
    destruct (N.eqb_spec n0 61) as [->|H61]; [discriminate|].
    destruct (index_byte 61 nr) as [i|] eqn:I; intros H; inversion H; subst; exists true.
    + split.
      * unfold flag_text. cbn. do 3 f_equal. apply index_byte_split. exact I.
      * cbn. repeat split; try assumption. apply index_byte_firstn_none. exact I.
    + split; [unfold flag_text; cbn; rewrite app_nil_r; reflexivity|]. cbn. repeat split; assumption.
  - destruct (N.eqb_spec c 45) as [E|_]; [contradiction|]. cbn [orb].
    destruct (N.eqb_spec c 61) as [->|H61]; [discriminate|].
    destruct (index_byte 61 r) as [i|] eqn:I; intros H; inversion H; subst; exists false.
    + split.
      * unfold flag_text. cbn. do 2 f_equal. apply index_byte_split. exact I.
      * cbn. repeat split; try assumption. apply index_byte_firstn_none. exact I.
    + split; [unfold flag_text; cbn; rewrite app_nil_r; reflexivity|]. cbn. repeat split; assumption.
Qed.

Lemma classify_flag_text two name value : good_name name ->
  classify (flag_text two name value) = TFlag name value.
Proof.
  destruct name as [|n0 nr]; [intros []|]. intros [H45 [H61 Hnr]].
  assert (T : match index_byte 61 (nr ++ match value with Some v => 61 :: v | None => [] end) with
              | Some i => TFlag (n0 :: firstn i (nr ++ match value with Some v => 61 :: v | None => [] end))
                                (Some (skipn (S i) (nr ++ match value with Some v => 61 :: v | None => [] end)))
              | None => TFlag (n0 :: nr ++ match value with Some v => 61 :: v | None => [] end) None
              end = TFlag (n0 :: nr) value).
  { destruct value as [v|].
    - rewrite (index_byte_none_app 61 nr v Hnr), firstn_app_exact.
      replace (S (length nr)) with (length (nr ++ [61])) by (rewrite app_length; cbn [length]; lia).
      replace (nr ++ 61 :: v) with ((nr ++ [61]) ++ v) by (rewrite <- app_assoc; reflexivity).
      rewrite skipn_app_exact. reflexivity.
    - rewrite app_nil_r, Hnr. reflexivity. }
  pose proof (proj2 (N.eqb_neq n0 45) H45) as E45. pose proof (proj2 (N.eqb_neq n0 61) H61) as E61.
  destruct two; unfold flag_text, dashes, classify; cbn [app]; rewrite ?N.eqb_refl; cbn [negb andb is_nil];
    rewrite ?E45, ?E61; cbn [negb andb orb]; exact T.
Qed.

(* strip_dash / split_eq, as redactArgs computes them on a flag's text *)
Lemma split_flag_text two name value : good_name name ->
  match flag_text two name value with
  | a0 :: c :: rest => a0 = 45 /\ ((c =? 45) && is_nil rest = false) /\
                       split_eq (strip_dash (c :: rest)) = (name, value)
  | _ => False
  end.
Proof.
  intros G. pose proof (good_name_no_eq _ G) as NE.
  destruct name as [|n0 nr]; [destruct G|]. destruct G as [H45 [H61 Hnr]].
  assert (S : split_eq ((n0 :: nr) ++ match value with Some v => 61 :: v | None => [] end) = (n0 :: nr, value)).
  { unfold split_eq. destruct value as [v|].
    - rewrite (index_byte_none_app 61 (n0 :: nr) v NE), firstn_app_exact.
      replace (S (length (n0 :: nr))) with (length ((n0 :: nr) ++ [61])) by (rewrite app_length; cbn [length]; lia).
      replace ((n0 :: nr) ++ 61 :: v) with (((n0 :: nr) ++ [61]) ++ v) by (rewrite <- app_assoc; reflexivity).
      rewrite skipn_app_exact. reflexivity.
    - rewrite app_nil_r, NE. reflexivity. }
  destruct two; unfold flag_text, dashes; cbn [app].
  - split; [reflexivity|]. split; [rewrite N.eqb_refl; reflexivity|].
    cbn [strip_dash]. rewrite N.eqb_refl. exact S.
  - split; [reflexivity|]. destruct (N.eqb_spec n0 45) as [E|_]; [contradiction|].
    split; [reflexivity|]. cbn [strip_dash]. destruct (N.eqb_spec n0 45) as [E|_]; [contradiction|]. exact S.
Qed.

Lemma drop_value_flag_text two name v :
  drop_value (flag_text two name (Some v)) v = dashes two ++ name ++ [61].
Proof.
  unfold drop_value, flag_text.
  replace (dashes two ++ name ++ 61 :: v) with ((dashes two ++ name ++ [61]) ++ v)
    by (rewrite <- !app_assoc; reflexivity).
  rewrite app_length, Nat.add_sub. apply firstn_app_exact.
Qed.

Lemma drop_value_replace two name v v' :
  drop_value (flag_text two name (Some v)) v ++ v' = flag_text two name (Some v').
Proof. rewrite drop_value_flag_text. unfold flag_text. rewrite <- !app_assoc. reflexivity. Qed.

(* one step of redactArgs' loop on the text of a flag *)
Lemma walk_flag_text two name value rest : good_name name ->
  redact_walk (flag_text two name value :: rest) =
  match value with
  | Some v => redact_value name (flag_text two name value) v true :: redact_walk rest
  | None =>
      if negb (takes_value name) then flag_text two name value :: redact_walk rest
      else match rest with
           | [] => [flag_text two name value]
           | v :: rest' => flag_text two name value :: redact_value name (flag_text two name value) v false
                           :: redact_walk rest'
           end
  end.
Proof.
  intros G. pose proof (split_flag_text two name value G) as H.
  cbn [redact_walk].
  destruct (flag_text two name value) as [|a0 [|c r]]; try contradiction.
  destruct H as [-> [T S]]. rewrite N.eqb_refl. cbn [negb]. rewrite T, S. reflexivity.
Qed.

Lemma takes_value_false_not_trigger n : takes_value n = false ->
  str_eqb n s_proxy || str_eqb n s_x = false /\ str_eqb n s_define = false.
Proof.
  intros H. split.
  - apply orb_false_iff. split.
    + destruct (str_eqb n s_proxy) eqn:E; [|reflexivity]. apply str_eqb_eq in E. subst n. vm_compute in H. discriminate.
    + destruct (str_eqb n s_x) eqn:E; [|reflexivity]. apply str_eqb_eq in E. subst n. vm_compute in H. discriminate.
  - destruct (str_eqb n s_define) eqn:E; [|reflexivity]. apply str_eqb_eq in E. subst n. vm_compute in H. discriminate.
Qed.

(* ----------------------------------------------------------------- the lexer behind define *)

Definition lex_inv (st : lstate) (consumed : str) : Prop :=
  match st with
  | LInit | LComment => True
  | LKeyword tk => exists p, consumed = p ++ tk
  | LDelim kw | LValue kw | LSingle kw _ | LDouble kw _ | LRaw kw _ _ => infix kw consumed
  end.

Lemma infix_app_r x s t : infix x s -> infix x (s ++ t).
Proof. intros [p [q ->]]. exists p, (q ++ t). rewrite <- !app_assoc. reflexivity. Qed.

Lemma ocons_in {A} (x : A) o l y : ocons x o = Some l -> In y l ->
  y = x \/ exists l', o = Some l' /\ In y l'.
Proof.
  destruct o as [l'|]; cbn; [|discriminate]. intros H. inversion H. subst l. intros [E|E].
  - left. symmetry. exact E.
  - right. exists l'. split; [reflexivity|exact E].
Qed.

Lemma app_cons_assoc {A} (x : list A) c r : (x ++ [c]) ++ r = x ++ c :: r.
Proof. rewrite <- app_assoc. reflexivity. Qed.

(* every keyword the lexer assigns to is a contiguous piece of the input text *)
Lemma lex_keywords_infix r : forall st consumed l kw v,
  lex_inv st consumed -> lex st r = Some l -> In (kw, v) l -> infix kw (consumed ++ r).
Proof.
  induction r as [|c r IH]; intros st consumed l kw v Inv H Hin.
  - destruct st; cbn in H; try discriminate; inversion H; subst l; cbn in Hin;
      try contradiction; destruct Hin as [E|[]]; inversion E; subst; rewrite app_nil_r; exact Inv.
  - assert (Step : forall st', lex_inv st' (consumed ++ [c]) -> lex st' r = Some l -> infix kw (consumed ++ c :: r)).
    { intros st' Inv' H'. rewrite <- app_cons_assoc. eapply IH; eassumption. }
    assert (StepO : forall st' kw0 v0, infix kw0 consumed -> ocons (kw0, v0) (lex st' r) = Some l ->
                    lex_inv st' (consumed ++ [c]) -> infix kw (consumed ++ c :: r)).
    { intros st' kw0 v0 I0 H' Inv'. destruct (ocons_in _ _ _ _ H' Hin) as [E|[l' [Hl' Hin']]].
      - inversion E. subst. apply infix_app_r. exact I0.
      - rewrite <- app_cons_assoc. eapply IH; eassumption. }
    destruct st; cbn [lex] in H; cbn [lex_inv] in Inv.
    + destruct (is_space c); [apply (Step LInit); [exact I|exact H]|].
      destruct ((c =? 35) || (c =? 59)); [apply (Step LComment); [exact I|exact H]|].
      destruct (is_alpha c); [|discriminate].
      apply (Step (LKeyword [c])); [exists consumed; reflexivity|exact H].
    + destruct Inv as [p ->].
      destruct (is_alnum c || (c =? 46)).
      { apply (Step (LKeyword (tk ++ [c]))); [exists p; rewrite app_assoc; reflexivity|exact H]. }
      assert (I0 : infix tk ((p ++ tk) ++ [c])).
      { exists p, [c]. rewrite <- app_assoc. reflexivity. }
      destruct (is_space c); [apply (Step (LDelim tk)); [exact I0|exact H]|].
      destruct (c =? 61); [apply (Step (LValue tk)); [exact I0|exact H]|discriminate].
    + destruct (is_space c); [apply (Step (LDelim kw0)); [apply infix_app_r; exact Inv|exact H]|].
      destruct (c =? 61); [apply (Step (LValue kw0)); [apply infix_app_r; exact Inv|exact H]|discriminate].
    + destruct (c =? 10); [eapply (StepO LInit); [exact Inv|exact H|exact I]|].
      destruct (is_space c); [apply (Step (LValue kw0)); [apply infix_app_r; exact Inv|exact H]|].
      destruct (c =? 39); [apply (Step (LSingle kw0 [])); [apply infix_app_r; exact Inv|exact H]|].
      destruct (c =? 34); [apply (Step (LDouble kw0 [])); [apply infix_app_r; exact Inv|exact H]|].
      apply (Step (LRaw kw0 c [])); [apply infix_app_r; exact Inv|exact H].
    + destruct (c =? 39); [eapply (StepO LInit); [exact Inv|exact H|exact I]|].
      apply (Step (LSingle kw0 (tk ++ [c]))); [apply infix_app_r; exact Inv|exact H].
    + destruct (c =? 34); [eapply (StepO LInit); [exact Inv|exact H|exact I]|].
      apply (Step (LDouble kw0 (tk ++ [c]))); [apply infix_app_r; exact Inv|exact H].
    + destruct (c =? 10); [eapply (StepO LInit); [exact Inv|exact H|exact I]|].
      apply (Step (LRaw kw0 first (tk ++ [c]))); [apply infix_app_r; exact Inv|exact H].
    + destruct (c =? 10); [apply (Step LInit); [exact I|exact H]|apply (Step LComment); [exact I|exact H]].
Qed.

(* a --define string that writes cfg.Proxy contains the text "proxy": redactArgs' test sees it *)
Lemma define_sets_proxy_contains s : define_sets_proxy s = true -> contains s_proxy s = true.
Proof.
  unfold define_sets_proxy. destruct (lex LInit s) as [l|] eqn:L; [|discriminate].
  intros H. apply existsb_exists in H. destruct H as [[k v] [Hin Hk]]. cbn in Hk.
  apply str_eqb_eq in Hk. subst k. apply contains_infix.
  apply (lex_keywords_infix s LInit [] l s_proxy v I L Hin).
Qed.

(* -------------------------------------------------------------------- argv noninterference *)

Lemma blank_value_redacted_define name v : is_proxy_name name = false -> is_define_name name = true ->
  (if contains s_proxy (blank_value name v) then true else false) = (if contains s_proxy v then true else false) /\
  (contains s_proxy v = false -> blank_value name v = v).
Proof.
  intros Hp Hd. unfold blank_value. rewrite Hp, Hd.
  destruct (define_sets_proxy v) eqn:D.
  - apply define_sets_proxy_contains in D. rewrite D, contains_refl. split; [reflexivity|discriminate].
  - split; reflexivity.
Qed.

Lemma redact_value_blank name arg arg' v hv :
  (hv = true -> drop_value arg v = drop_value arg' (blank_value name v) /\
                (blank_value name v = v -> arg' = arg)) ->
  redact_value name arg v hv = redact_value name arg' (blank_value name v) hv.
Proof.
  intros H. unfold redact_value.
  change (str_eqb name s_proxy || str_eqb name s_x) with (is_proxy_name name).
  change (str_eqb name s_define) with (is_define_name name).
  destruct (is_proxy_name name) eqn:P.
  - destruct hv; [|reflexivity]. destruct (H eq_refl) as [-> _]. reflexivity.
  - destruct (is_define_name name) eqn:D.
    + destruct (blank_value_redacted_define name v P D) as [B1 B2].
      destruct (contains s_proxy v) eqn:Cv.
      * destruct (contains s_proxy (blank_value name v)); [|discriminate].
        destruct hv; [|reflexivity]. destruct (H eq_refl) as [-> _]. reflexivity.
      * rewrite (B2 eq_refl), Cv. destruct hv; [|reflexivity].
        destruct (H eq_refl) as [_ E]. rewrite (E (B2 eq_refl)). reflexivity.
    + assert (E : blank_value name v = v) by (unfold blank_value; rewrite P, D; reflexivity).
      rewrite E. destruct hv; [|reflexivity]. destruct (H eq_refl) as [_ E']. rewrite (E' E). reflexivity.
Qed.

Lemma redact_blank_eq fl : agrees fl -> forall n args, (length args <= n)%nat ->
  redact_walk args = redact_walk (blank fl args).
Proof.
  intros OK. induction n as [|n IH]; intros args Hn.
  { destruct args; [reflexivity|cbn in Hn; lia]. }
  destruct args as [|a rest]; [reflexivity|].
  cbn [blank].
  destruct (classify a) as [| | |name value] eqn:C; try reflexivity.
  destruct (classify_inv _ _ _ C) as [two [Ea G]].
  destruct (fl name) as [[|]|] eqn:F; [| |reflexivity].
  - (* bool flag *)
    pose proof (OK name FBool F) as TV. cbn in TV.
    subst a. rewrite !(walk_flag_text two name value _ G).
    destruct value as [v|].
    + f_equal. apply IH. cbn in Hn. lia.
    + rewrite TV. cbn [negb]. f_equal. apply IH. cbn in Hn. lia.
  - pose proof (OK name FValue F) as TV. cbn in TV.
    destruct value as [v|].
    + (* -name=value *)
      subst a. rewrite drop_value_replace, !(walk_flag_text two name _ _ G).
      f_equal; [|apply IH; cbn in Hn; lia].
      apply redact_value_blank. intros _. rewrite !drop_value_flag_text. split; [reflexivity|].
      intros E. rewrite E. reflexivity.
    + (* -name value *)
      destruct rest as [|v rest']; [reflexivity|].
      subst a. rewrite !(walk_flag_text two name None _ G), TV. cbn [negb].
      f_equal. f_equal; [|apply IH; cbn in Hn; lia].
      apply redact_value_blank. discriminate.
Qed.

(* The echo of a command line equals the echo of the same command line with every proxy value
   blanked -- for every command line, whatever argv[0]. *)
Theorem echo_of_blank fl prog args : agrees fl ->
  redact_args (prog :: args) = redact_args (prog :: blank fl args).
Proof.
  intros OK. unfold redact_args. f_equal. apply (redact_blank_eq fl OK (length args)). lia.
Qed.

Theorem argv_noninterference fl prog a1 a2 : agrees fl ->
  blank fl a1 = blank fl a2 ->
  redact_args (prog :: a1) = redact_args (prog :: a2).
Proof.
  intros OK E. rewrite (echo_of_blank fl prog a1 OK), (echo_of_blank fl prog a2 OK), E. reflexivity.
Qed.

Lemma new_flags_agree : agrees new_flags.
Proof.
  intros n k H. unfold takes_value. unfold new_flags in H. rewrite H. destruct k; reflexivity.
Qed.

Lemma lookup_flag_in tbl n k : lookup_flag tbl n = Some k -> In (n, k) tbl.
Proof.
  induction tbl as [|[n' k'] tbl IH]; cbn; [discriminate|].
  destruct (str_eqb n n') eqn:E.
  - intros H. inversion H. subst k'. apply str_eqb_eq in E. subst n'. left. reflexivity.
  - intros H. right. apply IH. exact H.
Qed.

(* no option is boolean in one of the daemon's flag sets and value-taking in the other, and takesValue
   (new set first, then legacy) answers like the legacy set on every legacy option *)
Lemma legacy_flags_agree : agrees legacy_flags.
Proof.
  assert (T : forallb (fun nk => Bool.eqb (takes_value (fst nk)) (match snd nk with FValue => true | FBool => false end))
                      legacy_flag_table = true) by (vm_compute; reflexivity).
  intros n k H. apply lookup_flag_in in H. rewrite forallb_forall in T. specialize (T (n, k) H).
  cbn in T. apply eqb_prop in T. exact T.
Qed.

(* the four command lines that the earlier redactArgs (before 3800b33) leaked on: the value of another
   option reads like -x / --proxy / -define *)
Definition shadow_corpus (secret : str) : list (list str) :=
  [[b "--pidfile"%string; b "-x"%string; b "--proxy"%string; secret];
   [b "--logfile"%string; b "--proxy"%string; b "--proxy"%string; secret];
   [b "--auditlog"%string; b "--define"%string; b "--define"%string; b "proxy="%string ++ secret];
   [b "-l"%string; b "-x"%string; b "-x"%string; secret]].

Example shadow_corpus_redacted :
  let secret := b "http://u:SECRET1@h:1"%string in
  forallb (fun a => echo_monitor (b "SECRET1"%string) (redact_args (b "/usr/bin/newrelic-daemon"%string :: a)))
          (shadow_corpus secret) = true /\
  map (parse_proxy new_flags []) (firstn 3 (shadow_corpus secret)) = [Some secret; Some secret; Some secret] /\
  parse_proxy legacy_flags [] (nth 3 (shadow_corpus secret) []) = Some secret.
Proof. vm_compute. repeat split; reflexivity. Qed.

Lemma blank_eq_form fl two name v rest : good_name name -> fl name = Some FValue ->
  blank fl (flag_text two name (Some v) :: rest) =
  flag_text two name (Some (blank_value name v)) :: blank fl rest.
Proof.
  intros G F. cbn [blank]. rewrite (classify_flag_text two name (Some v) G), F, drop_value_replace. reflexivity.
Qed.

(* ------------------------------------------------------- every spelling is a blanked position *)

Section Spellings.
  Variable v : str.
  Let B := blank new_flags.
  Let BL := blank legacy_flags.

  Lemma spell_proxy_2 : B [b "--proxy"%string; v] = [b "--proxy"%string; []].
  Proof. reflexivity. Qed.
  Lemma spell_proxy_1 : B [b "-proxy"%string; v] = [b "-proxy"%string; []].
  Proof. reflexivity. Qed.
  Lemma spell_proxy_2eq : B [b "--proxy="%string ++ v] = [b "--proxy="%string].
  Proof.
    change (b "--proxy="%string ++ v) with (flag_text true s_proxy (Some v)). unfold B.
    rewrite blank_eq_form; [reflexivity|cbn; repeat split; discriminate|reflexivity].
  Qed.
  Lemma spell_proxy_1eq : B [b "-proxy="%string ++ v] = [b "-proxy="%string].
  Proof.
    change (b "-proxy="%string ++ v) with (flag_text false s_proxy (Some v)). unfold B.
    rewrite blank_eq_form; [reflexivity|cbn; repeat split; discriminate|reflexivity].
  Qed.
  Lemma spell_x : BL [b "-x"%string; v] = [b "-x"%string; []].
  Proof. reflexivity. Qed.
  Lemma spell_xeq : BL [b "-x="%string ++ v] = [b "-x="%string].
  Proof.
    change (b "-x="%string ++ v) with (flag_text false s_x (Some v)). unfold BL.
    rewrite blank_eq_form; [reflexivity|cbn; repeat split; discriminate|reflexivity].
  Qed.
  Lemma spell_xx : BL [b "--x"%string; v] = [b "--x"%string; []].
  Proof. reflexivity. Qed.
  (* after other options, bool flags, -f=..., and with a proxy value that itself starts with '-' *)
  Lemma spell_after_others :
    B [b "-f"%string; b "--logfile"%string; b "/tmp/l"%string; b "--foreground=true"%string; b "--proxy"%string; v; b "--agent"%string]
    = [b "-f"%string; b "--logfile"%string; b "/tmp/l"%string; b "--foreground=true"%string; b "--proxy"%string; []; b "--agent"%string].
  Proof. reflexivity. Qed.
  (* given twice: both values are positions *)
  Lemma spell_twice v2 : B [b "--proxy"%string; v; b "--proxy"%string; v2] = [b "--proxy"%string; []; b "--proxy"%string; []].
  Proof. reflexivity. Qed.
  (* after "--" or a non-flag argument nothing is parsed, hence nothing is a proxy position *)
  Lemma spell_after_terminator : B [b "--"%string; b "--proxy"%string; v] = [b "--"%string; b "--proxy"%string; v].
  Proof. reflexivity. Qed.
End Spellings.

(* --define: the setting is a position when the define text assigns proxy *)
Lemma spell_define d : define_sets_proxy d = true ->
  blank new_flags [b "--define"%string; d] = [b "--define"%string; s_proxy] /\
  blank new_flags [b "-define"%string; d] = [b "-define"%string; s_proxy] /\
  blank new_flags [b "--define="%string ++ d] = [b "--define=proxy"%string] /\
  blank new_flags [b "-define="%string ++ d] = [b "-define=proxy"%string].
Proof.
  intros D. repeat split.
  - cbn. unfold blank_value. cbn. rewrite D. reflexivity.
  - cbn. unfold blank_value. cbn. rewrite D. reflexivity.
  - change (b "--define="%string ++ d) with (flag_text true s_define (Some d)).
    rewrite blank_eq_form; [|cbn; repeat split; discriminate|reflexivity].
    unfold blank_value. replace (is_proxy_name s_define) with false by reflexivity.
    replace (is_define_name s_define) with true by reflexivity. rewrite D. reflexivity.
  - change (b "-define="%string ++ d) with (flag_text false s_define (Some d)).
    rewrite blank_eq_form; [|cbn; repeat split; discriminate|reflexivity].
    unfold blank_value. replace (is_proxy_name s_define) with false by reflexivity.
    replace (is_define_name s_define) with true by reflexivity. rewrite D. reflexivity.
Qed.

(* examples of define texts that assign proxy: plain, odd spacing, quoted, in a multi-line setting,
   given after another setting; and texts that do not *)
Example define_texts :
  map define_sets_proxy
    (map b ["proxy=http://u:p@h"; "proxy = x"; "proxy	=	'x y'"; "loglevel=debug
proxy=x"; "logfile=/tmp/l
  proxy=""a\tb"""; "proxy="; "proxy"; "Proxy=x"; "logfile=proxy"; "#proxy=x"; "proxy.x=1"; "proxy=x
!"]%string)
  = [true; true; true; true; true; true; false; false; false; false; false; false].
Proof. vm_compute. reflexivity. Qed.

(* ------------------------------------------------------------------------- non-vacuity *)

Example ex_noninterference_hyps :
  let a1 := map b ["--foreground"; "--loglevel"; "debug"; "--proxy=http://u:S1@h:1"; "--define"; "proxy = http://u:S1@h"]%string in
  let a2 := map b ["--foreground"; "--loglevel"; "debug"; "--proxy=http://u:S2@h:1"; "--define"; "proxy=other"]%string in
  a1 <> a2 /\
  blank new_flags a1 = blank new_flags a2 /\
  parse_proxy new_flags [] a1 = Some (b "http://u:S1@h"%string).
Proof. cbn. repeat split; try reflexivity. discriminate. Qed.

Example ex_key_hyps :
  let k1 := b "0123456789012345678901234567890123456789"%string in
  let k2 := b "01ABCDEFGHIJKLMNOPQRSTUVWXYZabcdefghijkl89"%string in
  length k1 = 40%nat /\ (6 < length k1)%nat /\ k1 <> skipn 2 k2 /\ firstn 2 k1 = firstn 2 k2.
Proof. cbn. repeat split; try lia. discriminate. Qed.
