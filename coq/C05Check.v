(* C05Check.v -- evaluation functions used by the generated build/cases_c05_*.v files: the
   correspondence (models vs. observed implementation output) and the model-independent monitors
   (the property on inputs and implementation outputs only, with the documented numbers 2000 / 20 /
   10 / 1 / 10 / 20 / 250, 5 and 10 attempts).  Definitions only (plus the one-line totality fact
   the stdlib merge-sort functor asks for).  The negotiation monitor is in Limits.v. *)
From Coq Require Import List ZArith NArith Arith Bool Lia Orders Mergesort.
From Verif Require Import Heap TopK Reservoir Metrics Processor Limits.
Import ListNotations.
Open Scope Z_scope.

Definition zlen {A} (l : list A) : Z := Z.of_nat (length l).

(* ================================================================== event reservoirs: counters *)
Record c5hdr := Hdr { hd_seen : Z; hd_size : Z; hd_n : Z }.       (* events_seen, reservoir_size, #events *)
Record c5half := Half5 { hf_seen : Z; hf_len : Z; hf_cap : Z; hf_hdr : option c5hdr }.
Record c5res := Res5 {
  r5_K : nat;
  r5_ops : list rop;                (* merged reservoirs are the OBSERVED ones, as literals *)
  r5_bulk : Z;                      (* further direct adds, not listed one by one (capacities too big for the model run) *)
  r5_model : bool;                  (* false: monitor only *)
  r5_seen : Z; r5_saved : Z; r5_len : Z; r5_cap : Z; r5_failed : Z;     (* observed *)
  r5_hdr : option c5hdr;            (* observed payload header *)
  r5_halves : list c5half           (* observed Split() (or []) *)
}.

Definition hdr_eqb (a b : option c5hdr) : bool :=
  match a, b with
  | Some x, Some y => (hd_seen x =? hd_seen y) && (hd_size x =? hd_size y) && (hd_n x =? hd_n y)
  | None, None => true
  | _, _ => false
  end.

(* what the payload header reports for a reservoir (analyticsEvents.CollectorJSON) *)
Definition model_hdr (r : res) : option c5hdr := Some (Hdr (seen r) (Z.of_nat (cap r)) (zlen (items r))).

Definition corr_res5 (c : c5res) : bool :=
  if negb (r5_model c) then true else
  let r := run_res (r5_K c) (r5_ops c) in
  (seen r =? r5_seen c) && (zlen (items r) =? r5_saved c) && (zlen (items r) =? r5_len c) &&
  (Z.of_nat (cap r) =? r5_cap c) && (failed r =? r5_failed c) && hdr_eqb (model_hdr r) (r5_hdr c) &&
  match r5_halves c with
  | [] => true
  | [h1; h2] =>
      let '(r1, r2) := split r in
      (seen r1 =? hf_seen h1) && (seen r2 =? hf_seen h2) &&
      (zlen (items r1) =? hf_len h1) && (zlen (items r2) =? hf_len h2) &&
      (Z.of_nat (cap r1) =? hf_cap h1) && (Z.of_nat (cap r2) =? hf_cap h2) &&
      hdr_eqb (model_hdr r1) (hf_hdr h1) && hdr_eqb (model_hdr r2) (hf_hdr h2)
  | _ => false
  end.

(* monitor: offers and the seen count they stand for, with the documented 10 attempts *)
Definition carried10 (o : res) : bool := failed o + 1 <=? 10.
Definition n_offered_op (op : rop) : Z :=
  match op with
  | OAdd _ | OAddSynth _ => 1
  | OMerge o => zlen (items o)
  | OMergeFailed o => if carried10 o then zlen (items o) else 0
  end.
Definition n_seen_op (op : rop) : Z :=
  match op with
  | OAdd _ | OAddSynth _ => 1
  | OMerge o => seen o
  | OMergeFailed o => if carried10 o then seen o else 0
  end.
Definition zsum5 (l : list Z) : Z := fold_left Z.add l 0.

Definition mon_res5 (c : c5res) : bool :=
  let K := Z.of_nat (r5_K c) in
  let offered := zsum5 (map n_offered_op (r5_ops c)) + r5_bulk c in
  let seen_exp := zsum5 (map n_seen_op (r5_ops c)) + r5_bulk c in
  (r5_len c <=? K) &&                                    (* never more than the capacity *)
  (r5_len c =? Z.min K offered) &&                       (* included = min(capacity, offered) *)
  (r5_saved c =? r5_len c) &&                            (* NumSaved = included *)
  (r5_seen c =? seen_exp) &&                             (* NumSeen = offered, through merges *)
  (r5_cap c =? K) &&
  hdr_eqb (r5_hdr c) (Some (Hdr seen_exp K (r5_len c))) &&   (* the payload reports the same numbers *)
  match r5_halves c with
  | [] => true
  | [h1; h2] =>
      (hf_len h1 + hf_len h2 =? r5_len c) && (hf_len h1 =? r5_len c / 2) &&
      (* the halves' seen counts add up to the original (when seen >= held, as it always is for real data) *)
      (if r5_len c <=? seen_exp then hf_seen h1 + hf_seen h2 =? seen_exp else true) &&
      (hf_len h1 <=? hf_seen h1) && (hf_len h2 <=? hf_seen h2) &&
      hdr_eqb (hf_hdr h1) (Some (Hdr (hf_seen h1) (hf_cap h1) (hf_len h1))) &&
      hdr_eqb (hf_hdr h2) (Some (Hdr (hf_seen h2) (hf_cap h2) (hf_len h2))) &&
      (hf_len h1 <=? hf_cap h1) && (hf_len h2 <=? hf_cap h2)
  | _ => false
  end.

(* ================================================================== metric tables: count / numDropped *)
Definition tent := (N * bool * Z)%type.                    (* key, forced, call count *)
Definition te_key (e : tent) : N := fst (fst e).
Definition te_forced (e : tent) : bool := snd (fst e).
Definition te_cnt (e : tent) : Z := snd e.
Record tobs5 := TObs { to_count : Z; to_dropped : Z; to_failed : Z; to_entries : list tent }.   (* entries ascending by key *)
Inductive tstage :=
| SAdds (offers : list (N * bool))            (* AddCount(name, "", 1, forced) *)
| SMerge (fmax : Z) (from : tobs5)            (* Merge(from): the OBSERVED final state of the other table *)
| SMFail (fmax : Z) (from : tobs5).           (* MergeFailed(from) *)
Record tcase := TCase { tc_max : Z; tc_stages : list (tstage * tobs5) }.
Definition empty_tobs : tobs5 := TObs 0 0 0 [].

Definition kname (k : N) : name := [k].
Definition table_of (max : Z) (o : tobs5) : table :=
  T max (to_count o) (to_dropped o) (to_failed o)
    (map (fun e => ((kname (te_key e), []), ME (te_forced e) (count_data (te_cnt e)))) (to_entries o)).
Definition tent_of (ke : key * mentry) : tent := (hd 0%N (fst (fst ke)), forced (snd ke), cnt (data (snd ke))).

Module TentOrder <: TotalLeBool.
  Definition t := tent.
  Definition leb (a b : t) : bool := (te_key a <=? te_key b)%N.
  Theorem leb_total : forall a b, leb a b = true \/ leb b a = true.
  Proof. intros a b. unfold leb. destruct (N.leb_spec (te_key a) (te_key b)); [left; reflexivity|right; apply N.leb_le; lia]. Qed.
End TentOrder.
Module TentSort := Sort TentOrder.

Definition tent_eqb (a b : tent) : bool :=
  (te_key a =? te_key b)%N && Bool.eqb (te_forced a) (te_forced b) && (te_cnt a =? te_cnt b).
Fixpoint tents_eqb (a b : list tent) : bool :=
  match a, b with
  | [], [] => true
  | x :: a', y :: b' => if tent_eqb x y then tents_eqb a' b' else false
  | _, _ => false
  end.

Definition model_stage (max : Z) (before : tobs5) (s : tstage) : table :=
  match s with
  | SAdds offers => fold_left (fun t kf => add_count t (kname (fst kf)) [] 1 (snd kf)) offers (table_of max before)
  | SMerge fmax from => Metrics.merge (table_of max before) (table_of fmax from)
  | SMFail fmax from => Metrics.merge_failed (table_of max before) (table_of fmax from)
  end.

(* new keys a merge brings *)
Definition new_keys (before from : tobs5) : Z :=
  zlen (filter (fun e => negb (existsb (fun b => (te_key b =? te_key e)%N) (to_entries before))) (to_entries from)).

Definition corr_stage (max : Z) (before : tobs5) (s : tstage) (after : tobs5) : bool :=
  let t := model_stage max before s in
  let exact := (tcount t =? to_count after) && (tdropped t =? to_dropped after) && (tfailed t =? to_failed after) &&
               tents_eqb (TentSort.sort (map tent_of (entries t))) (to_entries after) in
  match s with
  | SAdds _ => exact
  | SMerge _ from | SMFail _ from =>
      (* which entries are refused depends on Go's map iteration order once the table can fill up *)
      if to_count before + new_keys before from <=? max then exact
      else (tcount t + tdropped t =? to_count after + to_dropped after) && (tfailed t =? to_failed after)
  end.

Fixpoint corr_stages (max : Z) (before : tobs5) (l : list (tstage * tobs5)) : bool :=
  match l with
  | [] => true
  | (s, after) :: r => if corr_stage max before s after then corr_stages max after r else false
  end.
Definition corr_table (c : tcase) : bool := corr_stages (tc_max c) empty_tobs (tc_stages c).

(* ---- monitor: accounting per key on (before, offers, after) ---- *)
Inductive rowk := RBefore (f : bool) (c : Z) | RAfter (f : bool) (c : Z) | ROffer (f : bool) (w : Z).
Definition row5 := (N * rowk)%type.
Module Row5Order <: TotalLeBool.
  Definition t := row5.
  Definition leb (a b : t) : bool := (fst a <=? fst b)%N.
  Theorem leb_total : forall a b, leb a b = true \/ leb b a = true.
  Proof. intros a b. unfold leb. destruct (N.leb_spec (fst a) (fst b)); [left; reflexivity|right; apply N.leb_le; lia]. Qed.
End Row5Order.
Module Row5Sort := Sort Row5Order.

Record ksum := KS { kb : option (bool * Z); ka : option (bool * Z); koff : Z; kforced : Z; kw : Z; kbad : bool }.
Definition ks0 : ksum := KS None None 0 0 0 false.
Definition ks_add (s : ksum) (r : rowk) : ksum :=
  match r with
  | RBefore f c => KS (Some (f, c)) (ka s) (koff s) (kforced s) (kw s) (kbad s || match kb s with Some _ => true | None => false end)
  | RAfter f c => KS (kb s) (Some (f, c)) (koff s) (kforced s) (kw s) (kbad s || match ka s with Some _ => true | None => false end)
  | ROffer f w => KS (kb s) (ka s) (koff s + 1) (kforced s + (if f then 1 else 0)) (kw s + w) (kbad s)
  end.
(* rows sorted by key -> one summary per key *)
Fixpoint ksums (l : list row5) (cur : option (N * ksum)) : list ksum :=
  match l with
  | [] => match cur with Some (_, s) => [s] | None => [] end
  | (k, r) :: rest =>
      match cur with
      | Some (k', s) => if (k =? k')%N then ksums rest (Some (k', ks_add s r)) else s :: ksums rest (Some (k, ks_add ks0 r))
      | None => ksums rest (Some (k, ks_add ks0 r))
      end
  end.

(* per key: None = a violation; Some n = n offers to this key were refused *)
Definition judge_key (is_adds : bool) (s : ksum) : option Z :=
  if kbad s then None else
  let cb := match kb s with Some (_, c) => c | None => 0 end in
  match ka s with
  | None =>
      match kb s with
      | Some _ => None                                         (* an entry vanished *)
      | None => if 0 <? kforced s then None else Some (koff s) (* every offer refused: none of them may be forced *)
      end
  | Some (fa, ca) =>
      let d := ca - cb in
      let flag_ok := match kb s with Some (fb, _) => Bool.eqb fa fb | None => true end in
      if negb flag_ok then None
      else if is_adds then
        (* each offer carries one call: d of them were included *)
        if (0 <=? d) && (d <=? koff s) && (kforced s <=? d) &&
           (match kb s with Some _ => d =? koff s | None => 1 <=? d end)
        then Some (koff s - d) else None
      else
        (* a merged table has one entry per key: included whole or not at all *)
        if (koff s <=? 1) && (d =? kw s) && (match kb s with None => 1 <=? koff s | Some _ => true end)
        then Some 0 else None
  end.

Fixpoint sum_judged (is_adds : bool) (l : list ksum) (acc : Z) : option Z :=
  match l with
  | [] => Some acc
  | s :: r => match judge_key is_adds s with Some n => sum_judged is_adds r (acc + n) | None => None end
  end.

Definition rows_of (before after : tobs5) (offers : list row5) : list row5 :=
  map (fun e => (te_key e, RBefore (te_forced e) (te_cnt e))) (to_entries before) ++
  offers ++
  map (fun e => (te_key e, RAfter (te_forced e) (te_cnt e))) (to_entries after).

Definition unforced5 (o : tobs5) : Z := zlen (filter (fun e => negb (te_forced e)) (to_entries o)).
Definition tobs_eqb (a b : tobs5) : bool :=
  (to_count a =? to_count b) && (to_dropped a =? to_dropped b) && (to_failed a =? to_failed b) &&
  tents_eqb (to_entries a) (to_entries b).

Definition mon_stage (max : Z) (before : tobs5) (s : tstage) (after : tobs5) : bool :=
  let discarded := match s with SMFail _ from => 5 <? to_failed from + 1 | _ => false end in
  if discarded then tobs_eqb before after          (* given up after 5 attempts: nothing changes *)
  else
  let offers := match s with
                | SAdds l => map (fun kf => (fst kf, ROffer (snd kf) 1)) l
                | SMerge _ from | SMFail _ from => map (fun e => (te_key e, ROffer (te_forced e) (te_cnt e))) (to_entries from)
                end in
  let is_adds := match s with SAdds _ => true | _ => false end in
  match sum_judged is_adds (ksums (Row5Sort.sort (rows_of before after offers)) None) 0 with
  | None => false
  | Some refused =>
      (to_dropped after - to_dropped before =? refused) &&        (* numDropped counts exactly the refused offers *)
      (to_count after =? zlen (to_entries after)) &&              (* count = metrics held *)
      (unforced5 after <=? Z.max 0 max) &&                        (* never more than max unforced *)
      (if 0 <? refused then max <=? to_count after else true) &&  (* refusals only at capacity *)
      (to_failed after =? match s with
                          | SMFail _ from => Z.max (to_failed before) (to_failed from + 1)
                          | _ => to_failed before
                          end)
  end.
Fixpoint mon_stages (max : Z) (before : tobs5) (l : list (tstage * tobs5)) : bool :=
  match l with
  | [] => true
  | (s, after) :: r => if mon_stage max before s after then mon_stages max after r else false
  end.
Definition mon_table (c : tcase) : bool := mon_stages (tc_max c) empty_tobs (tc_stages c).

(* informational: forced contributions whose data sits in an entry flagged unforced (first flag wins) and
   was then refused at a merge: number of keys of [from] holding such data that did not make it *)

(* ================================================================== whole harvest *)
Record hcase := HCase {
  hc_caps : list Z;            (* error, txn, custom, span, log *)
  hc_events : list Z;          (* offers per kind *)
  hc_prios : list (list Z);    (* the priorities offered, per kind (model input; [] = no model run) *)
  hc_metrics : list (N * bool);(* distinct keys *)
  hc_errors : Z; hc_slows : Z; hc_traces : list Z;
  (* observed *)
  ho_seen : list Z; ho_sent : list Z; ho_limits : list Z;
  ho_dropped : Z;              (* Supportability/MetricsDropped, -1 = absent *)
  ho_user : Z;                 (* entries named m<k> before createFinalMetrics *)
  ho_unforced : Z;
  ho_nerrors : Z; ho_nslows : Z; ho_ntraces : list Z
}.

Definition zlist_min (a b : list Z) : list Z := map (fun p => Z.min (fst p) (snd p)) (combine a b).

Definition mon_harvest (c : hcase) : bool :=
  zlist_eqb (ho_seen c) (hc_events c) &&                               (* Seen = offered *)
  zlist_eqb (ho_sent c) (zlist_min (hc_events c) (hc_caps c)) &&       (* Sent = included = min(offered, capacity) *)
  zlist_eqb (ho_limits c) (hc_caps c) &&
  (let refused := zlen (hc_metrics c) - ho_user c in
   (0 <=? refused) && (ho_dropped c =? (if 0 <? refused then refused else -1))) &&   (* MetricsDropped = refused *)
  (ho_unforced c <=? 2000) &&
  (ho_nerrors c =? Z.min (hc_errors c) 20) && (ho_nslows c =? Z.min (hc_slows c) 10) &&
  zlist_eqb (ho_ntraces c) (zlist_min (hc_traces c) [1; 10; 20]).

Definition model_seen_sent (cap : Z) (prios : list Z) : Z * Z :=
  let r := run_res (Z.to_nat cap) (map (fun p => OAdd (mkEv p 0)) prios) in (seen r, zlen (items r)).
Definition corr_harvest (c : hcase) : bool :=
  let t := fold_left (fun t kf => add_count t (kname (fst kf)) [] 1 (snd kf)) (hc_metrics c) (new_table Limits_gen.MaxMetrics) in
  (tcount t =? ho_user c) && (tdropped t =? (if ho_dropped c =? -1 then 0 else ho_dropped c)) &&
  (zlen (filter (fun ke => negb (forced (snd ke))) (entries t)) =? ho_unforced c) &&
  match hc_prios c with
  | [] => true
  | ps =>
      let ms := map (fun cp => model_seen_sent (fst cp) (snd cp)) (combine (hc_caps c) ps) in
      zlist_eqb (map fst ms) (ho_seen c) && zlist_eqb (map snd ms) (ho_sent c)
  end.

(* ================================================================== application cap *)
Record acase := ACase { ac_keys : list N; ao_counts : list Z; ao_preconnect : Z }.

Fixpoint app_counts (s : proc) (keys : list N) : list Z :=
  match keys with
  | [] => []
  | k :: r => let s' := fst (step s (OAppInfo k false None)) in zlen (p_apps s') :: app_counts s' r
  end.
Definition corr_apps (c : acase) : bool :=
  zlist_eqb (app_counts init (ac_keys c)) (ao_counts c) &&
  (ao_preconnect c =? last (app_counts init (ac_keys c)) 0).

Fixpoint distinct_so_far (seen : list N) (keys : list N) : list Z :=
  match keys with
  | [] => []
  | k :: r => let seen' := if existsb (N.eqb k) seen then seen else k :: seen in zlen seen' :: distinct_so_far seen' r
  end.
Definition mon_apps (c : acase) : bool :=
  forallb (fun n => n <=? 250) (ao_counts c) &&
  zlist_eqb (ao_counts c) (map (fun d => Z.min d 250) (distinct_so_far [] (ac_keys c))) &&
  (ao_preconnect c =? last (ao_counts c) 0).

(* ================================================================== the functions of collector/event_data.go *)
Record gcase := GCase { g_raw : option Z; g_rate : Z; g_dlimit : Z; g_drate : Z; go_err : bool; go_limit : Z; go_period : Z }.
Definition corr_gec (c : gcase) : bool :=
  match get_event_config (g_raw c) (g_rate c) (g_dlimit c) (g_drate c) with
  | None => go_err c
  | Some e => negb (go_err c) && (ec_limit e =? go_limit c) && (ec_period e =? go_period c)
  end.
(* getEventConfig: nil -> defaults; negative -> error; otherwise min(limit, default) at the collector's rate *)
Definition mon_gec (c : gcase) : bool :=
  match g_raw c with
  | None => negb (go_err c) && (go_limit c =? g_dlimit c) && (go_period c =? g_drate c)
  | Some l => if l <? 0 then go_err c
              else negb (go_err c) && (go_limit c =? Z.min l (g_dlimit c)) && (go_period c =? g_rate c)
  end.

Record ecase := ECase { e_raw : raw_ehc; eo_err : bool; eo_report : Z; eo_limits : list Z; eo_periods : list Z }.
Definition corr_ehc (c : ecase) : bool :=
  match unmarshal_ehc (e_raw c) with
  | None => eo_err c
  | Some e => negb (eo_err c) && (report_period e =? eo_report c) &&
              zlist_eqb (map (fun k => ec_limit (cfg_of (cfgs e) k)) ecats) (eo_limits c) &&
              zlist_eqb (map (fun k => ec_period (cfg_of (cfgs e) k)) ecats) (eo_periods c)
  end.
Record scase := SCase { s_raw : raw_sehc; so_err : bool; so_limit : Z; so_period : Z }.
Definition corr_sehc (c : scase) : bool :=
  match unmarshal_sehc (s_raw c) with
  | None => so_err c
  | Some e => negb (so_err c) && (ec_limit e =? so_limit c) && (ec_period e =? so_period c)
  end.
Record ncase := NCase { n_agent : option agent_limits; no_limits : list Z; no_periods : list Z; no_report : Z;
                        no_json_ms : Z; no_json : list Z }.
Definition corr_nhl (c : ncase) : bool :=
  let e := new_event_harvest_config (n_agent c) in
  zlist_eqb (map (fun k => ec_limit (cfg_of (cfgs e) k)) ecats) (no_limits c) &&
  zlist_eqb (map (fun k => ec_period (cfg_of (cfgs e) k)) ecats) (no_periods c) &&
  (report_period e =? no_report c) && (report_period e / millisecond =? no_json_ms c) &&
  zlist_eqb (no_limits c) (no_json c).
Definition low_doc (max a : Z) : Z := if (0 <=? a) && (a <? max) then a else max.
Definition mon_nhl (c : ncase) : bool :=
  (no_json_ms c =? 60000) && zlist_eqb (no_json c) (no_limits c) &&
  zlist_eqb (no_limits c)
    match n_agent c with
    | None => [100; 10000; 100000; 10000; 20000]
    | Some a => [100; 10000; low_doc 100000 (al_custom a); low_doc 10000 (al_span a); low_doc 20000 (al_log a)]
    end.
