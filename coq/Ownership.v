(* Ownership.v -- C17 "the worker is free of data races": model (definitions only).

   Layer 0  events of a Go execution that matter for the memory model, a vector-clock
            (Djit+) checker `race_free : trace -> bool`, and the declarative happens-before
            relation `hb` it is proved sound against (OwnershipProofs.v).
   Layer 1  the ownership discipline as a capability machine: every memory object is claimed
            either exclusively (MX) by exactly one holder, or read-only (MR, "immutable after
            publish") by any number of holders; a holder is a goroutine or a synchronisation
            object (a channel buffer, a mutex, a WaitGroup ...); claims move only together with
            a `go`, a release (send / close / unlock / Done / atomic store) or an acquire
            (receive / lock / Wait / atomic load) -- that is, along a happens-before edge.
   Layer 2  the protocol of the daemon's worker process (processor.go, listener.go,
            app_harvest.go, harvest_trigger.go, infinite_tracing/trace_observer.go,
            collector/client.go limitClient, log/log.go) as a labelled transition system with
            any number of goroutines of every role, whose labels are the memory accesses,
            synchronisation events and ownership transfers the role performs.
   Layer 3  the discipline table for the fields extracted from the source (Gen/Access_gen.v) and
            the executable check that every extracted cross-role access is covered by it.

   What is NOT modelled: the Go text itself.  That the code follows the protocol is validated by
   the race detector (harness/go/newrelic/zz_verif_c17_test.go) and by the coarse access table. *)
From Coq Require Import Arith List Bool Lia Permutation String.
Import ListNotations.

(* ================================================================== Layer 0: events *)

Definition gid := nat.   (* goroutine *)
Definition obj := nat.   (* memory object: one field (or one container) of one instance *)
Definition sid := nat.   (* synchronisation object: channel, mutex, Once, WaitGroup, atomic cell *)

Inductive event :=
| ERd (g : gid) (o : obj)      (* plain read *)
| EWr (g : gid) (o : obj)      (* plain write *)
| EGo (g c : gid)              (* g executes `go`, starting goroutine c *)
| ERel (g : gid) (s : sid)     (* release on s: channel send, close, Unlock, Done, Once body end,
                                  atomic store; for an unbuffered channel also "receive done" on the
                                  channel's acknowledgement object *)
| EAcq (g : gid) (s : sid).    (* acquire on s: receive, Lock, Wait, Once observed, atomic load;
                                  for an unbuffered channel also "send completed" *)

Definition trace := list event.

Definition gof (e : event) : gid :=
  match e with ERd g _ | EWr g _ | EGo g _ | ERel g _ | EAcq g _ => g end.

(* ---- declarative happens-before on the positions of a trace (Go memory model: program order,
        go statement -> start of the goroutine, release -> later acquire on the same object) *)
Inductive hb (tr : trace) : nat -> nat -> Prop :=
| hb_po i j ei ej :
    i < j -> nth_error tr i = Some ei -> nth_error tr j = Some ej -> gof ei = gof ej -> hb tr i j
| hb_go i j g c ej :
    i < j -> nth_error tr i = Some (EGo g c) -> nth_error tr j = Some ej -> gof ej = c -> hb tr i j
| hb_sync i j g g' s :
    i < j -> nth_error tr i = Some (ERel g s) -> nth_error tr j = Some (EAcq g' s) -> hb tr i j
| hb_trans i j k : hb tr i j -> hb tr j k -> hb tr i k.

Definition accesses_obj (e : event) (o : obj) : bool :=
  match e with ERd _ o' | EWr _ o' => o' =? o | _ => false end.
Definition is_write (e : event) : bool := match e with EWr _ _ => true | _ => false end.

(* two accesses to the same object, at least one of them a write *)
Definition conflict (tr : trace) (i j : nat) : Prop :=
  exists ei ej o, nth_error tr i = Some ei /\ nth_error tr j = Some ej /\
                  accesses_obj ei o = true /\ accesses_obj ej o = true /\
                  (is_write ei = true \/ is_write ej = true).

(* the property: every two conflicting accesses are ordered by happens-before *)
Definition data_race_free (tr : trace) : Prop :=
  forall i j, i < j -> conflict tr i j -> hb tr i j.

(* ---- vector clocks *)
Definition vc := gid -> nat.
Definition vjoin (a b : vc) : vc := fun g => Nat.max (a g) (b g).
Definition vinc (a : vc) (g : gid) : vc := fun x => if x =? g then S (a x) else a x.
Definition upd {A} (f : nat -> A) (k : nat) (v : A) : nat -> A := fun x => if x =? k then v else f x.

(* an access stamp: position in the trace (ghost: only used by the proofs), goroutine, its clock *)
Record stamp := { st_idx : nat; st_g : gid; st_c : nat }.

Record rstate := {
  C : gid -> vc;             (* clock of every goroutine *)
  L : sid -> vc;             (* clock of every synchronisation object *)
  W : obj -> option stamp;   (* last write *)
  R : obj -> list stamp      (* reads (one entry per read; older ones are subsumed) *)
}.

Definition rinit : rstate :=
  {| C := fun g g' => if g =? g' then 1 else 0; L := fun _ _ => 0; W := fun _ => None; R := fun _ => [] |}.

Definition known (v : vc) (s : stamp) : bool := st_c s <=? v (st_g s).
Definition wknown (v : vc) (w : option stamp) : bool :=
  match w with Some s => known v s | None => true end.

(* one event of the checker; None = a race (or the ill-formed `go` of oneself) *)
Definition rstep (st : rstate) (n : nat) (e : event) : option rstate :=
  match e with
  | ERd g o =>
      if wknown (C st g) (W st o)
      then Some {| C := C st; L := L st; W := W st;
                   R := upd (R st) o ({| st_idx := n; st_g := g; st_c := C st g g |} :: R st o) |}
      else None
  | EWr g o =>
      if wknown (C st g) (W st o) && forallb (known (C st g)) (R st o)
      then Some {| C := C st; L := L st;
                   W := upd (W st) o (Some {| st_idx := n; st_g := g; st_c := C st g g |});
                   R := R st |}
      else None
  | EGo g c =>
      if g =? c then None
      else Some {| C := upd (upd (C st) c (vjoin (C st c) (C st g))) g (vinc (C st g) g);
                   L := L st; W := W st; R := R st |}
  | ERel g s =>
      Some {| C := upd (C st) g (vinc (C st g) g);
              L := upd (L st) s (vjoin (L st s) (C st g)); W := W st; R := R st |}
  | EAcq g s =>
      Some {| C := upd (C st) g (vjoin (C st g) (L st s)); L := L st; W := W st; R := R st |}
  end.

Fixpoint rrun (st : rstate) (n : nat) (tr : trace) : option rstate :=
  match tr with
  | [] => Some st
  | e :: r => match rstep st n e with Some st' => rrun st' (S n) r | None => None end
  end.

Definition race_free (tr : trace) : bool :=
  match rrun rinit 0 tr with Some _ => true | None => false end.

(* position of the first event the checker rejects (for reports) *)
Fixpoint first_race (st : rstate) (n : nat) (tr : trace) : option nat :=
  match tr with
  | [] => None
  | e :: r => match rstep st n e with Some st' => first_race st' (S n) r | None => Some n end
  end.

(* ================================================================== Layer 1: ownership discipline *)

Inductive holder := HG (g : gid) | HS (s : sid).
Inductive mode := MX | MR.     (* exclusive (read/write, movable) | read-only (immutable after publish) *)
Definition claim := (holder * obj * mode)%type.
Definition chold (c : claim) : holder := fst (fst c).
Definition cobj (c : claim) : obj := snd (fst c).
Definition cmode (c : claim) : mode := snd c.

(* the claims (object, mode) handed to holder h *)
Definition give (h : holder) (xs : list (obj * mode)) : list claim :=
  map (fun x => (h, fst x, snd x)) xs.

(* annotated events: an event of the execution together with the claims that travel with it;
   the last four are ghost steps (allocation, publication, forgetting a pointer, copying a
   read-only pointer) and leave no event in the trace *)
Inductive aevent :=
| ARd (g : gid) (o : obj)
| AWr (g : gid) (o : obj)
| AGo (g c : gid) (xs : list (obj * mode))
| ARel (g : gid) (s : sid) (xs : list (obj * mode))
| AAcq (g : gid) (s : sid) (xs : list (obj * mode))
| ANew (g : gid) (o : obj)
| AFreeze (g : gid) (o : obj)
| ADrop (g : gid) (o : obj) (m : mode)
| ADup (g : gid) (o : obj).

Definition erase1 (a : aevent) : list event :=
  match a with
  | ARd g o => [ERd g o] | AWr g o => [EWr g o] | AGo g c _ => [EGo g c]
  | ARel g s _ => [ERel g s] | AAcq g s _ => [EAcq g s]
  | ANew _ _ | AFreeze _ _ | ADrop _ _ _ | ADup _ _ => []
  end.
Definition erase (l : list aevent) : trace := flat_map erase1 l.

Record cstate := { c_cl : list claim; c_next : obj }.
Definition cinit : cstate := {| c_cl := []; c_next := 0 |}.

(* the capability machine: what a goroutine may do with the claims it holds *)
Inductive cstep : cstate -> aevent -> cstate -> Prop :=
| c_rd s s' g o m :
    In (HG g, o, m) (c_cl s) -> Permutation (c_cl s) (c_cl s') -> c_next s' = c_next s ->
    cstep s (ARd g o) s'
| c_wr s s' g o :
    In (HG g, o, MX) (c_cl s) -> Permutation (c_cl s) (c_cl s') -> c_next s' = c_next s ->
    cstep s (AWr g o) s'
| c_go s s' g c xs rest :
    g <> c ->
    Permutation (c_cl s) (give (HG g) xs ++ rest) -> Permutation (c_cl s') (give (HG c) xs ++ rest) ->
    c_next s' = c_next s -> cstep s (AGo g c xs) s'
| c_rel s s' g sy xs rest :
    Permutation (c_cl s) (give (HG g) xs ++ rest) -> Permutation (c_cl s') (give (HS sy) xs ++ rest) ->
    c_next s' = c_next s -> cstep s (ARel g sy xs) s'
| c_acq s s' g sy xs rest :
    Permutation (c_cl s) (give (HS sy) xs ++ rest) -> Permutation (c_cl s') (give (HG g) xs ++ rest) ->
    c_next s' = c_next s -> cstep s (AAcq g sy xs) s'
| c_new s s' g o :
    o = c_next s -> Permutation (c_cl s') ((HG g, o, MX) :: c_cl s) -> c_next s' = S (c_next s) ->
    cstep s (ANew g o) s'
| c_freeze s s' g o rest :
    Permutation (c_cl s) ((HG g, o, MX) :: rest) -> Permutation (c_cl s') ((HG g, o, MR) :: rest) ->
    c_next s' = c_next s -> cstep s (AFreeze g o) s'
| c_drop s s' g o m :
    Permutation (c_cl s) ((HG g, o, m) :: c_cl s') -> c_next s' = c_next s ->
    cstep s (ADrop g o m) s'
| c_dup s s' g o :
    In (HG g, o, MR) (c_cl s) -> Permutation (c_cl s') ((HG g, o, MR) :: c_cl s) ->
    c_next s' = c_next s -> cstep s (ADup g o) s'.

Inductive crun : cstate -> list aevent -> cstate -> Prop :=
| crun_nil s : crun s [] s
| crun_cons s a s1 l s2 : cstep s a s1 -> crun s1 l s2 -> crun s (a :: l) s2.

(* a trace follows the ownership discipline when some annotation of it is a run of the machine *)
Definition disciplined (tr : trace) : Prop :=
  exists atr s, crun cinit atr s /\ erase atr = tr.

(* ================================================================== Layer 2: the worker's protocol *)

(* ---- goroutine roles (one constructor per `go` statement family of the daemon) *)
Inductive kind :=
| KMain        (* worker main goroutine: NewProcessor, starts Run and the listener, later CleanExit
                  (cmd/daemon/worker.go; processor.go CleanExit runs here after the quit hand-shake) *)
| KProc        (* processor.go Run: the only goroutine that touches p.apps, p.harvests, App and the
                  attached Harvest containers *)
| KListener    (* listener.go Serve: accept loop *)
| KConn        (* listener.go serve(conn): per-connection goroutine, calls IncomingTxnData /
                  IncomingAppInfo / IncomingSpanBatch *)
| KConnect     (* processor.go considerConnect: go func(){ connectAttemptChannel <- ConnectApplication(args) } *)
| KHarvest     (* processor.go harvestByType: go harvestAll(detached harvest, args, ...) *)
| KPayload     (* processor.go considerHarvestPayload: go harvestPayload(container, args, duc) *)
| KUsage       (* processor.go go harvestDataUsage(args, duc) *)
| KSync        (* goroutines that only synchronise and read immutable data: app_harvest.go forwarder and
                  `go Close()`, harvest_trigger.go triggers and cancel broadcaster, grpc receive loop *)
| KToWorker    (* infinite_tracing/trace_observer.go worker (owns to.sender, to.responseError) *)
| KToSupport   (* trace_observer.go handleSupportability (owns the supportability metrics map) *)
| KUtil        (* processor.go Run: go func(){ utilChan <- utilization.Gather(cfg) } *)
| KDead.       (* the processor loop after it has returned *)

Definition kind_eqb (a b : kind) : bool :=
  match a, b with
  | KMain, KMain | KProc, KProc | KListener, KListener | KConn, KConn | KConnect, KConnect
  | KHarvest, KHarvest | KPayload, KPayload | KUsage, KUsage | KSync, KSync | KToWorker, KToWorker
  | KToSupport, KToSupport | KUtil, KUtil | KDead, KDead => true
  | _, _ => false
  end.

(* ---- synchronisation objects.  Fixed ones are fields of the Processor / package variables; the
        others are created per request / per application harvest and are classified by s mod 4. *)
Definition sAppInfo := 0.   (* p.appInfoChannel *)
Definition sTxn := 1.       (* p.txnDataChannel *)
Definition sSpan := 2.      (* p.spanBatchChannel *)
Definition sAttempt := 3.   (* p.connectAttemptChannel *)
Definition sHarvErr := 4.   (* p.harvestErrorChannel *)
Definition sQuit := 5.      (* p.quitChan: the send *)
Definition sQuitAck := 6.   (* p.quitChan is unbuffered: "receive happens before the send completes" *)
Definition sTick := 7.      (* p.processorHarvestChan *)
Definition sUsage := 8.     (* p.dataUsageChannel *)
Definition sSem := 9.       (* limitClient.semaphore *)
Definition sLogMu := 10.    (* the mutex of the standard logger used by log/log.go *)
Definition sLevel := 11.    (* log.daemonLevel: sync/atomic *)
Definition sUtil := 12.     (* utilChan *)
Definition s_dyn := 16.     (* first dynamically created synchronisation object *)
Inductive sclass := SResult | SToMsgs | SToDump | SPure.
(* SResult: AppInfoMessage.ResultChan;  SToMsgs: TraceObserver.messages;  SToDump:
   supportability.dump;  SPure: cancel/trigger channels, WaitGroups, Once, messagesSent,
   initiateShutdown, shutdownComplete, supportability increments: no memory travels with them *)
Definition class_of (s : sid) : option sclass :=
  if s <? s_dyn then None
  else Some (match (s - s_dyn) mod 4 with 0 => SResult | 1 => SToMsgs | 2 => SToDump | _ => SPure end).
Definition is_class (s : sid) (c : sclass) : bool :=
  match class_of s, c with
  | Some SResult, SResult | Some SToMsgs, SToMsgs | Some SToDump, SToDump | Some SPure, SPure => true
  | _, _ => false
  end.

(* which role may hand memory to which synchronisation object / take memory from it *)
Definition can_send (k : kind) (s : sid) : bool :=
  (s =? sLogMu) ||
  match k with
  | KConn => (s =? sTxn) || (s =? sSpan) || (s =? sAppInfo)
  | KProc => is_class s SResult || is_class s SToMsgs
  | KConnect => s =? sAttempt
  | KPayload => s =? sHarvErr
  | KToSupport => is_class s SToDump
  | KUtil => s =? sUtil
  | _ => false
  end.
Definition can_recv (k : kind) (s : sid) : bool :=
  (s =? sLogMu) ||
  match k with
  | KProc => (s =? sTxn) || (s =? sSpan) || (s =? sAppInfo) || (s =? sAttempt) || (s =? sHarvErr) ||
             (s =? sUtil) || is_class s SToDump
  | KConn => is_class s SResult
  | KToWorker => is_class s SToMsgs
  | KHarvest => is_class s SToDump
  | KMain => (s =? sQuitAck) || is_class s SToDump
  | _ => false
  end.
Definition can_spawn (k k2 : kind) : bool :=
  match k, k2 with
  | KMain, KProc | KMain, KListener
  | KListener, KConn
  | KProc, KConnect | KProc, KHarvest | KProc, KPayload | KProc, KUsage | KProc, KSync
  | KProc, KToWorker | KProc, KToSupport | KProc, KUtil
  | KHarvest, KPayload | KHarvest, KUsage
  | KUsage, KPayload
  | KSync, KSync | KToWorker, KSync => true
  | _, _ => false
  end.
(* only the creator of a structure publishes it as immutable *)
Definition can_freeze (k : kind) : bool :=
  match k with KMain | KProc => true | _ => false end.

(* ---- state: every goroutine with the pointers it holds, every message in flight / parked object *)
Record thread := { t_g : gid; t_kind : kind; t_own : list obj; t_ro : list obj }.
Record msg := { m_s : sid; m_own : list obj; m_ro : list obj }.
Record pstate := { p_thr : list thread; p_msg : list msg; p_nextg : gid; p_nexto : obj }.

Definition pinit : pstate :=
  {| p_thr := [ {| t_g := 0; t_kind := KMain; t_own := []; t_ro := [] |} ]; p_msg := [];
     p_nextg := 1; p_nexto := 0 |}.

Definition mx (l : list obj) : list (obj * mode) := map (fun o => (o, MX)) l.
Definition mr (l : list obj) : list (obj * mode) := map (fun o => (o, MR)) l.
Definition pay (own ro : list obj) : list (obj * mode) := mx own ++ mr ro.

Definition alive (t : thread) : Prop := t_kind t <> KDead.

Definition set_thr (s : pstate) (l : list thread) : pstate :=
  {| p_thr := l; p_msg := p_msg s; p_nextg := p_nextg s; p_nexto := p_nexto s |}.

Inductive pstep : pstate -> aevent -> pstate -> Prop :=
| p_rd s t o :                                   (* read through a pointer the goroutine holds *)
    In t (p_thr s) -> alive t -> In o (t_own t) \/ In o (t_ro t) ->
    pstep s (ARd (t_g t) o) s
| p_wr s t o :                                   (* write: only to exclusively owned memory *)
    In t (p_thr s) -> alive t -> In o (t_own t) ->
    pstep s (AWr (t_g t) o) s
| p_new s t rest o :                             (* allocation *)
    Permutation (p_thr s) (t :: rest) -> alive t -> o = p_nexto s ->
    pstep s (ANew (t_g t) o)
      {| p_thr := {| t_g := t_g t; t_kind := t_kind t; t_own := o :: t_own t; t_ro := t_ro t |} :: rest;
         p_msg := p_msg s; p_nextg := p_nextg s; p_nexto := S (p_nexto s) |}
| p_freeze s t rest o own' :                     (* publication as immutable *)
    Permutation (p_thr s) (t :: rest) -> alive t -> can_freeze (t_kind t) = true ->
    Permutation (t_own t) (o :: own') ->
    pstep s (AFreeze (t_g t) o)
      (set_thr s ({| t_g := t_g t; t_kind := t_kind t; t_own := own'; t_ro := o :: t_ro t |} :: rest))
| p_drop_own s t rest o own' :                   (* a pointer goes out of scope *)
    Permutation (p_thr s) (t :: rest) -> alive t -> Permutation (t_own t) (o :: own') ->
    pstep s (ADrop (t_g t) o MX)
      (set_thr s ({| t_g := t_g t; t_kind := t_kind t; t_own := own'; t_ro := t_ro t |} :: rest))
| p_drop_ro s t rest o ro' :
    Permutation (p_thr s) (t :: rest) -> alive t -> Permutation (t_ro t) (o :: ro') ->
    pstep s (ADrop (t_g t) o MR)
      (set_thr s ({| t_g := t_g t; t_kind := t_kind t; t_own := t_own t; t_ro := ro' |} :: rest))
| p_dup s t rest o :                             (* copy of a pointer to immutable data *)
    Permutation (p_thr s) (t :: rest) -> alive t -> In o (t_ro t) ->
    pstep s (ADup (t_g t) o)
      (set_thr s ({| t_g := t_g t; t_kind := t_kind t; t_own := t_own t; t_ro := o :: t_ro t |} :: rest))
| p_go s t rest k2 xo xr own' ro' :              (* go statement: the arguments move to the new goroutine *)
    Permutation (p_thr s) (t :: rest) -> alive t -> can_spawn (t_kind t) k2 = true ->
    Permutation (t_own t) (xo ++ own') -> Permutation (t_ro t) (xr ++ ro') ->
    pstep s (AGo (t_g t) (p_nextg s) (pay xo xr))
      {| p_thr := {| t_g := p_nextg s; t_kind := k2; t_own := xo; t_ro := xr |} ::
                  {| t_g := t_g t; t_kind := t_kind t; t_own := own'; t_ro := ro' |} :: rest;
         p_msg := p_msg s; p_nextg := S (p_nextg s); p_nexto := p_nexto s |}
| p_send s t rest sy xo xr own' ro' :            (* send / unlock with memory attached *)
    Permutation (p_thr s) (t :: rest) -> alive t -> can_send (t_kind t) sy = true ->
    Permutation (t_own t) (xo ++ own') -> Permutation (t_ro t) (xr ++ ro') ->
    pstep s (ARel (t_g t) sy (pay xo xr))
      {| p_thr := {| t_g := t_g t; t_kind := t_kind t; t_own := own'; t_ro := ro' |} :: rest;
         p_msg := {| m_s := sy; m_own := xo; m_ro := xr |} :: p_msg s;
         p_nextg := p_nextg s; p_nexto := p_nexto s |}
| p_recv s t rest m mrest :                      (* receive / lock: the message's memory arrives *)
    Permutation (p_thr s) (t :: rest) -> alive t -> can_recv (t_kind t) (m_s m) = true ->
    Permutation (p_msg s) (m :: mrest) ->
    pstep s (AAcq (t_g t) (m_s m) (pay (m_own m) (m_ro m)))
      {| p_thr := {| t_g := t_g t; t_kind := t_kind t; t_own := m_own m ++ t_own t;
                     t_ro := m_ro m ++ t_ro t |} :: rest;
         p_msg := mrest; p_nextg := p_nextg s; p_nexto := p_nexto s |}
| p_rel s t sy :                                 (* pure synchronisation: nothing attached *)
    In t (p_thr s) -> alive t -> pstep s (ARel (t_g t) sy []) s
| p_acq s t sy :
    In t (p_thr s) -> alive t -> pstep s (AAcq (t_g t) sy []) s
| p_quit s t rest :                              (* Run: case <-p.quitChan: return nil.  Everything the
                                                    processor owned is now CleanExit's *)
    Permutation (p_thr s) (t :: rest) -> t_kind t = KProc ->
    pstep s (ARel (t_g t) sQuitAck (pay (t_own t) (t_ro t)))
      {| p_thr := {| t_g := t_g t; t_kind := KDead; t_own := []; t_ro := [] |} :: rest;
         p_msg := {| m_s := sQuitAck; m_own := t_own t; m_ro := t_ro t |} :: p_msg s;
         p_nextg := p_nextg s; p_nexto := p_nexto s |}.

Inductive prun : pstate -> list aevent -> pstate -> Prop :=
| prun_nil s : prun s [] s
| prun_cons s a s1 l s2 : pstep s a s1 -> prun s1 l s2 -> prun s (a :: l) s2.

(* the traces of the worker's protocol *)
Definition protocol_trace (tr : trace) : Prop :=
  exists atr s, prun pinit atr s /\ erase atr = tr.

(* ---- executable twin of the protocol: a schedule is a list of explicit choices *)
Inductive plabel :=
| LRd (g : gid) (o : obj) | LWr (g : gid) (o : obj) | LNew (g : gid)
| LFreeze (g : gid) (o : obj) | LDropOwn (g : gid) (o : obj) | LDropRo (g : gid) (o : obj)
| LDup (g : gid) (o : obj)
| LGo (g : gid) (k2 : kind) (xo xr : list obj)
| LSend (g : gid) (s : sid) (xo xr : list obj)
| LRecv (g : gid) (s : sid)            (* takes the oldest message parked on s *)
| LRel (g : gid) (s : sid) | LAcq (g : gid) (s : sid)
| LQuit (g : gid).

Fixpoint pick_thr (g : gid) (l : list thread) : option (thread * list thread) :=
  match l with
  | [] => None
  | t :: r => if t_g t =? g then Some (t, r)
              else match pick_thr g r with Some (t', r') => Some (t', t :: r') | None => None end
  end.
Fixpoint pick_msg (sy : sid) (l : list msg) : option (msg * list msg) :=
  match l with
  | [] => None
  | m :: r => match pick_msg sy r with       (* oldest = last in the list *)
              | Some (m', r') => Some (m', m :: r')
              | None => if m_s m =? sy then Some (m, r) else None
              end
  end.
Fixpoint take1 (o : obj) (l : list obj) : option (list obj) :=
  match l with
  | [] => None
  | x :: r => if x =? o then Some r
              else match take1 o r with Some r' => Some (x :: r') | None => None end
  end.
Fixpoint take_all (xs l : list obj) : option (list obj) :=
  match xs with
  | [] => Some l
  | x :: r => match take1 x l with Some l' => take_all r l' | None => None end
  end.
Definition memb (o : obj) (l : list obj) : bool := existsb (Nat.eqb o) l.
Definition alive_b (t : thread) : bool := negb (kind_eqb (t_kind t) KDead).
Definition mk_thr (t : thread) (own ro : list obj) : thread :=
  {| t_g := t_g t; t_kind := t_kind t; t_own := own; t_ro := ro |}.

Definition pexec (s : pstate) (l : plabel) : option (aevent * pstate) :=
  match l with
  | LRd g o =>
      match pick_thr g (p_thr s) with
      | Some (t, _) => if alive_b t && (memb o (t_own t) || memb o (t_ro t)) then Some (ARd (t_g t) o, s) else None
      | None => None end
  | LWr g o =>
      match pick_thr g (p_thr s) with
      | Some (t, _) => if alive_b t && memb o (t_own t) then Some (AWr (t_g t) o, s) else None
      | None => None end
  | LNew g =>
      match pick_thr g (p_thr s) with
      | Some (t, rest) =>
          if alive_b t then
            Some (ANew (t_g t) (p_nexto s),
                  {| p_thr := mk_thr t (p_nexto s :: t_own t) (t_ro t) :: rest; p_msg := p_msg s;
                     p_nextg := p_nextg s; p_nexto := S (p_nexto s) |})
          else None
      | None => None end
  | LFreeze g o =>
      match pick_thr g (p_thr s) with
      | Some (t, rest) =>
          match take1 o (t_own t) with
          | Some own' => if alive_b t && can_freeze (t_kind t)
                         then Some (AFreeze (t_g t) o, set_thr s (mk_thr t own' (o :: t_ro t) :: rest))
                         else None
          | None => None end
      | None => None end
  | LDropOwn g o =>
      match pick_thr g (p_thr s) with
      | Some (t, rest) =>
          match take1 o (t_own t) with
          | Some own' => if alive_b t then Some (ADrop (t_g t) o MX, set_thr s (mk_thr t own' (t_ro t) :: rest))
                         else None
          | None => None end
      | None => None end
  | LDropRo g o =>
      match pick_thr g (p_thr s) with
      | Some (t, rest) =>
          match take1 o (t_ro t) with
          | Some ro' => if alive_b t then Some (ADrop (t_g t) o MR, set_thr s (mk_thr t (t_own t) ro' :: rest))
                        else None
          | None => None end
      | None => None end
  | LDup g o =>
      match pick_thr g (p_thr s) with
      | Some (t, rest) =>
          if alive_b t && memb o (t_ro t)
          then Some (ADup (t_g t) o, set_thr s (mk_thr t (t_own t) (o :: t_ro t) :: rest)) else None
      | None => None end
  | LGo g k2 xo xr =>
      match pick_thr g (p_thr s) with
      | Some (t, rest) =>
          match take_all xo (t_own t), take_all xr (t_ro t) with
          | Some own', Some ro' =>
              if alive_b t && can_spawn (t_kind t) k2 then
                Some (AGo (t_g t) (p_nextg s) (pay xo xr),
                      {| p_thr := {| t_g := p_nextg s; t_kind := k2; t_own := xo; t_ro := xr |} ::
                                  mk_thr t own' ro' :: rest;
                         p_msg := p_msg s; p_nextg := S (p_nextg s); p_nexto := p_nexto s |})
              else None
          | _, _ => None end
      | None => None end
  | LSend g sy xo xr =>
      match pick_thr g (p_thr s) with
      | Some (t, rest) =>
          match take_all xo (t_own t), take_all xr (t_ro t) with
          | Some own', Some ro' =>
              if alive_b t && can_send (t_kind t) sy then
                Some (ARel (t_g t) sy (pay xo xr),
                      {| p_thr := mk_thr t own' ro' :: rest;
                         p_msg := {| m_s := sy; m_own := xo; m_ro := xr |} :: p_msg s;
                         p_nextg := p_nextg s; p_nexto := p_nexto s |})
              else None
          | _, _ => None end
      | None => None end
  | LRecv g sy =>
      match pick_thr g (p_thr s), pick_msg sy (p_msg s) with
      | Some (t, rest), Some (m, mrest) =>
          if alive_b t && can_recv (t_kind t) (m_s m) then
            Some (AAcq (t_g t) (m_s m) (pay (m_own m) (m_ro m)),
                  {| p_thr := mk_thr t (m_own m ++ t_own t) (m_ro m ++ t_ro t) :: rest;
                     p_msg := mrest; p_nextg := p_nextg s; p_nexto := p_nexto s |})
          else None
      | _, _ => None end
  | LRel g sy =>
      match pick_thr g (p_thr s) with
      | Some (t, _) => if alive_b t then Some (ARel (t_g t) sy [], s) else None
      | None => None end
  | LAcq g sy =>
      match pick_thr g (p_thr s) with
      | Some (t, _) => if alive_b t then Some (AAcq (t_g t) sy [], s) else None
      | None => None end
  | LQuit g =>
      match pick_thr g (p_thr s) with
      | Some (t, rest) =>
          if kind_eqb (t_kind t) KProc then
            Some (ARel (t_g t) sQuitAck (pay (t_own t) (t_ro t)),
                  {| p_thr := {| t_g := t_g t; t_kind := KDead; t_own := []; t_ro := [] |} :: rest;
                     p_msg := {| m_s := sQuitAck; m_own := t_own t; m_ro := t_ro t |} :: p_msg s;
                     p_nextg := p_nextg s; p_nexto := p_nexto s |})
          else None
      | None => None end
  end.

(* runs a schedule; None when some step is not a step of the protocol *)
Fixpoint pexec_run (s : pstate) (ls : list plabel) : option (list aevent * pstate) :=
  match ls with
  | [] => Some ([], s)
  | l :: r => match pexec s l with
              | Some (a, s1) => match pexec_run s1 r with
                                | Some (atr, s2) => Some (a :: atr, s2)
                                | None => None end
              | None => None end
  end.
(* index of the first step of a schedule the protocol does not allow *)
Fixpoint pexec_stuck (s : pstate) (ls : list plabel) (n : nat) : option nat :=
  match ls with
  | [] => None
  | l :: r => match pexec s l with Some (_, s1) => pexec_stuck s1 r (S n) | None => Some n end
  end.
Definition schedule_trace (ls : list plabel) : option trace :=
  match pexec_run pinit ls with Some (atr, _) => Some (erase atr) | None => None end.

(* ================================================================== Layer 3: discipline table *)
(* The source is abstracted (tools/gens/access.py, coq/Gen/Access_gen.v) to triples
   (goroutine role, field, read|write): which struct fields / package variables the functions
   reachable from each goroutine entry point touch.  The table below states, per field, the
   ownership policy the protocol above relies on, with the reason it holds.  The check
   `violations ... = []` is evaluated on every run against the table extracted from the current
   source; an access that no rule admits is reported with the field and the two roles. *)
Local Open Scope string_scope.

Inductive policy :=
| POwned (roles : list string)        (* touched only by these roles, which never run concurrently *)
| PTransferred (roles : list string)  (* instances are handed over by go / channel between these roles;
                                         a type-based table cannot tell instances apart *)
| PImmutable (writers : list string)  (* written only by these roles before publication; then read-only *)
| PMutex                              (* every access holds the mutex *)
| PAtomicOnly.                        (* accessed through sync/atomic only: no plain access may exist *)

Record rule := { r_prefix : string; r_policy : policy; r_why : string }.

(* role names as printed by the extractor *)
Definition rMain := "daemon.main".
Definition rRun := "daemon.processTxnData".                       (* runs p.Run() *)
Definition rExit := "(*newrelic.Processor).CleanExit".
Definition rConn := "newrelic.serve".
Definition rConnect := "(*newrelic.Processor).considerConnect$1".
Definition rHarvestAll := "newrelic.harvestAll".
Definition rPayload := "newrelic.harvestPayload".
Definition rUsage := "newrelic.harvestDataUsage".
Definition rClose := "(*newrelic.AppHarvest).Close".
Definition rToWorker := "infinite_tracing.NewTraceObserver$1".
Definition rGather := "(*newrelic.Processor).Run$1".
Definition rGatherVendor := "utilization.Gather$1$1".
Definition rGatherAddr := "utilization.Gather$2".

(* the processor loop, and CleanExit which takes over after the quit hand-shake *)
Definition PROC := [rRun; rExit].
Definition why_proc :=
  "owned by the processor: Run is the only goroutine using it; CleanExit touches it only after its send on the unbuffered quitChan completed, i.e. after Run received and returned".
Definition HARV := [rHarvestAll; rPayload; rUsage].
Definition why_container :=
  "harvest containers: filled by the processor while attached to AppHarvest.Harvest; detached (replaced by fresh ones) before `go harvestAll` / `go harvestPayload`; come back only through harvestErrorChannel. serve aggregates into a private Harvest in integration mode. considerConnect$1 and main appear only through the type-based call graph (RpmControls.Collectible closures)".

Definition discipline : list rule := [
  {| r_prefix := "newrelic.Processor.apps"; r_policy := POwned PROC; r_why := why_proc |};
  {| r_prefix := "newrelic.Processor.harvests"; r_policy := POwned PROC; r_why := why_proc |};
  {| r_prefix := "newrelic.Processor.util"; r_policy := POwned PROC; r_why := why_proc |};
  {| r_prefix := "newrelic.Processor."; r_policy := PImmutable [];
     r_why := "channel fields, cfg, back-off: set in NewProcessor's literal, never assigned again (listener goroutines read them in Incoming*; the old CleanExit stores were the C17 defect fixed in 6c84d6e)" |};
  {| r_prefix := "newrelic.App."; r_policy := POwned PROC; r_why := why_proc |};
  {| r_prefix := "newrelic.AppHarvest.Harvest"; r_policy := POwned PROC; r_why := why_proc |};
  {| r_prefix := "newrelic.AppHarvest."; r_policy := PImmutable [rRun];
     r_why := "set by NewAppHarvest on the processor before the forwarder, trigger and Close goroutines are started" |};
  {| r_prefix := "newrelic.AppInfo."; r_policy := PImmutable [rConn];
     r_why := "filled by the connection goroutine (UnmarshalAppInfo) before it is sent on appInfoChannel; read-only afterwards" |};
  {| r_prefix := "newrelic.Harvest."; r_policy := PTransferred (PROC ++ [rHarvestAll; rUsage; rConn]);
     r_why := why_container |};
  {| r_prefix := "newrelic.MetricTable."; r_policy := PTransferred (PROC ++ HARV ++ [rConn; rConnect; rMain]); r_why := why_container |};
  {| r_prefix := "newrelic.metricData."; r_policy := PTransferred (PROC ++ HARV ++ [rConn; rConnect; rMain]); r_why := why_container |};
  {| r_prefix := "newrelic.analyticsEvents."; r_policy := PTransferred (PROC ++ HARV ++ [rConn; rConnect; rMain]); r_why := why_container |};
  {| r_prefix := "newrelic.SlowSQL"; r_policy := PTransferred (PROC ++ HARV ++ [rConn; rConnect; rMain]); r_why := why_container |};
  {| r_prefix := "newrelic.PhpPackages."; r_policy := PTransferred (PROC ++ HARV ++ [rConn; rConnect; rMain]); r_why := why_container |};
  {| r_prefix := "newrelic.LogEvents."; r_policy := PTransferred (PROC ++ HARV ++ [rConn; rConnect; rMain]); r_why := why_container |};
  {| r_prefix := "newrelic.ConnectArgs."; r_policy := PTransferred (PROC ++ HARV ++ [rConnect; rMain]);
     r_why := "allocated by considerConnect on the processor and handed to the connect goroutine by the go statement; the readers other than considerConnect$1 come from the type-based call graph (Collectible closures)" |};
  {| r_prefix := "collector.RpmCmd."; r_policy := PTransferred (PROC ++ HARV ++ [rConnect; rMain]);
     r_why := "one RpmCmd per request, allocated by the calling goroutine and passed down by pointer" |};
  {| r_prefix := "collector.RpmControls."; r_policy := PTransferred (PROC ++ HARV ++ [rConnect; rMain]);
     r_why := "one RpmControls value per request, passed by value" |};
  {| r_prefix := "collector.Event."; r_policy := PTransferred (PROC ++ [rConn; "daemon.listenAndServe$1"]);
     r_why := "processLogEventLimits adjusts the ConnectReply on the processor before NewAppHarvest publishes it; serve reads the limits of its private integration-mode Harvest" |};
  {| r_prefix := "infinite_tracing.TraceObserver.messagesRemainingCapacity"; r_policy := POwned [rRun];
     r_why := "single role: only QueueBatch / emptyQueue / getRemainingQueueCapacity, all on the processor goroutine (`This should only be called on a single go routine`), touch the counter; the worker learns about sent spans through the messagesSent channel. The worker's Debugf read of the counter was the defect fixed in fc40238" |};
  {| r_prefix := "infinite_tracing.grpcSpanBatchSender.stream"; r_policy := POwned [rToWorker];
     r_why := "single role: written by connect() and used by send() on the worker goroutine only; the receive goroutine uses the local `stream` value it was started with (handed over by the go statement), never the field. Reading s.stream there was the defect fixed in c8aacc8" |};
  {| r_prefix := "log.auditLog"; r_policy := PImmutable [rMain];
     r_why := "InitAudit runs in main before the processor and the listener are started" |};
  {| r_prefix := "log.daemonLevel"; r_policy := PAtomicOnly;
     r_why := "SetLevel / logf use atomic.StoreInt32 / atomic.LoadInt32" |};
  {| r_prefix := "utilization.Data."; r_policy := PTransferred [rGather; rMain; rRun; rExit; rGatherVendor; rGatherAddr; rConnect];
     r_why := "Gather fills a fresh Data (its helper goroutines are joined by a WaitGroup) and sends it on utilChan; ConnectPayloadInternal works on a per-connect copy (utilCopy := *util) whose Hostname and Vendors pointer it sets before the copy is handed to the connect goroutine by the go statement" |};
  {| r_prefix := "utilization.kubernetes."; r_policy := PImmutable [rGather; rMain];
     r_why := "filled during Gather, before the Data is published" |};
  {| r_prefix := "utilization.vendors."; r_policy := PImmutable [rGather; rMain; rGatherVendor];
     r_why := "filled during Gather (helper goroutines joined by its WaitGroup) before the Data is sent on utilChan; the per-connect copy of Data is shallow, so this struct is shared by every connect payload and is read-only from then on: OverrideDockerId builds a fresh vendors value and replaces the copy's Vendors pointer (field of utilization.Data, per-connect instance) instead of writing here. Writing the shared struct was the defect fixed in 00696d1" |}
].

Definition policy_of (field : string) : option policy :=
  match find (fun r => String.prefix (r_prefix r) field) discipline with
  | Some r => Some (r_policy r)
  | None => None
  end.

Definition mem_str (s : string) (l : list string) : bool := existsb (String.eqb s) l.

Definition acc := (nat * nat * bool)%type.    (* role id, field id, is_write *)

(* another role that touches the same field in a conflicting way *)
Definition opponent (a : acc) (l : list acc) : option nat :=
  let '(r, f, w) := a in
  match find (fun b => let '(r2, f2, w2) := b in (f2 =? f)%nat && negb (r2 =? r)%nat && (w || w2)) l with
  | Some (r2, _, _) => Some r2
  | None => None
  end.

Definition access_ok (rn fnm : list string) (l : list acc) (a : acc) : bool :=
  let '(r, f, w) := a in
  let role := nth r rn "?" in
  match policy_of (nth f fnm "?") with
  | Some (POwned rs) | Some (PTransferred rs) => mem_str role rs
  | Some (PImmutable ws) => if w then mem_str role ws else true
  | Some PMutex => true
  | Some PAtomicOnly => false
  | None => match opponent a l with None => true | Some _ => false end
  end.

(* (role, field, conflicting role or the role itself) of every access no rule admits *)
Definition violations (rn fnm : list string) (l : list acc) : list (nat * nat * nat) :=
  map (fun a => let '(r, f, w) := a in
                (r, f, match opponent a l with Some r2 => r2 | None => r end))
      (filter (fun a => negb (access_ok rn fnm l a)) l).

Definition table_ok (rn fnm : list string) (l : list acc) : bool := forallb (access_ok rn fnm l) l.

(* the monitor of the dynamic side: the race detector reported nothing *)
Definition no_race_reports (reports : list nat) : bool :=
  match reports with [] => true | _ => false end.
