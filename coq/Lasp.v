(* Lasp.v -- model of the language-agent security-policy (LASP) handshake.
   Transcribes daemon/internal/newrelic/lasp.go (verifySecurityPolicies, addPoliciesToPayload,
   getSupportedPoliciesHash) and the part of processor.go ConnectApplication that decides which
   collector requests are made.  Definitions only; proofs are in LaspProofs.v.

   Go maps are association lists whose keys are pairwise distinct (NoDup (map fst m)); the order of a
   list is the (arbitrary) order in which a Go `range` visits the map, so a statement quantified over
   all lists covers every iteration order.  Policy names are byte strings (list N). *)
From Coq Require Import NArith List Bool.
Import ListNotations.
Open Scope N_scope.

Definition name := list N.

Fixpoint name_eqb (a b : name) : bool :=
  match a, b with
  | [], [] => true
  | x :: a', y :: b' => if N.eqb x y then name_eqb a' b' else false
  | _, _ => false
  end.

(* SecurityPolicyAgent {Enabled, Supported} *)
Record apol := mkA { a_enabled : bool; a_supported : bool }.
(* SecurityPolicy {Enabled, Required} as found in the preconnect reply *)
Record cpol := mkC { c_enabled : bool; c_required : bool }.

Definition amap := list (name * apol).
Definition cmap := list (name * cpol).
Definition pmap := list (name * bool).       (* name |-> enabled *)

Fixpoint lookup {V} (k : name) (m : list (name * V)) : option V :=
  match m with
  | [] => None
  | (k', v) :: r => if name_eqb k k' then Some v else lookup k r
  end.

Definition is_empty {A} (l : list A) : bool := match l with [] => true | _ => false end.

(* ---------------------------------------------------------------- verifySecurityPolicies *)

Inductive verr :=
| EEmptyAgent                        (* errPoliciesEmpty, agent map *)
| EEmptyCollector                    (* errPoliciesEmpty, preconnect map *)
| ERequiredUnsupported (n : name)    (* errRequiredPolicyNotSupported *)
| EMissingFromPreconnect (n : name). (* errPolicyMissingFromPreconnect *)

Inductive vres := VOk | VErr (e : verr).

(* first loop: `for pcPolicyName, pcPolicy := range preconnectReply.SecurityPolicies` *)
Fixpoint check_required (ag : amap) (co : cmap) : option name :=
  match co with
  | [] => None
  | (n, p) :: r =>
      if negb (c_required p) then check_required ag r
      else match lookup n ag with
           | None => Some n
           | Some a => if a_supported a then check_required ag r else Some n
           end
  end.

(* second loop: `for key := range ap.Policies` *)
Fixpoint check_known (ag : amap) (co : cmap) : option name :=
  match ag with
  | [] => None
  | (n, _) :: r => match lookup n co with
                   | None => Some n
                   | Some _ => check_known r co
                   end
  end.

Definition verify (ag : amap) (co : cmap) : vres :=
  if is_empty ag then VErr EEmptyAgent
  else if is_empty co then VErr EEmptyCollector
  else match check_required ag co with
       | Some n => VErr (ERequiredUnsupported n)
       | None => match check_known ag co with
                 | Some n => VErr (EMissingFromPreconnect n)
                 | None => VOk
                 end
       end.

(* ----------------------------------------------------------------- addPoliciesToPayload *)

(* `preconnectPolicies[name].Enabled`: the zero value (false) for a name missing from the map *)
Definition co_enabled (co : cmap) (n : name) : bool :=
  match lookup n co with Some c => c_enabled c | None => false end.

Definition payload_policies (ag : amap) (co : cmap) : pmap :=
  map (fun na => (fst na, a_enabled (snd na) && co_enabled co (fst na)))
      (filter (fun na => a_supported (snd na)) ag).

Inductive ares := AOk (m : pmap) | AErr (e : verr).

Definition add_policies (ag : amap) (co : cmap) : ares :=
  if is_empty ag then AErr EEmptyAgent
  else if is_empty co then AErr EEmptyCollector
  else AOk (payload_policies ag co).

(* ------------------------------------------------------------------- ConnectApplication *)

(* what the (mock or real) collector client gives back for preconnect / connect *)
Inductive pc_outcome :=
| PcTransportErr                         (* rep.RawReply.Err != nil *)
| PcMalformed                            (* body does not unmarshal into PreconnectReply *)
| PcReply (redirect : name) (co : cmap). (* redirect_host, security_policies *)

Inductive cn_outcome :=
| CnTransportErr                         (* rep.RawReply.Err != nil *)
| CnBadReply                             (* parseConnectReply fails (bad JSON / no agent_run_id) *)
| CnOk.

Inductive request :=
| RPreconnect (token : name)                        (* security_policies_token of the payload *)
| RConnect (host : name) (policies : pmap).         (* target host, payload security_policies *)

Inductive errc :=
| ErrTransport                  (* error reported by the client *)
| ErrPreconnectParse
| ErrLasp (e : verr)
| ErrConnectParse.

Record attempt := mkAttempt {
  at_err : option errc;                 (* rep.Err *)
  at_policies : option pmap;            (* rep.RawSecurityPolicies (None = nil) *)
  at_reply : bool                       (* rep.Reply != nil *)
}.

(* p0: PayloadRaw.SecurityPolicies as it is before the call ([] from AppInfo.ConnectPayload) *)
Definition returned_policies (co : cmap) : pmap := map (fun nc => (fst nc, c_enabled (snd nc))) co.

Definition connect_tail (r : name) (co : cmap) (pm : pmap) (cn : cn_outcome) (pre : list request)
  : list request * attempt :=
  let reqs := pre ++ [RConnect r pm] in
  let pol := Some (returned_policies co) in
  match cn with
  | CnTransportErr => (reqs, mkAttempt (Some ErrTransport) pol false)
  | CnBadReply => (reqs, mkAttempt (Some ErrConnectParse) pol false)
  | CnOk => (reqs, mkAttempt None pol true)
  end.

Definition connect_application (token : name) (ag : amap) (p0 : pmap) (pc : pc_outcome) (cn : cn_outcome)
  : list request * attempt :=
  let pre := [RPreconnect token] in
  match pc with
  | PcTransportErr => (pre, mkAttempt (Some ErrTransport) None false)
  | PcMalformed => (pre, mkAttempt (Some ErrPreconnectParse) None false)
  | PcReply r co =>
      if is_empty token then connect_tail r co p0 cn pre
      else match verify ag co with
           | VErr e => (pre, mkAttempt (Some (ErrLasp e)) None false)
           | VOk => match add_policies ag co with
                    | AErr e => (pre, mkAttempt (Some (ErrLasp e)) (Some (returned_policies co)) false)
                    | AOk pm => connect_tail r co pm cn pre
                    end
           end
  end.

(* processor.go processConnectAttempt, last branch: an attempt carrying an error leaves the
   application unconnected (state Unknown / Disconnected / InvalidLicense, never Connected) *)
Definition app_connects (a : attempt) : bool :=
  match at_err a with None => true | Some _ => false end.

(* ---------------------------------------------------------------- getSupportedPoliciesHash *)

(* sort.Strings: byte-wise lexicographic order *)
Fixpoint name_leb (a b : name) : bool :=
  match a, b with
  | [], _ => true
  | _ :: _, [] => false
  | x :: a', y :: b' => if N.ltb x y then true else if N.ltb y x then false else name_leb a' b'
  end.

Fixpoint insert_sorted (x : name) (l : list name) : list name :=
  match l with
  | [] => [x]
  | y :: r => if name_leb x y then x :: l else y :: insert_sorted x r
  end.

Definition sort_names (l : list name) : list name := fold_right insert_sorted [] l.

Definition supported_names (ag : amap) : list name :=
  map fst (filter (fun na => a_supported (snd na)) ag).

(* `policies := make([]string, len(ap.Policies), len(ap.Policies))` followed by append: the slice
   starts with len(ap.Policies) empty strings; then sort.Strings; then strings.Join(policies, "") *)
Definition hash_preimage (ag : amap) : list N :=
  concat (sort_names (repeat [] (length ag) ++ supported_names ag)).

Section Hash.
  Variable sha256hex : list N -> list N.
  (* AppKey.AgentPolicies *)
  Definition policies_hash (ag : amap) : list N := sha256hex (hash_preimage ag).
End Hash.

(* ------------------------------------------------------------------------------ monitor *)
(* The property on (input, implementation output) only; does not use verify / add_policies /
   connect_application. *)

Definition mem {V} (n : name) (m : list (name * V)) : bool :=
  existsb (fun kv => name_eqb n (fst kv)) m.

Definition get {V} (n : name) (m : list (name * V)) : option V :=
  match find (fun kv => name_eqb n (fst kv)) m with Some kv => Some (snd kv) | None => None end.

(* the handshake may proceed *)
Definition spec_acceptable (ag : amap) (co : cmap) : bool :=
  negb (is_empty ag) && negb (is_empty co) &&
  forallb (fun nc => if c_required (snd nc)
                     then match get (fst nc) ag with Some a => a_supported a | None => false end
                     else true) co &&
  forallb (fun na => mem (fst na) co) ag.

Definition bool_opt_eqb (a b : option bool) : bool :=
  match a, b with Some x, Some y => Bool.eqb x y | None, None => true | _, _ => false end.

(* two name|->bool maps with distinct keys are equal as maps *)
Definition pmap_eqb (a b : pmap) : bool :=
  Nat.eqb (length a) (length b) &&
  forallb (fun kv => bool_opt_eqb (get (fst kv) b) (Some (snd kv))) a &&
  forallb (fun kv => bool_opt_eqb (get (fst kv) a) (Some (snd kv))) b.

(* payload: p present iff the agent supports p; enabled = agent.enabled && collector.enabled *)
Definition spec_payload_ok (ag : amap) (co : cmap) (pm : pmap) : bool :=
  forallb (fun na => if a_supported (snd na)
                     then bool_opt_eqb (get (fst na) pm)
                            (Some (a_enabled (snd na) &&
                                   match get (fst na) co with Some c => c_enabled c | None => false end))
                     else negb (mem (fst na) pm)) ag &&
  forallb (fun kv => mem (fst kv) ag) pm.

Definition spec_returned_ok (co : cmap) (ret : pmap) : bool :=
  forallb (fun nc => bool_opt_eqb (get (fst nc) ret) (Some (c_enabled (snd nc)))) co &&
  forallb (fun kv => mem (fst kv) co) ret.

(* observation of one real ConnectApplication call *)
Record observed := mkObs {
  o_reqs : list request;
  o_err : bool;                  (* rep.Err != nil *)
  o_ret : option pmap;           (* rep.RawSecurityPolicies, parsed *)
  o_reply : bool                 (* rep.Reply != nil *)
}.

Definition one_preconnect (token : name) (o : observed) : bool :=
  match o_reqs o with
  | [RPreconnect t] => name_eqb t token
  | _ => false
  end.

Definition c13_monitor (token : name) (ag : amap) (p0 : pmap) (pc : pc_outcome) (cn : cn_outcome)
           (o : observed) : bool :=
  match pc with
  | PcTransportErr | PcMalformed => one_preconnect token o && o_err o && negb (o_reply o)
  | PcReply r co =>
      if negb (is_empty token) && negb (spec_acceptable ag co)
      then (* fail closed *) one_preconnect token o && o_err o && negb (o_reply o)
      else match o_reqs o with
           | [RPreconnect t; RConnect h pm] =>
               name_eqb t token && name_eqb h r &&
               (if is_empty token then pmap_eqb pm p0 else spec_payload_ok ag co pm) &&
               match o_ret o with Some ret => spec_returned_ok co ret | None => false end &&
               Bool.eqb (o_err o) (match cn with CnOk => false | _ => true end) &&
               Bool.eqb (o_reply o) (match cn with CnOk => true | _ => false end)
           | _ => false
           end
  end.

(* projection of the model's result onto the observation *)
Definition project (ra : list request * attempt) : observed :=
  mkObs (fst ra) (negb (app_connects (snd ra))) (at_policies (snd ra)) (at_reply (snd ra)).

Definition req_eqb (a b : request) : bool :=
  match a, b with
  | RPreconnect t, RPreconnect t' => name_eqb t t'
  | RConnect h p, RConnect h' p' => name_eqb h h' && pmap_eqb p p'
  | _, _ => false
  end.

Fixpoint reqs_eqb (a b : list request) : bool :=
  match a, b with
  | [], [] => true
  | x :: a', y :: b' => req_eqb x y && reqs_eqb a' b'
  | _, _ => false
  end.

Definition obs_eqb (a b : observed) : bool :=
  reqs_eqb (o_reqs a) (o_reqs b) && Bool.eqb (o_err a) (o_err b) &&
  match o_ret a, o_ret b with
  | Some x, Some y => pmap_eqb x y
  | None, None => true
  | _, _ => false
  end && Bool.eqb (o_reply a) (o_reply b).

(* error class reported by the implementation (errors.As on the three LASP error types) *)
Inductive eclass := KNone | KEmpty | KRequired | KMissing | KOther.

Definition eclass_of (e : option errc) : eclass :=
  match e with
  | None => KNone
  | Some (ErrLasp EEmptyAgent) | Some (ErrLasp EEmptyCollector) => KEmpty
  | Some (ErrLasp (ERequiredUnsupported _)) => KRequired
  | Some (ErrLasp (EMissingFromPreconnect _)) => KMissing
  | Some _ => KOther
  end.

Definition eclass_eqb (a b : eclass) : bool :=
  match a, b with
  | KNone, KNone | KEmpty, KEmpty | KRequired, KRequired | KMissing, KMissing | KOther, KOther => true
  | _, _ => false
  end.

(* ---------------------------------------------------------------- processor-level monitor *)
(* Observation of the real Processor (NewProcessor / Run / IncomingAppInfo) for one application:
   the collector requests, whether the application ends up connected, and the security policies in
   the AppInfoReply handed back to the agent (only a connected application gets any). *)
Record pobserved := mkPObs {
  po_reqs : list request;
  po_connected : bool;
  po_ret : option pmap
}.

Definition c13_proc_monitor (token : name) (ag : amap) (pc : pc_outcome) (cn : cn_outcome)
           (o : pobserved) : bool :=
  match pc with
  | PcTransportErr | PcMalformed =>
      match po_reqs o with [RPreconnect t] => name_eqb t token | _ => false end &&
      negb (po_connected o) && match po_ret o with None => true | Some _ => false end
  | PcReply r co =>
      if negb (is_empty token) && negb (spec_acceptable ag co)
      then match po_reqs o with [RPreconnect t] => name_eqb t token | _ => false end &&
           negb (po_connected o) && match po_ret o with None => true | Some _ => false end
      else match po_reqs o with
           | [RPreconnect t; RConnect h pm] =>
               name_eqb t token && name_eqb h r &&
               (if is_empty token then is_empty pm else spec_payload_ok ag co pm) &&
               match cn with
               | CnOk => po_connected o &&
                         match po_ret o with Some ret => spec_returned_ok co ret | None => false end
               | _ => negb (po_connected o) && match po_ret o with None => true | Some _ => false end
               end
           | _ => false
           end
  end.

Definition project_proc (ra : list request * attempt) : pobserved :=
  mkPObs (fst ra) (app_connects (snd ra))
         (if app_connects (snd ra) then at_policies (snd ra) else None).

Definition pobs_eqb (a b : pobserved) : bool :=
  reqs_eqb (po_reqs a) (po_reqs b) && Bool.eqb (po_connected a) (po_connected b) &&
  match po_ret a, po_ret b with
  | Some x, Some y => pmap_eqb x y
  | None, None => true
  | _, _ => false
  end.
