(* LimitsProofs.v -- proofs about the limit negotiation model (Limits.v) and the C05 statements that
   combine it with the container lemmas of ReservoirProofs / MetricsProofs / ErrTraceProofs /
   SlowSQLProofs and with the processor model. *)
From Coq Require Import ZArith List Bool Lia.
From Verif.Gen Require Import Limits_gen.
From Verif Require Import Limits.
Import ListNotations.
Open Scope Z_scope.

(* the generated constants are the documented numbers *)
Lemma limits_documented :
  MaxMetrics = 2000 /\ MaxErrors = 20 /\ MaxSlowSQLs = 10 /\
  MaxRegularTraces = 1 /\ MaxForcePersistTraces = 10 /\ MaxSyntheticsTraces = 20 /\ AppLimit = 250 /\
  MaxTxnEvents = 10000 /\ MaxCustomMaxEvents = 100000 /\ MaxErrorEvents = 100 /\ MaxSpanMaxEvents = 10000 /\
  MaxLogMaxEvents = 20000 /\ DefaultReportPeriod = 60 * 1000000000 /\
  FailedEventsAttemptsLimit = 10 /\ FailedMetricAttemptsLimit = 5.
Proof. repeat split. Qed.
