(* LimitsProofs.v -- proofs about the limit negotiation model (Limits.v) and the C05 statements that
   combine it with the container lemmas of ReservoirProofs / MetricsProofs / ErrTraceProofs /
   SlowSQLProofs and with the processor model (application cap).

   Remark [float_domain].  processLogEventLimits computes int(float64(agent) * float64(period) / 6e10).
   Limits.scale_agent_log is the exact integer quotient truncated towards zero.  The two agree whenever
   |agent * period| < 2^53 (both factors and the product are exact in float64, and a correctly rounded
   quotient of integers whose exact value is at least 1/6e10 away from the next integer cannot reach it:
   half an ulp below 2^15 is 1.8e-12).  When the product is larger the float64 quotient is above 1.5e5,
   i.e. above every collector limit (<= 20000), as is the exact one, so the comparison
   `0 <= scaled < collectorLimit` has the same outcome; negative products give negative or zero quotients
   in both.  Hence final_log_limit is what the Go code computes, for every input. *)
From Coq Require Import ZArith NArith List Bool Permutation Lia Arith.
From Verif.Gen Require Import Limits_gen.
From Verif Require Import Heap TopK Reservoir ReservoirProofs Metrics MetricsProofs ErrTrace ErrTraceProofs
  SlowSQL SlowSQLProofs Processor Limits C05Check.
Import ListNotations.
Open Scope Z_scope.

(* the generated constants are the documented numbers *)
Lemma limits_documented :
  MaxMetrics = 2000 /\ MaxErrors = 20 /\ MaxSlowSQLs = 10 /\
  MaxRegularTraces = 1 /\ MaxForcePersistTraces = 10 /\ MaxSyntheticsTraces = 20 /\ AppLimit = 250 /\
  MaxTxnEvents = 10000 /\ MaxCustomMaxEvents = 100000 /\ MaxErrorEvents = 100 /\ MaxSpanMaxEvents = 10000 /\
  MaxLogMaxEvents = 20000 /\ DefaultReportPeriod = 60 * 1000000000 /\
  FailedEventsAttemptsLimit = 10 /\ FailedMetricAttemptsLimit = 5.
Proof. repeat split. Qed.

(* ================================================================== machine integers, decoding *)
Lemma two63_val : two63 = 9223372036854775808. Proof. reflexivity. Qed.
Lemma two64_val : two64 = 18446744073709551616. Proof. reflexivity. Qed.

Lemma wrap64_small u : 0 <= u < two63 -> wrap64 u = u.
Proof.
  intros H. unfold wrap64. rewrite two63_val, two64_val in *.
  rewrite Z.mod_small by lia. destruct (Z.ltb_spec u 9223372036854775808); lia.
Qed.

Lemma wrap64_big u : two63 <= u < two64 -> wrap64 u = u - two64.
Proof.
  intros H. unfold wrap64. rewrite two63_val, two64_val in *.
  rewrite Z.mod_small by lia. destruct (Z.ltb_spec u 9223372036854775808); lia.
Qed.

Lemma wrap64_range z : - two63 <= wrap64 z < two63.
Proof.
  unfold wrap64. rewrite two63_val, two64_val.
  pose proof (Z.mod_pos_bound z 18446744073709551616 ltac:(lia)).
  destruct (Z.ltb_spec (z mod 18446744073709551616) 9223372036854775808); lia.
Qed.

(* lowering a maximum to a uint64 agent setting: the conversion to int does no harm *)
Lemma lowered_uint64 max u : 0 <= max < two63 -> 0 <= u < two64 -> lowered max (int_of_uint64 u) = Z.min max u.
Proof.
  intros Hm Hu. unfold lowered, int_of_uint64.
  destruct (Z.ltb_spec u two63) as [Hs|Hb].
  - rewrite wrap64_small by lia.
    destruct (Z.ltb_spec u max), (Z.leb_spec 0 u); cbn; lia.
  - rewrite wrap64_big by lia. rewrite two63_val, two64_val in *.
    destruct (Z.ltb_spec (u - 18446744073709551616) max), (Z.leb_spec 0 (u - 18446744073709551616)); cbn; lia.
Qed.

Lemma advertised_spec a :
  0 <= a_span a < two64 -> 0 <= a_log a < two64 -> 0 <= a_custom a < two64 ->
  advertised a = (60000, (100, 10000, Z.min 100000 (a_custom a), Z.min 10000 (a_span a), Z.min 20000 (a_log a))).
Proof.
  intros Hs Hl Hc. unfold advertised, new_event_harvest_config, new_harvest_limits, unmarshal_agent_limits.
  cbn [cfgs report_period c_error c_txn c_custom c_span c_log ec_limit al_span al_log al_custom].
  assert (B : forall m, In m [MaxSpanMaxEvents; MaxLogMaxEvents; MaxCustomMaxEvents] -> 0 <= m < two63).
  { intros m [<-|[<-|[<-|[]]]]; vm_compute; split; congruence. }
  rewrite (lowered_uint64 MaxSpanMaxEvents (a_span a)) by (try assumption; apply B; cbn; auto).
  rewrite (lowered_uint64 MaxLogMaxEvents (a_log a)) by (try assumption; apply B; cbn; auto).
  rewrite (lowered_uint64 MaxCustomMaxEvents (a_custom a)) by (try assumption; apply B; cbn; auto).
  reflexivity.
Qed.

Lemma new_harvest_limits_nil :
  map (fun k => ec_limit (cfg_of (new_harvest_limits None) k)) ecats = [100; 10000; 100000; 10000; 20000].
Proof. reflexivity. Qed.

(* ---- getEventConfig ---- *)
Lemma get_event_config_spec raw rate dl dr e :
  0 <= dl -> get_event_config raw rate dl dr = Some e ->
  match raw with
  | None => e = EvCfg dl dr
  | Some l => 0 <= l /\ e = EvCfg (Z.min dl l) rate
  end.
Proof.
  intros Hd. unfold get_event_config. destruct raw as [l|]; [|intros H; inversion H; reflexivity].
  destruct (Z.ltb_spec l 0) as [Hn|Hp]; [discriminate|]. intros He. inversion He. split; [lia|].
  destruct (Z.ltb_spec dl l); f_equal; lia.
Qed.

Lemma get_event_config_none raw rate dl dr :
  get_event_config raw rate dl dr = None <-> exists l, raw = Some l /\ l < 0.
Proof.
  unfold get_event_config. destruct raw as [l|].
  - destruct (Z.ltb_spec l 0) as [Hn|Hp]; split; intros Hx; try discriminate; try reflexivity.
    + exists l. split; [reflexivity|lia].
    + destruct Hx as [l' [E Hl]]. inversion E. lia.
  - split; [discriminate|]. intros [l [E _]]. discriminate.
Qed.

(* decoding a *int member *)
Lemma dec_int_ptr_spec j init o : dec_int_ptr j init = Some o ->
  match j with
  | JAbsent => o = init
  | JNull => o = None
  | JInt z => o = Some z /\ - two63 <= z < two63
  | JOther => False
  end.
Proof.
  destruct j as [| |z|]; cbn [dec_int_ptr]; intros H; try (inversion H; reflexivity); try discriminate.
  unfold in_int64 in H. destruct (Z.leb_spec (- two63) z) as [Ha|Ha], (Z.ltb_spec z two63) as [Hb|Hb]; cbn in H; try discriminate.
  inversion H. split; [reflexivity|lia].
Qed.

(* the limit a category ends up with, from the member the collector wrote *)
Lemma limit_of_member j init max rate dr o e :
  0 <= max -> (init = None \/ init = Some max) ->
  dec_int_ptr j init = Some o -> get_event_config o rate max dr = Some e ->
  ec_limit e = capped max j /\ 0 <= ec_limit e <= max /\
  ec_period e = (match j with JInt _ => rate | JAbsent => match init with Some _ => rate | None => dr end | _ => dr end).
Proof.
  intros Hm Hi Hd Hg. apply dec_int_ptr_spec in Hd.
  pose proof (get_event_config_spec o rate max dr e Hm Hg) as Hs.
  destruct j as [| |z|]; cbn [capped].
  - subst o. destruct Hi as [->| ->].
    + subst e. cbn. lia.
    + destruct Hs as [_ ->]. cbn. lia.
  - subst o. subst e. cbn. lia.
  - destruct Hd as [-> Hz]. destruct Hs as [H0 ->]. cbn. lia.
  - contradiction.
Qed.

Definition member (r : raw_ehc) (k : ecat) : jval :=
  match k with EError => r_error r | ETxn => r_txn r | ECustom => r_custom r | ESpan => r_span r | ELog => r_log r end.

Lemma daemon_max_doc k : daemon_max k = doc_max k.
Proof. destruct k; reflexivity. Qed.
Lemma daemon_max_nonneg k : 0 <= daemon_max k.
Proof. destruct k; vm_compute; congruence. Qed.

Ltac inv_obind H :=
  repeat match type of H with
         | obind ?x _ = Some _ => let E := fresh "E" in destruct x eqn:E; [cbn [obind] in H|discriminate H]
         end.

Lemma unmarshal_ehc_inv r e : unmarshal_ehc r = Some e ->
  exists ms, dec_uint64 (r_period r) default_period_ms = Some ms /\ report_period e = report_period_of ms /\
  forall k,
    ec_limit (cfg_of (cfgs e) k) = capped (daemon_max k) (member r k) /\
    0 <= ec_limit (cfg_of (cfgs e) k) <= daemon_max k /\
    ec_period (cfg_of (cfgs e) k) =
      match member r k with JInt _ => report_period_of ms | _ => DefaultReportPeriod end.
Proof.
  unfold unmarshal_ehc. intros H. inv_obind H. cbv zeta in H. inv_obind H.
  inversion H; subst e; clear H. eexists. split; [reflexivity|]. split; [reflexivity|].
  intros k.
  destruct k; cbn [cfg_of cfgs c_error c_txn c_custom c_span c_log member daemon_max];
    match goal with
    | Hd : dec_int_ptr ?j None = Some ?o, Hg : get_event_config ?o _ ?mx _ = Some ?ev |- context [ec_limit ?ev] =>
        destruct (limit_of_member j None mx _ _ o ev ltac:(vm_compute; congruence) (or_introl eq_refl) Hd Hg) as (A & B & C);
        rewrite A, C; split; [reflexivity|]; split; [rewrite <- A; exact B|]; destruct j; reflexivity
    end.
Qed.

Lemma unmarshal_sehc_inv r s : unmarshal_sehc r = Some s ->
  exists ms, dec_uint64 (s_period r) default_period_ms = Some ms /\
  ec_limit s = capped MaxSpanMaxEvents (s_limit r) /\ 0 <= ec_limit s <= MaxSpanMaxEvents /\
  ec_period s = match s_limit r with JInt _ | JAbsent => report_period_of ms | _ => DefaultReportPeriod end.
Proof.
  unfold unmarshal_sehc. intros H. inv_obind H.
  eexists. split; [reflexivity|].
  match goal with
  | Hd : dec_int_ptr ?j ?init = Some ?o |- _ =>
      destruct (limit_of_member j init MaxSpanMaxEvents _ _ o s ltac:(vm_compute; congruence) (or_intror eq_refl) Hd H) as (A & B & C)
  end.
  split; [exact A|]. split; [exact B|]. rewrite C. destruct (s_limit r); reflexivity.
Qed.

(* ---- processLogEventLimits ---- *)
Lemma final_log_limit_le agent coll p : final_log_limit agent coll p <= coll.
Proof.
  unfold final_log_limit. cbv zeta.
  destruct (0 <=? agent), (Z.leb_spec 0 (scale_agent_log agent p)), (Z.ltb_spec (scale_agent_log agent p) coll); cbn; lia.
Qed.

(* an agent value that is negative as an int (>= 2^63 on the wire) is ignored outright *)
Lemma final_log_limit_invalid agent coll p : agent < 0 -> final_log_limit agent coll p = coll.
Proof.
  intros H. unfold final_log_limit. cbv zeta. destruct (Z.leb_spec 0 agent); [lia|]. reflexivity.
Qed.

Lemma final_log_limit_nonneg agent coll p : 0 <= coll -> 0 <= final_log_limit agent coll p.
Proof.
  intros Hc. unfold final_log_limit. cbv zeta.
  destruct (0 <=? agent), (Z.leb_spec 0 (scale_agent_log agent p)), (Z.ltb_spec (scale_agent_log agent p) coll); cbn; lia.
Qed.

Lemma default_report_period_val : DefaultReportPeriod = 60000000000.
Proof. reflexivity. Qed.

(* a valid (non-negative) agent limit and a non-negative period: the smaller of the collector's limit and
   the agent's limit scaled to the period *)
Lemma final_log_limit_exact agent coll p :
  0 <= agent -> 0 <= p -> coll < two63 ->
  final_log_limit agent coll p = Z.min coll (agent * p / 60000000000).
Proof.
  intros Ha Hp Hc. unfold final_log_limit, scale_agent_log. cbv zeta. rewrite default_report_period_val.
  destruct (Z.leb_spec 0 agent) as [_|Hneg]; [|lia]. cbn [andb].
  assert (Hap : 0 <= agent * p) by (apply Z.mul_nonneg_nonneg; assumption).
  rewrite Z.quot_div_nonneg by lia.
  set (q := agent * p / 60000000000).
  assert (Hq : 0 <= q) by (apply Z.div_pos; lia).
  destruct (Z.ltb_spec q two63) as [H2|H2].
  - assert (F : f2i q = q).
    { unfold f2i, in_int64. destruct (Z.leb_spec (- two63) q) as [H1|H1]; [|rewrite two63_val in *; lia].
      destruct (Z.ltb_spec q two63); [reflexivity|lia]. }
    rewrite F. destruct (Z.leb_spec 0 q), (Z.ltb_spec q coll); cbn [andb]; lia.
  - assert (F : f2i q = - two63).
    { unfold f2i, in_int64. destruct (Z.ltb_spec q two63); [lia|]. rewrite andb_false_r. reflexivity. }
    rewrite F. destruct (Z.leb_spec 0 (- two63)) as [H3|H3]; [rewrite two63_val in *; lia|]. cbn [andb]. lia.
Qed.

(* whatever the agent sent (also a value that is negative as an int): never above the collector's limit,
   and never above a valid agent limit scaled to the period *)
Lemma final_log_limit_agent_bound agent coll p :
  0 <= agent -> 0 <= p -> coll < two63 -> final_log_limit agent coll p <= agent * p / 60000000000.
Proof. intros. rewrite final_log_limit_exact by assumption. lia. Qed.

Lemma capped_le max j : capped max j <= max.
Proof. destruct j; cbn [capped]; lia. Qed.

(* after parseConnectReply: every limit is min(maximum, what the collector wrote for that category) *)
Lemma parse_inv r e : parse_connect_reply r = Some e ->
  forall k, 0 <= harvest_cap e k <= daemon_max k /\
            (forall j, collector_jval r k = Some j -> harvest_cap e k = capped (daemon_max k) j).
Proof.
  unfold parse_connect_reply. intros H. inv_obind H. inversion H; subst e; clear H.
  rename e0 into eh, e1 into sp.
  assert (He : forall k, 0 <= ec_limit (cfg_of (cfgs eh) k) <= daemon_max k /\
                         (forall x, in_ehc r = Some x -> ec_limit (cfg_of (cfgs eh) k) = capped (daemon_max k) (member x k))).
  { destruct (in_ehc r) as [x|].
    - destruct (unmarshal_ehc_inv x eh E) as (ms & _ & _ & Hk). intros k. destruct (Hk k) as (A & B & _).
      split; [exact B|]. intros x' Hx. inversion Hx; subst x'. exact A.
    - inversion E; subst eh. intros k. split; [|discriminate]. destruct k; vm_compute; split; congruence. }
  assert (Hs : 0 <= ec_limit sp <= MaxSpanMaxEvents /\
               (forall x, in_sehc r = Some x -> ec_limit sp = capped MaxSpanMaxEvents (s_limit x))).
  { destruct (in_sehc r) as [x|].
    - destruct (unmarshal_sehc_inv x sp E0) as (ms & _ & A & B & _). split; [exact B|].
      intros x' Hx. inversion Hx; subst x'. exact A.
    - inversion E0; subst sp. split; [cbn; vm_compute; split; congruence|discriminate]. }
  intros k. unfold harvest_cap, combine_event_config.
  destruct k; cbn [cfgs cfg_of c_error c_txn c_custom c_span c_log ec_limit collector_jval].
  - destruct (He EError) as [A B]. split; [exact A|]. intros j Hj. destruct (in_ehc r) as [x|]; [|discriminate].
    inversion Hj. apply (B x eq_refl).
  - destruct (He ETxn) as [A B]. split; [exact A|]. intros j Hj. destruct (in_ehc r) as [x|]; [|discriminate].
    inversion Hj. apply (B x eq_refl).
  - destruct (He ECustom) as [A B]. split; [exact A|]. intros j Hj. destruct (in_ehc r) as [x|]; [|discriminate].
    inversion Hj. apply (B x eq_refl).
  - destruct Hs as [A B]. split; [exact A|]. intros j Hj. destruct (in_sehc r) as [x|]; [|discriminate].
    inversion Hj. apply (B x eq_refl).
  - destruct (He ELog) as [A B]. split; [exact A|]. intros j Hj. destruct (in_ehc r) as [x|]; [|discriminate].
    inversion Hj. apply (B x eq_refl).
Qed.

Lemma parse_log_period r e x : parse_connect_reply r = Some e -> in_ehc r = Some x ->
  exists ms, dec_uint64 (r_period x) default_period_ms = Some ms /\
    ec_period (cfg_of (cfgs e) ELog) = match r_log x with JInt _ => report_period_of ms | _ => DefaultReportPeriod end.
Proof.
  unfold parse_connect_reply. intros H Hx. rewrite Hx in H. inv_obind H. inversion H; subst e; clear H.
  destruct (unmarshal_ehc_inv x e0 E) as (ms & Hms & _ & Hk). exists ms. split; [exact Hms|].
  destruct (Hk ELog) as (_ & _ & C). exact C.
Qed.

Lemma negotiate_inv a r e : negotiate a r = Some e ->
  exists e0, parse_connect_reply r = Some e0 /\ e = process_log_event_limits (int_of_uint64 (a_log a)) e0.
Proof.
  unfold negotiate. destruct (parse_connect_reply r) as [e0|]; [|discriminate].
  cbn [option_map]. intros H. inversion H. exists e0. split; reflexivity.
Qed.

Lemma process_log_other agent e k : k <> ELog -> harvest_cap (process_log_event_limits agent e) k = harvest_cap e k.
Proof. intros Hk. destruct k; try reflexivity. contradiction. Qed.

Lemma process_log_period agent e k :
  ec_period (cfg_of (cfgs (process_log_event_limits agent e)) k) = ec_period (cfg_of (cfgs e) k).
Proof. destruct k; reflexivity. Qed.

Lemma process_log_log agent e :
  harvest_cap (process_log_event_limits agent e) ELog =
  final_log_limit agent (harvest_cap e ELog) (ec_period (cfg_of (cfgs e) ELog)).
Proof. reflexivity. Qed.

Lemma doc_max_lt_two63 k : doc_max k < two63.
Proof. destruct k; vm_compute; reflexivity. Qed.

(* C05: the capacities NewHarvest is given, for every agent setting and every connect reply *)
Theorem event_caps a r e : negotiate a r = Some e ->
  forall k,
    0 <= harvest_cap e k <= doc_max k /\
    (forall j, collector_jval r k = Some j ->
       harvest_cap e k <= capped (doc_max k) j /\ (k <> ELog -> harvest_cap e k = capped (doc_max k) j)) /\
    (k = ELog ->
       let agent := int_of_uint64 (a_log a) in
       let p := ec_period (cfg_of (cfgs e) ELog) in
       0 <= agent -> 0 <= p ->
       harvest_cap e ELog <= agent * p / 60000000000 /\
       forall j, collector_jval r ELog = Some j ->
                 harvest_cap e ELog = Z.min (capped 20000 j) (agent * p / 60000000000)) /\
    (k = ELog -> int_of_uint64 (a_log a) < 0 ->
       forall j, collector_jval r ELog = Some j -> harvest_cap e ELog = capped 20000 j).
Proof.
  intros H k. destruct (negotiate_inv a r e H) as (e0 & Hp & ->).
  pose proof (parse_inv r e0 Hp) as Hk.
  destruct (Hk k) as [[A1 A2] B]. rewrite daemon_max_doc in *.
  destruct k; try (rewrite process_log_other by discriminate;
                   split; [split; assumption|]; split; [|split; discriminate];
                   intros j Hj; rewrite (B j Hj); split; [lia|reflexivity]).
  rewrite process_log_log.
  pose proof (final_log_limit_le (int_of_uint64 (a_log a)) (harvest_cap e0 ELog) (ec_period (cfg_of (cfgs e0) ELog))) as Hle.
  pose proof (final_log_limit_nonneg (int_of_uint64 (a_log a)) (harvest_cap e0 ELog) (ec_period (cfg_of (cfgs e0) ELog)) A1) as Hnn.
  split; [lia|]. split; [|split].
  - intros j Hj. rewrite <- (B j Hj). split; [exact Hle|]. intros X. contradiction X. reflexivity.
  - intros _. cbv zeta. rewrite process_log_period. intros Ha Hpp.
    assert (Hc : harvest_cap e0 ELog < two63) by (pose proof (doc_max_lt_two63 ELog); lia).
    split.
    + apply final_log_limit_agent_bound; assumption.
    + intros j Hj. rewrite final_log_limit_exact by assumption. rewrite (B j Hj). reflexivity.
  - intros _ Hneg j Hj. rewrite final_log_limit_invalid by exact Hneg. apply (B j Hj).
Qed.

(* ---- a well-formed reply (every number a non-negative integer that fits) is accepted ---- *)
Lemma dec_uint64_accepts j init : jval_ok_u64 j = true -> exists ms, dec_uint64 j init = Some ms.
Proof.
  destruct j as [| |z|]; cbn [jval_ok_u64 dec_uint64]; intros H; try discriminate; try (eexists; reflexivity).
  unfold in_uint64. change two64 with (2 ^ 64). rewrite H. eexists; reflexivity.
Qed.

Lemma dec_int_ptr_accepts j init :
  jval_ok_int j = true -> (forall m, init = Some m -> 0 <= m) ->
  exists o, dec_int_ptr j init = Some o /\ forall l, o = Some l -> 0 <= l.
Proof.
  destruct j as [| |z|]; cbn [jval_ok_int dec_int_ptr]; intros H Hi; try discriminate.
  - exists init. split; [reflexivity|exact Hi].
  - exists None. split; [reflexivity|discriminate].
  - apply andb_prop in H. destruct H as [H0 H1]. apply Z.leb_le in H0. apply Z.ltb_lt in H1.
    assert (E : in_int64 z = true).
    { unfold in_int64. change two63 with (2 ^ 63).
      apply andb_true_intro. split; [apply Z.leb_le; lia|apply Z.ltb_lt; exact H1]. }
    rewrite E. exists (Some z). split; [reflexivity|]. intros l Hl. inversion Hl. lia.
Qed.

Lemma get_event_config_accepts o rate dl dr :
  (forall l, o = Some l -> 0 <= l) -> exists e, get_event_config o rate dl dr = Some e.
Proof.
  intros H. unfold get_event_config. destruct o as [l|]; [|eexists; reflexivity].
  specialize (H l eq_refl). destruct (Z.ltb_spec l 0); [lia|]. eexists; reflexivity.
Qed.

Lemma unmarshal_ehc_accepts x :
  jval_ok_u64 (r_period x) = true -> (forall k, jval_ok_int (member x k) = true) -> exists e, unmarshal_ehc x = Some e.
Proof.
  intros Hp Hk. unfold unmarshal_ehc.
  destruct (dec_uint64_accepts (r_period x) default_period_ms Hp) as [ms ->]. cbn [obind].
  destruct (dec_int_ptr_accepts (r_error x) None (Hk EError) ltac:(discriminate)) as (o1 & -> & P1). cbn [obind].
  destruct (dec_int_ptr_accepts (r_txn x) None (Hk ETxn) ltac:(discriminate)) as (o2 & -> & P2). cbn [obind].
  destruct (dec_int_ptr_accepts (r_custom x) None (Hk ECustom) ltac:(discriminate)) as (o3 & -> & P3). cbn [obind].
  destruct (dec_int_ptr_accepts (r_span x) None (Hk ESpan) ltac:(discriminate)) as (o4 & -> & P4). cbn [obind].
  destruct (dec_int_ptr_accepts (r_log x) None (Hk ELog) ltac:(discriminate)) as (o5 & -> & P5). cbn [obind]. cbv zeta.
  destruct (get_event_config_accepts o1 (report_period_of ms) MaxErrorEvents DefaultReportPeriod P1) as [e1 ->]. cbn [obind].
  destruct (get_event_config_accepts o2 (report_period_of ms) MaxTxnEvents DefaultReportPeriod P2) as [e2 ->]. cbn [obind].
  destruct (get_event_config_accepts o3 (report_period_of ms) MaxCustomMaxEvents DefaultReportPeriod P3) as [e3 ->]. cbn [obind].
  destruct (get_event_config_accepts o4 (report_period_of ms) MaxSpanMaxEvents DefaultReportPeriod P4) as [e4 ->]. cbn [obind].
  destruct (get_event_config_accepts o5 (report_period_of ms) MaxLogMaxEvents DefaultReportPeriod P5) as [e5 ->]. cbn [obind].
  eexists; reflexivity.
Qed.

Lemma unmarshal_sehc_accepts x :
  jval_ok_u64 (s_period x) = true -> jval_ok_int (s_limit x) = true -> exists e, unmarshal_sehc x = Some e.
Proof.
  intros Hp Hl. unfold unmarshal_sehc.
  destruct (dec_uint64_accepts (s_period x) default_period_ms Hp) as [ms ->]. cbn [obind].
  destruct (dec_int_ptr_accepts (s_limit x) (Some MaxSpanMaxEvents) Hl) as (o & -> & P).
  { intros m Hm. inversion Hm. vm_compute. congruence. }
  cbn [obind]. apply get_event_config_accepts. exact P.
Qed.

Theorem well_formed_accepted a r : reply_well_formed r = true -> exists e, negotiate a r = Some e.
Proof.
  unfold reply_well_formed, negotiate, parse_connect_reply. intros H. apply andb_prop in H. destruct H as [He Hs].
  assert (E1 : exists e, match in_ehc r with None => Some zero_ehc | Some x => unmarshal_ehc x end = Some e).
  { destruct (in_ehc r) as [x|]; [|eexists; reflexivity].
    repeat (apply andb_prop in He; destruct He as [He ?]).
    apply unmarshal_ehc_accepts; [assumption|]. intros k. destruct k; assumption. }
  assert (E2 : exists s, match in_sehc r with None => Some zero_evcfg | Some x => unmarshal_sehc x end = Some s).
  { destruct (in_sehc r) as [x|]; [|eexists; reflexivity].
    apply andb_prop in Hs. destruct Hs as [? ?]. apply unmarshal_sehc_accepts; assumption. }
  destruct E1 as [e ->]. destruct E2 as [s ->]. cbn [obind option_map]. eexists; reflexivity.
Qed.

(* a negative limit anywhere in the reply: the reply is refused, no harvest is created *)
Theorem negative_refused a r k z :
  collector_jval r k = Some (JInt z) -> z < 0 -> negotiate a r = None.
Proof.
  intros Hj Hz. unfold negotiate. destruct (parse_connect_reply r) as [e|] eqn:E; [|reflexivity]. exfalso.
  destruct (parse_inv r e E k) as [[A _] B]. specialize (B _ Hj). cbn [capped] in B.
  pose proof (daemon_max_nonneg k). lia.
Qed.

(* periods: milliseconds of the reply to nanoseconds, without wrap-around below 2^43 ms *)
Lemma report_period_of_small ms : 0 < ms < 9223372036854 -> report_period_of ms = ms * 1000000.
Proof.
  intros H. unfold report_period_of. destruct (Z.eqb_spec ms 0); [lia|].
  unfold duration_of_ms, millisecond. rewrite (wrap64_small ms) by (rewrite two63_val; lia).
  apply wrap64_small. rewrite two63_val. lia.
Qed.

Lemma scaled_ms agent ms : agent * (ms * 1000000) / 60000000000 = agent * ms / 60000.
Proof.
  replace (agent * (ms * 1000000)) with (agent * ms * 1000000) by ring.
  change 60000000000 with (60000 * 1000000). apply Z.div_mul_cancel_r; lia.
Qed.

(* what a reservoir created with that capacity can hold *)
Lemma reservoir_holds cap ops : 0 <= cap ->
  Z.of_nat (length (items (run_res (Z.to_nat cap) ops))) <= cap.
Proof. intros H. pose proof (reservoir_len_le_cap (Z.to_nat cap) ops). lia. Qed.

(* ================================================================== metric table *)
(* the capacity of the table a build yields: that of the table everything was added / merged INTO *)
Fixpoint base_max (b : build) : Z :=
  match b with
  | BNew max => max
  | BAdds b _ | BTxn b _ _ | BMerge b _ | BMergeFailed b _ | BRules b _ => base_max b
  end.

Lemma merge_entries_max t os : tmax (merge_entries t os) = tmax t.
Proof. rewrite merge_entries_foldg. apply foldg_max. Qed.

Lemma builds_max b t r : builds b t r -> tmax t = base_max b.
Proof.
  induction 1 as [max|b t r l _ IH|b t r txn ms _ IH|b f t tf r rf ord _ IHb _ IHf Hp
                 |b f t tf r rf ord _ IHb _ IHf Hp|b t r _ IH|b t r rn ord _ IH Hp]; cbn [base_max].
  - reflexivity.
  - rewrite add_ops_foldg, foldg_max. exact IH.
  - rewrite aggregate_metrics_foldg, foldg_max. exact IH.
  - unfold merge_ord. rewrite merge_entries_max. exact IHb.
  - rewrite merge_failed_ord_spec. destruct (FailedMetricAttemptsLimit <? tfailed tf + 1); [exact IHb|].
    rewrite merge_entries_max. exact IHb.
  - exact IH.
  - rewrite apply_rules_ord_foldg. exact IH.
Qed.

(* C05: a table created with the daemon's MaxMetrics never holds more than 2000 unforced metrics, whatever
   is added, merged, carried over from failed harvests or renamed, under every map iteration order; a forced
   metric offered to it is never refused; numDropped counts exactly the refused offers and a refusal leaves
   the table as it was; count is the number of metrics held *)
Theorem metric_bound b t r : builds b t r -> base_max b = MaxMetrics ->
  unforced_count t <= 2000 /\
  tcount t = Z.of_nat (length (entries t)) /\
  (forall k m, forced m = true ->
     tdropped (merge_metric t k m) = tdropped t /\
     get k (merge_metric t k m) = oplus (get k t) (Some (data m))) /\
  (forall k m, refuses t k m = true ->
     entries (merge_metric t k m) = entries t /\ tcount (merge_metric t k m) = tcount t /\
     tdropped (merge_metric t k m) = tdropped t + 1 /\ 2000 <= tcount t /\ forced m = false /\ get k t = None) /\
  (forall os, tdropped (merge_entries t os) = tdropped t + count_refused t os).
Proof.
  intros Hb Hm. pose proof (builds_max b t r Hb) as Ht. rewrite Hm in Ht.
  split; [pose proof (metrics_unforced_bound b t r Hb) as H; rewrite Ht in H; exact H|].
  split; [apply (metrics_count_is_len b t r Hb)|].
  split; [intros k m Hf; apply metrics_forced_never_refused; exact Hf|].
  split; [|intros os; apply metrics_dropped_exact].
  intros k m Hr. pose proof (metrics_refusal_is_noop t k m Hr) as H. rewrite Ht in H. exact H.
Qed.

(* ---- the forced flag of an entry is that of the FIRST contribution to its key.  A contribution made with
   Forced to a key that already holds an unforced entry is aggregated into it (it is not refused: the key
   exists), but the entry stays unforced; when such an entry is carried over by MergeFailed into a table that
   is full, the whole entry, forced contribution included, is refused.  Witness with capacity 1: *)
Definition mixed_a : build :=      (* harvest A: "x" first unforced, then forced *)
  BAdds (BNew 1) [ACount ([120%N], []) false 1; ACount ([120%N], []) true 1].
Definition mixed_b : build :=      (* harvest B is full with "y"; A's delivery failed and is carried over *)
  BMergeFailed (BAdds (BNew 1) [ACount ([121%N], []) false 1]) mixed_a.

Lemma forced_contribution_in_unforced_entry_witness :
  In (C ([120%N], []) true (count_data 1)) (contribs FailedMetricAttemptsLimit mixed_b) /\
  get ([120%N], []) (exec mixed_a) = Some (count_data 2) /\        (* both contributions were taken ... *)
  get ([120%N], []) (exec mixed_b) = None /\                       (* ... and both are gone *)
  tdropped (exec mixed_b) = 1 /\
  (exists r, builds mixed_b (exec mixed_b) r).
Proof.
  split; [vm_compute; auto|]. split; [vm_compute; reflexivity|]. split; [vm_compute; reflexivity|].
  split; [vm_compute; reflexivity|]. apply exec_builds.
Qed.

(* ================================================================== forced-only keys *)
(* ---- keys that only ever receive forced contributions never lose anything ---- *)
Definition all_forced (cs : list contrib) (k : key) : Prop := forall c, In c cs -> ckey c = k -> cforced c = true.
Definition flag_ok (k : key) (t : table) : Prop := forall e, lookup k (entries t) = Some e -> forced e = true.

Lemma all_forced_app cs1 cs2 k : all_forced (cs1 ++ cs2) k <-> all_forced cs1 k /\ all_forced cs2 k.
Proof.
  unfold all_forced. split.
  - intros H. split; intros c Hc; apply H; apply in_or_app; auto.
  - intros [H1 H2] c Hc. apply in_app_or in Hc. destruct Hc; auto.
Qed.

Lemma lookup_merge_metric t k m k' :
  lookup k' (entries (merge_metric t k m)) =
  if refuses t k m then lookup k' (entries t)
  else if key_eqb k k'
       then Some (match lookup k (entries t) with Some e => ME (forced e) (Metrics.aggregate (data e) (data m)) | None => m end)
       else lookup k' (entries t).
Proof.
  destruct (refuses t k m) eqn:E.
  - rewrite merge_metric_refused by exact E. reflexivity.
  - rewrite merge_metric_taken by exact E. cbn [entries]. destruct (key_eqb k k') eqn:E2.
    + apply key_eqb_eq in E2. subst k'. apply lookup_upsert_same.
    + apply key_eqb_neq in E2. apply lookup_upsert_other. congruence.
Qed.

Lemma flag_merge_metric t k m k' : flag_ok k' t -> (k = k' -> forced m = true) -> flag_ok k' (merge_metric t k m).
Proof.
  intros Hf Hm e. rewrite lookup_merge_metric. destruct (refuses t k m); [apply Hf|].
  destruct (key_eqb k k') eqn:E; [|apply Hf].
  apply key_eqb_eq in E. subst k'. intros He. inversion He; subst e; clear He.
  destruct (lookup k (entries t)) as [e0|] eqn:El; cbn [forced]; [apply Hf; exact El|apply Hm; reflexivity].
Qed.

Lemma get_merge_metric_forced t k m k' : (k = k' -> forced m = true) ->
  get k' (merge_metric t k m) = if key_eqb k k' then oplus (get k' t) (Some (data m)) else get k' t.
Proof.
  intros Hm. rewrite merge_metric_get. destruct (refuses t k m) eqn:E.
  - destruct (key_eqb k k') eqn:E2; [|reflexivity].
    apply key_eqb_eq in E2. rewrite (forced_never_refused t k m (Hm E2)) in E. discriminate.
  - destruct (key_eqb k k') eqn:E2; [|reflexivity]. apply key_eqb_eq in E2. subst k'. reflexivity.
Qed.

Lemma foldg_forced g os k' : forall t,
  (forall ke, In ke os -> g (fst ke) = k' -> forced (snd ke) = true) -> flag_ok k' t ->
  get k' (foldg g t os) = oplus (get k' t) (msum (map (fun ke => ent_at k' (g (fst ke), snd ke)) os)) /\
  flag_ok k' (foldg g t os).
Proof.
  induction os as [|ke os IH]; intros t Hos Hf.
  - cbn [foldg fold_left map]. split; [symmetry; apply oplus_none_r|exact Hf].
  - rewrite foldg_cons.
    assert (Hke : g (fst ke) = k' -> forced (snd ke) = true) by (apply Hos; left; reflexivity).
    destruct (IH (merge_metric t (g (fst ke)) (snd ke))) as [A B].
    + intros x Hx. apply Hos. right. exact Hx.
    + apply flag_merge_metric; assumption.
    + split; [|exact B]. rewrite A. rewrite (get_merge_metric_forced t (g (fst ke)) (snd ke) k' Hke).
      cbn [map]. rewrite msum_cons. unfold ent_at at 2. cbn [fst snd].
      destruct (key_eqb (g (fst ke)) k'); [rewrite oplus_assoc; reflexivity|reflexivity].
Qed.

Lemma offers_forced cs k : all_forced cs k ->
  forall ke, In ke (map offer_of cs) -> (fun x : key => x) (fst ke) = k -> forced (snd ke) = true.
Proof.
  intros H ke Hin Hk. apply in_map_iff in Hin. destruct Hin as [c [<- Hc]]. cbn [offer_of fst snd forced] in *.
  apply H; assumption.
Qed.

Lemma get_same_entries t t' k : entries t = entries t' -> get k t = get k t'.
Proof. unfold get. intros ->. reflexivity. Qed.
Lemma flag_same_entries t t' k : entries t = entries t' -> flag_ok k t -> flag_ok k t'.
Proof. unfold flag_ok. intros ->. auto. Qed.

(* regrouping under a renaming, for one target key: only the entries renamed to it matter *)
Lemma rename_sum_at rn l cs k' : NoDup (keys l) ->
  (forall k, rkey rn k = k' -> lget k l = combined cs k) ->
  msum (map (fun ke => ent_at k' (rkey rn (fst ke), snd ke)) l) = combined (map (rename_contrib rn) cs) k'.
Proof.
  intros Hnd Hget.
  rewrite (msum_map_ext _ (fun ke => msum (map (fun c => if key_eqb (rkey rn (fst ke)) k' then at_key (fst ke) c else None) cs))).
  2:{ intros [k e] Hin. cbn [fst snd]. unfold ent_at. cbn [fst snd].
      destruct (key_eqb (rkey rn k) k') eqn:E.
      - apply key_eqb_eq in E. pose proof (Hget k E) as Hk. unfold lget in Hk.
        rewrite (in_entries_lookup k e l Hnd Hin) in Hk. cbn [option_map] in Hk. rewrite Hk. reflexivity.
      - symmetry. apply msum_all_none. reflexivity. }
  rewrite (msum_swap (fun (ke : key * mentry) (c : contrib) =>
            if key_eqb (rkey rn (fst ke)) k' then at_key (fst ke) c else None) l cs).
  unfold combined. rewrite map_map.
  apply msum_map_ext. intros c Hc.
  unfold at_key at 2. cbn [rename_contrib ckey cdata].
  change (rn (fst (ckey c)), snd (ckey c)) with (rkey rn (ckey c)).
  destruct (key_eqb (rkey rn (ckey c)) k') eqn:Ec.
  - (* c is renamed to k': exactly the entry at its key counts it *)
    apply key_eqb_eq in Ec.
    rewrite (msum_map_ext _ (fun ke : key * mentry => if key_eqb (fst ke) (ckey c) then Some (cdata c) else None)).
    2:{ intros [k e] Hin. cbn [fst]. unfold at_key. rewrite (key_eqb_sym (ckey c) k).
        destruct (key_eqb k (ckey c)) eqn:E.
        - apply key_eqb_eq in E. subst k. rewrite (proj2 (key_eqb_eq _ _) Ec). reflexivity.
        - destruct (key_eqb (rkey rn k) k'); reflexivity. }
    apply msum_indicator; [exact Hnd|].
    destruct (combined_in_some cs c Hc) as [d Hd]. rewrite <- (Hget (ckey c) Ec) in Hd. unfold lget in Hd.
    destruct (lookup (ckey c) l) eqn:El; [|discriminate]. eapply lookup_some_in. exact El.
  - (* c is renamed elsewhere: no entry renamed to k' holds it *)
    apply msum_all_none. intros [k e] Hin. cbn [fst]. destruct (key_eqb (rkey rn k) k') eqn:E; [|reflexivity].
    unfold at_key. destruct (key_eqb (ckey c) k) eqn:E2; [|reflexivity].
    apply key_eqb_eq in E2. subst k. congruence.
Qed.


Theorem forced_keys_keep_all b t r : builds b t r ->
  forall k, all_forced (contribs LIM b) k -> get k t = combined (contribs LIM b) k /\ flag_ok k t.
Proof.
  induction 1 as [max|b t r l Hb IH|b t r txn ms Hb IH|b f t tf r rf ord Hb IHb Hf IHf Hp
                 |b f t tf r rf ord Hb IHb Hf IHf Hp|b t r Hb IH|b t r rn ord Hb IH Hp]; intros k Hk.
  - split; [reflexivity|]. intros e He. discriminate He.
  - cbn [contribs] in *. apply all_forced_app in Hk. destruct Hk as [Hk1 Hk2]. destruct (IH k Hk1) as [A B].
    rewrite add_ops_foldg.
    destruct (foldg_forced (fun x => x) (map offer_of (map aop_contrib l)) k t (offers_forced _ k Hk2) B) as [C D].
    split; [|exact D]. rewrite C, A, msum_offers, combined_app. reflexivity.
  - cbn [contribs] in *. apply all_forced_app in Hk. destruct Hk as [Hk1 Hk2]. destruct (IH k Hk1) as [A B].
    rewrite aggregate_metrics_foldg.
    destruct (foldg_forced (fun x => x) (map offer_of (flat_map (tmetric_contribs txn) ms)) k t (offers_forced _ k Hk2) B) as [C D].
    split; [|exact D]. rewrite C, A, msum_offers, combined_app. reflexivity.
  - cbn [contribs] in *. apply all_forced_app in Hk. destruct Hk as [Hk1 Hk2].
    destruct (IHb k Hk1) as [A B]. destruct (IHf k Hk2) as [Af Bf].
    destruct (builds_spec _ _ _ Hf) as ([Hnd _] & _).
    unfold merge_ord. rewrite merge_entries_foldg.
    assert (Ho : forall ke, In ke ord -> (fun x : key => x) (fst ke) = k -> forced (snd ke) = true).
    { intros [k0 e0] Hin Hk0. cbn [fst snd] in *. subst k0. apply Bf.
      apply in_entries_lookup; [exact Hnd|]. eapply Permutation_in; [exact Hp|exact Hin]. }
    destruct (foldg_forced (fun x => x) ord k t Ho B) as [C D]. split; [|exact D].
    rewrite C, A. rewrite (msum_entries_perm k ord (entries tf) Hp Hnd). fold (get k tf). rewrite <- get_lget, Af.
    rewrite combined_app. reflexivity.
  - destruct (builds_spec _ _ _ Hf) as ([Hnd _] & _ & Hfl & _).
    rewrite merge_failed_ord_spec. cbn [contribs] in Hk |- *. rewrite <- Hfl in *.
    destruct (LIM <? tfailed tf + 1).
    + apply IHb. exact Hk.
    + apply all_forced_app in Hk. destruct Hk as [Hk1 Hk2].
      destruct (IHb k Hk1) as [A B]. destruct (IHf k Hk2) as [Af Bf].
      set (t0 := T (tmax t) (tcount t) (tdropped t) (Z.max (tfailed t) (tfailed tf + 1)) (entries t)).
      assert (B0 : flag_ok k t0) by (apply (flag_same_entries t t0 k eq_refl B)).
      rewrite merge_entries_foldg.
      assert (Ho : forall ke, In ke ord -> (fun x : key => x) (fst ke) = k -> forced (snd ke) = true).
      { intros [k0 e0] Hin Hk0. cbn [fst snd] in *. subst k0. apply Bf.
        apply in_entries_lookup; [exact Hnd|]. eapply Permutation_in; [exact Hp|exact Hin]. }
      destruct (foldg_forced (fun x => x) ord k t0 Ho B0) as [C D]. split; [|exact D].
      rewrite C. rewrite (get_same_entries t0 t k eq_refl), A.
      rewrite (msum_entries_perm k ord (entries tf) Hp Hnd). rewrite <- get_lget, Af.
      rewrite combined_app. reflexivity.
  - cbn [contribs] in *. apply IH. exact Hk.
  - cbn [contribs] in *.
    destruct (builds_spec _ _ _ Hb) as ([Hnd Hc] & _).
    pose proof (apply_rules_conserves rn t ord (conj Hnd Hc) Hp) as Hcons. cbv zeta in Hcons.
    destruct Hcons as (_ & _ & _ & _ & Hget & _).
    (* every key renamed to k only ever received forced contributions *)
    assert (Hpre : forall k0, rkey rn k0 = k -> all_forced (contribs LIM b) k0).
    { intros k0 Hk0 c Hcin Hck. apply (Hk (rename_contrib rn c)).
      - apply in_map. exact Hcin.
      - cbn [rename_contrib ckey]. rewrite <- Hk0, <- Hck. reflexivity. }
    split.
    + rewrite Hget. apply rename_sum_at; [exact Hnd|].
      intros k0 Hk0. rewrite <- get_lget. apply (IH k0 (Hpre k0 Hk0)).
    + rewrite apply_rules_ord_foldg. cbv zeta.
      set (t0 := T (if tmax t <? tcount t then tcount t else tmax t) 0 0 (tfailed t) []).
      assert (B0 : flag_ok k t0) by (intros e He; discriminate He).
      assert (Ho : forall ke, In ke ord -> rkey rn (fst ke) = k -> forced (snd ke) = true).
      { intros [k0 e0] Hin Hk0. cbn [fst snd] in *. apply (proj2 (IH k0 (Hpre k0 Hk0))).
        apply in_entries_lookup; [exact Hnd|]. eapply Permutation_in; [exact Hp|exact Hin]. }
      destruct (foldg_forced (rkey rn) ord k t0 Ho B0) as [_ D].
      intros e He. apply D. exact He.
Qed.

(* the guard is met by a concrete build that overflows, and the conclusion is informative there *)
Example forced_keys_example :
  let b := BAdds (BNew 1) [ACount ([1%N], []) false 1; ACount ([2%N], []) true 1; ACount ([3%N], []) false 1; ACount ([2%N], []) true 4] in
  all_forced (contribs LIM b) ([2%N], []) /\ get ([2%N], []) (exec b) = Some (count_data 5) /\ tdropped (exec b) = 1.
Proof.
  cbv zeta. split; [|split; vm_compute; reflexivity].
  intros c Hc Hk. cbn in Hc. destruct Hc as [<-|[<-|[<-|[<-|[]]]]]; cbn in *; try reflexivity; inversion Hk.
Qed.

(* ================================================================== application cap *)
Open Scope nat_scope.
(* ---- the application table never grows except through the guarded branch of processAppInfo ---- *)
Definition napps (s : proc) : nat := length (p_apps s).

Lemma removeN_length {A} k (l : list (N * A)) : length (removeN k l) <= length l.
Proof. induction l as [|[k' v] l IH]; cbn [removeN length]; [lia|]. destruct (k' =? k)%N; cbn [length]; lia. Qed.

Lemma consider_connect_apps s i : p_apps (fst (consider_connect s i)) = p_apps s.
Proof. unfold consider_connect. destruct (needs_connect (get_obj s i) (p_now s)); reflexivity. Qed.

Lemma app_info_apps s key dt id :
  napps (fst (app_info s key dt id)) <= Nat.max (napps s) app_limit.
Proof.
  unfold app_info, napps.
  destruct (match id with Some r => match lookupN r (p_runs s) with Some _ => true | None => false end | None => false end);
    [cbn [fst]; lia|].
  destruct (lookupN key (p_apps s)) as [i|].
  - match goal with |- context [consider_connect ?S ?I] =>
      pose proof (consider_connect_apps S I) as E; destruct (consider_connect S I) as [s2 o] end.
    cbn [fst] in *. rewrite E. cbn. lia.
  - destruct (Nat.leb app_limit (length (p_apps s))) eqn:L; [cbn [fst]; lia|].
    apply Nat.leb_gt in L.
    match goal with |- context [consider_connect ?S ?I] =>
      pose proof (consider_connect_apps S I) as E; destruct (consider_connect S I) as [s2 o] end.
    cbn [fst] in *. rewrite E. cbn [p_apps with_apps with_objs length]. lia.
Qed.

Lemma connect_failed_apps s key f : p_apps (connect_failed s key f) = p_apps s.
Proof.
  unfold connect_failed. destruct (lookupN key (p_apps s)) as [i|]; [|reflexivity].
  destruct (negb (astate_eqb (a_state (get_obj s i)) SUnknown)); [reflexivity|].
  destruct f as [[]|]; reflexivity.
Qed.

Lemma connect_ok_apps s key host r : p_apps (connect_ok s key host r) = p_apps s.
Proof.
  unfold connect_ok. destruct (lookupN key (p_apps s)) as [i|]; [|reflexivity].
  destruct (negb (astate_eqb (a_state (get_obj s i)) SUnknown)); reflexivity.
Qed.

Lemma pre_reply_apps s n o : p_apps (fst (pre_reply s n o)) = p_apps s.
Proof.
  unfold pre_reply. destruct (nth_error (p_conns s) n) as [c|]; [|reflexivity].
  destruct (ca_stage c); [|reflexivity].
  destruct o; cbn [fst]; [reflexivity| |]; rewrite connect_failed_apps; reflexivity.
Qed.

Lemma conn_reply_apps s n o : p_apps (fst (conn_reply s n o)) = p_apps s.
Proof.
  unfold conn_reply. destruct (nth_error (p_conns s) n) as [c|]; [|reflexivity].
  destruct (ca_stage c); [reflexivity|].
  destruct o; cbn [fst]; [rewrite connect_ok_apps| | |]; try rewrite connect_failed_apps; reflexivity.
Qed.

Lemma txn_data_apps s run t : p_apps (fst (txn_data s run t)) = p_apps s.
Proof.
  unfold txn_data. destruct (lookupN run (p_runs s)) as [ahid|]; [|reflexivity].
  destruct (aggregate (ah_h (get_ah s ahid)) t) as [[h' refused] overwritten]. reflexivity.
Qed.

Lemma emit_cat_apps s e c bag seen failed cap internal :
  p_apps (fst (emit_cat s e c bag seen failed cap internal)) = p_apps s.
Proof.
  unfold emit_cat.
  destruct (match c with CMetrics => match bag with [] => negb internal | _ => false end
                      | _ => match bag with [] => true | _ => false end end); [reflexivity|].
  destruct (cat_eqb c CTxnEv && e_dt e && (split_threshold <=? lenN bag)%N); reflexivity.
Qed.

Lemma emit_cats_apps e h cs : forall s, p_apps (fst (emit_cats s e h cs)) = p_apps s.
Proof.
  induction cs as [|c r IH]; intros s; cbn [emit_cats]; [reflexivity|].
  pose proof (emit_cat_apps s e c (h_bag h c) (h_seen h c) (h_failed h c) (h_cap h c) (h_internal h)) as E1.
  destruct (emit_cat s e c (h_bag h c) (h_seen h c) (h_failed h c) (h_cap h c) (h_internal h)) as [s1 q1].
  pose proof (IH s1) as E2. destruct (emit_cats s1 e h r) as [s2 q2]. cbn [fst] in *. congruence.
Qed.

Lemma filter_harvest_pkgs_apps s appi h : p_apps (fst (filter_harvest_pkgs s appi h)) = p_apps s.
Proof.
  unfold filter_harvest_pkgs. destruct (h_haspkgs h); [|reflexivity].
  destruct (filter_pkgs (a_seen_pkgs (get_obj s appi)) (h_bag h CPkgs)) as [[newp oldp] seen']. reflexivity.
Qed.

Lemma register_apps s qs : p_apps (register s qs) = p_apps s.
Proof. reflexivity. Qed.

Lemma usage_request_apps s e : p_apps (fst (usage_request s e)) = p_apps s.
Proof. unfold usage_request. destruct (Nat.eqb (p_ubuf s) 0); reflexivity. Qed.

Lemma event_step_apps ty caps e acc cb :
  p_apps (fst (fst (event_step ty caps e acc cb))) = p_apps (fst (fst acc)).
Proof.
  unfold event_step. destruct acc as [[sa ha] qa]. destruct cb as [c bit].
  destruct (has_bits ty bit && negb (caps c =? 0)%N); [|reflexivity].
  pose proof (emit_cat_apps sa e c (h_bag ha c) (h_seen ha c) (h_failed ha c) (h_cap ha c) false) as E.
  destruct (emit_cat sa e c (h_bag ha c) (h_seen ha c) (h_failed ha c) (h_cap ha c) false) as [sb q].
  cbn [fst] in *. exact E.
Qed.

Lemma event_steps_apps ty caps e l : forall acc,
  p_apps (fst (fst (fold_left (event_step ty caps e) l acc))) = p_apps (fst (fst acc)).
Proof.
  induction l as [|cb l IH]; intros acc; cbn [fold_left]; [reflexivity|].
  rewrite IH. apply event_step_apps.
Qed.

Lemma default_stage_apps s e appi h dflt : p_apps (fst (fst (default_stage s e appi h dflt))) = p_apps s.
Proof.
  unfold default_stage. destruct dflt; [|reflexivity].
  pose proof (filter_harvest_pkgs_apps s appi (final_metrics h)) as E1.
  destruct (filter_harvest_pkgs s appi (final_metrics h)) as [s1 hp].
  pose proof (emit_cats_apps e hp default_order s1) as E2.
  destruct (emit_cats s1 e hp default_order) as [s2 qs]. cbn [fst] in *. congruence.
Qed.

Lemma harvest_by_type_apps s ahid ty : p_apps (fst (harvest_by_type s ahid ty)) = p_apps s.
Proof.
  unfold harvest_by_type. cbv zeta.
  set (s0 := with_next s (S (p_next s))).
  set (ah := get_ah s ahid). set (a := get_obj s (ah_app ah)).
  set (e := ctx_of s0 ah (p_next s)).
  assert (E0 : p_apps s0 = p_apps s) by reflexivity.
  destruct (has_bits ty HarvestBits_gen.HarvestAll).
  - pose proof (filter_harvest_pkgs_apps (put_ah_h s0 ahid (new_harvest (cur_caps a))) (ah_app ah) (ah_h ah)) as E1.
    destruct (filter_harvest_pkgs (put_ah_h s0 ahid (new_harvest (cur_caps a))) (ah_app ah) (ah_h ah)) as [s2 h1].
    pose proof (emit_cats_apps e (final_metrics h1) all_order s2) as E2.
    destruct (emit_cats s2 e (final_metrics h1) all_order) as [s3 qs].
    cbn [fst] in *.
    destruct (Nat.eqb (length qs) 0).
    + pose proof (usage_request_apps (register s3 qs) e) as E3.
      destruct (usage_request (register s3 qs) e) as [s5 u]. cbn [fst] in *.
      rewrite register_apps, E3, register_apps, E2, E1. reflexivity.
    + cbn [fst p_apps with_groups]. rewrite register_apps, E2, E1. reflexivity.
  - pose proof (default_stage_apps s0 e (ah_app ah) (ah_h ah) (has_bits ty HarvestBits_gen.HarvestDefaultData)) as E1.
    destruct (default_stage s0 e (ah_app ah) (ah_h ah) (has_bits ty HarvestBits_gen.HarvestDefaultData)) as [[s1 h1] qs1].
    pose proof (event_steps_apps ty (cur_caps a) e event_order (s1, h1, qs1)) as E2.
    destruct (fold_left (event_step ty (cur_caps a) e) event_order (s1, h1, qs1)) as [[s2 h2] qs2].
    cbn [fst] in *.
    assert (E3 : p_apps (register (put_ah_h s2 ahid h2) qs2) = p_apps s) by (rewrite register_apps; cbn; congruence).
    destruct (Nat.eqb (length qs2) 0).
    + destruct (has_bits ty HarvestBits_gen.HarvestDefaultData && negb (harvest_empty (ah_h ah))).
      * pose proof (usage_request_apps (register (put_ah_h s2 ahid h2) qs2) e) as E4.
        destruct (usage_request (register (put_ah_h s2 ahid h2) qs2) e) as [s4 u]. cbn [fst] in *.
        rewrite register_apps, E4. exact E3.
      * cbn [fst]. exact E3.
    + cbn [fst p_apps with_groups]. exact E3.
Qed.

Lemma tick_apps s ahid ty : napps (fst (tick s ahid ty)) <= napps s.
Proof.
  unfold tick, napps. destruct (Nat.leb (length (p_ahs s)) ahid); [cbn [fst]; lia|].
  destruct (inactive (get_obj s (ah_app (get_ah s ahid))) (p_now s)).
  - cbn [fst p_apps with_apps]. apply removeN_length.
  - rewrite harvest_by_type_apps. lia.
Qed.

Lemma harvest_error_apps s q f : p_apps (fst (harvest_error s q f)) = p_apps s.
Proof.
  unfold harvest_error. destruct (lookupN (rq_run q) (p_runs s)) as [ahid|]; [|reflexivity].
  cbv zeta.
  set (s1 := if should_save f then _ else _).
  assert (E1 : p_apps s1 = p_apps s).
  { subst s1. destruct (should_save f); [|reflexivity].
    destruct (Processor.merge_failed (ah_h (get_ah s ahid)) (cat_of q) q) as [[h1 refused] given_up]. reflexivity. }
  clearbody s1.
  destruct f; try (cbn [fst]; exact E1);
    try (destruct (astate_eqb (a_state (get_obj s1 (ah_app (get_ah s ahid)))) SDisconnected); [cbn [fst]; exact E1|]);
    try (rewrite consider_connect_apps; exact E1);
    try (destruct (astate_eqb (a_state (get_obj s1 (ah_app (get_ah s ahid)))) SRestart);
         [rewrite consider_connect_apps; exact E1|cbn [fst]; exact E1]).
Qed.

Lemma group_done_apps s gid : p_apps (fst (group_done s gid)) = p_apps s.
Proof.
  unfold group_done. destruct (find (fun g => Nat.eqb (g_id g) gid) (p_groups s)) as [g|]; [|reflexivity].
  destruct (Nat.eqb (g_pending g) 1); [|reflexivity].
  destruct (g_usage g); [|reflexivity].
  match goal with |- context [usage_request ?S ?E] =>
    pose proof (usage_request_apps S E) as E1; destruct (usage_request S E) as [s2 u] end.
  cbn [fst] in *. rewrite register_apps. exact E1.
Qed.

Lemma reply_apps s n o : p_apps (fst (reply s n o)) = p_apps s.
Proof.
  unfold reply. destruct (nth_error (p_reqs s) n) as [q|]; [|reflexivity].
  cbv zeta. set (s0 := add_usage _).
  assert (E0 : p_apps s0 = p_apps s) by reflexivity. clearbody s0.
  assert (E1 : p_apps (fst (match o with OOk => (ghost_ack s0 (tags (rq_items q)), []) | OFail f => harvest_error s0 q f end)) = p_apps s).
  { destruct o; [exact E0|]. rewrite harvest_error_apps. exact E0. }
  destruct (match o with OOk => (ghost_ack s0 (tags (rq_items q)), []) | OFail f => harvest_error s0 q f end) as [s1 o1].
  cbn [fst] in E1.
  destruct (rq_kind q); try exact E1.
  pose proof (group_done_apps s1 (rq_group q)) as E2. destruct (group_done s1 (rq_group q)) as [s2 o2].
  cbn [fst] in *. congruence.
Qed.

Lemma flush_run_apps outs acc ra : napps (fst (flush_run outs acc ra)) <= napps (fst acc).
Proof.
  unfold flush_run, napps. destruct acc as [s o]. cbv zeta.
  destruct (Nat.leb (length (p_ahs s)) (snd ra)); [cbn [fst]; lia|].
  destruct (flush_inactive (get_obj s (ah_app (get_ah s (snd ra)))) (p_now s)).
  - cbn [fst p_apps with_apps]. apply removeN_length.
  - match goal with |- context [filter_harvest_pkgs ?S ?I ?H] =>
      pose proof (filter_harvest_pkgs_apps S I H) as E1; destruct (filter_harvest_pkgs S I H) as [s2 h1] end.
    match goal with |- context [emit_cats ?S ?E ?H ?C] =>
      pose proof (emit_cats_apps E H C S) as E2; destruct (emit_cats S E H C) as [s3 qs] end.
    cbn [fst] in *.
    match goal with |- context [fold_left ?F qs ?S0] =>
      assert (E3 : forall l sa, p_apps (fold_left F l sa) = p_apps sa)
    end.
    { induction l as [|q l IH]; intros sa; cbn [fold_left]; [reflexivity|]. rewrite IH.
      destruct (outs (rq_run q) (cat_of q)); reflexivity. }
    rewrite E3. cbn [p_apps ghost_sent]. rewrite E2, E1. cbn. lia.
Qed.

Lemma clean_exit_apps s outs : napps (fst (clean_exit s outs)) <= napps s.
Proof.
  unfold clean_exit.
  assert (H : forall l acc, napps (fst (fold_left (flush_run outs) l acc)) <= napps (fst acc)).
  { induction l as [|ra l IH]; intros acc; cbn [fold_left]; [lia|].
    eapply Nat.le_trans; [apply IH|apply flush_run_apps]. }
  specialize (H (p_runs s) (s, [])). destruct (fold_left (flush_run outs) (p_runs s) (s, [])) as [s1 o].
  cbn [fst] in *. exact H.
Qed.

Lemma step_apps s o : napps (fst (step s o)) <= Nat.max (napps s) app_limit.
Proof.
  unfold step. destruct (p_quit s); [cbn [fst]; lia|].
  destruct o as [key dt id|run t|n po|n co|ah ty|n oc|c oc|dt|outs].
  - apply app_info_apps.
  - unfold napps. rewrite txn_data_apps. lia.
  - unfold napps. rewrite pre_reply_apps. lia.
  - unfold napps. rewrite conn_reply_apps. lia.
  - pose proof (tick_apps s ah ty). lia.
  - unfold napps. rewrite reply_apps. lia.
  - destruct (find_index (req_is c) (p_reqs s) 0) as [n|]; [|cbn [fst]; lia].
    unfold napps. rewrite reply_apps. lia.
  - cbn [fst]. unfold napps. cbn. lia.
  - pose proof (clean_exit_apps s outs). lia.
Qed.

Lemma run_from_apps ops : forall s, napps s <= app_limit -> napps (fst (run_from s ops)) <= app_limit.
Proof.
  induction ops as [|o r IH]; intros s H; cbn [run_from]; [exact H|].
  pose proof (step_apps s o) as Hs. destruct (step s o) as [s1 out1]. cbn [fst] in Hs.
  specialize (IH s1 ltac:(lia)). destruct (run_from s1 r) as [s2 outs]. cbn [fst] in *. exact IH.
Qed.

(* C05: never more than 250 applications, on every history *)
Theorem apps_le_limit ops : length (p_apps (fst (run ops))) <= 250.
Proof.
  change 250 with app_limit. apply (run_from_apps ops init). cbn. lia.
Qed.

(* and each intermediate state too: every prefix of a history is a history *)
Example apps_example :
  let ops := map (fun k => OAppInfo (N.of_nat k) false None) (seq 1 4) in
  length (p_apps (fst (run ops))) = 4.
Proof. vm_compute. reflexivity. Qed.
Open Scope Z_scope.

(* ================================================================== exact counting *)
Definition adds_only (op : rop) : Prop := match op with OAdd _ | OAddSynth _ => True | _ => False end.

(* numSeen = everything offered (a merged reservoir counts for what it had seen, a given-up one for nothing);
   held = min(capacity, offered); the payload header reports exactly these numbers; the halves of Split
   partition the events, their events_seen add up to the original's and each half's header is consistent *)
Theorem counts_exact K ops :
  let r := run_res K ops in
  seen r = seen_total ops /\
  length (items r) = Nat.min K (length (offered ops)) /\
  (length (items r) <= K)%nat /\ cap r = K /\
  C05Check.model_hdr r = Some (C05Check.Hdr (seen_total ops) (Z.of_nat K) (Z.of_nat (Nat.min K (length (offered ops))))) /\
  (Forall adds_only ops -> seen_total ops = Z.of_nat (length ops)) /\
  (Forall op_counts_ok ops ->
     Z.of_nat (length (items r)) <= seen r /\
     seen (fst (split r)) + seen (snd (split r)) = seen r /\
     items (fst (split r)) ++ items (snd (split r)) = items r /\
     length (items (fst (split r))) = cap (fst (split r)) /\ length (items (snd (split r))) = cap (snd (split r)) /\
     failed (fst (split r)) = failed r /\ failed (snd (split r)) = failed r).
Proof.
  cbv zeta.
  split; [apply reservoir_seen_exact|]. split; [apply reservoir_len_min|]. split; [apply reservoir_len_le_cap|].
  split; [apply reservoir_cap|].
  split. { unfold C05Check.model_hdr, C05Check.zlen. rewrite reservoir_seen_exact, reservoir_cap, reservoir_len_min. reflexivity. }
  split; [apply seen_total_adds|].
  intros Hok. pose proof (reservoir_seen_ge_len K ops Hok) as Hge. unfold counts_ok in Hge.
  split; [exact Hge|]. split; [apply split_seen_sum; exact Hge|]. split; [apply split_items|].
  destruct (split_within_cap (run_res K ops)) as [A B]. destruct (split_failed (run_res K ops)) as [C D].
  repeat split; assumption.
Qed.

(* a failed delivery is carried over at most 10 times; the counter it leaves *)
Lemma carried_counts r o :
  (carried o = true <-> failed o + 1 <= 10) /\
  failed (Reservoir.merge_failed r o) = (if carried o then failed o + 1 else failed r) /\
  (carried o = false -> Reservoir.merge_failed r o = r).
Proof. split; [apply carried_limit|]. split; [apply ReservoirProofs.merge_failed_counter|apply merge_failed_discard]. Qed.

(* ================================================================== errors, slow SQLs, traces *)
Theorem small_containers_bound :
  (forall es, exists h, run_errors (Z.to_nat MaxErrors) es = Some h /\ (length (e_items h) <= 20)%nat) /\
  (forall obs, (length (sl_items (run_slow (Z.to_nat MaxSlowSQLs) obs)) <= 10)%nat) /\
  (forall l, exists ts, run_offers l = Some ts /\
     (length (ErrTrace.t_items (regular ts)) <= 1)%nat /\ (length (ErrTrace.t_items (force_persisted ts)) <= 10)%nat /\
     (length (ErrTrace.t_items (synthetics ts)) <= 20)%nat).
Proof.
  split.
  { intros es. destruct (errors_topk_fifo (Z.to_nat MaxErrors) es ltac:(cbn; lia)) as [[h [H1 [_ H3]]] _].
    exists h. split; [exact H1|exact H3]. }
  split.
  { intros obs. apply (slowsql_len_le_cap (Z.to_nat MaxSlowSQLs) obs). }
  intros l. destruct (traces_longest l) as [ts [Hr Hp]]. exists ts. rewrite run_offers_eq. split; [exact Hr|].
  split; [apply (proj2 (Hp PRegular))|]. split; [apply (proj2 (Hp PForce))|apply (proj2 (Hp PSynth))].
Qed.

(* ================================================================== the monitor accepts the model *)
(* the capacities the model negotiates pass the capacity monitor of Limits.v whenever the report period
   does not wrap (below 2^40 ms) -- the link between the executable monitor and the theorems above is
   exercised by the differential runs; here, the non-vacuity examples *)

(* ================================================================== non-vacuity *)
Example negotiate_example :
  let a := Agent 5000 3000 70000 in
  let r := ReplyIn (Some (RawEhc (JInt 5000) JAbsent (JInt 833) (JInt 200000) JAbsent (JInt 1000)))
                   (Some (RawSehc (JInt 60000) (JInt 700))) in
  option_map (fun e => map (harvest_cap e) ecats) (negotiate a r) = Some [100; 833; 100000; 700; 250] /\
  reply_well_formed r = true /\
  advertised a = (60000, (100, 10000, 70000, 5000, 3000)).
Proof. vm_compute. repeat split. Qed.

(* agent log limit 3000 per minute, collector period 5 s: 3000 * 5 / 60 = 250 < 1000 *)
Example negotiate_refused_example :
  negotiate (Agent 0 0 0) (ReplyIn (Some (RawEhc JAbsent (JInt (-1)) JAbsent JAbsent JAbsent JAbsent)) None) = None /\
  negotiate (Agent 0 0 0) (ReplyIn (Some (RawEhc JAbsent (JInt (2 ^ 63)) JAbsent JAbsent JAbsent JAbsent)) None) = None.
Proof. vm_compute. split; reflexivity. Qed.

(* since fix 61ac173 an agent value >= 2^63 (negative as an int) no longer yields a negative capacity *)
Example agent_2_63_example :
  option_map (fun e => harvest_cap e ELog)
    (negotiate (Agent 0 (2 ^ 63) 0) (ReplyIn (Some (RawEhc (JInt 60000) JAbsent JAbsent JAbsent JAbsent (JInt 20000))) (Some (RawSehc JAbsent JAbsent))))
  = Some 20000.
Proof. vm_compute. reflexivity. Qed.
(* regression example for fix b82e6ce: the sign of the agent's value is tested BEFORE the scaling.  Agent values
   2^64-1 .. 2^64-11 (-1 .. -11 as an int) with a 5 s report period scale to -0.08 .. -0.92, which the
   float-to-int conversion truncates to 0; before the fix that 0 passed the test made after the scaling and the
   log reservoir got capacity 0.  Now every one of them leaves the collector's limit, for 5 s and for 60 s. *)
Example agent_minus_one_short_period_example :
  forallb (fun d =>
    forallb (fun ms =>
      match negotiate (Agent 0 (2 ^ 64 - d) 0)
                      (ReplyIn (Some (RawEhc (JInt ms) JAbsent JAbsent JAbsent JAbsent (JInt 20000))) (Some (RawSehc JAbsent JAbsent))) with
      | Some e => harvest_cap e ELog =? 20000
      | None => false
      end) [5000; 60000])
    [1; 2; 3; 4; 5; 6; 7; 8; 9; 10; 11; 12; 13] = true /\
  (* the scaled value really is 0 there: it is the validity test that keeps it out *)
  scale_agent_log (int_of_uint64 (2 ^ 64 - 1)) 5000000000 = 0.
Proof. vm_compute. split; reflexivity. Qed.

Example counts_example5 :
  let ops := [OAdd (mkEv 5 1); OAdd (mkEv 9 2); OMerge (mkRes 2 [mkEv 1 1] 7 0); OAdd (mkEv 3 3)] in
  Forall op_counts_ok ops /\ seen (run_res 2 ops) = 10 /\ length (items (run_res 2 ops)) = 2%nat /\
  seen (fst (split (run_res 2 ops))) = 5 /\ seen (snd (split (run_res 2 ops))) = 5.
Proof. split; [repeat constructor; cbn; unfold counts_ok; cbn; lia|]. vm_compute. repeat split. Qed.

Example metric_bound_example :
  exists r, builds (BAdds (BNew MaxMetrics) [ACount ([1%N], []) false 1]) (exec (BAdds (BNew MaxMetrics) [ACount ([1%N], []) false 1])) r /\
            base_max (BAdds (BNew MaxMetrics) [ACount ([1%N], []) false 1]) = MaxMetrics.
Proof. destruct (exec_builds (BAdds (BNew MaxMetrics) [ACount ([1%N], []) false 1])) as [r H]. exists r. split; [exact H|reflexivity]. Qed.

(* ================================================================== the statements of PropC05.v *)
(* every reservoir of a harvest, for every agent setting, every connect reply, every offer sequence *)
Theorem event_bound a r e : negotiate a r = Some e ->
  forall k ops,
    let cap := harvest_cap e k in
    let held := Z.of_nat (length (items (run_res (Z.to_nat cap) ops))) in
    0 <= cap /\ held <= cap /\ cap <= doc_max k /\
    (forall j, collector_jval r k = Some j ->
       cap <= capped (doc_max k) j /\ (k <> ELog -> cap = capped (doc_max k) j)) /\
    (k = ELog ->
       let agent := int_of_uint64 (a_log a) in
       let p := ec_period (cfg_of (cfgs e) ELog) in
       0 <= agent -> 0 <= p ->
       cap <= agent * p / 60000000000 /\
       forall j, collector_jval r ELog = Some j -> cap = Z.min (capped 20000 j) (agent * p / 60000000000)) /\
    (k = ELog -> two63 <= a_log a < two64 ->
       forall j, collector_jval r ELog = Some j -> cap = capped 20000 j).
Proof.
  intros H k ops. cbv zeta. destruct (event_caps a r e H k) as [[A1 A2] [B [C D]]].
  split; [exact A1|]. split; [apply reservoir_holds; exact A1|]. split; [exact A2|]. split; [exact B|].
  split.
  - intros ->. apply (C eq_refl).
  - intros -> Hu. apply (D eq_refl). unfold int_of_uint64. rewrite wrap64_big by exact Hu. lia.
Qed.

(* the usual case spelled out in the collector's units: a log limit z and a report period of ms milliseconds *)
Theorem log_limit_scaled a r e x ms z :
  negotiate a r = Some e -> in_ehc r = Some x ->
  r_period x = JInt ms -> 0 < ms < 9223372036854 -> r_log x = JInt z ->
  a_log a < two63 -> 0 <= a_log a ->
  harvest_cap e ELog = Z.min (Z.min 20000 z) (a_log a * ms / 60000).
Proof.
  intros H Hx Hp Hms Hl Ha1 Ha0.
  destruct (negotiate_inv a r e H) as (e0 & Hp0 & He).
  destruct (parse_log_period r e0 x Hp0 Hx) as (ms' & Hd & Hper).
  rewrite Hp in Hd. cbn [dec_uint64] in Hd.
  assert (Hin : in_uint64 ms = true).
  { unfold in_uint64. rewrite two64_val. apply andb_true_intro. split; [apply Z.leb_le|apply Z.ltb_lt]; lia. }
  rewrite Hin in Hd. inversion Hd; subst ms'. rewrite Hl in Hper. rewrite report_period_of_small in Hper by exact Hms.
  assert (Hpe : ec_period (cfg_of (cfgs e) ELog) = ms * 1000000) by (rewrite He, process_log_period; exact Hper).
  destruct (event_caps a r e H ELog) as [_ [_ [C _]]]. specialize (C eq_refl). cbv zeta in C.
  assert (Hag : int_of_uint64 (a_log a) = a_log a) by (apply wrap64_small; lia).
  rewrite Hag, Hpe in C.
  destruct (C Ha0 ltac:(lia)) as [_ C2].
  assert (Hj : collector_jval r ELog = Some (JInt z)) by (cbn [collector_jval]; rewrite Hx; cbn [option_map]; rewrite Hl; reflexivity).
  rewrite (C2 _ Hj). cbn [capped]. rewrite scaled_ms. reflexivity.
Qed.

Example log_limit_scaled_example :
  exists a r e x, negotiate a r = Some e /\ in_ehc r = Some x /\ r_period x = JInt 5000 /\ r_log x = JInt 1000 /\
                  a_log a = 3000 /\ harvest_cap e ELog = 250.
Proof.
  exists (Agent 0 3000 0), (ReplyIn (Some (RawEhc (JInt 5000) JAbsent JAbsent JAbsent JAbsent (JInt 1000))) None).
  eexists. eexists. split; [vm_compute; reflexivity|]. repeat split.
Qed.

(* ================================================================== monitors and model *)
(* the getEventConfig monitor accepts exactly what the model computes (for a non-negative maximum) *)
Lemma mon_gec_sound raw rate dl dr : 0 <= dl ->
  match get_event_config raw rate dl dr with
  | None => mon_gec (GCase raw rate dl dr true 0 0) = true
  | Some e => mon_gec (GCase raw rate dl dr false (ec_limit e) (ec_period e)) = true
  end.
Proof.
  intros Hd. unfold get_event_config, mon_gec. cbn [g_raw g_rate g_dlimit g_drate go_err go_limit go_period].
  destruct raw as [l|].
  - destruct (Z.ltb_spec l 0); [reflexivity|]. cbn [ec_limit ec_period negb andb].
    rewrite Z.eqb_refl, andb_true_r. apply Z.eqb_eq. destruct (Z.ltb_spec dl l); lia.
  - cbn [ec_limit ec_period negb andb]. rewrite !Z.eqb_refl. reflexivity.
Qed.

(* and it rejects a limit above the maximum or a wrong period: the monitor is not vacuous *)
Example mon_gec_rejects :
  mon_gec (GCase (Some 101) 5 100 60 false 101 5) = false /\ mon_gec (GCase (Some 7) 5 100 60 false 7 60) = false /\
  mon_gec (GCase (Some (-1)) 5 100 60 false 0 0) = false.
Proof. repeat split. Qed.

(* the negotiation monitor rejects: a capacity above the collector's limit, a log capacity above the scaled agent
   limit, an advertised limit that ignores the agent's setting, a refused well-formed reply *)
Example mon_nego_rejects :
  let a := Agent 5000 3000 70000 in
  let r := ReplyIn (Some (RawEhc (JInt 5000) JAbsent (JInt 833) (JInt 200000) JAbsent (JInt 1000)))
                   (Some (RawSehc (JInt 60000) (JInt 700))) in
  mon_nego a r (NegoObs true [100; 833; 100000; 700; 250] 60000 [100; 10000; 70000; 5000; 3000]) = true /\
  mon_nego a r (NegoObs true [100; 834; 100000; 700; 250] 60000 [100; 10000; 70000; 5000; 3000]) = false /\
  mon_nego a r (NegoObs true [100; 833; 100000; 700; 1000] 60000 [100; 10000; 70000; 5000; 3000]) = false /\
  mon_nego a r (NegoObs true [100; 833; 100000; 700; 250] 60000 [100; 10000; 100000; 5000; 3000]) = false /\
  mon_nego a r (NegoObs false [] 60000 [100; 10000; 70000; 5000; 3000]) = false.
Proof. vm_compute. repeat split. Qed.

(* what the capacity monitor of Limits.v guarantees about an OBSERVED capacity it accepts: the bounds of
   event_bound (non-negative, at most the documented maximum, at most min(maximum, collector limit)) *)
Lemma mon_cap_sound a r k c : mon_cap a r k c = true ->
  0 <= c /\ c <= doc_max k /\ (forall j, collector_jval r k = Some j -> c <= capped (doc_max k) j).
Proof.
  unfold mon_cap. intros H. apply andb_prop in H. destruct H as [H0 H]. apply Z.leb_le in H0.
  split; [exact H0|].
  destruct (collector_jval r k) as [j|].
  - pose proof (capped_le (doc_max k) j) as Hc.
    assert (Hle : c <= capped (doc_max k) j).
    { destruct k; try (apply Z.eqb_eq in H; lia).
      destruct (a_log a <? 2 ^ 63); [|apply Z.eqb_eq in H; lia].
      destruct (spec_log_period_ms r <? 2 ^ 40); [apply Z.eqb_eq in H; lia|apply Z.leb_le in H; exact H]. }
    split; [lia|]. intros j' Hj. inversion Hj; subst j'. exact Hle.
  - apply Z.leb_le in H. split; [exact H|]. intros j Hj. discriminate Hj.
Qed.
