(* Pidfile.v -- model of daemon/internal/newrelic/pidfile.go (CreatePidFile / setWriteLock / Write /
   Remove) and of the part of cmd/daemon/main.go run() that uses it, for any number of daemon
   processes racing for ONE pid file path, over a model of the kernel objects involved:

     - the directory entry: [path s] is the inode the path names now (None = no such file);
       unlink removes the entry, a later O_CREAT open makes a NEW inode ([next s], never reused);
     - POSIX fcntl record locks, whole-file write locks only: [locks s] is the set of
       (inode, owner process) pairs; F_SETLK by p on i succeeds iff no OTHER process owns a lock
       on i; the locks p owns on i are dropped when p closes ANY descriptor of i, all of p's locks
       are dropped when p dies or exits;
     - the file contents: [data s] (which pid is written in each inode).

   Each process runs (pidfile.go, main.go; one transition per system call, branch by branch)

     for k := 0; k < mx; k++ {                       Start k        (mx = limits.MaxPidfileRetries)
        f = open(path, O_CREAT|O_WRONLY)             -> Opened i k     | error: return
        F_SETLK(f, F_WRLCK)                          -> Locked i k     | EAGAIN/EACCES: close; ErrLocked (exit 0)
        stat(path) vs fstat(f)                       -> Owner i SChecked | gone / other file: close; continue
        ftruncate(f)                                 -> Owner i SCreated  (CreatePidFile returned; defer Remove)
     }                                               loop exhausted: ErrRetryLimit (exit 1)
     Write: ftruncate(f); write(f, pid)              -> Owner i STruncated -> Owner i SWritten (role runs)
     Remove: unlink(path); close(f)                  -> Unlinked i -> Done OExited

   and may die at any point (LDie).  The time spent in each state is arbitrary, every interleaving of
   the processes' transitions is a run.  Definitions only; proofs are in PidfileProofs.v. *)
From Coq Require Import NArith List Bool Arith.
Import ListNotations.

Definition pid := nat.
Definition inode := N.

Inductive outcome :=
| OLocked        (* CreatePidFile = ErrLocked: run() returns silently, exit status 0 *)
| ORetryLimit    (* ErrRetryLimit, exit status 1 *)
| OFail          (* another error from open / fcntl / fstat / ftruncate, exit status 1 *)
| OExited        (* ran, then Remove, then exit *)
| ODied.         (* killed *)

Inductive stage := SChecked | SCreated | STruncated | SWritten.

(* what follows the close of the descriptor *)
Inductive cont := CRetry (k : N) | CExit (o : outcome).

Inductive pc :=
| Start (k : N)                      (* at the loop head, k iterations used; holds no descriptor *)
| Opened (i : inode) (k : N)         (* descriptor on i, about to F_SETLK *)
| Locked (i : inode) (k : N)         (* lock acquired, about to compare stat(path) with fstat(fd) *)
| Owner (i : inode) (st : stage)     (* passed the same-file check, has not begun Remove *)
| Closing (i : inode) (c : cont)     (* about to close the descriptor on a failure / retry path *)
| Unlinked (i : inode)               (* Remove: path unlinked, descriptor (and lock) still open *)
| Done (o : outcome).

Record state := mk {
  path : option inode;
  next : inode;
  locks : list (inode * pid);
  data : list (inode * option pid);   (* newest first *)
  procs : list pc;                    (* process p is the p-th entry *)
  unl : list pid                      (* ghost: the processes that have unlinked the path, newest first *)
}.

Definition init (n : nat) : state := mk None 1%N [] [] (repeat (Start 0%N) n) [].

(* ---- kernel operations ---- *)
Definition lock_free (lk : list (inode * pid)) (i : inode) (p : pid) : bool :=
  forallb (fun e => negb (N.eqb (fst e) i) || Nat.eqb (snd e) p) lk.
Definition release_inode (lk : list (inode * pid)) (i : inode) (p : pid) : list (inode * pid) :=
  filter (fun e => negb (N.eqb (fst e) i && Nat.eqb (snd e) p)) lk.
Definition release_all (lk : list (inode * pid)) (p : pid) : list (inode * pid) :=
  filter (fun e => negb (Nat.eqb (snd e) p)) lk.
Fixpoint content_of (d : list (inode * option pid)) (i : inode) : option pid :=
  match d with
  | [] => None
  | (j, c) :: r => if N.eqb j i then c else content_of r i
  end.
Definition content (s : state) (i : inode) : option pid := content_of (data s) i.

(* ---- process table ---- *)
Definition getp (s : state) (p : pid) : option pc := nth_error (procs s) p.
Fixpoint upd (l : list pc) (p : nat) (c : pc) : list pc :=
  match l, p with
  | [], _ => []
  | _ :: r, O => c :: r
  | x :: r, S p' => x :: upd r p' c
  end.
Definition setpc (s : state) (p : pid) (c : pc) : state :=
  mk (path s) (next s) (locks s) (data s) (upd (procs s) p c) (unl s).

Definition is_done (c : pc) : bool := match c with Done _ => true | _ => false end.

(* an environment failure (errno other than the ones the protocol branches on) *)
Definition fail_next (mx : N) (c : pc) : option pc :=
  match c with
  | Start k => if N.ltb k mx then Some (Done OFail) else None     (* open fails *)
  | Opened i _ => Some (Closing i (CExit OFail))                  (* F_SETLK: errno other than EAGAIN/EACCES *)
  | Locked i _ => Some (Closing i (CExit OFail))                  (* fstat fails *)
  | Owner i SChecked => Some (Closing i (CExit OFail))            (* ftruncate in CreatePidFile fails *)
  | _ => None
  end.

Definition after_close (c : pc) : option (inode * pc) :=
  match c with
  | Closing i (CRetry k) => Some (i, Start k)
  | Closing i (CExit o) => Some (i, Done o)
  | Unlinked i => Some (i, Done OExited)
  | _ => None
  end.

Definition trunc_next (st : stage) : option stage :=
  match st with
  | SChecked => Some SCreated        (* CreatePidFile: "Remove stale pid" *)
  | SCreated => Some STruncated      (* PidFile.Write: Truncate(0) *)
  | _ => None
  end.

(* Remove is deferred once CreatePidFile has returned (a failing Write returns through it too) *)
Definition can_remove (st : stage) : bool := match st with SChecked => false | _ => true end.

Inductive label :=
| LOpen (p : pid) | LGiveUp (p : pid)
| LLockOk (p : pid) | LLockBusy (p : pid)
| LStatSame (p : pid) | LStatGone (p : pid) | LStatChanged (p : pid)
| LTrunc (p : pid) | LWrite (p : pid)
| LUnlink (p : pid) | LUnlinkGone (p : pid)
| LClose (p : pid) | LFail (p : pid) | LDie (p : pid).

Definition label_pid (l : label) : pid :=
  match l with
  | LOpen p | LGiveUp p | LLockOk p | LLockBusy p | LStatSame p | LStatGone p | LStatChanged p
  | LTrunc p | LWrite p | LUnlink p | LUnlinkGone p | LClose p | LFail p | LDie p => p
  end.

(* ---- the labelled transition system ---- *)
Inductive step (mx : N) : state -> label -> state -> Prop :=
| S_open_old s p k i :
    getp s p = Some (Start k) -> (k < mx)%N -> path s = Some i ->
    step mx s (LOpen p) (setpc s p (Opened i k))
| S_open_new s p k :
    getp s p = Some (Start k) -> (k < mx)%N -> path s = None ->
    step mx s (LOpen p)
         (mk (Some (next s)) (N.succ (next s)) (locks s) ((next s, None) :: data s)
             (upd (procs s) p (Opened (next s) k)) (unl s))
| S_give_up s p k :
    getp s p = Some (Start k) -> (mx <= k)%N ->
    step mx s (LGiveUp p) (setpc s p (Done ORetryLimit))
| S_lock_ok s p i k :
    getp s p = Some (Opened i k) -> lock_free (locks s) i p = true ->
    step mx s (LLockOk p)
         (mk (path s) (next s) ((i, p) :: locks s) (data s) (upd (procs s) p (Locked i k)) (unl s))
| S_lock_busy s p i k :
    getp s p = Some (Opened i k) -> lock_free (locks s) i p = false ->
    step mx s (LLockBusy p) (setpc s p (Closing i (CExit OLocked)))
| S_stat_same s p i k :
    getp s p = Some (Locked i k) -> path s = Some i ->
    step mx s (LStatSame p) (setpc s p (Owner i SChecked))
| S_stat_gone s p i k :
    getp s p = Some (Locked i k) -> path s = None ->
    step mx s (LStatGone p) (setpc s p (Closing i (CRetry (N.succ k))))
| S_stat_changed s p i k j :
    getp s p = Some (Locked i k) -> path s = Some j -> j <> i ->
    step mx s (LStatChanged p) (setpc s p (Closing i (CRetry (N.succ k))))
| S_trunc s p i st st' :
    getp s p = Some (Owner i st) -> trunc_next st = Some st' ->
    step mx s (LTrunc p)
         (mk (path s) (next s) (locks s) ((i, None) :: data s) (upd (procs s) p (Owner i st')) (unl s))
| S_write s p i :
    getp s p = Some (Owner i STruncated) ->
    step mx s (LWrite p)
         (mk (path s) (next s) (locks s) ((i, Some p) :: data s) (upd (procs s) p (Owner i SWritten)) (unl s))
| S_unlink s p i st j :
    getp s p = Some (Owner i st) -> can_remove st = true -> path s = Some j ->
    step mx s (LUnlink p)          (* os.Remove(name): whatever the NAME denotes now *)
         (mk None (next s) (locks s) (data s) (upd (procs s) p (Unlinked i)) (p :: unl s))
| S_unlink_gone s p i st :
    getp s p = Some (Owner i st) -> can_remove st = true -> path s = None ->
    step mx s (LUnlinkGone p)      (* Remove returns the error without closing; the process exits *)
         (mk None (next s) (release_all (locks s) p) (data s) (upd (procs s) p (Done OExited)) (unl s))
| S_close s p c i c' :
    getp s p = Some c -> after_close c = Some (i, c') ->
    step mx s (LClose p)
         (mk (path s) (next s) (release_inode (locks s) i p) (data s) (upd (procs s) p c') (unl s))
| S_fail s p c c' :
    getp s p = Some c -> fail_next mx c = Some c' ->
    step mx s (LFail p) (setpc s p c')
| S_die s p c :
    getp s p = Some c -> is_done c = false ->
    step mx s (LDie p)
         (mk (path s) (next s) (release_all (locks s) p) (data s) (upd (procs s) p (Done ODied)) (unl s)).

(* runs: the trace is in execution order *)
Inductive steps (mx : N) : state -> list label -> state -> Prop :=
| steps_nil s : steps mx s [] s
| steps_snoc s tr s1 l s2 : steps mx s tr s1 -> step mx s1 l s2 -> steps mx s (tr ++ [l]) s2.

Definition reachable (mx : N) (n : nat) (s : state) : Prop := exists tr, steps mx (init n) tr s.

(* ---- executable twin: the unique successor for a label, if the label is enabled ---- *)
Definition exec (mx : N) (s : state) (l : label) : option state :=
  match l with
  | LOpen p =>
      match getp s p with
      | Some (Start k) =>
          if N.ltb k mx then
            match path s with
            | Some i => Some (setpc s p (Opened i k))
            | None => Some (mk (Some (next s)) (N.succ (next s)) (locks s) ((next s, None) :: data s)
                               (upd (procs s) p (Opened (next s) k)) (unl s))
            end
          else None
      | _ => None
      end
  | LGiveUp p =>
      match getp s p with
      | Some (Start k) => if N.leb mx k then Some (setpc s p (Done ORetryLimit)) else None
      | _ => None
      end
  | LLockOk p =>
      match getp s p with
      | Some (Opened i k) =>
          if lock_free (locks s) i p
          then Some (mk (path s) (next s) ((i, p) :: locks s) (data s) (upd (procs s) p (Locked i k)) (unl s))
          else None
      | _ => None
      end
  | LLockBusy p =>
      match getp s p with
      | Some (Opened i k) =>
          if lock_free (locks s) i p then None else Some (setpc s p (Closing i (CExit OLocked)))
      | _ => None
      end
  | LStatSame p =>
      match getp s p with
      | Some (Locked i k) =>
          match path s with
          | Some j => if N.eqb j i then Some (setpc s p (Owner i SChecked)) else None
          | None => None
          end
      | _ => None
      end
  | LStatGone p =>
      match getp s p with
      | Some (Locked i k) =>
          match path s with
          | None => Some (setpc s p (Closing i (CRetry (N.succ k))))
          | Some _ => None
          end
      | _ => None
      end
  | LStatChanged p =>
      match getp s p with
      | Some (Locked i k) =>
          match path s with
          | Some j => if N.eqb j i then None else Some (setpc s p (Closing i (CRetry (N.succ k))))
          | None => None
          end
      | _ => None
      end
  | LTrunc p =>
      match getp s p with
      | Some (Owner i st) =>
          match trunc_next st with
          | Some st' => Some (mk (path s) (next s) (locks s) ((i, None) :: data s)
                                 (upd (procs s) p (Owner i st')) (unl s))
          | None => None
          end
      | _ => None
      end
  | LWrite p =>
      match getp s p with
      | Some (Owner i STruncated) =>
          Some (mk (path s) (next s) (locks s) ((i, Some p) :: data s) (upd (procs s) p (Owner i SWritten)) (unl s))
      | _ => None
      end
  | LUnlink p =>
      match getp s p with
      | Some (Owner i st) =>
          if can_remove st then
            match path s with
            | Some _ => Some (mk None (next s) (locks s) (data s) (upd (procs s) p (Unlinked i)) (p :: unl s))
            | None => None
            end
          else None
      | _ => None
      end
  | LUnlinkGone p =>
      match getp s p with
      | Some (Owner i st) =>
          if can_remove st then
            match path s with
            | None => Some (mk None (next s) (release_all (locks s) p) (data s)
                               (upd (procs s) p (Done OExited)) (unl s))
            | Some _ => None
            end
          else None
      | _ => None
      end
  | LClose p =>
      match getp s p with
      | Some c =>
          match after_close c with
          | Some (i, c') => Some (mk (path s) (next s) (release_inode (locks s) i p) (data s)
                                     (upd (procs s) p c') (unl s))
          | None => None
          end
      | None => None
      end
  | LFail p =>
      match getp s p with
      | Some c => match fail_next mx c with Some c' => Some (setpc s p c') | None => None end
      | None => None
      end
  | LDie p =>
      match getp s p with
      | Some c =>
          if is_done c then None
          else Some (mk (path s) (next s) (release_all (locks s) p) (data s) (upd (procs s) p (Done ODied)) (unl s))
      | None => None
      end
  end.

Fixpoint exec_all (mx : N) (s : state) (tr : list label) : option state :=
  match tr with
  | [] => Some s
  | l :: r => match exec mx s l with Some s' => exec_all mx s' r | None => None end
  end.

(* every transition enabled in s, with its successor *)
Definition labels_of (p : pid) : list label :=
  [LOpen p; LGiveUp p; LLockOk p; LLockBusy p; LStatSame p; LStatGone p; LStatChanged p;
   LTrunc p; LWrite p; LUnlink p; LUnlinkGone p; LClose p; LFail p; LDie p].
Definition enabled (mx : N) (s : state) : list (label * state) :=
  flat_map (fun p => flat_map (fun l => match exec mx s l with Some s' => [(l, s')] | None => [] end)
                              (labels_of p))
           (seq 0 (length (procs s))).

(* ---- the predicates of the property ---- *)
(* p has passed the same-file check and has not begun Remove: it takes itself for THE daemon *)
Definition owner (s : state) (p : pid) : Prop := exists i st, getp s p = Some (Owner i st).
(* p holds the lock on the inode the path names now *)
Definition holds_path_lock (s : state) (p : pid) : Prop := exists i, path s = Some i /\ In (i, p) (locks s).
(* nobody holds a lock on the inode the path names (or the path names nothing) *)
Definition path_lock_free (s : state) : Prop := forall i q, path s = Some i -> ~ In (i, q) (locks s).
(* p passed the same-file check at some time and still holds the lock it took: owner, or inside Remove *)
Definition passed_and_locked (s : state) (p : pid) : Prop :=
  exists i, (exists st, getp s p = Some (Owner i st)) \/ getp s p = Some (Unlinked i).
Definition in_remove_window (s : state) (p : pid) : Prop := exists i, getp s p = Some (Unlinked i).

(* the protocol run of one process that nothing disturbs *)
Definition solo (p : pid) : list label := [LOpen p; LLockOk p; LStatSame p; LTrunc p; LTrunc p; LWrite p].

(* ---- main.go: which processes take part ---- *)
Inductive role := RoleProgenitor | RoleWatcher | RoleWorker.
(* shouldCreatePidfile *)
Definition should_create_pidfile (no_pidfile : bool) (pidfile_empty : bool) (r : role) : bool :=
  if no_pidfile || pidfile_empty then false
  else match r with RoleWatcher | RoleWorker => true | RoleProgenitor => false end.
(* exit status of the process for each way CreatePidFile / run can end *)
Definition exit_code (o : outcome) : option N :=
  match o with
  | OLocked => Some 0%N
  | ORetryLimit | OFail => Some 1%N
  | OExited => Some 0%N
  | ODied => None
  end.

(* =====================================================================================
   Observed histories (written by the harness) and their evaluation.
   ===================================================================================== *)
(* kernel's view after an event: inode named by the path (0 = none), all locks of the daemons
   (inode, process, write?) and the process whose pid is in the file *)
Inductive fcontent := FNoFile | FEmpty | FPid (p : pid) | FOther.
Record snap := mksnap { sn_path : N; sn_locks : list (N * pid * bool); sn_content : fcontent }.

Inductive ev :=
| EStart (p : pid)
| ESys (l : label) (fd_ino : N) (sn : snap)    (* a pid-file system call of the process, its result class *)
| EUp (p : pid)                                (* the daemon listens: it runs as THE daemon *)
| ETerm (p : pid)                              (* SIGTERM sent to a daemon that is up *)
| EKill (p : pid) (sn : snap)                  (* SIGKILL, death observed *)
| EExit (p : pid) (code : N) (sn : snap).      (* the process ended by itself *)

(* -- correspondence: the observed history is a run of the model and every snapshot agrees -- *)
Definition lock_in (lk : list (inode * pid)) (e : N * pid * bool) : bool :=
  let '(i, p, w) := e in w && existsb (fun x => N.eqb (fst x) i && Nat.eqb (snd x) p) lk.
Definition lock_obs (ol : list (N * pid * bool)) (x : inode * pid) : bool :=
  existsb (fun e => let '(i, p, _) := e in N.eqb (fst x) i && Nat.eqb (snd x) p) ol.
Definition fcontent_eqb (a b : fcontent) : bool :=
  match a, b with
  | FNoFile, FNoFile | FEmpty, FEmpty | FOther, FOther => true
  | FPid p, FPid q => Nat.eqb p q
  | _, _ => false
  end.
Definition model_content (s : state) : fcontent :=
  match path s with
  | None => FNoFile
  | Some i => match content s i with None => FEmpty | Some p => FPid p end
  end.
Definition snap_ok (s : state) (sn : snap) : bool :=
  N.eqb (match path s with Some i => i | None => 0%N end) (sn_path sn)
  && forallb (lock_in (locks s)) (sn_locks sn) && forallb (lock_obs (sn_locks sn)) (locks s)
  && fcontent_eqb (model_content s) (sn_content sn).
Definition fd_of (c : pc) : option inode :=
  match c with
  | Opened i _ | Locked i _ | Owner i _ | Closing i _ | Unlinked i => Some i
  | _ => None
  end.
Definition fd_ok (s : state) (p : pid) (fd_ino : N) : bool :=
  match getp s p with
  | Some c => match fd_of c with Some i => N.eqb i fd_ino | None => true end
  | None => false
  end.

(* replay the events on the model; None = the history is not a run of the model *)
Fixpoint replay (mx : N) (s : state) (h : list ev) : option state :=
  match h with
  | [] => Some s
  | e :: r =>
      match e with
      | EStart p => match getp s p with Some (Start 0%N) => replay mx s r | _ => None end
      | ESys l ino sn =>
          match exec mx s l with
          | Some s' => if snap_ok s' sn && fd_ok s' (label_pid l) ino then replay mx s' r else None
          | None => None
          end
      | EUp p => match getp s p with Some (Owner _ SWritten) => replay mx s r | _ => None end
      | ETerm p => match getp s p with Some (Owner _ SWritten) => replay mx s r | _ => None end
      | EKill p sn =>
          match exec mx s (LDie p) with
          | Some s' => if snap_ok s' sn then replay mx s' r else None
          | None => None
          end
      | EExit p code sn =>
          (* the loop may end without a system call (retry limit) *)
          let s1 := match exec mx s (LGiveUp p) with Some s' => s' | None => s end in
          match getp s1 p with
          | Some (Done o) =>
              match exit_code o with
              | Some c => if N.eqb c code && snap_ok s1 sn then replay mx s1 r else None
              | None => None
              end
          | _ => None
          end
      end
  end.
Definition accepts (mx : N) (n : nat) (h : list ev) : bool :=
  match replay mx (init n) h with Some _ => true | None => false end.

(* -- monitors: the property on the observed history alone (no model state) -- *)
Definition remove_pid (p : pid) (l : list pid) : list pid := filter (fun q => negb (Nat.eqb q p)) l.
Definition add_pid (p : pid) (l : list pid) : list pid := if existsb (Nat.eqb p) l then l else p :: l.

(* the processes that behave as owner of the pid file: from their first truncate / write of the file
   or from the moment they listen, until they unlink it, exit or die *)
Definition claims_after (cl : list pid) (e : ev) : list pid :=
  match e with
  | ESys (LTrunc p) _ _ | ESys (LWrite p) _ _ | EUp p => add_pid p cl
  | ESys (LUnlink p) _ _ | ESys (LUnlinkGone p) _ _ | ESys (LDie p) _ _ | EKill p _ | EExit p _ _ => remove_pid p cl
  | _ => cl
  end.
(* locks on the inode the path names, in a snapshot *)
Definition path_lockers (sn : snap) : list pid :=
  if N.eqb (sn_path sn) 0 then []
  else nodup Nat.eq_dec
         (map (fun e => snd (fst e)) (filter (fun e => N.eqb (fst (fst e)) (sn_path sn)) (sn_locks sn))).
Definition snap_of (e : ev) : option snap :=
  match e with ESys _ _ sn | EKill _ sn | EExit _ _ sn => Some sn | _ => None end.

(* at most one claimant at any time; at most one lock holder on the path's inode; a claimant holds
   that lock (it is among the lockers of the path's inode, which must exist) *)
Fixpoint mon_exclusive_from (cl : list pid) (h : list ev) : bool :=
  match h with
  | [] => true
  | e :: r =>
      let cl' := claims_after cl e in
      Nat.leb (length cl') 1
      && match snap_of e with
         | Some sn =>
             Nat.leb (length (path_lockers sn)) 1
             && forallb (fun p => existsb (Nat.eqb p) (path_lockers sn)) cl'
         | None => true
         end
      && mon_exclusive_from cl' r
  end.
Definition mon_exclusive (h : list ev) : bool := mon_exclusive_from [] h.

(* the file names the daemon: once a claimant has written its pid, the path's file holds it *)
Definition writers_after (w : list pid) (e : ev) : list pid :=
  match e with
  | ESys (LWrite p) _ _ => add_pid p w
  | ESys (LUnlink p) _ _ | ESys (LUnlinkGone p) _ _ | ESys (LDie p) _ _ | EKill p _ | EExit p _ _ => remove_pid p w
  | _ => w
  end.
Fixpoint mon_content_from (w : list pid) (h : list ev) : bool :=
  match h with
  | [] => true
  | e :: r =>
      let w' := writers_after w e in
      match snap_of e with
      | Some sn => forallb (fun p => fcontent_eqb (sn_content sn) (FPid p)) w'
      | None => true
      end && mon_content_from w' r
  end.
Definition mon_content (h : list ev) : bool := mon_content_from [] h.

(* a death releases: right after a process was killed or has exited it holds no lock *)
Definition mon_released (h : list ev) : bool :=
  forallb (fun e => match e with
                    | EKill p sn | EExit p _ sn => negb (existsb (fun x => Nat.eqb (snd (fst x)) p) (sn_locks sn))
                    | _ => true
                    end) h.

(* a successor can start: if, after the last signal and the last exit of a signalled process, a
   process is started and the history runs every process to the end (settled), exactly one daemon
   is up at the end *)
Definition is_signal (e : ev) : bool := match e with ETerm _ | EKill _ _ => true | _ => false end.
Fixpoint signalled (h : list ev) : list pid :=
  match h with
  | [] => []
  | ETerm p :: r | EKill p _ :: r => p :: signalled r
  | _ :: r => signalled r
  end.
(* the part of the history after the last event that is a signal or the exit of a signalled process *)
Fixpoint quiet_suffix (sg : list pid) (h : list ev) (acc : list ev) : list ev :=
  match h with
  | [] => rev acc
  | e :: r =>
      let cut := match e with
                 | ETerm _ | EKill _ _ => true
                 | EExit p _ _ => existsb (Nat.eqb p) sg
                 | _ => false
                 end in
      if cut then quiet_suffix sg r [] else quiet_suffix sg r (e :: acc)
  end.
Definition ups_at_end (h : list ev) : list pid :=
  fold_left (fun up e => match e with
                         | EUp p => add_pid p up
                         | EKill p _ | EExit p _ _ => remove_pid p up
                         | _ => up
                         end) h [].
Definition mon_successor (settled : bool) (h : list ev) : bool :=
  let q := quiet_suffix (signalled h) h [] in
  if settled && existsb (fun e => match e with EStart _ => true | _ => false end) q
  then Nat.eqb (length (ups_at_end h)) 1
  else true.

Definition monitor (settled : bool) (h : list ev) : bool :=
  mon_exclusive h && mon_content h && mon_released h && mon_successor settled h.

(* the over-literal reading examined in PidfileProofs (two processes hold pid-file locks at once,
   on different inodes): counted by the driver, not part of [monitor] *)
Definition two_lockers (h : list ev) : bool :=
  existsb (fun e => match snap_of e with
                    | Some sn => Nat.ltb 1 (length (nodup Nat.eq_dec (map (fun x => snd (fst x)) (sn_locks sn))))
                    | None => false
                    end) h.
