(* Trigger.v -- model of the harvest cadence of one agent run.
   (a) functional plan: collector/event_data.go (UnmarshalJSON of event_harvest_config and
       span_event_harvest_config, getEventConfig), app.go (combineEventConfig / parseConnectReply),
       harvest_trigger.go (isHarvestAll, checkReportPeriod, customTriggerBuilder, getHarvestTrigger);
   (a') the zero-limit guards of processor.go harvestByType;
   (b) the goroutine LTS: see TriggerLts.v.
   Definitions only; proofs are in TriggerProofs.v. *)
From Coq Require Import NArith ZArith List Bool.
From Verif.Gen Require Import Limits_gen HarvestBits_gen.
Import ListNotations.
Open Scope Z_scope.

(* ------------------------------------------------------------------ the connect reply, as JSON facts *)
(* a *int limit: None = key absent or null; the value may be negative (=> parse error) *)
Record ehc_json := {
  e_ms : option N;                    (* report_period_ms: None = absent (default 60000 stays) *)
  e_error : option Z; e_txn : option Z; e_custom : option Z; e_span : option Z; e_log : option Z  (* harvest_limits.* *)
}.
Inductive slimit := SLAbsent | SLNull | SLVal (z : Z).   (* span harvest_limit: the default is a non-nil pointer *)
Record sehc_json := { s_ms : option N; s_limit : slimit }.
(* None = the key is absent from the reply (UnmarshalJSON is not called, the Go zero value stays);
   a JSON null or {} is Some with every field absent *)
Record reply := { r_ehc : option ehc_json; r_sehc : option sehc_json }.

(* ------------------------------------------------------------------ Go arithmetic *)
Definition wrap64 (z : Z) : Z := (z + 2^63) mod 2^64 - 2^63.     (* int64 two's complement *)
(* time.Duration(ms) * time.Millisecond with ms : uint64 *)
Definition dur_of_ms (ms : N) : Z := wrap64 (Z.of_N ms * 1000000).
Definition ms_ok (ms : N) : Prop := Z.of_N ms * 1000000 < 2^63.  (* no overflow: period below 2^63 ns *)
Definition ms_okb (ms : N) : bool := Z.of_N ms * 1000000 <? 2^63.

Record event := { limit : Z; period : Z }.            (* collector.Event *)
Record evconfigs := { c_error : event; c_txn : event; c_custom : event; c_span : event; c_log : event }.
Record ehconfig := { report_period : Z; configs : evconfigs }.   (* collector.EventHarvestConfig *)

Definition zero_event : event := {| limit := 0; period := 0 |}.
Definition zero_ehconfig : ehconfig :=
  {| report_period := 0;
     configs := {| c_error := zero_event; c_txn := zero_event; c_custom := zero_event;
                   c_span := zero_event; c_log := zero_event |} |}.

(* func getEventConfig(rawLimit *int, collectorRate, defaultLimit, defaultRate) *)
Definition get_event_config (raw : option Z) (rate : Z) (deflimit : Z) : option event :=
  match raw with
  | None => Some {| limit := deflimit; period := DefaultReportPeriod |}
  | Some l => if l <? 0 then None
              else Some {| limit := (if deflimit <? l then deflimit else l); period := rate |}
  end.

(* report period validation shared by both UnmarshalJSON: default 60000 ms when the key is absent,
   0 => default with a warning, else Duration(ms) * Millisecond *)
Definition report_period_of (ms : option N) : Z :=
  match ms with
  | None => DefaultReportPeriod          (* pre-set 60000 ms, * time.Millisecond *)
  | Some 0%N => DefaultReportPeriod
  | Some m => dur_of_ms m
  end.

(* func (daemonConfig *EventHarvestConfig) UnmarshalJSON *)
Definition unmarshal_ehc (j : ehc_json) : option ehconfig :=
  let rp := report_period_of (e_ms j) in
  match get_event_config (e_error j) rp MaxErrorEvents with None => None | Some er =>
  match get_event_config (e_txn j) rp MaxTxnEvents with None => None | Some tx =>
  match get_event_config (e_custom j) rp MaxCustomMaxEvents with None => None | Some cu =>
  match get_event_config (e_span j) rp MaxSpanMaxEvents with None => None | Some sp =>
  match get_event_config (e_log j) rp MaxLogMaxEvents with None => None | Some lg =>
    Some {| report_period := rp;
            configs := {| c_error := er; c_txn := tx; c_custom := cu; c_span := sp; c_log := lg |} |}
  end end end end end.

(* func (daemonConfig *SpanEventHarvestConfig) UnmarshalJSON *)
Definition unmarshal_sehc (j : sehc_json) : option event :=
  let rp := report_period_of (s_ms j) in
  let raw := match s_limit j with SLAbsent => Some MaxSpanMaxEvents | SLNull => None | SLVal z => Some z end in
  get_event_config raw rp MaxSpanMaxEvents.

(* parseConnectReply (the two harvest configs only) + combineEventConfig *)
Definition parse_reply (r : reply) : option ehconfig :=
  match (match r_ehc r with None => Some zero_ehconfig | Some j => unmarshal_ehc j end) with
  | None => None
  | Some ehc =>
    match (match r_sehc r with None => Some zero_event | Some j => unmarshal_sehc j end) with
    | None => None
    | Some sp =>
        let c := configs ehc in
        Some {| report_period := report_period ehc;
                configs := {| c_error := c_error c; c_txn := c_txn c; c_custom := c_custom c;
                              c_span := sp; c_log := c_log c |} |}
    end
  end.

(* func (reply *ConnectReply) isHarvestAll() -- reply is never nil on this path *)
Definition is_harvest_all (h : ehconfig) : bool :=
  let c := configs h in let rp := report_period h in
  if negb (period (c_error c) =? rp) || negb (period (c_txn c) =? rp) || negb (period (c_custom c) =? rp)
     || negb (period (c_span c) =? rp) || negb (period (c_log c) =? rp)
  then false
  else rp =? DefaultReportPeriod.

(* func checkReportPeriod(period, defaultPeriod, event) *)
Definition check_report_period (p : Z) : Z := if p =? 0 then DefaultReportPeriod else p.

(* customTriggerBuilder: six triggerBuilder(type, period), in broadcast-group order *)
Definition custom_plan (h : ehconfig) : list (N * Z) :=
  let c := configs h in
  [ (HarvestDefaultData, DefaultReportPeriod);
    (HarvestTxnEvents, check_report_period (period (c_txn c)));
    (HarvestCustomEvents, check_report_period (period (c_custom c)));
    (HarvestErrorEvents, check_report_period (period (c_error c)));
    (HarvestSpanEvents, check_report_period (period (c_span c)));
    (HarvestLogEvents, check_report_period (period (c_log c))) ].

(* getHarvestTrigger: the tickers that will be created, as (harvest type mask, duration in ns) *)
Definition plan_of (h : ehconfig) : list (N * Z) :=
  if is_harvest_all h then [(HarvestAll, DefaultReportPeriod)] else custom_plan h.

Definition trigger_plan (r : reply) : option (list (N * Z)) :=
  match parse_reply r with None => None | Some h => Some (plan_of h) end.

(* effective limits of the run (EventHarvestConfig.EventConfigs after combineEventConfig) *)
Definition plan_limits (r : reply) : option (list Z) :=
  match parse_reply r with
  | None => None
  | Some h => let c := configs h in
      Some [limit (c_txn c); limit (c_custom c); limit (c_error c); limit (c_span c); limit (c_log c)]
  end.

(* ------------------------------------------------------------------ the property's reading of a reply *)
(* period the collector assigned to a category; absent or zero meaning 60 s (60000000000 ns) *)
Definition spec_ms (ms : option N) : Z :=
  match ms with None => 60000000000 | Some 0%N => 60000000000 | Some m => Z.of_N m * 1000000 end.

Inductive category := CatDefault | CatTxn | CatCustom | CatError | CatSpan | CatLog.

Definition spec_period (r : reply) (c : category) : Z :=
  let of_ehc (sel : ehc_json -> option Z) :=
    match r_ehc r with
    | Some j => match sel j with Some _ => spec_ms (e_ms j) | None => 60000000000 end
    | None => 60000000000
    end in
  match c with
  | CatDefault => 60000000000
  | CatTxn => of_ehc e_txn
  | CatCustom => of_ehc e_custom
  | CatError => of_ehc e_error
  | CatLog => of_ehc e_log
  | CatSpan => match r_sehc r with
               | Some j => match s_limit j with SLNull => 60000000000 | _ => spec_ms (s_ms j) end
               | None => 60000000000
               end
  end.

(* the ten data-category bits of HarvestType (1 << 0 .. 1 << 9) and the category each belongs to *)
Definition bit_category (b : N) : category :=
  if (b =? 4)%N then CatTxn else if (b =? 5)%N then CatCustom else if (b =? 6)%N then CatError
  else if (b =? 7)%N then CatSpan else if (b =? 8)%N then CatLog else CatDefault.
Definition all_bits : list N := [0; 1; 2; 3; 4; 5; 6; 7; 8; 9]%N.

Definition covers (mask : N) (b : N) : bool := N.testbit mask b.

(* periods of the plan entries that cover bit b *)
Definition covering (plan : list (N * Z)) (b : N) : list Z :=
  map snd (filter (fun e => covers (fst e) b) plan).

(* ---- monitor (model-independent, documented numbers only) ----
   observed: the (type mask, duration) of every ticker the implementation created for the reply.
   cadence: every category bit is covered by exactly one ticker whose duration is the assigned period;
   combined: when every assigned period is 60 s, both configuration objects are present and the
   report period of event_harvest_config is 60 s too, there is one ticker (1023, 60 s);
   a single ticker is always (1023, 60 s). *)
Definition all_cats : list category := [CatDefault; CatTxn; CatCustom; CatError; CatSpan; CatLog].

Definition cadence_ok (r : reply) (tickers : list (N * Z)) : bool :=
  forallb (fun b => match covering tickers b with
                    | [p] => p =? spec_period r (bit_category b)
                    | _ => false
                    end) all_bits
  && forallb (fun e => (fst e <? 1024)%N && (0 <? snd e)) tickers.

Definition combined_expected (r : reply) : bool :=
  forallb (fun c => spec_period r c =? 60000000000) all_cats
  && match r_ehc r, r_sehc r with Some e, Some _ => spec_ms (e_ms e) =? 60000000000 | _, _ => false end.

Definition plan_monitor (r : reply) (tickers : list (N * Z)) : bool :=
  cadence_ok r tickers
  && (if combined_expected r then match tickers with [(m, p)] => (m =? 1023)%N && (p =? 60000000000) | _ => false end
      else true)
  && match tickers with [(m, p)] => (m =? 1023)%N && (p =? 60000000000) | _ => true end.

(* inputs on which the statement speaks: limits not negative (the reply parses), no overflow *)
Definition reply_in_range (r : reply) : bool :=
  match r_ehc r with Some j => match e_ms j with Some m => ms_okb m | None => true end | None => true end
  && match r_sehc r with Some j => match s_ms j with Some m => ms_okb m | None => true end | None => true end.

(* ------------------------------------------------------------------ (a') harvestByType zero-limit guards *)
(* event containers: capacity = the limit the harvest was created with; len <= cap *)
Inductive ecat := ETxn | ECustom | EError | ESpan | ELog.
Definition ecats : list ecat := [ECustom; EError; ETxn; ESpan; ELog].    (* order of the guards *)
Definition ecat_bit (c : ecat) : N :=
  match c with ETxn => HarvestTxnEvents | ECustom => HarvestCustomEvents | EError => HarvestErrorEvents
             | ESpan => HarvestSpanEvents | ELog => HarvestLogEvents end.
Definition ecat_eqb (a b : ecat) : bool :=
  match a, b with ETxn, ETxn | ECustom, ECustom | EError, EError | ESpan, ESpan | ELog, ELog => true | _, _ => false end.

Record hstate := { lims : ecat -> N; lens : ecat -> N; default_nonempty : bool }.
Definition set_len (h : hstate) (c : ecat) (n : N) : hstate :=
  {| lims := lims h; lens := (fun x => if ecat_eqb x c then n else lens h x); default_nonempty := default_nonempty h |}.

Inductive hop :=
| HAdd (c : ecat)            (* analyticsEvents.AddEvent on the category's reservoir *)
| HAddDefault                (* a metric / error / trace / slow sql / package arrives *)
| HHarvest (ht : N).         (* harvestByType with any type mask *)

Inductive emitted := EmDefault | EmEvents (c : ecat).

(* AddEvent: `if len < cap { push }`, `if 0 == cap { return }`, otherwise replace (len unchanged) *)
Definition add_event (h : hstate) (c : ecat) : hstate :=
  if (lens h c <? lims h c)%N then set_len h c (lens h c + 1)%N else h.

(* considerHarvestPayload: `if p.Empty() { return }` *)
Definition consider (h : hstate) (c : ecat) : list emitted :=
  if (lens h c =? 0)%N then [] else [EmEvents c].

Definition has_mask (ht m : N) : bool := (N.land ht m =? m)%N.

Definition fresh (h : hstate) : hstate :=
  {| lims := lims h; lens := (fun _ => 0%N); default_nonempty := false |}.

(* one guarded block: `if ht&X == X && eventConfigs.XConfig.Limit != 0 { swap the container; consider it }` *)
Definition zstep (ht : N) (acc : list emitted * hstate) (c : ecat) : list emitted * hstate :=
  let '(out, hh) := acc in
  if has_mask ht (ecat_bit c) && negb (lims hh c =? 0)%N
  then (out ++ consider hh c, set_len hh c 0%N) else (out, hh).

Definition harvest_by_type (h : hstate) (ht : N) : list emitted * hstate :=
  if has_mask ht HarvestAll then
    (* ah.Harvest = NewHarvest(...); harvestAll(old harvest): every container, skipped when Empty() *)
    ((if default_nonempty h then [EmDefault] else []) ++ flat_map (consider h) ecats, fresh h)
  else
    let '(out0, h0) :=
      if has_mask ht HarvestDefaultData
      then ((if default_nonempty h then [EmDefault] else []),
            {| lims := lims h; lens := lens h; default_nonempty := false |})
      else ([], h) in
    fold_left (zstep ht) ecats (out0, h0).

Definition hstep (acc : list emitted * hstate) (o : hop) : list emitted * hstate :=
  let '(out, h) := acc in
  match o with
  | HAdd c => (out, add_event h c)
  | HAddDefault => (out, {| lims := lims h; lens := lens h; default_nonempty := true |})
  | HHarvest ht => let '(o', h') := harvest_by_type h ht in (out ++ o', h')
  end.

Definition hinit (l : ecat -> N) : hstate := {| lims := l; lens := (fun _ => 0%N); default_nonempty := false |}.
Definition hrun (l : ecat -> N) (ops : list hop) : list emitted * hstate := fold_left hstep ops ([], hinit l).
