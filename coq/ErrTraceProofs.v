(* ErrTraceProofs.v -- properties of the ErrorHeap and TxnTraces models (ErrTrace.v). *)
From Coq Require Import List ZArith Arith Bool Lia Permutation.
From Verif Require Import Heap HeapProofs TopK TopKProofs ErrTrace.
From Verif.Gen Require Import Limits_gen.
Import ListNotations.
Open Scope nat_scope.

(* ------------------------------------------------------------------ a bounded min-heap, generically *)
Section Bounded.
  Context {A : Type} (less : A -> A -> bool) (key : A -> Z).
  Hypothesis less_key : forall a b, less a b = (key a <? key b)%Z.

  Lemma bh_push K l off e :
    heap_ordered key l -> length l < K -> topk_inv key K l off ->
    heap_ordered key (push less l e) /\ length (push less l e) = S (length l) /\
    topk_inv key K (push less l e) (off ++ [e]).
  Proof.
    intros Ho Hlt Hinv. split; [apply (push_ordered less key less_key); exact Ho|].
    split; [apply push_length|].
    eapply topk_inv_grow; [exact Hinv|exact Hlt|apply push_perm].
  Qed.

  Lemma bh_refuse K root t off e :
    heap_ordered key (root :: t) -> K <= length (root :: t) -> (key e <= key root)%Z ->
    topk_inv key K (root :: t) off -> topk_inv key K (root :: t) (off ++ [e]).
  Proof.
    intros Ho Hge Hle Hinv. apply topk_inv_refuse; [exact Hinv|exact Hge|].
    intros x Hx. pose proof (root_min key root t Ho x Hx). lia.
  Qed.

  Lemma bh_replace K root t off e :
    heap_ordered key (root :: t) -> K <= length (root :: t) -> (key root <= key e)%Z ->
    topk_inv key K (root :: t) off ->
    exists it', pop less (root :: t) = Some (root, it') /\
      heap_ordered key (push less it' e) /\ length (push less it' e) = length (root :: t) /\
      topk_inv key K (push less it' e) (off ++ [e]) /\
      Permutation (root :: t) (root :: it') /\ Permutation (push less it' e) (e :: it').
  Proof.
    intros Ho Hge Hle Hinv.
    destruct (pop_some less root t) as [x [it' Hpop]].
    destruct (pop_spec less key less_key root t x it' Ho Hpop) as [-> [Hperm [Hord Hl']]].
    exists it'. split; [exact Hpop|].
    split; [apply (push_ordered less key less_key); exact Hord|].
    split; [rewrite push_length; cbn [length]; lia|].
    split; [|split; [exact Hperm|apply push_perm]].
    eapply topk_inv_replace with (m := root) (rest := it').
    - exact Hinv.
    - exact Hge.
    - exact Hperm.
    - intros y Hy. apply (root_min key root t Ho y Hy).
    - exact Hle.
    - apply push_perm.
  Qed.
End Bounded.

(* ------------------------------------------------------------------ errors *)
Lemma err_less_key : forall a b, err_less a b = (e_prio a <? e_prio b)%Z.
Proof. reflexivity. Qed.

Definition wfE (h : eheap) : Prop :=
  length (e_items h) <= e_cap h /\ heap_ordered e_prio (e_items h).

Lemma wfE_new K : wfE (new_error_heap K).
Proof. split; cbn; [lia|apply heap_ordered_nil]. Qed.

Lemma add_error_inv h e off :
  wfE h -> 0 < e_cap h -> topk_inv e_prio (e_cap h) (e_items h) off ->
  exists h', add_error h e = Some h' /\ wfE h' /\ e_cap h' = e_cap h /\
    topk_inv e_prio (e_cap h) (e_items h') (off ++ [e]) /\
    err_step_ok (e_cap h) (e_items h) e (e_items h').
Proof.
  intros [Hlen Ho] Hpos Hinv. unfold add_error.
  destruct (length (e_items h) =? e_cap h) eqn:E.
  - apply Nat.eqb_eq in E.
    destruct (e_items h) as [|root t] eqn:Eit; [cbn in E; lia|].
    destruct (e_prio e <=? e_prio root)%Z eqn:El.
    + apply Z.leb_le in El. exists h. rewrite Eit.
      refine (conj eq_refl (conj _ (conj eq_refl (conj _ _)))).
      * split; [rewrite Eit; lia|rewrite Eit; exact Ho].
      * apply (bh_refuse e_prio); try assumption. lia.
      * right. left. refine (conj E (conj eq_refl _)).
        intros x Hx. pose proof (root_min e_prio root t Ho x Hx). lia.
    + apply Z.leb_gt in El.
      destruct (bh_replace err_less e_prio err_less_key (e_cap h) root t off e Ho ltac:(lia) ltac:(lia) Hinv)
        as [it' [Hpop [Hord [Hl [Hinv' [Hp1 Hp2]]]]]].
      rewrite Hpop. eexists. split; [reflexivity|]. cbn [e_items e_cap].
      refine (conj _ (conj eq_refl (conj Hinv' _))).
      * split; [cbn [e_items e_cap]; lia|exact Hord].
      * right. right. split; [exact E|]. exists root, it'.
        refine (conj Hp1 (conj Hp2 (conj El _))).
        intros x Hx. apply (root_min e_prio root t Ho x Hx).
  - apply Nat.eqb_neq in E.
    assert (Hlt : length (e_items h) < e_cap h) by lia.
    destruct (bh_push err_less e_prio err_less_key (e_cap h) (e_items h) off e Ho Hlt Hinv) as [H1 [H2 H3]].
    eexists. split; [reflexivity|]. cbn [e_items e_cap].
    refine (conj _ (conj eq_refl (conj H3 _))).
    + split; [cbn [e_items e_cap]; lia|exact H1].
    + left. split; [exact Hlt|apply push_perm].
Qed.

Lemma errors_run es : forall h off,
  wfE h -> 0 < e_cap h -> topk_inv e_prio (e_cap h) (e_items h) off ->
  exists h', fold_left (opt_step add_error) es (Some h) = Some h' /\ wfE h' /\ e_cap h' = e_cap h /\
    topk_inv e_prio (e_cap h) (e_items h') (off ++ es).
Proof.
  induction es as [|e es IH]; intros h off Hwf Hpos Hinv; cbn [fold_left opt_step].
  - exists h. rewrite app_nil_r. exact (conj eq_refl (conj Hwf (conj eq_refl Hinv))).
  - destruct (add_error_inv h e off Hwf Hpos Hinv) as [h1 [Hadd [Hwf1 [Hc1 [Hinv1 _]]]]].
    rewrite Hadd. rewrite <- Hc1 in Hinv1.
    destruct (IH h1 (off ++ [e]) Hwf1 ltac:(lia) Hinv1) as [h2 [Hrun [Hwf2 [Hc2 Hinv2]]]].
    exists h2. rewrite <- app_assoc in Hinv2. cbn [app] in Hinv2. rewrite Hc1 in Hinv2.
    refine (conj Hrun (conj Hwf2 (conj _ Hinv2))). congruence.
Qed.

Lemma errors_run_new K es : 0 < K ->
  exists h, run_errors K es = Some h /\ wfE h /\ e_cap h = K /\ topk_inv e_prio K (e_items h) es.
Proof.
  intros HK. unfold run_errors.
  destruct (errors_run es (new_error_heap K) [] (wfE_new K) HK (topk_inv_nil e_prio K)) as [h [H1 [H2 [H3 H4]]]].
  exists h. cbn in H3, H4. exact (conj H1 (conj H2 (conj H3 H4))).
Qed.

(* Retained errors are K highest-priority ones; an AddError never panics for K > 0; and each single
   AddError either keeps the new error (room), or refuses it because every retained error has at least
   its priority, or displaces a minimal retained error of STRICTLY lower priority. *)
Lemma errors_topk_fifo : forall K es, 0 < K ->
  (exists h, run_errors K es = Some h /\ topk_rel e_prio K (e_items h) es /\ length (e_items h) <= K) /\
  (forall pre e post, es = pre ++ e :: post ->
     exists h1 h2, run_errors K pre = Some h1 /\ run_errors K (pre ++ [e]) = Some h2 /\
                   err_step_ok K (e_items h1) e (e_items h2)).
Proof.
  intros K es HK. split.
  - destruct (errors_run_new K es HK) as [h [H1 [[H2 _] [H3 H4]]]].
    exists h. split; [exact H1|]. split; [apply topk_inv_rel; exact H4|lia].
  - intros pre e post _.
    destruct (errors_run_new K pre HK) as [h1 [H1 [Hwf [Hc Hinv]]]].
    rewrite <- Hc in Hinv.
    destruct (add_error_inv h1 e pre Hwf ltac:(lia) Hinv) as [h2 [Hadd [_ [_ [_ Hstep]]]]].
    exists h1, h2. split; [exact H1|]. split.
    + unfold run_errors in *. rewrite fold_left_app, H1. cbn [fold_left opt_step]. exact Hadd.
    + rewrite Hc in Hstep. exact Hstep.
Qed.

(* capacity 0 is a crash, not silence (the daemon only builds NewErrorHeap(limits.MaxErrors)) *)
Lemma add_error_cap0_panics e : add_error (new_error_heap 0) e = None.
Proof. reflexivity. Qed.

Lemma max_errors_documented : MaxErrors = 20%Z.
Proof. reflexivity. Qed.

(* C05: at most 20 errors *)
Lemma errors_len_le_cap es h :
  run_errors (Z.to_nat MaxErrors) es = Some h -> length (e_items h) <= 20.
Proof.
  intros H. destruct (errors_topk_fifo (Z.to_nat MaxErrors) es ltac:(cbn; lia)) as [[h' [H1 [_ H3]]] _].
  rewrite H in H1. injection H1 as <-. exact H3.
Qed.

(* ------------------------------------------------------------------ traces *)
Lemma trace_less_key : forall a b, trace_less a b = (t_dur a <? t_dur b)%Z.
Proof. reflexivity. Qed.

Definition wfT (h : theap) : Prop :=
  length (t_items h) <= t_cap h /\ heap_ordered t_dur (t_items h).

Lemma wfT_new K : wfT (new_txn_trace_heap K).
Proof. split; cbn; [lia|apply heap_ordered_nil]. Qed.

Lemma heap_add_trace_inv h t off :
  wfT h -> 0 < t_cap h -> topk_inv t_dur (t_cap h) (t_items h) off ->
  exists h', heap_add_trace h t = Some h' /\ wfT h' /\ t_cap h' = t_cap h /\
    topk_inv t_dur (t_cap h) (t_items h') (off ++ [t]).
Proof.
  intros [Hlen Ho] Hpos Hinv. unfold heap_add_trace.
  destruct (length (t_items h) <? t_cap h) eqn:E.
  - apply Nat.ltb_lt in E.
    destruct (bh_push trace_less t_dur trace_less_key (t_cap h) (t_items h) off t Ho E Hinv) as [H1 [H2 H3]].
    eexists. split; [reflexivity|]. cbn [t_items t_cap].
    refine (conj _ (conj eq_refl H3)). split; [cbn [t_items t_cap]; lia|exact H1].
  - apply Nat.ltb_ge in E.
    destruct (t_items h) as [|root r] eqn:Eit; [cbn in E; lia|].
    destruct (t_dur t <? t_dur root)%Z eqn:El.
    + apply Z.ltb_lt in El. exists h. rewrite Eit.
      refine (conj eq_refl (conj _ (conj eq_refl _))).
      * split; [rewrite Eit; exact Hlen|rewrite Eit; exact Ho].
      * apply (bh_refuse t_dur); try assumption. lia.
    + apply Z.ltb_ge in El.
      destruct (bh_replace trace_less t_dur trace_less_key (t_cap h) root r off t Ho E El Hinv)
        as [it' [Hpop [Hord [Hl [Hinv' _]]]]].
      rewrite Hpop. eexists. split; [reflexivity|]. cbn [t_items t_cap].
      refine (conj _ (conj eq_refl Hinv')). split; [cbn [t_items t_cap]; lia|exact Hord].
Qed.

Lemma pool_caps_documented :
  t_cap (regular new_txn_traces) = 1 /\ t_cap (force_persisted new_txn_traces) = 10 /\
  t_cap (synthetics new_txn_traces) = 20.
Proof. repeat split. Qed.

(* per-pool invariant after offering the traces l *)
Definition pools_inv (ts : traces) (l : list trace) : Prop :=
  forall p, wfT (get_pool ts p) /\ t_cap (get_pool ts p) = pool_limit p /\
            topk_inv t_dur (pool_limit p) (t_items (get_pool ts p)) (of_pool p l).

Lemma pools_inv_new : pools_inv new_txn_traces [].
Proof.
  intros p. destruct p; cbn [get_pool new_txn_traces regular force_persisted synthetics];
    (split; [apply wfT_new|split; [reflexivity|apply topk_inv_nil]]).
Qed.

Lemma of_pool_snoc p l t :
  of_pool p (l ++ [t]) = of_pool p l ++ (if pool_eqb (pool_of t) p then [t] else []).
Proof. unfold of_pool. rewrite filter_app. cbn [filter]. reflexivity. Qed.

Lemma pool_limit_pos p : 0 < pool_limit p.
Proof. destruct p; cbn; lia. Qed.

Lemma add_txn_trace_inv ts l t :
  pools_inv ts l -> exists ts', add_txn_trace ts t = Some ts' /\ pools_inv ts' (l ++ [t]).
Proof.
  intros Hinv. unfold add_txn_trace.
  destruct (t_synth t) eqn:Es; [|destruct (t_force t) eqn:Ef].
  - destruct (Hinv PSynth) as [Hw [Hc Hi]]. cbn [get_pool] in *. rewrite <- Hc in Hi.
    destruct (heap_add_trace_inv (synthetics ts) t _ Hw ltac:(rewrite Hc; cbn; lia) Hi) as [h' [Ha [Hw' [Hc' Hi']]]].
    rewrite Ha. eexists. split; [reflexivity|].
    intros p. rewrite of_pool_snoc. unfold pool_of. rewrite Es.
    destruct p; cbn [get_pool regular force_persisted synthetics pool_eqb].
    + rewrite app_nil_r. apply (Hinv PRegular).
    + rewrite app_nil_r. apply (Hinv PForce).
    + split; [exact Hw'|]. split; [congruence|]. rewrite Hc in Hi'. exact Hi'.
  - destruct (Hinv PForce) as [Hw [Hc Hi]]. cbn [get_pool] in *. rewrite <- Hc in Hi.
    destruct (heap_add_trace_inv (force_persisted ts) t _ Hw ltac:(rewrite Hc; cbn; lia) Hi) as [h' [Ha [Hw' [Hc' Hi']]]].
    rewrite Ha. eexists. split; [reflexivity|].
    intros p. rewrite of_pool_snoc. unfold pool_of. rewrite Es, Ef.
    destruct p; cbn [get_pool regular force_persisted synthetics pool_eqb].
    + rewrite app_nil_r. apply (Hinv PRegular).
    + split; [exact Hw'|]. split; [congruence|]. rewrite Hc in Hi'. exact Hi'.
    + rewrite app_nil_r. apply (Hinv PSynth).
  - destruct (Hinv PRegular) as [Hw [Hc Hi]]. cbn [get_pool] in *. rewrite <- Hc in Hi.
    destruct (heap_add_trace_inv (regular ts) t _ Hw ltac:(rewrite Hc; cbn; lia) Hi) as [h' [Ha [Hw' [Hc' Hi']]]].
    rewrite Ha. eexists. split; [reflexivity|].
    intros p. rewrite of_pool_snoc. unfold pool_of. rewrite Es, Ef.
    destruct p; cbn [get_pool regular force_persisted synthetics pool_eqb].
    + split; [exact Hw'|]. split; [congruence|]. rewrite Hc in Hi'. exact Hi'.
    + rewrite app_nil_r. apply (Hinv PForce).
    + rewrite app_nil_r. apply (Hinv PSynth).
Qed.

Lemma traces_run l : forall ts l0,
  pools_inv ts l0 ->
  exists ts', fold_left (opt_step add_txn_trace) l (Some ts) = Some ts' /\ pools_inv ts' (l0 ++ l).
Proof.
  induction l as [|t l IH]; intros ts l0 Hinv; cbn [fold_left opt_step].
  - exists ts. rewrite app_nil_r. auto.
  - destruct (add_txn_trace_inv ts l0 t Hinv) as [ts1 [Ha Hinv1]]. rewrite Ha.
    destruct (IH ts1 (l0 ++ [t]) Hinv1) as [ts2 [Hr Hinv2]].
    exists ts2. rewrite <- app_assoc in Hinv2. auto.
Qed.

(* In each pool the retained traces are the longest-running ones of that kind: 1 regular,
   10 force-persisted, 20 synthetics (synthetics wins over force-persist); never a panic. *)
Lemma traces_longest : forall l,
  exists ts, run_traces l = Some ts /\
    forall p, topk_rel t_dur (pool_limit p) (t_items (get_pool ts p)) (of_pool p l) /\
              length (t_items (get_pool ts p)) <= pool_limit p.
Proof.
  intros l. unfold run_traces.
  destruct (traces_run l new_txn_traces [] pools_inv_new) as [ts [Hr Hinv]].
  exists ts. split; [exact Hr|]. intros p. cbn [app] in Hinv.
  destruct (Hinv p) as [[Hl _] [Hc Hi]]. split; [apply topk_inv_rel; exact Hi|lia].
Qed.

(* the IsKeeper gate at the call site changes nothing: IsKeeper says no exactly when AddTxnTrace
   would leave the pools as they are *)
Lemma heap_keeper_add h t :
  match heap_is_keeper h t with
  | Some true => True
  | Some false => heap_add_trace h t = Some h
  | None => heap_add_trace h t = None
  end.
Proof.
  unfold heap_is_keeper, heap_add_trace.
  destruct (length (t_items h) <? t_cap h); [exact I|].
  destruct (t_items h) as [|root r]; [reflexivity|].
  destruct (t_dur root <=? t_dur t)%Z eqn:E; [exact I|].
  apply Z.leb_gt in E. apply Z.ltb_lt in E. rewrite E. reflexivity.
Qed.

Lemma offer_trace_eq ts t : offer_trace ts t = add_txn_trace ts t.
Proof.
  unfold offer_trace, is_keeper, add_txn_trace.
  destruct (t_synth t); [|destruct (t_force t)].
  - pose proof (heap_keeper_add (synthetics ts) t) as H.
    destruct (heap_is_keeper (synthetics ts) t) as [[|]|]; [reflexivity| |]; rewrite H; [|reflexivity].
    destruct ts; reflexivity.
  - pose proof (heap_keeper_add (force_persisted ts) t) as H.
    destruct (heap_is_keeper (force_persisted ts) t) as [[|]|]; [reflexivity| |]; rewrite H; [|reflexivity].
    destruct ts; reflexivity.
  - pose proof (heap_keeper_add (regular ts) t) as H.
    destruct (heap_is_keeper (regular ts) t) as [[|]|]; [reflexivity| |]; rewrite H; [|reflexivity].
    destruct ts; reflexivity.
Qed.

Lemma run_offers_eq l : run_offers l = run_traces l.
Proof.
  unfold run_offers, run_traces. generalize (Some new_txn_traces) as s.
  induction l as [|t l IH]; intros s; cbn [fold_left]; [reflexivity|].
  rewrite IH. f_equal. destruct s as [ts|]; cbn [opt_step]; [apply offer_trace_eq|reflexivity].
Qed.

Lemma traces_longest_gate : forall l,
  (exists ts, run_traces l = Some ts /\
     forall p, topk_rel t_dur (pool_limit p) (t_items (get_pool ts p)) (of_pool p l) /\
               length (t_items (get_pool ts p)) <= pool_limit p) /\
  run_offers l = run_traces l.
Proof. intros l. split; [apply traces_longest|apply run_offers_eq]. Qed.

(* C05: at most 1 / 10 / 20 traces *)
Lemma traces_len_le_cap l ts p :
  run_traces l = Some ts -> length (t_items (get_pool ts p)) <= pool_limit p.
Proof.
  intros H. destruct (traces_longest l) as [ts' [H1 H2]]. rewrite H in H1. injection H1 as <-.
  apply H2.
Qed.

(* ------------------------------------------------------------------ non-vacuity *)
Example errors_example :
  option_map (fun h => map e_tag (e_items h))
    (run_errors 2 [mkErr 5 1; mkErr 5 2; mkErr 5 3; mkErr 7 4; mkErr 1 5]) = Some [2%N; 4%N].
Proof. vm_compute. reflexivity. Qed.

Example traces_example :
  option_map (fun ts => map t_tag (t_items (regular ts)))
    (run_traces [mkTrace 5 false false 1; mkTrace 5 false false 2; mkTrace 4 false false 3]) = Some [2%N].
Proof. vm_compute. reflexivity. Qed.
