(* ConfigSpec.v -- the inputs the C19 property speaks about, as data: configuration files written in
   every documented syntax and command lines written in every flag spelling, with the function that
   renders them to bytes / argv and the settings they are MEANT to give.  Definitions only.

   The lexer theorems say that the model (Config.v) reads a rendered input back as its meaning. *)
From Coq Require Import NArith ZArith List Bool.
From Verif Require Import ConfigBase Config.
Import ListNotations.
Open Scope N_scope.

(* the facts about the rune classes the theorems need: the delimiters are neither spaces nor part of a
   keyword, a line feed is a space *)
Record class_facts (is_space is_letter is_number : N -> bool) : Prop := {
  cf_eq_space : is_space 61 = false;            (* '=' *)
  cf_eq_letter : is_letter 61 = false;
  cf_eq_number : is_number 61 = false;
  cf_sq_space : is_space 39 = false;            (* single quote *)
  cf_dq_space : is_space 34 = false;            (* double quote *)
  cf_hash_space : is_space 35 = false;          (* # *)
  cf_semi_space : is_space 59 = false;          (* ; *)
  cf_nl_space : is_space 10 = true
}.

Section Spec.
  Variables (is_space is_letter is_number : N -> bool).

  Notation is_alnum := (is_alnum is_letter is_number).

  (* ---------------------------------------------------------------- files *)

  Inductive eol := EolNL | EolEOF.

  Inductive vstyle :=
  | VSingle (v : bytes)                                          (* v between single quotes *)
  | VDouble (e : bytes)                                          (* e between double quotes, meaning unescape e *)
  | VRaw (c : N) (v ws : bytes) (cm : option (N * bytes)) (e : eol)  (* c v, blanks, comment, end of line *)
  | VBlank (e : eol).                                            (* nothing up to the end of the line *)

  Record fassign := {
    fa_lead : bytes;      (* white space (line feeds included) before the keyword *)
    fa_k0 : N;            (* first character of the keyword *)
    fa_ks : bytes;        (* the rest of the keyword *)
    fa_ws1 : bytes;       (* white space between keyword and '=' *)
    fa_ws2 : bytes;       (* white space between '=' and the value, no line feed *)
    fa_val : vstyle
  }.

  Inductive fitem :=
  | FAssign (a : fassign)
  | FComment (lead : bytes) (c : N) (text : bytes) (e : eol).

  Definition render_eol (e : eol) : bytes := match e with EolNL => [10] | EolEOF => [] end.
  Definition render_cm (cm : option (N * bytes)) : bytes :=
    match cm with Some (c, t) => c :: t | None => [] end.

  Definition render_val (s : vstyle) : bytes :=
    match s with
    | VSingle v => 39 :: v ++ [39]
    | VDouble e => 34 :: e ++ [34]
    | VRaw c v ws cm e => c :: v ++ ws ++ render_cm cm ++ render_eol e
    | VBlank e => render_eol e
    end.

  Definition render_item (it : fitem) : bytes :=
    match it with
    | FAssign a => fa_lead a ++ fa_k0 a :: fa_ks a ++ fa_ws1 a ++ 61 :: fa_ws2 a ++ render_val (fa_val a)
    | FComment lead c text e => lead ++ c :: text ++ render_eol e
    end.

  Definition render_file (items : list fitem) (trail : bytes) : bytes :=
    concat (map render_item items) ++ trail.

  (* the value a style stands for *)
  Definition value_of (s : vstyle) : bytes :=
    match s with
    | VSingle v => v
    | VDouble e => unescape e
    | VRaw c v _ _ _ => c :: v
    | VBlank _ => []
    end.

  Definition item_asg (it : fitem) : list assignment :=
    match it with
    | FAssign a => [(fa_k0 a :: fa_ks a, value_of (fa_val a))]
    | FComment _ _ _ _ => []
    end.

  Definition file_asg (items : list fitem) : list assignment := flat_map item_asg items.

  (* well-formedness.  White space and keyword characters are ASCII bytes of the respective class. *)
  Definition ws_byte (b : N) : bool := (b <? 128) && is_space b.
  Definition ws_inline (b : N) : bool := ws_byte b && negb (b =? 10).
  Definition ws_delim (b : N) : bool := ws_byte b && negb (is_alnum b) && negb (b =? 46).
  Definition kw_start (b : N) : bool :=
    (b <? 128) && is_letter b && negb (is_space b) && negb (b =? 35) && negb (b =? 59).
  Definition kw_char (b : N) : bool := (b <? 128) && (is_alnum b || (b =? 46)).
  Definition is_cm_start (c : N) : bool := (c =? 35) || (c =? 59).
  Definition plain_byte (b : N) : bool := negb (b =? 10) && negb (b =? 35) && negb (b =? 59).
  Definition nonspace_ascii (b : N) : bool := (b <? 128) && negb (is_space b).
  Definition last_ok (v : bytes) : bool := match rev v with [] => true | l :: _ => nonspace_ascii l end.

  Definition ends_eof_val (s : vstyle) : bool :=
    match s with VRaw _ _ _ _ EolEOF | VBlank EolEOF => true | _ => false end.
  Definition ends_eof (it : fitem) : bool :=
    match it with
    | FAssign a => ends_eof_val (fa_val a)
    | FComment _ _ _ EolEOF => true
    | _ => false
    end.

  Definition wf_cm (cm : option (N * bytes)) : bool :=
    match cm with Some (c, t) => is_cm_start c && negb (mem 10 t) | None => true end.

  Definition wf_val (s : vstyle) : bool :=
    match s with
    | VSingle v => negb (mem 39 v)
    | VDouble e => negb (mem 34 e)
    | VRaw c v ws cm _ =>
      nonspace_ascii c && negb (c =? 39) && negb (c =? 34)
      && forallb plain_byte v && last_ok v && forallb ws_inline ws && wf_cm cm
    | VBlank _ => true
    end.

  Definition wf_item (it : fitem) : bool :=
    match it with
    | FAssign a =>
      forallb ws_byte (fa_lead a) && kw_start (fa_k0 a) && forallb kw_char (fa_ks a)
      && forallb ws_delim (fa_ws1 a) && forallb ws_inline (fa_ws2 a) && wf_val (fa_val a)
    | FComment lead c text _ => forallb ws_byte lead && is_cm_start c && negb (mem 10 text)
    end.

  (* an item that runs to the end of the file is the last thing in the file *)
  Fixpoint wf_file (items : list fitem) (trail : bytes) : bool :=
    match items with
    | [] => forallb ws_byte trail
    | x :: r => wf_item x && (if ends_eof x then match r with [] => is_nil trail | _ => false end else wf_file r trail)
    end.

  (* the escaping a writer would use for a double-quoted value: \\ for a backslash; the control characters
     either escaped or literal *)
  Definition escape_byte (b : N) : bytes :=
    if b =? 92 then [92; 92]
    else if b =? 8 then [92; 98] else if b =? 9 then [92; 116] else if b =? 10 then [92; 110]
    else if b =? 11 then [92; 118] else if b =? 12 then [92; 102] else if b =? 13 then [92; 114]
    else [b].
  Definition escape (v : bytes) : bytes := flat_map escape_byte v.
  (* ... and with the escape the replacer table also lists for the quote itself *)
  Definition escape_q (v : bytes) : bytes := flat_map (fun b => if b =? 34 then [92; 34] else escape_byte b) v.

  (* ---------------------------------------------------------------- command lines *)

  Inductive citem :=
  | CVal (fd : flagdef) (dd eqf : bool) (v : bytes)       (* -name v | --name v | -name=v | --name=v *)
  | CBool (fd : flagdef) (dd : bool) (ov : option bytes). (* -name | --name | -name=v | --name=v *)

  Definition dashes (dd : bool) : bytes := if dd then [45; 45] else [45].

  Definition render_citem (it : citem) : list bytes :=
    match it with
    | CVal fd dd true v => [dashes dd ++ fl_name fd ++ 61 :: v]
    | CVal fd dd false v => [dashes dd ++ fl_name fd; v]
    | CBool fd dd None => [dashes dd ++ fl_name fd]
    | CBool fd dd (Some v) => [dashes dd ++ fl_name fd ++ 61 :: v]
    end.

  Definition render_cmd (items : list citem) : list bytes := concat (map render_citem items).

  Definition citem_flag (it : citem) : flagdef := match it with CVal fd _ _ _ | CBool fd _ _ => fd end.
  Definition citem_arg (it : citem) : bytes :=
    match it with CVal _ _ _ v => v | CBool _ _ (Some v) => v | CBool _ _ None => s_true end.

  (* a flag name the flag package can address: not empty, not starting with '-' or '=', without '=' *)
  Definition name_ok (n : bytes) : bool :=
    match n with [] => false | c :: r => negb (c =? 45) && negb (c =? 61) && negb (mem 61 r) end.

  Definition wf_citem (tbl : list flagdef) (it : citem) : Prop :=
    find_flag tbl (fl_name (citem_flag it)) = Some (citem_flag it) /\
    name_ok (fl_name (citem_flag it)) = true /\
    is_bool_flag (citem_flag it) = match it with CVal _ _ _ _ => false | CBool _ _ _ => true end.
End Spec.

(* last assignment to a field in a list of effects *)
Definition last_eff (f : N) (es : list effect) : option value := get_opt f (rev es).

(* command line over file over what the Config held before *)
Definition resolved (ecmd efile : list effect) (c0 : cfg) (s : N) : value :=
  match last_eff s ecmd with
  | Some v => v
  | None => match last_eff s efile with Some v => v | None => get s c0 end
  end.

(* address, else port, else the platform default *)
Definition listen_of (addr port platform : bytes) : bytes :=
  if negb (is_nil addr) then addr else if negb (is_nil port) then port else platform.
