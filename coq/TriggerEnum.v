(* TriggerEnum.v -- the in-Coq enumerations (vm_compute): every reachable state of the harvest-trigger LTS
   for n = 1 (56 states) and n = 6 with the broadcast goroutine (60092 states) passes check_state, and the
   synchronous-Close variants reach a state where the processor is stuck. *)
From Coq Require Import NArith PArith List Bool FMapPositive.
From Verif Require Import TriggerLts.
Import ListNotations.

Lemma check_all_cfg1 : check_all cfg1 100 = true.
Proof. vm_cast_no_check (eq_refl true). Qed.

Lemma check_all_cfg6 : check_all cfg6 200 = true.
Proof. vm_cast_no_check (eq_refl true). Qed.

Definition sync_witness1 : list tlabel :=
  [Tick 0; TakeTick 0; Deliver 0; Tick 0; TakeTick 0; StartClose].
Definition sync_witness6 : list tlabel :=
  [Tick 0; TakeTick 0; Deliver 0; Tick 1; TakeTick 1; StartClose; BCancel; MCancel 0; MConfirm 0].

Lemma sync_stuck1 :
  match trun (sync_of cfg1) (tinit (sync_of cfg1)) sync_witness1 with
  | Some s => processor_stuck (sync_of cfg1) s | None => false end = true.
Proof. vm_compute. reflexivity. Qed.

Lemma sync_stuck6 :
  match trun (sync_of cfg6) (tinit (sync_of cfg6)) sync_witness6 with
  | Some s => processor_stuck (sync_of cfg6) s | None => false end = true.
Proof. vm_compute. reflexivity. Qed.
