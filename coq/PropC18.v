(* C18 -- outbound requests are limited without leaking capacity.  Statements only. *)
From Coq Require Import NArith ZArith List Bool String.
From Verif Require Import Limiter LimiterProofs LimiterWiring.
From Verif.Gen Require Import Limits_gen ClientWiring_gen.
Import ListNotations.
Open Scope N_scope.

(* The executable transition function and the enabled-list are the inductive relation. *)
Theorem C18_lts_twins : forall c s l s',
  (In (l, s') (enabled c s) <-> lstep c s l s') /\ (step_fn c s l = Some s' <-> lstep c s l s').
Proof. exact lts_twins. Qed.
Print Assumptions C18_lts_twins.

(* For ANY max and ANY number of requests: on every reachable state the free permits plus the
   requests inside the inner client are exactly max. *)
Theorem C18_inv : forall c n s, reachable c n s -> permits s + running s = max c.
Proof. exact inv_reachable. Qed.
Print Assumptions C18_inv.

Theorem C18_bound : forall c n s, reachable c n s -> running s <= max c.
Proof. exact bound_reachable. Qed.
Print Assumptions C18_bound.

(* A request that took the time-out branch: result is the time-out error, it never acquired a permit
   (so it never ran the inner client and never released), a timer existed (timeout <> 0), and all
   permits are accounted for by running requests.  Conversely a time-out result only comes from the
   time-out branch. *)
Theorem C18_timeout_errors : forall c n tr s i,
  steps c (linit c n) tr s ->
  (In (LTimeout i) tr ->
     nth_error (reqs s) i = Some (Done RTimeout) /\
     ~ In (LAcquire i) tr /\ ~ In (LReturn i) tr /\ ~ In (LPanic i) tr /\
     has_timer c = true /\ permits s + running s = max c) /\
  (nth_error (reqs s) i = Some (Done RTimeout) -> In (LTimeout i) tr).
Proof. exact timeout_errors_iff. Qed.
Print Assumptions C18_timeout_errors.

(* With a non-zero time-out a waiting request is never stuck: its timer can fire, and once it has
   fired the time-out branch is enabled whatever the number of permits. *)
Theorem C18_waiting_not_stuck : forall c s i f,
  has_timer c = true -> nth_error (reqs s) i = Some (Waiting f) ->
  (f = false -> lstep c s (LFire i) (set_req s (permits s) i (Waiting true))) /\
  (f = true -> lstep c s (LTimeout i) (set_req s (permits s) i (Done RTimeout))) /\
  exists l s', lab_idx l = i /\ In (l, s') (enabled c s).
Proof. exact waiting_progress. Qed.
Print Assumptions C18_waiting_not_stuck.

(* The deferred release never blocks: a running request can always return, and can always panic,
   and either way the permit goes back. *)
Theorem C18_release_never_blocks : forall c n s i,
  reachable c n s -> nth_error (reqs s) i = Some Running ->
  lstep c s (LReturn i) (set_req s (permits s + 1) i (Done ROk)) /\
  lstep c s (LPanic i) (set_req s (permits s + 1) i (Done RPanic)).
Proof. exact release_never_blocks. Qed.
Print Assumptions C18_release_never_blocks.

Theorem C18_quiescent_full : forall c n s, reachable c n s -> running s = 0 -> permits s = max c.
Proof. exact quiescent_full. Qed.
Print Assumptions C18_quiescent_full.

(* Production wiring, read from the current sources: MaxParallel = limits.MaxOutboundConns = 100,
   Timeout = limits.HarvestTimeout = 45 s, passed on to NewLimitClient, limiter bypassed only for
   MaxParallel <= 0; hence at most 100 requests in flight. *)
Theorem C18_max_is_100 :
  wired_MaxParallel = Some 100%Z /\ wired_Timeout = Some 45000000000%Z /\
  limit_args_fields = ["MaxParallel"; "Timeout"]%string /\
  bypass_conds = ["MaxParallel <= 0"]%string /\
  production_limiter = Some {| max := 100; has_timer := true |} /\
  forall n s, reachable {| max := 100; has_timer := true |} n s ->
    running s <= 100 /\ permits s + running s = 100.
Proof. exact max_is_100. Qed.
Print Assumptions C18_max_is_100.

(* The monitor used on implementation runs asks nothing beyond the theorems: every quiescent
   reachable model state, observed like the implementation, passes it. *)
Theorem C18_monitor_sound : forall c n s beh maxrun,
  reachable c n s -> maxrun <= max c -> Forall2 (legal_final c) beh (reqs s) ->
  c18_monitor (max c) (has_timer c) beh (final_obs c s maxrun) = true.
Proof. exact monitor_sound. Qed.
Print Assumptions C18_monitor_sound.
