(* ProcInv6.v -- bounded delivery attempts (C02).
   The log of a history is the list of all requests emitted by its steps; `sentc L c` lists the tags of the
   requests of category c in the log, one occurrence per request.  With pairwise distinct tags:
   - a metric tag occurs in at most 1 + FailedMetricAttemptsLimit requests, unconditionally;
   - an event tag occurs in at most 1 + FailedEventsAttemptsLimit requests of its category, provided deliveries
     of that category to one run do not overlap (the two halves of a split payload are one delivery). *)
From Coq Require Import NArith ZArith List Bool Lia.
From Verif.Gen Require Limits_gen HarvestBits_gen.
From Verif Require Import Processor ProcInv ProcInv2 ProcInv3 ProcInv4 ProcInv5.
Import ListNotations.

(* ------------------------------------------------------------------ the log *)
Definition reqs_of (o : list out) : list request :=
  concat (map (fun x => match x with OutReq q => [q] | _ => [] end) o).
Definition log_of (outs : list (list out)) : list request := concat (map reqs_of outs).

Definition is_cat (c : cat) (q : request) : bool := cat_eqb (cat_of q) c.
Definition sentc (L : list request) (c : cat) : list N := req_tags (filter (is_cat c) L).

Lemma reqs_of_app a b : reqs_of (a ++ b) = reqs_of a ++ reqs_of b.
Proof. unfold reqs_of. rewrite map_app, concat_app. reflexivity. Qed.
Lemma reqs_of_map qs : reqs_of (map OutReq qs) = qs.
Proof. unfold reqs_of. induction qs as [|q r IH]; cbn; [reflexivity|]. f_equal. exact IH. Qed.
Lemma in_reqs_of q o : In q (reqs_of o) <-> In (OutReq q) o.
Proof.
  unfold reqs_of. induction o as [|x r IH]; cbn [map concat]; [cbn; tauto|]. rewrite in_app_iff, IH. cbn [In].
  destruct x; cbn [In]; split; intros H; try tauto.
  - destruct H as [[H|[]]|H]; [left; congruence|right; exact H].
  - destruct H as [H|H]; [left; left; congruence|right; exact H].
  - destruct H as [H|H]; [discriminate|tauto].
  - destruct H as [H|H]; [discriminate|tauto].
  - destruct H as [H|H]; [discriminate|tauto].
Qed.

Lemma sentc_app L X c : sentc (L ++ X) c = sentc L c ++ sentc X c.
Proof. unfold sentc. rewrite filter_app, req_tags_app. reflexivity. Qed.

Lemma cnt_req_tags_filter t p (X : list request) : cnt t (req_tags (filter p X)) <= cnt t (req_tags X).
Proof.
  induction X as [|q r IH]; [reflexivity|]. cbn [filter]. unfold req_tags in *. destruct (p q); cbn [map concat]; rewrite ?cnt_app; lia.
Qed.
Lemma cnt_sentc_le t X c : cnt t (sentc X c) <= cnt t (req_tags X).
Proof. apply cnt_req_tags_filter. Qed.

Lemma in_sentc t X c : In t (sentc X c) <-> exists q, In q X /\ cat_of q = c /\ In t (tags (rq_items q)).
Proof.
  unfold sentc. split.
  - intros H. apply in_req_tags_inv in H. destruct H as (q & Hq & Ht). apply filter_In in Hq. destruct Hq as [Hq Hc].
    exists q. split; [exact Hq|]. split; [apply cat_eqb_eq; exact Hc|exact Ht].
  - intros (q & Hq & Hc & Ht). eapply in_req_tags; [|exact Ht]. apply filter_In. split; [exact Hq|apply cat_eqb_eq; exact Hc].
Qed.

Lemma req_tags_noitems X : (forall q, In q X -> rq_items q = []) -> forall t, cnt t (req_tags X) = 0.
Proof.
  intros H t. induction X as [|q r IH]; [reflexivity|]. unfold req_tags in *. cbn [map concat]. rewrite cnt_app.
  rewrite (H q (or_introl eq_refl)). cbn [tags map]. rewrite cnt_nil, IH; [reflexivity|]. intros x Hx. apply H. right. exact Hx.
Qed.

Lemma sentc_noitems X c t : (forall q, In q X -> rq_items q = []) -> cnt t (sentc X c) = 0.
Proof. intros H. pose proof (cnt_sentc_le t X c). rewrite (req_tags_noitems X H t) in *. lia. Qed.

(* ------------------------------------------------------------------ each tag in one place *)
Definition once (s : proc) : Prop :=
  forall t, cnt t (held s) + cnt t (inflight s) + cnt t (g_acked s) + cnt t (dropped s) <= 1.

Lemma once_of_bal s : bal s -> NoDup (g_offered s) -> once s.
Proof. intros B N t. specialize (B t). unfold total in B. pose proof (cnt_NoDup t _ N). lia. Qed.

Lemma cnt_held_ge s : forall a t, a < length (p_ahs s) -> cnt t (harvest_tags (ah_h (get_ah s a))) <= cnt t (held s).
Proof.
  unfold held, get_ah. induction (p_ahs s) as [|x r IH]; intros a t La; cbn [length] in La; [lia|].
  cbn [map concat]. rewrite cnt_app. destruct a as [|a]; cbn [nth]; [lia|]. specialize (IH a t ltac:(lia)). lia.
Qed.

Lemma in_held s a c t : a < length (p_ahs s) -> In t (tags (hb s a c)) -> In t (held s).
Proof.
  intros La Ht. apply in_cnt. pose proof (cnt_held_ge s a t La). pose proof (cnt_bag_le t (ah_h (get_ah s a)) c).
  apply in_cnt in Ht. unfold hb in Ht. lia.
Qed.

Lemma in_inflight s q t : In q (p_reqs s) -> In t (tags (rq_items q)) -> In t (inflight s).
Proof. intros Hq Ht. apply (in_req_tags t q (p_reqs s) Hq Ht). Qed.

Lemma in_offered_of s t : bal s -> In t (held s) \/ In t (inflight s) \/ In t (g_acked s) \/ In t (dropped s) -> In t (g_offered s).
Proof. intros B H. specialize (B t). unfold total in B. rewrite !in_cnt in *. lia. Qed.

(* ------------------------------------------------------------------ the invariant, for one retryable category c *)
Definition same_attempt (s : proc) (c : cat) : Prop :=
  forall q q', In q (p_reqs s) -> In q' (p_reqs s) -> cat_of q = c -> cat_of q' = c -> rq_run q = rq_run q' ->
               rq_failed q = rq_failed q'.

Record att_inv (c : cat) (s : proc) (L : list request) : Prop := {
  at_held : forall a t, a < length (p_ahs s) -> In t (tags (hb s a c)) -> (N.of_nat (cnt t (sentc L c)) <= hf s a c)%N;
  at_lim : forall a, a < length (p_ahs s) -> (hf s a c <= limit_of c)%N;
  at_req : forall q t, In q (p_reqs s) -> cat_of q = c -> In t (tags (rq_items q)) ->
                       (N.of_nat (cnt t (sentc L c)) <= rq_failed q + 1)%N;
  at_all : forall t, (N.of_nat (cnt t (sentc L c)) <= limit_of c + 1)%N;
  at_off : forall t, In t (req_tags L) -> In t (g_offered s);
  at_ev : c <> CMetrics -> forall q a, In q (p_reqs s) -> cat_of q = c -> lookupN (rq_run q) (p_runs s) = Some a ->
                                       (hf s a c <= rq_failed q + 1)%N
}.

Lemma limit_metric : limit_of CMetrics = 5%N.
Proof. reflexivity. Qed.
Lemma limit_event c : c <> CMetrics -> limit_of c = 10%N.
Proof. intros N. destruct c; try reflexivity. contradiction. Qed.
Lemma limit_ge1 c : (1 <= limit_of c)%N.
Proof. destruct c; cbv; discriminate. Qed.

(* steps that move no data: harvests and their counters unchanged, no request with items appears *)
Lemma att_same c s s' L X :
  p_ahs s' = p_ahs s ->
  (forall q, In q (p_reqs s') -> In q (p_reqs s) \/ (rq_kind q = RUsage /\ rq_items q = [])) ->
  (forall q, In q X -> rq_items q = []) ->
  (forall t, In t (g_offered s) -> In t (g_offered s')) ->
  (forall r a, lookupN r (p_runs s') = Some a -> lookupN r (p_runs s) = Some a) ->
  att_inv c s L -> att_inv c s' (L ++ X).
Proof.
  intros Ea Rq Xn Off Ru [H Lm R A O E].
  assert (Cn : forall t, cnt t (sentc (L ++ X) c) = cnt t (sentc L c)).
  { intros t. rewrite sentc_app, cnt_app, (sentc_noitems X c t Xn). lia. }
  constructor.
  - intros a t La Ht. rewrite Cn. rewrite Ea in La. rewrite (hb_ahs_eq s s' a c Ea) in Ht. rewrite (hf_ahs_eq s s' a c Ea). apply H; assumption.
  - intros a La. rewrite Ea in La. rewrite (hf_ahs_eq s s' a c Ea). apply Lm. exact La.
  - intros q t Hq Hc Ht. rewrite Cn. destruct (Rq q Hq) as [Hq'|[_ Hn]]; [apply R; assumption|rewrite Hn in Ht; destruct Ht].
  - intros t. rewrite Cn. apply A.
  - intros t Ht. apply Off. apply O. rewrite req_tags_app in Ht. apply in_app_or in Ht. destruct Ht as [Ht|Ht]; [exact Ht|].
    apply in_cnt in Ht. rewrite (req_tags_noitems X Xn t) in Ht. lia.
  - intros N q a Hq Hc Lk. rewrite (hf_ahs_eq s s' a c Ea). destruct (Rq q Hq) as [Hq'|[Hk _]].
    + apply (E N q a Hq' Hc). apply Ru. exact Lk.
    + exfalso. apply N. rewrite <- Hc. unfold cat_of. rewrite Hk. reflexivity.
Qed.

Lemma cnt_zero_not_in t l : ~ In t l -> cnt t l = 0.
Proof. intros H. destruct (cnt t l) eqn:E; [reflexivity|]. exfalso. apply H. apply in_cnt. lia. Qed.

Lemma sentc_fresh c L t s : att_inv c s L -> ~ In t (g_offered s) -> cnt t (sentc L c) = 0.
Proof.
  intros A H. pose proof (cnt_sentc_le t L c). assert (cnt t (req_tags L) = 0); [|lia].
  apply cnt_zero_not_in. intros Hin. apply H. apply (at_off c s L A). exact Hin.
Qed.

Lemma NoDup_app_disjoint' {A} (a b : list A) x : NoDup (a ++ b) -> In x b -> In x a -> False.
Proof.
  induction a as [|y r IH]; cbn; [tauto|]. intros H Hb [->|Hin]; inversion H as [|? ? Hn Hd]; subst.
  - apply Hn. apply in_or_app. right. exact Hb.
  - exact (IH Hd Hb Hin).
Qed.

(* ------------------------------------------------------------------ transactions *)
Lemma att_txn c s run x L :
  runs_valid s -> NoDup (g_offered s ++ txn_tags x) -> att_inv c s L -> att_inv c (fst (txn_data s run x)) L.
Proof.
  intros V ND A. pose proof (txn_data_flow s run x) as F.
  destruct (lookupN run (p_runs s)) as [a|] eqn:Lk; [|rewrite F; exact A].
  cbn zeta in F. destruct F as (_ & (hnew & Ea & Hf & Hb) & Er & Eru & _ & _ & _ & _ & Eoff & _).
  set (s' := fst (txn_data s run x)) in *. pose proof (V _ _ Lk) as La.
  destruct (put_view s s' a hnew Ea) as (Ln & _ & _ & Vo & Vn). specialize (Vn La).
  assert (Fresh : forall t, In t (txn_tags x) -> cnt t (sentc L c) = 0).
  { intros t Ht. eapply sentc_fresh; [exact A|]. intros Ho. eapply NoDup_app_disjoint'; eassumption. }
  assert (Hf' : forall a', hf s' a' c = hf s a' c).
  { intros a'. destruct (Nat.eq_dec a' a) as [->|N]; unfold hf; [rewrite Vn; apply Hf|rewrite (Vo a' N); reflexivity]. }
  destruct A as [H Lm R Al O E]. constructor.
  - intros a' t La' Ht. rewrite Ln in La'. rewrite Hf'. destruct (Nat.eq_dec a' a) as [->|N].
    + unfold hb in Ht. rewrite Vn in Ht. destruct (Hb c t Ht) as [H1|H1]; [apply H; assumption|].
      rewrite (Fresh t (txn_cat_tags_sub x c t H1)). lia.
    + unfold hb in Ht. rewrite (Vo a' N) in Ht. apply H; assumption.
  - intros a' La'. rewrite Ln in La'. rewrite Hf'. apply Lm. exact La'.
  - intros q t Hq. rewrite Er in Hq. apply R. exact Hq.
  - exact Al.
  - intros t Ht. rewrite Eoff. apply in_or_app. left. apply O. exact Ht.
  - intros N q a' Hq Hc Lk'. rewrite Er in Hq. rewrite Eru in Lk'. rewrite Hf'. apply (E N q a' Hq Hc Lk').
Qed.

(* ------------------------------------------------------------------ a new run *)
Lemma att_connected c s s' key r L :
  runs_valid s -> connected_as s s' key r -> att_inv c s L -> att_inv c s' L.
Proof.
  intros V (i & _ & Ea & Er & Erq & _ & _ & _ & _ & Eoff & _) [H Lm R Al O E].
  assert (Ln : length (p_ahs s') = S (length (p_ahs s))) by (rewrite Ea, app_length; cbn; lia).
  assert (Gl : forall j, j < length (p_ahs s) -> get_ah s' j = get_ah s j) by (intros j Hj; eapply get_ah_app_l; eassumption).
  pose proof (get_ah_app_r s s' _ Ea) as Gr.
  constructor.
  - intros a t La Ht. rewrite Ln in La. destruct (Nat.eq_dec a (length (p_ahs s))) as [->|N].
    + unfold hb in Ht. rewrite Gr in Ht. destruct Ht.
    + unfold hb in Ht. unfold hf. rewrite Gl in * by lia. apply H; [lia|exact Ht].
  - intros a La. rewrite Ln in La. destruct (Nat.eq_dec a (length (p_ahs s))) as [->|N].
    + unfold hf. rewrite Gr. cbn [ah_h new_harvest h_failed]. apply N.le_0_l.
    + unfold hf. rewrite Gl by lia. apply Lm. lia.
  - intros q t Hq. rewrite Erq in Hq. apply R. exact Hq.
  - exact Al.
  - intros t Ht. rewrite Eoff. apply O. exact Ht.
  - intros N q a Hq Hc Lk. rewrite Erq in Hq. rewrite Er in Lk. apply lookupN_setN in Lk. destruct Lk as [[_ ->]|Lk].
    + unfold hf. rewrite Gr. cbn [ah_h new_harvest h_failed]. apply N.le_0_l.
    + unfold hf. rewrite Gl by (apply (V _ _ Lk)). apply (E N q a Hq Hc Lk).
Qed.

(* ------------------------------------------------------------------ a harvest *)
Definition uniq_runs (s : proc) : Prop :=
  forall a a', a < length (p_ahs s) -> a' < length (p_ahs s) -> ah_run (get_ah s a) = ah_run (get_ah s a') -> a = a'.

Lemma req_from_cat e h q c : req_from e h q -> cat_of q = c ->
  rq_failed q = h_failed h c /\ forall t, In t (tags (rq_items q)) -> In t (tags (h_bag h c)).
Proof. intros (c' & K & _ & F & _ & Sub) Hc. unfold cat_of in Hc. rewrite K in Hc. subst c'. split; assumption. Qed.

Lemma att_tick c s a ty L :
  tab_inv s -> runs_valid s -> a < length (p_ahs s) -> bal s -> once s -> once (fst (harvest_by_type s a ty)) ->
  (c <> CMetrics -> uniq_runs s) ->
  att_inv c s L -> att_inv c (fst (harvest_by_type s a ty)) (L ++ reqs_of (snd (harvest_by_type s a ty))).
Proof.
  intros T V La B On On' Uq A. pose proof (harvest_by_type_flow s a ty) as F.
  set (s' := fst (harvest_by_type s a ty)) in *. set (o := snd (harvest_by_type s a ty)) in *.
  destruct (tf_ahs _ _ _ _ F) as (hnew & Ea & Kr). destruct (tf_reqs _ _ _ _ F) as (qs & u & Eo & Rq & Fq & Fu & Tq).
  destruct (put_view s s' a hnew Ea) as (Ln & Vr & _ & Vo & Vn). specialize (Vn La).
  pose proof (tf_calm _ _ _ _ F) as Cm.
  subst o. rewrite Eo, reqs_of_map.
  assert (Un : forall q, In q u -> rq_items q = []) by (intros q Hq; apply (Fu q Hq)).
  set (h := ah_h (get_ah s a)) in *.
  assert (D1 : forall t, cnt t (sentc (qs ++ u) c) = cnt t (sentc qs c)).
  { intros t. rewrite sentc_app, cnt_app, (sentc_noitems u c t Un). lia. }
  assert (D2 : forall t, cnt t (sentc qs c) <= 1).
  { intros t. pose proof (cnt_sentc_le t qs c). pose proof (Tq t). pose proof (cnt_held_ge s a t La). specialize (On t). fold h in H1. lia. }
  assert (D3 : forall t, cnt t (sentc qs c) > 0 -> In t (tags (hb s a c)) /\ exists q, In q qs /\ cat_of q = c /\ In t (tags (rq_items q))).
  { intros t Ht. apply in_cnt in Ht. apply in_sentc in Ht. destruct Ht as (q & Hq & Hc & Ht).
    destruct (req_from_cat _ _ _ c (Fq q Hq) Hc) as [_ Sub]. split; [apply Sub; exact Ht|exists q; auto]. }
  assert (D4 : forall t, In t (held s') -> cnt t (sentc qs c) = 0).
  { intros t Hh. destruct (cnt t (sentc qs c)) eqn:E0; [reflexivity|exfalso].
    destruct (D3 t ltac:(lia)) as (_ & q & Hq & _ & Ht).
    assert (Hi : In t (inflight s')) by (eapply in_inflight; [apply Rq; right; apply in_or_app; left; exact Hq|exact Ht]).
    specialize (On' t). apply in_cnt in Hh, Hi. lia. }
  assert (D5 : forall t, In t (inflight s) -> cnt t (sentc qs c) = 0).
  { intros t Hi. destruct (cnt t (sentc qs c)) eqn:E0; [reflexivity|exfalso].
    destruct (D3 t ltac:(lia)) as (Hb & _). pose proof (in_held s a c t La Hb) as Hh.
    specialize (On t). apply in_cnt in Hh, Hi. lia. }
  assert (Cn : forall t, cnt t (sentc (L ++ qs ++ u) c) = cnt t (sentc L c) + cnt t (sentc qs c)).
  { intros t. rewrite sentc_app, cnt_app, D1. reflexivity. }
  assert (Hbag : forall a' t, a' < length (p_ahs s) -> In t (tags (hb s' a' c)) -> In t (tags (hb s a' c)) /\ hf s' a' c = hf s a' c).
  { intros a' t La' Ht. destruct (Nat.eq_dec a' a) as [->|N].
    - unfold hb, hf in *. rewrite Vn in *. fold h. destruct (Kr c) as [[E1 E2]|[E1 _]]; [rewrite E1 in Ht; rewrite E2; auto|rewrite E1 in Ht; destruct Ht].
    - unfold hb, hf in *. rewrite (Vo a' N) in *. auto. }
  assert (Hfl : forall a', a' < length (p_ahs s) -> hf s' a' c = hf s a' c \/ hf s' a' c = 0%N).
  { intros a' La'. destruct (Nat.eq_dec a' a) as [->|N].
    - unfold hf. rewrite Vn. fold h. destruct (Kr c) as [[_ E2]|[_ E2]]; [left|right]; exact E2.
    - left. unfold hf. rewrite (Vo a' N). reflexivity. }
  destruct A as [H Lm R Al O E]. constructor.
  - intros a' t La' Ht. rewrite Ln in La'. destruct (Hbag a' t La' Ht) as [Hb Ef]. rewrite Cn, Ef.
    rewrite (D4 t (in_held s' a' c t ltac:(rewrite Ln; exact La') Ht)). rewrite Nat.add_0_r. apply H; assumption.
  - intros a' La'. rewrite Ln in La'. destruct (Hfl a' La') as [Ef|Ef]; rewrite Ef; [apply Lm; exact La'|lia].
  - intros q t Hq Hc Ht. rewrite Cn. apply Rq in Hq. destruct Hq as [Hq|Hq].
    + rewrite (D5 t (in_inflight s q t Hq Ht)), Nat.add_0_r. apply R; assumption.
    + apply in_app_or in Hq. destruct Hq as [Hq|Hq]; [|rewrite (Un q Hq) in Ht; destruct Ht].
      destruct (req_from_cat _ _ _ c (Fq q Hq) Hc) as [Ef Sub]. specialize (H a t La (Sub t Ht)). specialize (D2 t).
      rewrite Ef. change (h_failed h c) with (hf s a c). lia.
  - intros t. rewrite Cn. destruct (cnt t (sentc qs c)) eqn:E0; [rewrite Nat.add_0_r; apply Al|].
    destruct (D3 t ltac:(lia)) as (Hb & _). specialize (H a t La Hb). specialize (Lm a La). specialize (D2 t). lia.
  - intros t Ht. rewrite (c_off _ _ Cm). rewrite !req_tags_app in Ht. apply in_app_or in Ht. destruct Ht as [Ht|Ht]; [apply O; exact Ht|].
    apply in_app_or in Ht. destruct Ht as [Ht|Ht]; [|apply in_cnt in Ht; rewrite (req_tags_noitems u Un t) in Ht; lia].
    apply (in_offered_of s t B). left. apply in_cnt. apply in_cnt in Ht. pose proof (Tq t). pose proof (cnt_held_ge s a t La). fold h in H1. lia.
  - intros N q a' Hq Hc Lk. rewrite (c_runs _ _ Cm) in Lk. pose proof (V _ _ Lk) as La'. apply Rq in Hq. destruct Hq as [Hq|Hq].
    + destruct (Hfl a' La') as [Ef|Ef]; rewrite Ef; [apply (E N q a' Hq Hc Lk)|lia].
    + apply in_app_or in Hq. destruct Hq as [Hq|Hq].
      * destruct (req_from_cat _ _ _ c (Fq q Hq) Hc) as [Ef _].
        assert (Er : rq_run q = ah_run (get_ah s a)) by (destruct (Fq q Hq) as (c' & _ & (_ & _ & _ & Cr) & _); exact Cr).
        assert (a' = a).
        { apply (Uq N); try assumption. rewrite (ti_run s T _ _ Lk). exact Er. }
        subst a'. destruct (Hfl a La) as [Ef2|Ef2]; rewrite Ef2; [|lia]. rewrite Ef. change (h_failed h c) with (hf s a c). lia.
      * exfalso. apply N. rewrite <- Hc. unfold cat_of. destruct (Fu q Hq) as (K & _). rewrite K. reflexivity.
Qed.

(* ------------------------------------------------------------------ a failed payload *)
Lemma att_error c s q f L :
  retryable c = true -> tab_inv s -> runs_valid s ->
  (cat_of q = c -> forall t, In t (tags (rq_items q)) -> (N.of_nat (cnt t (sentc L c)) <= rq_failed q + 1)%N) ->
  (c <> CMetrics -> cat_of q = c -> forall a, lookupN (rq_run q) (p_runs s) = Some a -> (hf s a c <= rq_failed q + 1)%N) ->
  (c <> CMetrics -> cat_of q = c -> forall q', In q' (p_reqs s) -> cat_of q' = c -> rq_run q' = rq_run q -> rq_failed q' = rq_failed q) ->
  att_inv c s L -> att_inv c (fst (harvest_error s q f)) (L ++ reqs_of (snd (harvest_error s q f))).
Proof.
  intros Rc T V Qr Qe Qs A. pose proof (harvest_error_flow s q f) as F.
  destruct (lookupN (rq_run q) (p_runs s)) as [a|] eqn:Lk.
  2:{ rewrite F. cbn [fst snd]. apply (att_same c s); try reflexivity; try tauto; try exact A; try (intros x Hx; left; exact Hx); try (intros x []). }
  pose proof (V _ _ Lk) as La.
  destruct F as [(hnew & refused & given_up & Ea & Hm) Er _ Eru _ _ _ Eoff _ _ Fo].
  set (s' := fst (harvest_error s q f)) in *. set (o := snd (harvest_error s q f)) in *.
  destruct (put_view s s' a hnew Ea) as (Ln & _ & _ & Vo & Vn). specialize (Vn La).
  assert (Xn : forall x, In x (reqs_of o) -> rq_items x = []).
  { intros x Hx. apply in_reqs_of in Hx. destruct (Fo _ Hx) as (q' & E & _ & I0 & _). inversion E; subst q'. exact I0. }
  assert (Cn : forall t, cnt t (sentc (L ++ reqs_of o) c) = cnt t (sentc L c)).
  { intros t. rewrite sentc_app, cnt_app, (sentc_noitems _ c t Xn). lia. }
  set (h := ah_h (get_ah s a)) in *.
  (* what happened to container c of harvest a *)
  assert (Hc : (h_bag hnew c = h_bag h c /\ (h_failed hnew c = h_failed h c \/ (c = CMetrics /\ h_failed hnew c = N.max (h_failed h c) 1))) \/
               (cat_of q = c /\ (rq_failed q + 1 <= limit_of c)%N /\
                (forall t, In t (tags (h_bag hnew c)) -> In t (tags (h_bag h c)) \/ In t (tags (rq_items q))) /\
                ((c = CMetrics /\ h_failed hnew c = N.max (h_failed h c) (rq_failed q + 1)) \/
                 (c <> CMetrics /\ h_failed hnew c = (rq_failed q + 1)%N)))).
  { destruct Hm as [(_ & M & _)|(_ & -> & _)]; [|left; split; [reflexivity|left; reflexivity]].
    destruct M as [|h1 K Bg Fm Fo'|h1 Ec Lm Bg Fm Oth|h1 rf Ev Lm Bg Fm Oth].
    - left. split; [reflexivity|left; reflexivity].
    - left. split; [apply Bg|]. destruct (cat_eq_dec c CMetrics) as [->|N]; [right; split; [reflexivity|exact Fm]|left; apply Fo'; exact N].
    - destruct (cat_eq_dec c CMetrics) as [->|N].
      + right. split; [exact Ec|]. split; [exact Lm|]. split; [|left; split; [reflexivity|exact Fm]].
        intros t Ht. rewrite Bg, tags_app in Ht. apply in_app_or in Ht. exact Ht.
      + left. destruct (Oth c N) as [B1 F1]. split; [exact B1|left; exact F1].
    - destruct (cat_eq_dec c (cat_of q)) as [->|N].
      + right. split; [reflexivity|]. assert (Nm : cat_of q <> CMetrics) by (intros Em; rewrite Em in Ev; discriminate).
        split; [rewrite (limit_event _ Nm); exact Lm|]. split; [exact Bg|right; split; [exact Nm|exact Fm]].
      + left. destruct (Oth c N) as [B1 F1]. split; [exact B1|left; exact F1]. }
  destruct A as [H Lm R Al O E]. pose proof (limit_ge1 c) as L1.
  constructor.
  - intros a' t La' Ht. rewrite Ln in La'. rewrite Cn. destruct (Nat.eq_dec a' a) as [->|N].
    + unfold hb, hf in *. rewrite Vn in *. fold h in H |- *.
      destruct Hc as [[B1 [F1|[-> F1]]]|(Cq & Lq & B1 & [[-> F1]|[Nm F1]])]; rewrite F1.
      * rewrite B1 in Ht. apply H; assumption.
      * rewrite B1 in Ht. specialize (H a t La Ht). fold h in H. lia.
      * destruct (B1 t Ht) as [H1|H1]; [specialize (H a t La H1); fold h in H; lia|specialize (Qr Cq t H1); lia].
      * destruct (B1 t Ht) as [H1|H1]; [|apply (Qr Cq t H1)]. specialize (H a t La H1). specialize (Qe Nm Cq a eq_refl). unfold hf in Qe. fold h in Qe, H. lia.
    + unfold hb, hf in *. rewrite (Vo a' N) in *. apply H; assumption.
  - intros a' La'. rewrite Ln in La'. destruct (Nat.eq_dec a' a) as [->|N].
    + unfold hf in *. rewrite Vn. specialize (Lm a La). fold h in Lm |- *.
      destruct Hc as [[_ [F1|[-> F1]]]|(Cq & Lq & _ & [[-> F1]|[Nm F1]])]; rewrite F1; lia.
    + unfold hf in *. rewrite (Vo a' N). apply Lm. exact La'.
  - intros x t Hx Hcx Ht. rewrite Er in Hx. rewrite Cn. apply R; assumption.
  - intros t. rewrite Cn. apply Al.
  - intros t Ht. rewrite Eoff. apply O. rewrite req_tags_app in Ht. apply in_app_or in Ht. destruct Ht as [Ht|Ht]; [exact Ht|].
    apply in_cnt in Ht. rewrite (req_tags_noitems _ Xn t) in Ht. lia.
  - intros Nm x a' Hx Hcx Lk'. rewrite Er in Hx. pose proof (runs_sub_lookup s s' _ _ _ Eru Lk') as Lk0.
    specialize (E Nm x a' Hx Hcx Lk0). destruct (Nat.eq_dec a' a) as [->|N].
    + unfold hf in *. rewrite Vn. fold h in E |- *.
      destruct Hc as [[_ [F1|[-> F1]]]|(Cq & Lq & _ & [[-> F1]|[_ F1]])]; try (exfalso; apply Nm; reflexivity); rewrite F1; [exact E|].
      assert (Ex : rq_run x = rq_run q) by (rewrite <- (ti_run s T _ _ Lk0), <- (ti_run s T _ _ Lk); reflexivity).
      rewrite (Qs Nm Cq x Hx Hcx Ex). lia.
    + unfold hf in *. rewrite (Vo a' N). exact E.
Qed.

Lemma att_group_done c s gid L :
  att_inv c s L -> att_inv c (fst (group_done s gid)) (L ++ reqs_of (snd (group_done s gid))).
Proof.
  intros A. destruct (group_done_flow s gid) as (u & Eo & Rq & Fu & _ & Ea & Cm & _). rewrite Eo, reqs_of_map.
  apply (att_same c s); try assumption.
  - intros q Hq. apply Rq in Hq. destruct Hq as [H|H]; [left; exact H|right]. destruct (Fu q H) as (g & _ & _ & K & I0 & _). split; assumption.
  - intros q Hq. destruct (Fu q Hq) as (g & _ & _ & _ & I0 & _). exact I0.
  - intros t Ht. rewrite (c_off _ _ Cm). exact Ht.
  - intros r a Lk. rewrite (c_runs _ _ Cm) in Lk. exact Lk.
Qed.

Lemma same_attempt_sub s s' c :
  (forall q, In q (p_reqs s') -> In q (p_reqs s)) -> same_attempt s c -> same_attempt s' c.
Proof. intros Sub Sa q q' Hq Hq'. apply Sa; apply Sub; assumption. Qed.

Lemma att_reply c s n o L :
  retryable c = true -> tab_inv s -> runs_valid s -> (c <> CMetrics -> same_attempt s c) ->
  att_inv c s L -> att_inv c (fst (reply s n o)) (L ++ reqs_of (snd (reply s n o))).
Proof.
  intros Rc T V Sa A. unfold reply. destruct (nth_error (p_reqs s) n) as [q|] eqn:En; [|cbn [fst snd reqs_of map concat]; rewrite app_nil_r; exact A].
  pose proof (nth_error_In _ _ En) as Hq.
  set (s0 := add_usage (with_reqs s (remove_nth n (p_reqs s)))).
  assert (Sub0 : forall x, In x (p_reqs s0) -> In x (p_reqs s)) by (intros x Hx; eapply in_remove_nth; exact Hx).
  assert (A0 : att_inv c s0 L).
  { rewrite <- (app_nil_r L). apply (att_same c s s0 L []); try reflexivity; try tauto; try (intros x Hx; left; apply Sub0; exact Hx); try (intros x []). }
  assert (S0 : shape0 s s0) by (apply shape0_of_ahs_eq; try reflexivity; apply shrunk_refl).
  assert (T0 : tab_inv s0).
  { destruct T as [R1 R2 R3]. constructor; assumption. }
  assert (S1 : exists s1 o1, (match o with OOk => (ghost_ack s0 (tags (rq_items q)), []) | OFail f => harvest_error s0 q f end) = (s1, o1) /\
               att_inv c s1 (L ++ reqs_of o1)).
  { destruct o as [|f].
    - eexists _, _. split; [reflexivity|]. apply (att_same c s0 _ L []); try reflexivity; try tauto; try (intros x Hx; left; exact Hx); try (intros x []).
    - pose proof (att_error c s0 q f L Rc T0 V) as Ae. destruct (harvest_error s0 q f) as [s1 o1]. eexists _, _. split; [reflexivity|].
      cbn [fst snd] in Ae. apply Ae; [| | |exact A0].
      + intros Hc t Ht. apply (at_req c s L A q t Hq Hc Ht).
      + intros Nm Hc a Lk. apply (at_ev c s L A Nm q a Hq Hc Lk).
      + intros Nm Hc q' Hq' Hc' Er. apply (Sa Nm); try assumption. apply Sub0. exact Hq'. }
  destruct S1 as (s1 & o1 & -> & A1).
  destruct (rq_kind q); cbn [fst snd]; try exact A1.
  pose proof (att_group_done c s1 (rq_group q) _ A1) as A2. destruct (group_done s1 (rq_group q)) as [s2 o2]. cbn [fst snd] in *.
  rewrite reqs_of_app, app_assoc. exact A2.
Qed.

(* ------------------------------------------------------------------ the final flush *)
Lemma att_flush_run c outs s o ra L :
  tab_inv s -> runs_valid s -> bal s -> NoDup (g_offered s) ->
  att_inv c s (L ++ reqs_of o) ->
  att_inv c (fst (flush_run outs (s, o) ra)) (L ++ reqs_of (snd (flush_run outs (s, o) ra))).
Proof.
  intros T V B ND A. pose proof (once_of_bal s B ND) as On.
  destruct (flush_run_conserve outs (s, o) ra V) as [Cs _]. pose proof (flush_run_offered outs (s, o) ra) as Eoff. cbn [fst] in Cs, Eoff.
  assert (On' : once (fst (flush_run outs (s, o) ra))) by (apply once_of_bal; [eapply conserve_bal; eassumption|rewrite Eoff; exact ND]).
  destruct (flush_run_flow outs s o ra) as [(_ & E & Eo)|[(_ & _ & Eo & E)|(La & _ & qs & Eo & F)]]; cbn zeta in *.
  - rewrite E, Eo. exact A.
  - rewrite Eo, <- (app_nil_r (L ++ reqs_of o)). apply (att_same c s).
    + rewrite E. reflexivity.
    + intros x Hx. left. rewrite E in Hx. exact Hx.
    + intros x [].
    + intros t Ht. rewrite E. exact Ht.
    + intros r a Lk. rewrite E in Lk. cbn [p_runs with_apps shutdown_run with_runs] in Lk. eapply lookupN_removeN. exact Lk.
    + exact A.
  - set (a := snd ra) in *. set (s' := fst (flush_run outs (s, o) ra)) in *. rewrite Eo, reqs_of_app, reqs_of_map, app_assoc.
    set (L0 := L ++ reqs_of o) in *.
    destruct (put_view s s' a _ (ff_ahs _ _ _ _ _ F)) as (Ln & _ & _ & Vo & Vn). specialize (Vn La).
    pose proof (ff_cnt _ _ _ _ _ F) as Tq. pose proof (ff_from _ _ _ _ _ F) as Fq.
    assert (D2 : forall t, cnt t (sentc qs c) <= 1).
    { intros t. pose proof (cnt_sentc_le t qs c). pose proof (Tq t). pose proof (cnt_held_ge s a t La). specialize (On t). lia. }
    assert (D3 : forall t, cnt t (sentc qs c) > 0 -> In t (tags (hb s a c))).
    { intros t Ht. apply in_cnt in Ht. apply in_sentc in Ht. destruct Ht as (q & Hq & Hc & Ht).
      destruct (req_from_cat _ _ _ c (Fq q Hq) Hc) as [_ Sub]. apply Sub; exact Ht. }
    assert (D4 : forall t, In t (held s') -> cnt t (sentc qs c) = 0).
    { intros t Hh. destruct (cnt t (sentc qs c)) eqn:E0; [reflexivity|exfalso].
      assert (Hq : cnt t (req_tags qs) > 0) by (pose proof (cnt_sentc_le t qs c); lia).
      assert (Hs : cnt t (req_tags qs) <= cnt t (req_tags (filter (final_ok outs) qs)) + cnt t (req_tags (filter (fun q => negb (final_ok outs q)) qs))).
      { clear. induction qs as [|q r IH]; [cbn; lia|]. cbn [filter]. unfold req_tags in *.
        destruct (final_ok outs q); cbn [negb map concat]; rewrite ?cnt_app; lia. }
      specialize (On' t). apply in_cnt in Hh. rewrite (ff_ack _ _ _ _ _ F), cnt_app in On'.
      unfold dropped in On'. rewrite (ff_drop _ _ _ _ _ F), !map_app, !cnt_app in On'. rewrite !map_map in On'. cbn [fst] in On'. rewrite !map_id in On'.
      unfold held in *. lia. }
    assert (D5 : forall t, In t (inflight s) -> cnt t (sentc qs c) = 0).
    { intros t Hi. destruct (cnt t (sentc qs c)) eqn:E0; [reflexivity|exfalso].
      pose proof (D3 t ltac:(lia)) as Hb. pose proof (in_held s a c t La Hb) as Hh.
      specialize (On t). apply in_cnt in Hh, Hi. lia. }
    assert (Cn : forall t, cnt t (sentc (L0 ++ qs) c) = cnt t (sentc L0 c) + cnt t (sentc qs c)).
    { intros t. rewrite sentc_app, cnt_app. reflexivity. }
    assert (Hb0 : forall c', hb s' a c' = [] /\ hf s' a c' = 0%N) by (intros c'; unfold hb, hf; rewrite Vn; split; reflexivity).
    destruct A as [H Lm R Al O E]. constructor.
    + intros a' t La' Ht. rewrite Ln in La'. rewrite Cn. rewrite (D4 t (in_held s' a' c t ltac:(rewrite Ln; exact La') Ht)), Nat.add_0_r.
      destruct (Nat.eq_dec a' a) as [->|N]; [destruct (Hb0 c) as [E1 _]; rewrite E1 in Ht; destruct Ht|].
      unfold hb, hf in *. rewrite (Vo a' N) in *. apply H; assumption.
    + intros a' La'. rewrite Ln in La'. destruct (Nat.eq_dec a' a) as [->|N]; [destruct (Hb0 c) as [_ E2]; rewrite E2; apply N.le_0_l|].
      unfold hf in *. rewrite (Vo a' N). apply Lm. exact La'.
    + intros q t Hq Hc Ht. rewrite (ff_reqs _ _ _ _ _ F) in Hq. rewrite Cn, (D5 t (in_inflight s q t Hq Ht)), Nat.add_0_r. apply R; assumption.
    + intros t. rewrite Cn. destruct (cnt t (sentc qs c)) eqn:E0; [rewrite Nat.add_0_r; apply Al|].
      pose proof (D3 t ltac:(lia)) as Hb. specialize (H a t La Hb). specialize (Lm a La). specialize (D2 t). lia.
    + intros t Ht. rewrite (ff_off _ _ _ _ _ F). rewrite req_tags_app in Ht. apply in_app_or in Ht. destruct Ht as [Ht|Ht]; [apply O; exact Ht|].
      apply (in_offered_of s t B). left. apply in_cnt. apply in_cnt in Ht. pose proof (Tq t). pose proof (cnt_held_ge s a t La). lia.
    + intros N q a' Hq Hc Lk. rewrite (ff_reqs _ _ _ _ _ F) in Hq. rewrite (ff_runs _ _ _ _ _ F) in Lk.
      destruct (Nat.eq_dec a' a) as [->|Na]; [destruct (Hb0 c) as [_ E2]; rewrite E2; apply N.le_0_l|].
      unfold hf in *. rewrite (Vo a' Na). apply (E N q a' Hq Hc Lk).
Qed.

Lemma att_clean_exit c s outs L :
  tab_inv s -> runs_valid s -> bal s -> NoDup (g_offered s) -> att_inv c s L ->
  att_inv c (fst (clean_exit s outs)) (L ++ reqs_of (snd (clean_exit s outs))).
Proof.
  intros T V B ND A. unfold clean_exit.
  assert (G : forall l acc, tab_inv (fst acc) -> runs_valid (fst acc) -> bal (fst acc) -> NoDup (g_offered (fst acc)) ->
              att_inv c (fst acc) (L ++ reqs_of (snd acc)) ->
              att_inv c (fst (fold_left (flush_run outs) l acc)) (L ++ reqs_of (snd (fold_left (flush_run outs) l acc)))).
  { induction l as [|ra r IH]; intros [sa oa] Ta Va Ba Na Aa; cbn [fold_left]; [exact Aa|]. cbn [fst snd] in *.
    destruct (flush_run_conserve outs (sa, oa) ra Va) as [Cs V1]. pose proof (flush_run_offered outs (sa, oa) ra) as Eoff. cbn [fst] in *.
    apply IH.
    - eapply shape0_tab_inv; [apply (shape0_flush_run outs (sa, oa) ra)|exact Ta].
    - exact V1.
    - eapply conserve_bal; eassumption.
    - rewrite Eoff. exact Na.
    - apply att_flush_run; assumption. }
  specialize (G (p_runs s) (s, []) T V B ND). cbn [fst snd reqs_of map concat] in G. rewrite app_nil_r in G. specialize (G A).
  destruct (fold_left (flush_run outs) (p_runs s) (s, [])) as [s1 o]. cbn [fst snd] in *.
  rewrite reqs_of_app. cbn [reqs_of map concat]. rewrite !app_nil_r.
  rewrite <- (app_nil_r (L ++ reqs_of o)). apply (att_same c s1).
  - reflexivity.
  - intros x Hx. left. exact Hx.
  - intros x [].
  - intros t Ht. exact Ht.
  - intros r a Lk. exact Lk.
  - exact G.
Qed.

Lemma NoDup_app_l {A} (a b : list A) : NoDup (a ++ b) -> NoDup a.
Proof. induction a as [|x r IH]; cbn; intros H; [constructor|]. inversion H as [|? ? Hn Hd]; subst. constructor; [|auto]. intros Hin. apply Hn. apply in_or_app. left. exact Hin. Qed.

(* ------------------------------------------------------------------ every step *)
Lemma handshake_noitems o : handshake_out o -> forall q, In q (reqs_of o) -> rq_items q = [].
Proof. intros H q Hq. apply in_reqs_of in Hq. apply (H q Hq). Qed.

Theorem step_att c s o L :
  retryable c = true -> life_inv s -> tab_inv s -> bal s -> NoDup (g_offered s ++ op_tags o) ->
  (c <> CMetrics -> same_attempt s c /\ uniq_runs s) ->
  att_inv c s L -> att_inv c (fst (step s o)) (L ++ reqs_of (snd (step s o))).
Proof.
  intros Rc Li T B ND Pv A. pose proof (li_runs s Li) as V.
  assert (NDo : NoDup (g_offered s)) by (eapply NoDup_app_l; exact ND).
  assert (Same : forall s' o', p_ahs s' = p_ahs s -> p_reqs s' = p_reqs s -> g_offered s' = g_offered s ->
                 (forall r a, lookupN r (p_runs s') = Some a -> lookupN r (p_runs s) = Some a) -> handshake_out o' ->
                 att_inv c s' (L ++ reqs_of o')).
  { intros s' o' E1 E2 E3 E4 H. apply (att_same c s); try assumption.
    - intros q Hq. left. rewrite E2 in Hq. exact Hq.
    - apply handshake_noitems. exact H.
    - intros t Ht. rewrite E3. exact Ht. }
  assert (Nil : handshake_out []) by (intros q []).
  unfold step. destruct (p_quit s) eqn:Q; [cbn [fst snd reqs_of map concat]; rewrite app_nil_r; exact A|].
  destruct o as [key dt id|run t|n po|n co|ah ty|n oc|cc oc|dt|outs]; cbn [op_tags] in ND.
  - destruct (app_info_flow s key dt id) as (M & R & H). apply Same; try apply M; [intros r a Lk; rewrite R in Lk; exact Lk|exact H].
  - assert (Eo : snd (txn_data s run t) = []).
    { pose proof (txn_data_flow s run t) as F. destruct (lookupN run (p_runs s)); [apply F|rewrite F; reflexivity]. }
    rewrite Eo. cbn [reqs_of map concat]. rewrite app_nil_r. apply att_txn; assumption.
  - destruct (pre_reply_flow s n po) as (M & R & H). apply Same; try apply M; [intros r a Lk; rewrite R in Lk; exact Lk|].
    intros q Hq. destruct (H q Hq) as (c0 & _ & K & I0 & _). split; [exact I0|right; exact K].
  - destruct (conn_reply_flow s n co) as (Eo & [[M R]|(c0 & host & r & _ & _ & _ & C)]); rewrite Eo.
    + apply Same; try apply M; [intros r a Lk; rewrite R in Lk; exact Lk|exact Nil].
    + cbn [reqs_of map concat]. rewrite app_nil_r. eapply att_connected; eassumption.
  - unfold tick. destruct (Nat.leb_spec (length (p_ahs s)) ah) as [Ll|Ll]; [cbn [fst snd reqs_of map concat]; rewrite app_nil_r; exact A|].
    destruct (inactive (get_obj s (ah_app (get_ah s ah))) (p_now s)).
    + cbn [fst snd]. apply Same; try reflexivity; [|exact Nil].
      intros r a Lk. cbn [p_runs with_apps shutdown_run with_runs] in Lk. eapply lookupN_removeN. exact Lk.
    + destruct (harvest_by_type_conserve s ah ty Ll V) as [Cs _]. pose proof (harvest_by_type_offered s ah ty) as Eoff.
      apply att_tick; try assumption.
      * apply once_of_bal; assumption.
      * apply once_of_bal; [eapply conserve_bal; eassumption|rewrite Eoff; exact NDo].
      * intros N. apply (Pv N).
  - apply att_reply; try assumption. intros N. apply (Pv N).
  - destruct (find_index (req_is cc) (p_reqs s) 0); [apply att_reply; try assumption; intros N; apply (Pv N)|].
    cbn [fst snd reqs_of map concat]. rewrite app_nil_r. exact A.
  - cbn [fst snd]. apply Same; try reflexivity; [intros r a Lk; exact Lk|exact Nil].
  - apply att_clean_exit; assumption.
Qed.

(* ------------------------------------------------------------------ delivery groups *)
(* the requests of one tick share the tick's group id; ids are never reused *)
Definition is_harvest (q : request) : Prop := exists c, rq_kind q = RHarvest c.

Record grp_ok (s : proc) : Prop := {
  go_lt : forall q, In q (p_reqs s) -> is_harvest q -> rq_group q < p_next s;
  go_same : forall q q' c, In q (p_reqs s) -> In q' (p_reqs s) -> rq_kind q = RHarvest c -> rq_kind q' = RHarvest c ->
                           rq_group q = rq_group q' -> rq_failed q = rq_failed q'
}.

(* the requests outstanding after a step: old ones, data-usage requests, or the harvest requests of this tick *)
Definition reqs_step (s s' : proc) : Prop :=
  exists a, forall q, In q (p_reqs s') ->
    In q (p_reqs s) \/ rq_kind q = RUsage \/
    (p_next s < p_next s' /\ exists c, rq_kind q = RHarvest c /\ rq_group q = p_next s /\ rq_failed q = hf s a c).

Lemma reqs_step_sub s s' : (forall q, In q (p_reqs s') -> In q (p_reqs s) \/ rq_kind q = RUsage) -> reqs_step s s'.
Proof. intros H. exists 0. intros q Hq. destruct (H q Hq) as [H1|H1]; [left; exact H1|right; left; exact H1]. Qed.

Lemma reply_reqs s n o q : In q (p_reqs (fst (reply s n o))) -> In q (p_reqs s) \/ rq_kind q = RUsage.
Proof.
  unfold reply. destruct (nth_error (p_reqs s) n) as [q0|]; [|cbn [fst]; tauto].
  set (s0 := add_usage (with_reqs s (remove_nth n (p_reqs s)))).
  assert (S1 : forall x, In x (p_reqs (fst (match o with OOk => (ghost_ack s0 (tags (rq_items q0)), []) | OFail f => harvest_error s0 q0 f end))) -> In x (p_reqs s)).
  { intros x Hx. apply (in_remove_nth (p_reqs s) n). destruct o as [|f]; cbn [fst] in Hx; [exact Hx|].
    pose proof (harvest_error_flow s0 q0 f) as F. destruct (lookupN (rq_run q0) (p_runs s0)).
    - rewrite (ef_reqs _ _ _ _ _ _ F) in Hx. exact Hx.
    - rewrite F in Hx. exact Hx. }
  destruct (match o with OOk => (ghost_ack s0 (tags (rq_items q0)), []) | OFail f => harvest_error s0 q0 f end) as [s1 o1]. cbn [fst] in S1.
  destruct (rq_kind q0); cbn [fst]; try (intros H; left; apply S1; exact H).
  destruct (group_done_flow s1 (rq_group q0)) as (u & _ & Rq & Fu & _). destruct (group_done s1 (rq_group q0)) as [s2 o2]. cbn [fst] in *.
  intros H. apply Rq in H. destruct H as [H|H]; [left; apply S1; exact H|right]. destruct (Fu q H) as (g & _ & _ & K & _). exact K.
Qed.

Lemma clean_exit_reqs s outs : p_reqs (fst (clean_exit s outs)) = p_reqs s.
Proof.
  unfold clean_exit.
  assert (G : forall l acc, p_reqs (fst (fold_left (flush_run outs) l acc)) = p_reqs (fst acc)).
  { induction l as [|ra r IH]; intros [sa oa]; cbn [fold_left]; [reflexivity|]. rewrite IH. cbn [fst].
    destruct (flush_run_flow outs sa oa ra) as [(_ & E & _)|[(_ & _ & _ & E)|(_ & _ & qs & _ & F)]]; cbn zeta in *.
    - rewrite E. reflexivity.
    - rewrite E. reflexivity.
    - apply (ff_reqs _ _ _ _ _ F). }
  specialize (G (p_runs s) (s, [])). destruct (fold_left (flush_run outs) (p_runs s) (s, [])) as [s1 o]. exact G.
Qed.

Lemma step_reqs s o : reqs_step s (fst (step s o)).
Proof.
  unfold step. destruct (p_quit s); [apply reqs_step_sub; cbn [fst]; tauto|].
  destruct o as [key dt id|run t|n po|n co|ah ty|n oc|cc oc|dt|outs].
  - destruct (app_info_flow s key dt id) as (M & _). apply reqs_step_sub. rewrite (m_reqs _ _ M). tauto.
  - apply reqs_step_sub. pose proof (txn_data_flow s run t) as F. destruct (lookupN run (p_runs s)).
    + cbn zeta in F. destruct F as (_ & _ & Er & _). rewrite Er. tauto.
    + rewrite F. cbn [fst]. tauto.
  - destruct (pre_reply_flow s n po) as (M & _). apply reqs_step_sub. rewrite (m_reqs _ _ M). tauto.
  - apply reqs_step_sub. destruct (conn_reply_flow s n co) as (_ & [[M _]|(c0 & host & r & _ & _ & _ & C)]).
    + rewrite (m_reqs _ _ M). tauto.
    + destruct C as (i & _ & _ & _ & Er & _). rewrite Er. tauto.
  - unfold tick. destruct (Nat.leb (length (p_ahs s)) ah); [apply reqs_step_sub; cbn [fst]; tauto|].
    destruct (inactive (get_obj s (ah_app (get_ah s ah))) (p_now s)); [apply reqs_step_sub; cbn [fst]; tauto|].
    pose proof (harvest_by_type_flow s ah ty) as F. destruct (tf_reqs _ _ _ _ F) as (qs & u & _ & Rq & Fq & Fu & _).
    exists ah. intros q Hq. apply Rq in Hq. destruct Hq as [H|H]; [left; exact H|right]. apply in_app_or in H. destruct H as [H|H].
    + right. split; [apply (tf_next _ _ _ _ F)|]. destruct (Fq q H) as (c & K & _ & Fl & G & _). exists c. repeat split; assumption.
    + left. apply (Fu q H).
  - apply reqs_step_sub. apply reply_reqs.
  - destruct (find_index (req_is cc) (p_reqs s) 0); apply reqs_step_sub; [apply reply_reqs|cbn [fst]; tauto].
  - apply reqs_step_sub. cbn [fst]. tauto.
  - apply reqs_step_sub. rewrite clean_exit_reqs. tauto.
Qed.

Lemma step_next s o : p_next s <= p_next (fst (step s o)).
Proof.
  destruct (step_shape s o) as [S|(key & r & C)]; [apply S|]. destruct C as (i & _ & _ & _ & _ & _ & En & _). rewrite En. lia.
Qed.

Lemma step_grp s o : grp_ok s -> grp_ok (fst (step s o)).
Proof.
  intros [Lt Sm]. pose proof (step_next s o) as Nx. destruct (step_reqs s o) as (a & R). set (s' := fst (step s o)) in *.
  constructor.
  - intros q Hq Hh. destruct (R q Hq) as [H|[H|(Hn & c & K & G & _)]].
    + specialize (Lt q H Hh). lia.
    + destruct Hh as [c Hk]. rewrite H in Hk. discriminate.
    + lia.
  - intros q q' c Hq Hq' K K' G.
    destruct (R q Hq) as [H|[H|(Hn & c1 & K1 & G1 & F1)]]; [| rewrite H in K; discriminate |];
      (destruct (R q' Hq') as [H'|[H'|(Hn' & c2 & K2 & G2 & F2)]]; [| rewrite H' in K'; discriminate |]).
    + apply (Sm q q' c); assumption.
    + exfalso. assert (rq_group q < p_next s) by (apply Lt; [exact H|exists c; exact K]). lia.
    + exfalso. assert (rq_group q' < p_next s) by (apply Lt; [exact H'|exists c; exact K']). lia.
    + rewrite K in K1. rewrite K' in K2. inversion K1; inversion K2; subst. congruence.
Qed.

Lemma grp_ok_reachable ops : grp_ok (fst (run ops)).
Proof.
  unfold run. assert (G : forall l s, grp_ok s -> grp_ok (fst (run_from s l))).
  { induction l as [|o r IH]; intros s H; cbn [run_from]; [exact H|]. pose proof (step_grp s o H) as H1.
    destruct (step s o) as [s1 out1]. cbn [fst] in *. specialize (IH s1 H1). destruct (run_from s1 r). exact IH. }
  apply G. constructor; cbn; intros; contradiction.
Qed.

(* at most one outstanding delivery (= the requests of one tick; the two halves of a split payload are one
   delivery) of category c per run *)
Definition one_delivery (s : proc) (c : cat) : Prop :=
  forall q q', In q (p_reqs s) -> In q' (p_reqs s) -> cat_of q = c -> cat_of q' = c -> rq_run q = rq_run q' ->
               rq_group q = rq_group q'.

(* ... in every state the history passes through *)
Definition no_overlap (ops : list op) (c : cat) : Prop :=
  forall pre post, ops = pre ++ post -> one_delivery (fst (run pre)) c.

Lemma cat_of_event c q : c <> CMetrics -> cat_of q = c -> rq_kind q = RHarvest c.
Proof. intros N H. unfold cat_of in H. destruct (rq_kind q); try (exfalso; apply N; symmetry; exact H). rewrite H. reflexivity. Qed.

Lemma same_attempt_of s c : c <> CMetrics -> grp_ok s -> one_delivery s c -> same_attempt s c.
Proof.
  intros N G D q q' Hq Hq' Hc Hc' Er. apply (go_same s G q q' c); try assumption; try (apply cat_of_event; assumption).
  apply D; assumption.
Qed.

(* ------------------------------------------------------------------ every history *)
Lemma log_of_app a b : log_of (a ++ b) = log_of a ++ log_of b.
Proof. unfold log_of. rewrite map_app, concat_app. reflexivity. Qed.

Lemma distinct_tags_prefix pre post : distinct_tags (pre ++ post) -> distinct_tags pre.
Proof. unfold distinct_tags. rewrite map_app, concat_app. apply NoDup_app_l. Qed.

Lemma distinct_runs_prefix pre post : distinct_runs (pre ++ post) -> distinct_runs pre.
Proof. unfold distinct_runs, conn_runs. rewrite map_app, concat_app. apply NoDup_app_l. Qed.

Lemma offered_fresh pre o : distinct_tags (pre ++ [o]) -> NoDup (g_offered (fst (run pre)) ++ op_tags o).
Proof.
  unfold distinct_tags. rewrite map_app, concat_app. cbn [map concat]. rewrite app_nil_r. intros D.
  unfold run. destruct (run_from_offered pre init) as (l & E & S). rewrite E. cbn [g_offered init app].
  eapply sublist_NoDup; [|exact D]. apply sublist_app; [exact S|apply sublist_refl].
Qed.

Lemma uniq_of_distinct ops : distinct_runs ops -> uniq_runs (fst (run ops)).
Proof.
  intros D. destruct (reach_prov True ops (fun _ => D)) as [P _]. intros a a' La La' E. apply (pv_uniq _ _ _ _ P Logic.I); assumption.
Qed.

Theorem att_reachable c ops :
  retryable c = true -> distinct_tags ops -> (c <> CMetrics -> distinct_runs ops /\ no_overlap ops c) ->
  att_inv c (fst (run ops)) (log_of (snd (run ops))).
Proof.
  intros Rc. induction ops as [|o pre IH] using rev_ind; intros D Pv.
  - cbn. constructor; cbn; intros; try lia; try contradiction; try apply N.le_0_l.
  - destruct (run_snoc pre o) as [E1 E2]. rewrite E1, E2, log_of_app. cbn [log_of map concat]. rewrite app_nil_r.
    apply step_att; try assumption.
    + apply life_inv_reachable.
    + apply tab_inv_reachable.
    + apply conservation.
    + apply offered_fresh. exact D.
    + intros N. destruct (Pv N) as [Dr No]. split.
      * apply same_attempt_of; [exact N|apply grp_ok_reachable|apply (No pre [o]); reflexivity].
      * apply uniq_of_distinct. eapply distinct_runs_prefix. exact Dr.
    + apply IH; [eapply distinct_tags_prefix; exact D|].
      intros N. destruct (Pv N) as [Dr No]. split; [eapply distinct_runs_prefix; exact Dr|].
      intros p1 p2 E. apply (No p1 (p2 ++ [o])). rewrite E, app_assoc. reflexivity.
Qed.

(* the number of requests of category c that carried tag t *)
Definition attempts (ops : list op) (c : cat) (t : N) : nat := cnt t (sentc (log_of (snd (run ops))) c).

(* C02: a unit of metric data is in at most 1 + FailedMetricAttemptsLimit = 6 requests, on every history *)
Theorem attempt_bound_metrics ops t : distinct_tags ops -> attempts ops CMetrics t <= 6.
Proof.
  intros D. pose proof (att_reachable CMetrics ops eq_refl D ltac:(intros N; contradiction)) as A.
  pose proof (at_all _ _ _ A t) as H. rewrite limit_metric in H. unfold attempts. lia.
Qed.

(* C02: a unit of event data is in at most 1 + FailedEventsAttemptsLimit = 11 requests of its category, when
   deliveries of that category to one run do not overlap (and run ids are not re-issued) *)
Theorem attempt_bound_events ops c t :
  is_event c = true -> distinct_tags ops -> distinct_runs ops -> no_overlap ops c -> attempts ops c t <= 11.
Proof.
  intros Ev D Dr No. assert (N : c <> CMetrics) by (intros ->; discriminate).
  assert (Rc : retryable c = true) by (destruct c; try discriminate; reflexivity).
  pose proof (att_reachable c ops Rc D (fun _ => conj Dr No)) as A.
  pose proof (at_all _ _ _ A t) as H. rewrite (limit_event c N) in H. unfold attempts. lia.
Qed.

(* ------------------------------------------------------------------ deciding the proviso on a concrete history *)
Definition one_deliveryb (s : proc) (c : cat) : bool :=
  forallb (fun q => forallb (fun q' =>
    if cat_eqb (cat_of q) c && cat_eqb (cat_of q') c && (rq_run q =? rq_run q')%N then Nat.eqb (rq_group q) (rq_group q') else true)
    (p_reqs s)) (p_reqs s).

Lemma one_deliveryb_spec s c : one_deliveryb s c = true -> one_delivery s c.
Proof.
  unfold one_deliveryb. intros H q q' Hq Hq' Hc Hc' Er. rewrite forallb_forall in H. specialize (H q Hq).
  rewrite forallb_forall in H. specialize (H q' Hq'). rewrite Hc, Hc', cat_eqb_refl, Er, N.eqb_refl in H. cbn in H.
  apply Nat.eqb_eq. exact H.
Qed.

Fixpoint upto_nat (n : nat) : list nat := match n with O => [O] | S k => upto_nat k ++ [S k] end.
Lemma in_upto_nat n k : k <= n -> In k (upto_nat n).
Proof.
  induction n as [|n IH]; intros H; cbn [upto_nat]; [left; lia|]. apply in_or_app.
  destruct (Nat.eq_dec k (S n)) as [->|N]; [right; left; reflexivity|left; apply IH; lia].
Qed.

Definition no_overlapb (ops : list op) (c : cat) : bool :=
  forallb (fun k => one_deliveryb (fst (run (firstn k ops))) c) (upto_nat (length ops)).

Lemma no_overlapb_spec ops c : no_overlapb ops c = true -> no_overlap ops c.
Proof.
  unfold no_overlapb. intros H pre post E. rewrite forallb_forall in H.
  assert (Ef : pre = firstn (length pre) ops) by (rewrite E, firstn_app, Nat.sub_diag, firstn_all; cbn; rewrite app_nil_r; reflexivity).
  rewrite Ef. apply one_deliveryb_spec. apply H. apply in_upto_nat. rewrite E, app_length. lia.
Qed.

Definition distinctb (l : list N) : bool :=
  (fix go (l : list N) := match l with [] => true | x :: r => negb (existsb (N.eqb x) r) && go r end) l.
Lemma distinctb_spec l : distinctb l = true -> NoDup l.
Proof.
  induction l as [|x r IH]; cbn; [constructor|]. rewrite andb_true_iff, negb_true_iff. intros [H1 H2].
  constructor; [|apply IH; exact H2]. intros Hin. assert (existsb (N.eqb x) r = true); [|congruence].
  apply existsb_exists. exists x. split; [exact Hin|apply N.eqb_refl].
Qed.

(* ------------------------------------------------------------------ examples and witnesses *)
Definition event_item (t : N) : item := {| i_tag := t; i_prio := Z.of_N t; i_key := 0%N |}.
Definition one_custom (t : N) : txn := {| t_items := [(CCustom, event_item t)]; t_pkgs := None |}.
Definition connect1 (key run : N) : list op :=
  [OAppInfo key false None; OPreReply 0 (PreOk 5); OConnReply 0 (ConnOk (mk_reply run))].
Fixpoint rep {A} (n : nat) (l : list A) : list A := match n with O => [] | S k => l ++ rep k l end.

Definition HAll : N := HarvestBits_gen.HarvestAll.
Definition HCustom : N := HarvestBits_gen.HarvestCustomEvents.

(* a metric tag whose payload keeps failing with a retryable status: sent 6 times, then given up *)
Definition metric_retries : list op :=
  connect1 1 7 ++ [OTxn 7 (one_metric 100)] ++ rep 8 [OTick 0 HAll; OReplyCat (Some CMetrics) (OFail FRetry)].

Example metric_retries_six :
  distinctb (concat (map op_tags metric_retries)) = true /\ attempts metric_retries CMetrics 100 = 6 /\
  existsb (fun x => (fst x =? 100)%N) (g_dropped (fst (run metric_retries))) = true.
Proof. vm_compute. repeat split. Qed.

(* an event tag, deliveries not overlapping: sent 11 times, then given up *)
Definition event_retries : list op :=
  connect1 1 7 ++ [OTxn 7 (one_custom 100)] ++ rep 13 [OTick 0 HCustom; OReply 0 (OFail FRetry)].

Example event_retries_eleven :
  distinctb (concat (map op_tags event_retries)) = true /\ distinctb (conn_runs event_retries) = true /\
  no_overlapb event_retries CCustom = true /\ attempts event_retries CCustom 100 = 11 /\
  existsb (fun x => (fst x =? 100)%N) (g_dropped (fst (run event_retries))) = true.
Proof. vm_compute. repeat split. Qed.

(* WITHOUT the proviso the event bound is false: a second delivery (tag 2) is outstanding while the first
   (tag 1) is retried nine times; when the second fails, FailedHarvest sets the reservoir's counter to 1
   (analyticsEvents.MergeFailed assigns, it does not take the maximum) and tag 1 gets ten more attempts *)
Definition overlapping : list op :=
  connect1 1 7 ++
  [OTxn 7 (one_custom 1); OTick 0 HCustom; OTxn 7 (one_custom 2); OTick 0 HCustom; OReply 0 (OFail FRetry)] ++
  rep 9 [OTick 0 HCustom; OReply 1 (OFail FRetry)] ++
  [OReply 0 (OFail FRetry)] ++
  rep 10 [OTick 0 HCustom; OReply 0 (OFail FRetry)].

Theorem attempt_bound_events_refuted :
  exists ops c t, is_event c = true /\ distinct_tags ops /\ distinct_runs ops /\ attempts ops c t > 11.
Proof.
  exists overlapping, CCustom, 1%N. split; [reflexivity|].
  split; [apply distinctb_spec; vm_compute; reflexivity|]. split; [apply distinctb_spec; vm_compute; reflexivity|].
  vm_compute. lia.
Qed.

Example overlapping_count : attempts overlapping CCustom 1 = 20 /\ no_overlapb overlapping CCustom = false.
Proof. vm_compute. split; reflexivity. Qed.

(* ... and without distinct run ids it is false even when deliveries do not overlap: the first application's
   harvest (run id 7, re-issued to the second application) delivers its own tag 2 under id 7; its failure is
   merged into the second application's reservoir and resets that reservoir's counter *)
Definition reissued_events : list op :=
  connect1 1 7 ++ [OTxn 7 (one_custom 2)] ++ connect1 2 7 ++ [OTxn 7 (one_custom 1)] ++
  rep 10 [OTick 1 HCustom; OReply 0 (OFail FRetry)] ++
  [OTick 0 HCustom; OReply 0 (OFail FRetry)] ++
  rep 10 [OTick 1 HCustom; OReply 0 (OFail FRetry)].

Theorem attempt_bound_events_reissue_refuted :
  exists ops c t, is_event c = true /\ distinct_tags ops /\ no_overlap ops c /\ attempts ops c t > 11.
Proof.
  exists reissued_events, CCustom, 1%N. split; [reflexivity|].
  split; [apply distinctb_spec; vm_compute; reflexivity|]. split; [apply no_overlapb_spec; vm_compute; reflexivity|].
  vm_compute. lia.
Qed.

(* ------------------------------------------------------------------ what a failed request does with its data (C02) *)
(* the payload of a failed harvest request is carried over iff the status is retryable, the category is
   retryable and the payload has not exhausted its attempts *)
Definition saved (q : request) (f : fail) : bool :=
  should_save f &&
  match rq_kind q with
  | RHarvest c => retryable c && (rq_failed q + 1 <=? limit_of c)%N
  | _ => false
  end.

Lemma merge_failed_saved h c q :
  rq_kind q = RHarvest c ->
  let '(h1, refused, given_up) := merge_failed h c q in
  if retryable c && (rq_failed q + 1 <=? limit_of c)%N then given_up = []
  else h1 = h /\ refused = [] /\ given_up = rq_items q.
Proof.
  intros K. unfold merge_failed. rewrite K. unfold limit_of.
  destruct (cat_eqb c CMetrics) eqn:Ec.
  - apply cat_eqb_eq in Ec. subst c. cbn [retryable andb]. cbn zeta.
    destruct (N.ltb_spec metric_limit (rq_failed q + 1)) as [L|L]; destruct (N.leb_spec (rq_failed q + 1) metric_limit) as [L'|L']; try lia; auto.
  - destruct (is_event c) eqn:Ev.
    + assert (Rc : retryable c = true) by (destruct c; try discriminate; reflexivity). rewrite Rc. cbn [andb]. cbn zeta.
      destruct (N.ltb_spec event_limit (rq_failed q + 1)) as [L|L]; destruct (N.leb_spec (rq_failed q + 1) event_limit) as [L'|L']; try lia; auto.
      destruct (add_items (set_failed h c (rq_failed q + 1)) (map (fun x => (c, x)) (rq_items q))). reflexivity.
    + assert (Rc : retryable c = false) by (destruct c; try discriminate; try reflexivity; apply cat_eqb_eq in Ec; discriminate || (cbn in Ec; discriminate)).
      rewrite Rc. cbn [andb]. auto.
Qed.

Theorem save_iff s q f a c :
  lookupN (rq_run q) (p_runs s) = Some a -> a < length (p_ahs s) -> rq_kind q = RHarvest c ->
  let s' := fst (harvest_error s q f) in
  let h := ah_h (get_ah s a) in
  let h' := ah_h (get_ah s' a) in
  (saved q f = true ->
     exists refused, g_dropped s' = g_dropped s ++ map (fun t => (t, RCapacity)) refused /\
       forall t, cnt t (harvest_tags h') + cnt t refused = cnt t (harvest_tags h) + cnt t (tags (rq_items q))) /\
  (saved q f = false ->
     h' = h /\ exists why, (why = RNotRetryable \/ why = RGivenUp) /\
       g_dropped s' = g_dropped s ++ map (fun t => (t, why)) (tags (rq_items q))).
Proof.
  intros Lk La K. cbn zeta. pose proof (harvest_error_flow s q f) as F. rewrite Lk in F.
  destruct F as [(hnew & refused & given_up & Ea & Hm) _ _ _ _ _ _ _ _ _ _].
  destruct (put_view s _ a hnew Ea) as (_ & _ & _ & _ & Vn). rewrite (Vn La).
  assert (Cq : cat_of q = c) by (unfold cat_of; rewrite K; reflexivity).
  unfold saved. rewrite K. destruct Hm as [(Ss & _ & Ed & Em)|(Ss & -> & Ed)]; rewrite Ss; cbn [andb].
  - rewrite Cq in *. pose proof (merge_failed_saved (ah_h (get_ah s a)) c q K) as M. pose proof (fun t => merge_failed_ok t (ah_h (get_ah s a)) c q) as Mk.
    rewrite Em in M, Mk. destruct (retryable c && (rq_failed q + 1 <=? limit_of c)%N) eqn:Sv.
    + split; [intros _|discriminate]. subst given_up. exists (tags refused). cbn [tags map] in Ed. rewrite app_nil_r in Ed. split; [exact Ed|].
      intros t. specialize (Mk t). cbn [tags map] in Mk. rewrite cnt_nil in Mk. lia.
    + split; [discriminate|intros _]. destruct M as (-> & -> & ->). split; [reflexivity|].
      exists (why_of c). split; [unfold why_of; destruct (retryable c); auto|]. cbn [tags map app] in Ed. exact Ed.
  - split; [discriminate|intros _]. split; [reflexivity|]. exists RNotRetryable. split; [left; reflexivity|exact Ed].
Qed.

(* non-vacuity: the three outcomes on a concrete state *)
Definition failing_state : proc := fst (run (connect1 1 7 ++ [OTxn 7 (one_metric 100); OTick 0 HAll])).
Example save_iff_cases :
  match nth_error (p_reqs failing_state) 0 with
  | Some q =>
      rq_kind q = RHarvest CMetrics /\ lookupN (rq_run q) (p_runs failing_state) = Some 0 /\
      saved q FRetry = true /\ saved q FOther = false /\ saved q F409 = false /\
      tags (h_bag (ah_h (get_ah (fst (harvest_error failing_state q FRetry)) 0)) CMetrics) = [100%N] /\
      g_dropped (fst (harvest_error failing_state q FOther)) = [(100%N, RNotRetryable)]
  | None => False
  end.
Proof. vm_compute. repeat split. Qed.
