(* TraceObs.v -- model of daemon/internal/newrelic/infinite_tracing/trace_observer.go
   (the span queue of one application's trace observer).  Definitions only; proofs are in
   TraceObsProofs.v, the property theorems in PropC16.v.

   A labelled transition system, one constructor per channel operation / branch of

     producer   QueueBatch(count, batch)  and  Shutdown(timeout)  (one goroutine: the processor calls
                QueueBatch; AppHarvest.Close calls Shutdown(500ms) after the run was removed from
                p.harvests, i.e. after the last QueueBatch)
     worker     the loop of newTraceObserverWithWorker: connect / doStreaming select / send ok|fail /
                messagesSent <- / supportability sends / back-off sleep / clone / initShutdown /
                completeShutdown
     supp       handleSupportability (always ready in its select until initiateAppShutdown is closed;
                NOTHING in the tree calls closeInitiateAppShutdown -- cfg field app_sd_callable)

   Channels `messages` and `messagesSent` are FIFO lists of batch counts with capacity QueueSize
   (batches); messagesRemainingCapacity is an N below 2^64 with wrapping +/-.  The sender is the
   environment: its answers are carried by the labels (LConnect r, LSendRet r, LRespErr, LClone ok), so
   a theorem over all traces is a theorem over all sender behaviours; "connecting for ever", "stuck in
   send", "sleeping" are the states WStart / WSending / WSleep with the sender's label not (yet) taken.
   Blocking is explicit: a goroutine at a channel operation whose guard is false has no transition
   (predicates producer_blocked / worker_blocked).  A nil *spanBatch dereference or a send on a closed
   channel is the explicit state WCrash / PCrash.

   cfg.fixed = true is the CURRENT code, i.e. with the three repairs
     924bc09  QueueBatch: count 0 returns at once;
     296039d  QueueBatch: after emptyQueue the capacity is tested again and a batch that still does not
              fit is dropped and counted as dumped;
     1697f0e  doStreaming: `msg, ok := <-to.messages; if !ok { return statusShutdown }`;
   cfg.fixed = false is the code before those commits, kept for the regression witnesses of PropC16.v and
   so that the check can tell when the implementation behaves like the old code again.

   Ghost fields (not in the Go code): wrapped zero_seen big_seen taken closed_early and the span
   ledgers g_*.                                                                                      *)
From Coq Require Import NArith List Bool.
Import ListNotations.
Open Scope N_scope.

Definition W : N := 18446744073709551616.                 (* 2^64 *)
Definition wadd (a b : N) : N := (a + b) mod W.           (* uint64 += *)
Definition wsub (a b : N) : N := (a + W - b) mod W.       (* uint64 -=   (a, b < W) *)

Definition qsum (l : list N) : N := fold_right N.add 0 l.
Definition lenN (l : list N) : N := N.of_nat (length l).

Record cfg := {
  qsize : N;                 (* Config.QueueSize *)
  fixed : bool;              (* true: the current code; false: the code before 924bc09/296039d/1697f0e *)
  app_sd_callable : bool     (* may somebody call closeInitiateAppShutdown?  (no caller exists today) *)
}.

(* spanBatchSenderStatus: code, and whether .metric is non-empty *)
Inductive scode := SOk | SShutdown | SRestart | SReconnect | SImmediate.
Inductive sres := ROk | RFail (code : scode) (metric : bool).      (* (err == nil) | (err, status) *)

(* what closeMessages returns to *)
Inductive cont := KRefuse (n : N) | KShutdown.

(* producer program counter *)
Inductive ppc :=
| PIdle
| PChkInit (n : N)          (* QueueBatch(n) entered; next: isShutdownInitiated() *)
| PChkComplete (n : N)      (* next: isShutdownComplete() *)
| PClose (k : cont)         (* next: closeMessagesOnce.Do: close(to.messages) *)
| PCloseDrain (k : cont)    (* in `for range to.messages {}` *)
| PDrain (n : N)            (* in getRemainingQueueCapacity *)
| PEmpty (n d : N)          (* in emptyQueue, d = dropped so far *)
| PSuppDump (n d : N)       (* next: to.supportability.increment <- {AgentQueueDumped, d} *)
| PRecheck (n : N)          (* current code only (296039d): capacity tested again after emptyQueue *)
| PSuppDrop (n : N)         (* current code only: next: supportability.increment <- {AgentQueueDumped, n} *)
| PSend (n : N)             (* next: to.messages <- b *)
| PDec (n : N)              (* next: to.messagesRemainingCapacity -= n *)
| PWait                     (* Shutdown: in select { <-shutdownComplete | <-ticker.C } *)
| PCrash (n : N).           (* panicked while holding n spans (its batch, and what it had dropped) *)

Inductive wnext := NSelect | NStatus (code : scode).

(* worker program counter *)
Inductive wpc :=
| WStart                              (* top of the loop; inside sender.connect() *)
| WSupp (k : nat) (nx : wnext)        (* k sends on supportability channels left, then nx *)
| WSelect                             (* doStreaming: in the select *)
| WSending (m : N)                    (* holds a batch of m spans; inside sender.send() *)
| WReport (m : N) (r : sres)          (* next: to.messagesSent <- m *)
| WStatus (code : scode)              (* doStreaming returned *)
| WSleep                              (* time.Sleep(recordSpanBackoff) *)
| WClone                              (* sender.shutdown(); sender.clone() *)
| WComplete                           (* left the loop; next: completeShutdown() *)
| WDone
| WCrash.                             (* nil *spanBatch dereferenced: the process dies *)

Record state := mkState {
  rem : N;
  msgs : list N;
  closed : bool;
  sent : list N;
  init_sd : bool;
  complete : bool;
  app_sd : bool;
  supp_alive : bool;
  prod : ppc;
  work : wpc;
  wrapped : bool;
  zero_seen : bool;
  big_seen : bool;
  taken : bool;
  closed_early : bool;
  g_off : N;
  g_sent : N;
  g_fail : N;
  g_dump : N;
  g_ref : N;
  g_left : N
}.

Definition set_rem (x : N) (s : state) : state :=
  {| rem := x; msgs := msgs s; closed := closed s; sent := sent s; init_sd := init_sd s; complete := complete s; app_sd := app_sd s; supp_alive := supp_alive s; prod := prod s; work := work s; wrapped := wrapped s; zero_seen := zero_seen s; big_seen := big_seen s; taken := taken s; closed_early := closed_early s; g_off := g_off s; g_sent := g_sent s; g_fail := g_fail s; g_dump := g_dump s; g_ref := g_ref s; g_left := g_left s |}.
Definition set_msgs (x : list N) (s : state) : state :=
  {| rem := rem s; msgs := x; closed := closed s; sent := sent s; init_sd := init_sd s; complete := complete s; app_sd := app_sd s; supp_alive := supp_alive s; prod := prod s; work := work s; wrapped := wrapped s; zero_seen := zero_seen s; big_seen := big_seen s; taken := taken s; closed_early := closed_early s; g_off := g_off s; g_sent := g_sent s; g_fail := g_fail s; g_dump := g_dump s; g_ref := g_ref s; g_left := g_left s |}.
Definition set_closed (x : bool) (s : state) : state :=
  {| rem := rem s; msgs := msgs s; closed := x; sent := sent s; init_sd := init_sd s; complete := complete s; app_sd := app_sd s; supp_alive := supp_alive s; prod := prod s; work := work s; wrapped := wrapped s; zero_seen := zero_seen s; big_seen := big_seen s; taken := taken s; closed_early := closed_early s; g_off := g_off s; g_sent := g_sent s; g_fail := g_fail s; g_dump := g_dump s; g_ref := g_ref s; g_left := g_left s |}.
Definition set_sent (x : list N) (s : state) : state :=
  {| rem := rem s; msgs := msgs s; closed := closed s; sent := x; init_sd := init_sd s; complete := complete s; app_sd := app_sd s; supp_alive := supp_alive s; prod := prod s; work := work s; wrapped := wrapped s; zero_seen := zero_seen s; big_seen := big_seen s; taken := taken s; closed_early := closed_early s; g_off := g_off s; g_sent := g_sent s; g_fail := g_fail s; g_dump := g_dump s; g_ref := g_ref s; g_left := g_left s |}.
Definition set_init_sd (x : bool) (s : state) : state :=
  {| rem := rem s; msgs := msgs s; closed := closed s; sent := sent s; init_sd := x; complete := complete s; app_sd := app_sd s; supp_alive := supp_alive s; prod := prod s; work := work s; wrapped := wrapped s; zero_seen := zero_seen s; big_seen := big_seen s; taken := taken s; closed_early := closed_early s; g_off := g_off s; g_sent := g_sent s; g_fail := g_fail s; g_dump := g_dump s; g_ref := g_ref s; g_left := g_left s |}.
Definition set_complete (x : bool) (s : state) : state :=
  {| rem := rem s; msgs := msgs s; closed := closed s; sent := sent s; init_sd := init_sd s; complete := x; app_sd := app_sd s; supp_alive := supp_alive s; prod := prod s; work := work s; wrapped := wrapped s; zero_seen := zero_seen s; big_seen := big_seen s; taken := taken s; closed_early := closed_early s; g_off := g_off s; g_sent := g_sent s; g_fail := g_fail s; g_dump := g_dump s; g_ref := g_ref s; g_left := g_left s |}.
Definition set_app_sd (x : bool) (s : state) : state :=
  {| rem := rem s; msgs := msgs s; closed := closed s; sent := sent s; init_sd := init_sd s; complete := complete s; app_sd := x; supp_alive := supp_alive s; prod := prod s; work := work s; wrapped := wrapped s; zero_seen := zero_seen s; big_seen := big_seen s; taken := taken s; closed_early := closed_early s; g_off := g_off s; g_sent := g_sent s; g_fail := g_fail s; g_dump := g_dump s; g_ref := g_ref s; g_left := g_left s |}.
Definition set_supp_alive (x : bool) (s : state) : state :=
  {| rem := rem s; msgs := msgs s; closed := closed s; sent := sent s; init_sd := init_sd s; complete := complete s; app_sd := app_sd s; supp_alive := x; prod := prod s; work := work s; wrapped := wrapped s; zero_seen := zero_seen s; big_seen := big_seen s; taken := taken s; closed_early := closed_early s; g_off := g_off s; g_sent := g_sent s; g_fail := g_fail s; g_dump := g_dump s; g_ref := g_ref s; g_left := g_left s |}.
Definition set_prod (x : ppc) (s : state) : state :=
  {| rem := rem s; msgs := msgs s; closed := closed s; sent := sent s; init_sd := init_sd s; complete := complete s; app_sd := app_sd s; supp_alive := supp_alive s; prod := x; work := work s; wrapped := wrapped s; zero_seen := zero_seen s; big_seen := big_seen s; taken := taken s; closed_early := closed_early s; g_off := g_off s; g_sent := g_sent s; g_fail := g_fail s; g_dump := g_dump s; g_ref := g_ref s; g_left := g_left s |}.
Definition set_work (x : wpc) (s : state) : state :=
  {| rem := rem s; msgs := msgs s; closed := closed s; sent := sent s; init_sd := init_sd s; complete := complete s; app_sd := app_sd s; supp_alive := supp_alive s; prod := prod s; work := x; wrapped := wrapped s; zero_seen := zero_seen s; big_seen := big_seen s; taken := taken s; closed_early := closed_early s; g_off := g_off s; g_sent := g_sent s; g_fail := g_fail s; g_dump := g_dump s; g_ref := g_ref s; g_left := g_left s |}.
Definition set_wrapped (x : bool) (s : state) : state :=
  {| rem := rem s; msgs := msgs s; closed := closed s; sent := sent s; init_sd := init_sd s; complete := complete s; app_sd := app_sd s; supp_alive := supp_alive s; prod := prod s; work := work s; wrapped := x; zero_seen := zero_seen s; big_seen := big_seen s; taken := taken s; closed_early := closed_early s; g_off := g_off s; g_sent := g_sent s; g_fail := g_fail s; g_dump := g_dump s; g_ref := g_ref s; g_left := g_left s |}.
Definition set_zero_seen (x : bool) (s : state) : state :=
  {| rem := rem s; msgs := msgs s; closed := closed s; sent := sent s; init_sd := init_sd s; complete := complete s; app_sd := app_sd s; supp_alive := supp_alive s; prod := prod s; work := work s; wrapped := wrapped s; zero_seen := x; big_seen := big_seen s; taken := taken s; closed_early := closed_early s; g_off := g_off s; g_sent := g_sent s; g_fail := g_fail s; g_dump := g_dump s; g_ref := g_ref s; g_left := g_left s |}.
Definition set_big_seen (x : bool) (s : state) : state :=
  {| rem := rem s; msgs := msgs s; closed := closed s; sent := sent s; init_sd := init_sd s; complete := complete s; app_sd := app_sd s; supp_alive := supp_alive s; prod := prod s; work := work s; wrapped := wrapped s; zero_seen := zero_seen s; big_seen := x; taken := taken s; closed_early := closed_early s; g_off := g_off s; g_sent := g_sent s; g_fail := g_fail s; g_dump := g_dump s; g_ref := g_ref s; g_left := g_left s |}.
Definition set_taken (x : bool) (s : state) : state :=
  {| rem := rem s; msgs := msgs s; closed := closed s; sent := sent s; init_sd := init_sd s; complete := complete s; app_sd := app_sd s; supp_alive := supp_alive s; prod := prod s; work := work s; wrapped := wrapped s; zero_seen := zero_seen s; big_seen := big_seen s; taken := x; closed_early := closed_early s; g_off := g_off s; g_sent := g_sent s; g_fail := g_fail s; g_dump := g_dump s; g_ref := g_ref s; g_left := g_left s |}.
Definition set_closed_early (x : bool) (s : state) : state :=
  {| rem := rem s; msgs := msgs s; closed := closed s; sent := sent s; init_sd := init_sd s; complete := complete s; app_sd := app_sd s; supp_alive := supp_alive s; prod := prod s; work := work s; wrapped := wrapped s; zero_seen := zero_seen s; big_seen := big_seen s; taken := taken s; closed_early := x; g_off := g_off s; g_sent := g_sent s; g_fail := g_fail s; g_dump := g_dump s; g_ref := g_ref s; g_left := g_left s |}.
Definition set_g_off (x : N) (s : state) : state :=
  {| rem := rem s; msgs := msgs s; closed := closed s; sent := sent s; init_sd := init_sd s; complete := complete s; app_sd := app_sd s; supp_alive := supp_alive s; prod := prod s; work := work s; wrapped := wrapped s; zero_seen := zero_seen s; big_seen := big_seen s; taken := taken s; closed_early := closed_early s; g_off := x; g_sent := g_sent s; g_fail := g_fail s; g_dump := g_dump s; g_ref := g_ref s; g_left := g_left s |}.
Definition set_g_sent (x : N) (s : state) : state :=
  {| rem := rem s; msgs := msgs s; closed := closed s; sent := sent s; init_sd := init_sd s; complete := complete s; app_sd := app_sd s; supp_alive := supp_alive s; prod := prod s; work := work s; wrapped := wrapped s; zero_seen := zero_seen s; big_seen := big_seen s; taken := taken s; closed_early := closed_early s; g_off := g_off s; g_sent := x; g_fail := g_fail s; g_dump := g_dump s; g_ref := g_ref s; g_left := g_left s |}.
Definition set_g_fail (x : N) (s : state) : state :=
  {| rem := rem s; msgs := msgs s; closed := closed s; sent := sent s; init_sd := init_sd s; complete := complete s; app_sd := app_sd s; supp_alive := supp_alive s; prod := prod s; work := work s; wrapped := wrapped s; zero_seen := zero_seen s; big_seen := big_seen s; taken := taken s; closed_early := closed_early s; g_off := g_off s; g_sent := g_sent s; g_fail := x; g_dump := g_dump s; g_ref := g_ref s; g_left := g_left s |}.
Definition set_g_dump (x : N) (s : state) : state :=
  {| rem := rem s; msgs := msgs s; closed := closed s; sent := sent s; init_sd := init_sd s; complete := complete s; app_sd := app_sd s; supp_alive := supp_alive s; prod := prod s; work := work s; wrapped := wrapped s; zero_seen := zero_seen s; big_seen := big_seen s; taken := taken s; closed_early := closed_early s; g_off := g_off s; g_sent := g_sent s; g_fail := g_fail s; g_dump := x; g_ref := g_ref s; g_left := g_left s |}.
Definition set_g_ref (x : N) (s : state) : state :=
  {| rem := rem s; msgs := msgs s; closed := closed s; sent := sent s; init_sd := init_sd s; complete := complete s; app_sd := app_sd s; supp_alive := supp_alive s; prod := prod s; work := work s; wrapped := wrapped s; zero_seen := zero_seen s; big_seen := big_seen s; taken := taken s; closed_early := closed_early s; g_off := g_off s; g_sent := g_sent s; g_fail := g_fail s; g_dump := g_dump s; g_ref := x; g_left := g_left s |}.
Definition set_g_left (x : N) (s : state) : state :=
  {| rem := rem s; msgs := msgs s; closed := closed s; sent := sent s; init_sd := init_sd s; complete := complete s; app_sd := app_sd s; supp_alive := supp_alive s; prod := prod s; work := work s; wrapped := wrapped s; zero_seen := zero_seen s; big_seen := big_seen s; taken := taken s; closed_early := closed_early s; g_off := g_off s; g_sent := g_sent s; g_fail := g_fail s; g_dump := g_dump s; g_ref := g_ref s; g_left := x |}.

Definition init (c : cfg) : state :=
  {| rem := qsize c; msgs := []; closed := false; sent := []; init_sd := false; complete := false;
     app_sd := false; supp_alive := true; prod := PIdle; work := WStart;
     wrapped := false; zero_seen := false; big_seen := false; taken := false; closed_early := false;
     g_off := 0; g_sent := 0; g_fail := 0; g_dump := 0; g_ref := 0; g_left := 0 |}.

Definition wf (c : cfg) : Prop := 1 <= qsize c /\ qsize c < W.     (* make(chan, QueueSize), uint64 *)

Inductive label :=
(* producer: QueueBatch *)
| LCall (n : N)          (* QueueBatch(n, _) is called *)
| LChkInit               (* isShutdownInitiated() *)
| LChkComplete           (* isShutdownComplete() *)
| LClose                 (* closeMessagesOnce.Do: close(to.messages) (or: already done) *)
| LCloseDrain1           (* `for range to.messages`: one queued batch discarded *)
| LCloseDrainEnd         (* ... channel empty: closeMessages returns *)
| LDrainSent             (* getRemainingQueueCapacity: case sent := <-to.messagesSent *)
| LDrainDone             (* ... default: (messagesSent empty) *)
| LEmptyRecv             (* emptyQueue: case batch := <-to.messages *)
| LEmptyDone             (* ... default: (messages empty) capacity += dropped *)
| LEmptyNil              (* ... receive on the closed empty channel: nil batch dereferenced *)
| LSuppDump              (* to.supportability.increment <- AgentQueueDumped *)
| LRecheck               (* current code: second capacity test *)
| LSuppDrop              (* current code: the batch is dropped and counted as dumped *)
| LSend                  (* to.messages <- b *)
| LSendClosed            (* ... on a closed channel: panic *)
| LDec                   (* to.messagesRemainingCapacity -= count *)
(* producer: Shutdown *)
| LShutdown              (* Shutdown(t) is called: initShutdown() *)
| LShutdownDone          (* select: <-to.shutdownComplete *)
| LShutdownTimeout       (* select: <-ticker.C *)
(* worker *)
| LConnect (r : sres)    (* sender.connect() returns *)
| LWSupp                 (* one send on a supportability channel *)
| LRecv                  (* select: msg := <-to.messages (a batch) *)
| LRecvClosed            (* select: <-to.messages on the closed, empty channel (nil) *)
| LRespErr (code : scode) (metric : bool)   (* select: status := <-to.responseError *)
| LSeeShutdown           (* select: <-to.initiateShutdown *)
| LSendRet (r : sres)    (* sender.send() returns *)
| LReport                (* to.messagesSent <- msg.count *)
| LStatus                (* the worker loop acts on doStreaming's status *)
| LWake                  (* time.Sleep returns *)
| LClone (ok : bool)     (* sender.clone() returns *)
| LComplete              (* completeShutdown(): close(to.shutdownComplete) *)
(* supportability goroutine / application shutdown *)
| LAppShutdown           (* closeInitiateAppShutdown() *)
| LSuppReturn.           (* handleSupportability: case <-to.initiateAppShutdown: return *)

(* ------------------------------------------------------------------ effects *)
Definition ret_cont (k : cont) (s : state) : state :=
  match k with
  | KRefuse n => set_prod PIdle (set_g_ref (g_ref s + n) s)
  | KShutdown => set_prod PIdle s
  end.

Definition worker_left (w : wpc) : bool := match w with WComplete | WDone => true | _ => false end.

Definition wsupp (k : nat) (nx : wnext) : wpc :=
  match k with
  | O => match nx with NSelect => WSelect | NStatus code => WStatus code end
  | S _ => WSupp k nx
  end.
(* supportabilityError(status): two increments iff status.metric != "" *)
Definition after_err (code : scode) (metric : bool) : wpc :=
  wsupp (if metric then 2 else 0)%nat (NStatus code).

Definition e_call (c : cfg) (n : N) (s : state) : state :=
  set_prod (if fixed c && (n =? 0) then PIdle else PChkInit n)
    (set_g_off (g_off s + n)
      (set_zero_seen (zero_seen s || (negb (fixed c) && (n =? 0)))
        (set_big_seen (big_seen s || (qsize c <? n)) s))).
Definition e_chkinit (n : N) (s : state) : state :=
  set_prod (if init_sd s then PChkComplete n else PDrain n) s.
Definition e_chkcomplete (n : N) (s : state) : state :=
  if complete s then ret_cont (KRefuse n) s else set_prod (PClose (KRefuse n)) s.
Definition e_close (k : cont) (s : state) : state :=
  if closed s then ret_cont k s
  else set_prod (PCloseDrain k)
         (set_closed true (set_closed_early (closed_early s || negb (worker_left (work s))) s)).
Definition e_closedrain1 (m : N) (r : list N) (s : state) : state :=
  set_msgs r (set_g_left (g_left s + m) s).
Definition e_drainsent (x : N) (r : list N) (s : state) : state :=
  set_rem (wadd (rem s) x) (set_sent r s).
Definition e_draindone (n : N) (s : state) : state :=
  set_prod (if rem s <? n then PEmpty n 0 else PSend n) s.
Definition e_emptyrecv (n d m : N) (r : list N) (s : state) : state :=
  set_prod (PEmpty n (wadd d m)) (set_msgs r s).
Definition e_emptydone (n d : N) (s : state) : state :=
  set_prod (PSuppDump n d) (set_rem (wadd (rem s) d) s).
Definition e_suppdump (c : cfg) (n d : N) (s : state) : state :=
  set_prod (if fixed c then PRecheck n else PSend n) (set_g_dump (g_dump s + d) s).
Definition e_recheck (n : N) (s : state) : state :=
  set_prod (if rem s <? n then PSuppDrop n else PSend n) s.
Definition e_suppdrop (n : N) (s : state) : state :=
  set_prod PIdle (set_g_dump (g_dump s + n) s).
Definition e_send (n : N) (s : state) : state :=
  set_prod (PDec n) (set_msgs (msgs s ++ [n]) s).
Definition e_dec (n : N) (s : state) : state :=
  set_prod PIdle (set_rem (wsub (rem s) n) (set_wrapped (wrapped s || (rem s <? n)) s)).
Definition e_shutdown (s : state) : state := set_prod PWait (set_init_sd true s).

Definition e_connect (r : sres) (s : state) : state :=
  set_work (match r with ROk => WSelect | RFail code metric => after_err code metric end) s.
Definition e_recv (m : N) (r : list N) (s : state) : state :=
  set_work (WSending m) (set_msgs r (set_taken true s)).
Definition e_recvclosed (c : cfg) (s : state) : state :=
  set_work (if fixed c then WStatus SShutdown else WCrash) s.
Definition e_report (m : N) (r : sres) (s : state) : state :=
  match r with
  | ROk =>                   (* incrementSent <- count; dataUsage <- len(batch) *)
      set_work (WSupp 2 NSelect) (set_sent (sent s ++ [m]) (set_g_sent (g_sent s + m) s))
  | RFail code metric =>     (* dataUsage <- 0; supportabilityError(status) *)
      set_work (WSupp (if metric then 3 else 1) (NStatus code))
        (set_sent (sent s ++ [m]) (set_g_fail (g_fail s + m) s))
  end.
Definition e_status (code : scode) (s : state) : state :=
  match code with
  | SShutdown => set_work WComplete (set_init_sd true s)      (* to.initShutdown(); break *)
  | SRestart => set_work WSleep s
  | SReconnect => set_work WClone s
  | SOk | SImmediate => set_work WStart s
  end.

(* ------------------------------------------------------------------ the relation *)
Inductive lstep (c : cfg) : state -> label -> state -> Prop :=
| st_call s n : prod s = PIdle -> n < W -> lstep c s (LCall n) (e_call c n s)
| st_chkinit s n : prod s = PChkInit n -> lstep c s LChkInit (e_chkinit n s)
| st_chkcomplete s n : prod s = PChkComplete n -> lstep c s LChkComplete (e_chkcomplete n s)
| st_close s k : prod s = PClose k -> lstep c s LClose (e_close k s)
| st_closedrain1 s k m r : prod s = PCloseDrain k -> msgs s = m :: r ->
    lstep c s LCloseDrain1 (e_closedrain1 m r s)
| st_closedrainend s k : prod s = PCloseDrain k -> msgs s = [] -> lstep c s LCloseDrainEnd (ret_cont k s)
| st_drainsent s n x r : prod s = PDrain n -> sent s = x :: r -> lstep c s LDrainSent (e_drainsent x r s)
| st_draindone s n : prod s = PDrain n -> sent s = [] -> lstep c s LDrainDone (e_draindone n s)
| st_emptyrecv s n d m r : prod s = PEmpty n d -> msgs s = m :: r ->
    lstep c s LEmptyRecv (e_emptyrecv n d m r s)
| st_emptydone s n d : prod s = PEmpty n d -> msgs s = [] -> closed s = false ->
    lstep c s LEmptyDone (e_emptydone n d s)
| st_emptynil s n d : prod s = PEmpty n d -> msgs s = [] -> closed s = true ->
    lstep c s LEmptyNil (set_prod (PCrash (n + d)) s)
| st_suppdump s n d : prod s = PSuppDump n d -> supp_alive s = true ->
    lstep c s LSuppDump (e_suppdump c n d s)
| st_recheck s n : prod s = PRecheck n -> lstep c s LRecheck (e_recheck n s)
| st_suppdrop s n : prod s = PSuppDrop n -> supp_alive s = true -> lstep c s LSuppDrop (e_suppdrop n s)
| st_send s n : prod s = PSend n -> closed s = false -> lenN (msgs s) < qsize c ->
    lstep c s LSend (e_send n s)
| st_sendclosed s n : prod s = PSend n -> closed s = true -> lstep c s LSendClosed (set_prod (PCrash n) s)
| st_dec s n : prod s = PDec n -> lstep c s LDec (e_dec n s)
| st_shutdown s : prod s = PIdle -> lstep c s LShutdown (e_shutdown s)
| st_shutdowndone s : prod s = PWait -> complete s = true ->
    lstep c s LShutdownDone (set_prod (PClose KShutdown) s)
| st_shutdowntimeout s : prod s = PWait -> lstep c s LShutdownTimeout (set_prod (PClose KShutdown) s)
| st_connect s r : work s = WStart -> lstep c s (LConnect r) (e_connect r s)
| st_wsupp s k nx : work s = WSupp (S k) nx -> supp_alive s = true ->
    lstep c s LWSupp (set_work (wsupp k nx) s)
| st_recv s m r : work s = WSelect -> msgs s = m :: r -> lstep c s LRecv (e_recv m r s)
| st_recvclosed s : work s = WSelect -> msgs s = [] -> closed s = true ->
    lstep c s LRecvClosed (e_recvclosed c s)
| st_resperr s code metric : work s = WSelect ->
    lstep c s (LRespErr code metric) (set_work (after_err code metric) s)
| st_seeshutdown s : work s = WSelect -> init_sd s = true ->
    lstep c s LSeeShutdown (set_work (WStatus SShutdown) s)
| st_sendret s m r : work s = WSending m -> lstep c s (LSendRet r) (set_work (WReport m r) s)
| st_report s m r : work s = WReport m r -> lenN (sent s) < qsize c -> lstep c s LReport (e_report m r s)
| st_status s code : work s = WStatus code -> lstep c s LStatus (e_status code s)
| st_wake s : work s = WSleep -> lstep c s LWake (set_work WStart s)
| st_clone s ok : work s = WClone -> lstep c s (LClone ok) (set_work (if ok then WStart else WComplete) s)
| st_complete s : work s = WComplete -> lstep c s LComplete (set_work WDone (set_complete true s))
| st_appshutdown s : app_sd_callable c = true -> app_sd s = false ->
    lstep c s LAppShutdown (set_app_sd true s)
| st_suppreturn s : app_sd s = true -> supp_alive s = true ->
    lstep c s LSuppReturn (set_supp_alive false s).

(* ------------------------------------------------------------------ executable twin *)
Definition step_fn (c : cfg) (s : state) (l : label) : option state :=
  match l with
  | LCall n => match prod s with PIdle => if n <? W then Some (e_call c n s) else None | _ => None end
  | LChkInit => match prod s with PChkInit n => Some (e_chkinit n s) | _ => None end
  | LChkComplete => match prod s with PChkComplete n => Some (e_chkcomplete n s) | _ => None end
  | LClose => match prod s with PClose k => Some (e_close k s) | _ => None end
  | LCloseDrain1 =>
      match prod s, msgs s with PCloseDrain k, m :: r => Some (e_closedrain1 m r s) | _, _ => None end
  | LCloseDrainEnd => match prod s, msgs s with PCloseDrain k, [] => Some (ret_cont k s) | _, _ => None end
  | LDrainSent => match prod s, sent s with PDrain n, x :: r => Some (e_drainsent x r s) | _, _ => None end
  | LDrainDone => match prod s, sent s with PDrain n, [] => Some (e_draindone n s) | _, _ => None end
  | LEmptyRecv =>
      match prod s, msgs s with PEmpty n d, m :: r => Some (e_emptyrecv n d m r s) | _, _ => None end
  | LEmptyDone =>
      match prod s, msgs s with
      | PEmpty n d, [] => if closed s then None else Some (e_emptydone n d s)
      | _, _ => None
      end
  | LEmptyNil =>
      match prod s, msgs s with
      | PEmpty n d, [] => if closed s then Some (set_prod (PCrash (n + d)) s) else None
      | _, _ => None
      end
  | LSuppDump =>
      match prod s with
      | PSuppDump n d => if supp_alive s then Some (e_suppdump c n d s) else None
      | _ => None
      end
  | LRecheck => match prod s with PRecheck n => Some (e_recheck n s) | _ => None end
  | LSuppDrop =>
      match prod s with PSuppDrop n => if supp_alive s then Some (e_suppdrop n s) else None | _ => None end
  | LSend =>
      match prod s with
      | PSend n => if closed s then None else if lenN (msgs s) <? qsize c then Some (e_send n s) else None
      | _ => None
      end
  | LSendClosed =>
      match prod s with PSend n => if closed s then Some (set_prod (PCrash n) s) else None | _ => None end
  | LDec => match prod s with PDec n => Some (e_dec n s) | _ => None end
  | LShutdown => match prod s with PIdle => Some (e_shutdown s) | _ => None end
  | LShutdownDone =>
      match prod s with PWait => if complete s then Some (set_prod (PClose KShutdown) s) else None | _ => None end
  | LShutdownTimeout => match prod s with PWait => Some (set_prod (PClose KShutdown) s) | _ => None end
  | LConnect r => match work s with WStart => Some (e_connect r s) | _ => None end
  | LWSupp =>
      match work s with
      | WSupp (S k) nx => if supp_alive s then Some (set_work (wsupp k nx) s) else None
      | _ => None
      end
  | LRecv => match work s, msgs s with WSelect, m :: r => Some (e_recv m r s) | _, _ => None end
  | LRecvClosed =>
      match work s, msgs s with
      | WSelect, [] => if closed s then Some (e_recvclosed c s) else None
      | _, _ => None
      end
  | LRespErr code metric =>
      match work s with WSelect => Some (set_work (after_err code metric) s) | _ => None end
  | LSeeShutdown =>
      match work s with
      | WSelect => if init_sd s then Some (set_work (WStatus SShutdown) s) else None
      | _ => None
      end
  | LSendRet r => match work s with WSending m => Some (set_work (WReport m r) s) | _ => None end
  | LReport =>
      match work s with
      | WReport m r => if lenN (sent s) <? qsize c then Some (e_report m r s) else None
      | _ => None
      end
  | LStatus => match work s with WStatus code => Some (e_status code s) | _ => None end
  | LWake => match work s with WSleep => Some (set_work WStart s) | _ => None end
  | LClone ok =>
      match work s with WClone => Some (set_work (if ok then WStart else WComplete) s) | _ => None end
  | LComplete => match work s with WComplete => Some (set_work WDone (set_complete true s)) | _ => None end
  | LAppShutdown =>
      if app_sd_callable c then if app_sd s then None else Some (set_app_sd true s) else None
  | LSuppReturn =>
      if app_sd s then if supp_alive s then Some (set_supp_alive false s) else None else None
  end.

(* labels without data, and the data-carrying ones instantiated from finite candidate lists *)
Definition plain_labels : list label :=
  [LChkInit; LChkComplete; LClose; LCloseDrain1; LCloseDrainEnd; LDrainSent; LDrainDone; LEmptyRecv;
   LEmptyDone; LEmptyNil; LSuppDump; LRecheck; LSuppDrop; LSend; LSendClosed; LDec; LShutdown;
   LShutdownDone; LShutdownTimeout; LWSupp; LRecv; LRecvClosed; LSeeShutdown; LReport; LStatus; LWake;
   LClone true; LClone false; LComplete; LAppShutdown; LSuppReturn].
Definition all_codes : list scode := [SOk; SShutdown; SRestart; SReconnect; SImmediate].
Definition all_sres : list sres :=
  ROk :: flat_map (fun code => [RFail code true; RFail code false]) all_codes.
Definition sender_labels : list label :=
  map LConnect all_sres ++ map LSendRet all_sres
  ++ flat_map (fun code => [LRespErr code true; LRespErr code false]) all_codes.
(* every label except LCall n for n outside `counts` *)
Definition labels_over (counts : list N) : list label :=
  map LCall counts ++ plain_labels ++ sender_labels.

Definition enabled (c : cfg) (counts : list N) (s : state) : list (label * state) :=
  flat_map (fun l => match step_fn c s l with Some s' => [(l, s')] | None => [] end) (labels_over counts).

Definition label_over (counts : list N) (l : label) : Prop :=
  match l with LCall n => In n counts | _ => True end.

(* ------------------------------------------------------------------ traces *)
Inductive steps (c : cfg) : state -> list label -> state -> Prop :=
| steps_nil s : steps c s [] s
| steps_snoc s tr s1 l s2 : steps c s tr s1 -> lstep c s1 l s2 -> steps c s (tr ++ [l]) s2.

Definition reachable (c : cfg) (s : state) : Prop := exists tr, steps c (init c) tr s.

Fixpoint run_trace (c : cfg) (s : state) (tr : list label) : option state :=
  match tr with
  | [] => Some s
  | l :: r => match step_fn c s l with Some s' => run_trace c s' r | None => None end
  end.

(* ------------------------------------------------------------------ what the property talks about *)
(* the producer is at a channel operation that cannot proceed *)
Definition producer_blocked (c : cfg) (s : state) : bool :=
  match prod s with
  | PSend _ => negb (closed s) && (qsize c <=? lenN (msgs s))
  | PSuppDump _ _ | PSuppDrop _ => negb (supp_alive s)
  | _ => false
  end.
(* the worker is at a channel send that cannot proceed (its waits inside the sender -- connect, send,
   the back-off sleep -- and the idle select are not blocking in this sense) *)
Definition worker_blocked (c : cfg) (s : state) : bool :=
  match work s with
  | WReport _ _ => qsize c <=? lenN (sent s)
  | WSupp (S _) _ => negb (supp_alive s)
  | _ => false
  end.
Definition crashed (s : state) : bool :=
  match work s, prod s with WCrash, _ => true | _, PCrash _ => true | _, _ => false end.

(* spans in the worker's hands (received, not yet reported on messagesSent) *)
Definition hand (w : wpc) : N := match w with WSending m | WReport m _ => m | _ => 0 end.
(* spans taken out of the queue by emptyQueue and not yet added back to the counter *)
Definition pdrop (p : ppc) : N := match p with PEmpty _ d => d | _ => 0 end.
(* spans already in the channel whose decrement is still to come *)
Definition ppend (p : ppc) : N := match p with PDec n => n | _ => 0 end.
(* ledger: spans the producer holds in the current call *)
Definition pcall (p : ppc) : N :=
  match p with
  | PChkInit n | PChkComplete n | PClose (KRefuse n) | PCloseDrain (KRefuse n) | PDrain n | PEmpty n _
  | PSuppDump n _ | PRecheck n | PSuppDrop n | PSend n | PCrash n => n
  | _ => 0
  end.
Definition pdrop_acc (p : ppc) : N := match p with PEmpty _ d | PSuppDump _ d => d | _ => 0 end.

(* the counter has wrapped, or the next decrement will wrap it *)
Definition wrap_pending (c : cfg) (s : state) : bool :=
  match prod s with
  | PSuppDump n _ => negb (fixed c) && (rem s <? n)      (* the repaired code tests again *)
  | PSend n | PDec n => rem s <? n
  | _ => false
  end.
Definition wrap_free (c : cfg) (s : state) : bool := negb (wrapped s) && negb (wrap_pending c s).

(* ------------------------------------------------------------------ observations and trace inclusion
   The harness runs the real TraceObserver with a gated sender: the worker is always parked at a known
   point (connect gate, send gate, sleep gate, idle select, a blocked channel send, or gone) when the
   producer acts.  It logs the events below under one mutex.  `accepts` decides whether the LTS has a
   run whose visible labels are the logged ones, with the internal (tau) labels interleaved freely, and
   which passes through states that agree with every probe. *)
Inductive wpos := PosConnect | PosSend | PosSleep | PosSelect | PosChanSend | PosGone | PosOther.

Record probe := {
  p_rem : N;                     (* to.messagesRemainingCapacity *)
  p_nmsgs : N;                   (* len(to.messages) *)
  p_queued : option (list N);    (* counts of the queued batches (peeked), None when not peeked *)
  p_nsent : N;                   (* len(to.messagesSent) *)
  p_init : bool;                 (* isShutdownInitiated() *)
  p_complete : bool;             (* isShutdownComplete() *)
  p_wpos : wpos
}.

Inductive obs :=
| OCall (n : N)                  (* QueueBatch(n) called *)
| ORet                           (* the producer's call returned *)
| OBlocked                       (* the watchdog expired: the call has not returned *)
| OProdCrash                     (* the producer's call panicked *)
| OShutdown                      (* Shutdown(t) called *)
| OShutdownRet (timedout : bool) (* Shutdown returned (err != nil) *)
| OConnect (r : sres)            (* the scripted sender's connect() returned r *)
| OSendCall (m : N)              (* sender.send() entered with a batch of m spans *)
| OSendRet (r : sres)
| ORespErr (code : scode) (metric : bool)   (* a status was put on the sender's response channel *)
| OWake                          (* the back-off sleep was released *)
| OClone (ok : bool)
| OWorkerEnd                     (* worker() returned *)
| OWorkerCrash                   (* worker() panicked *)
| OProbe (p : probe).

Definition is_tau (l : label) : bool :=
  match l with
  | LChkInit | LChkComplete | LClose | LCloseDrain1 | LCloseDrainEnd | LDrainSent | LDrainDone
  | LEmptyRecv | LEmptyDone | LEmptyNil | LSuppDump | LRecheck | LSuppDrop | LSend | LSendClosed | LDec
  | LWSupp | LSeeShutdown | LReport | LStatus | LComplete => true
  | _ => false
  end.
(* the labels of plain_labels that are internal (TraceObsProofs.tau_labels_spec: = filter is_tau plain_labels) *)
Definition tau_labels : list label :=
  [LChkInit; LChkComplete; LClose; LCloseDrain1; LCloseDrainEnd; LDrainSent; LDrainDone; LEmptyRecv;
   LEmptyDone; LEmptyNil; LSuppDump; LRecheck; LSuppDrop; LSend; LSendClosed; LDec; LWSupp; LSeeShutdown;
   LReport; LStatus; LComplete].

(* successors of s under the labels ls *)
Definition succ_over (c : cfg) (ls : list label) (s : state) : list state :=
  flat_map (fun l => match step_fn c s l with Some s' => [s'] | None => [] end) ls.
Definition tau_succ (c : cfg) (s : state) : list state := succ_over c tau_labels s.

(* -- decidable equality on states, for the visited set -- *)
Fixpoint listN_eqb (a b : list N) : bool :=
  match a, b with
  | [], [] => true
  | x :: a', y :: b' => (x =? y) && listN_eqb a' b'
  | _, _ => false
  end.
Definition scode_eqb (a b : scode) : bool :=
  match a, b with
  | SOk, SOk | SShutdown, SShutdown | SRestart, SRestart | SReconnect, SReconnect
  | SImmediate, SImmediate => true
  | _, _ => false
  end.
Definition sres_eqb (a b : sres) : bool :=
  match a, b with
  | ROk, ROk => true
  | RFail c1 m1, RFail c2 m2 => scode_eqb c1 c2 && Bool.eqb m1 m2
  | _, _ => false
  end.
Definition cont_eqb (a b : cont) : bool :=
  match a, b with
  | KRefuse n, KRefuse m => n =? m
  | KShutdown, KShutdown => true
  | _, _ => false
  end.
Definition ppc_eqb (a b : ppc) : bool :=
  match a, b with
  | PIdle, PIdle | PWait, PWait => true
  | PChkInit n, PChkInit m | PChkComplete n, PChkComplete m | PDrain n, PDrain m | PRecheck n, PRecheck m
  | PSuppDrop n, PSuppDrop m | PSend n, PSend m | PDec n, PDec m | PCrash n, PCrash m => n =? m
  | PClose k, PClose k' | PCloseDrain k, PCloseDrain k' => cont_eqb k k'
  | PEmpty n d, PEmpty m e | PSuppDump n d, PSuppDump m e => (n =? m) && (d =? e)
  | _, _ => false
  end.
Definition wnext_eqb (a b : wnext) : bool :=
  match a, b with
  | NSelect, NSelect => true
  | NStatus x, NStatus y => scode_eqb x y
  | _, _ => false
  end.
Definition wpc_eqb (a b : wpc) : bool :=
  match a, b with
  | WStart, WStart | WSelect, WSelect | WSleep, WSleep | WClone, WClone | WComplete, WComplete
  | WDone, WDone | WCrash, WCrash => true
  | WSupp k nx, WSupp k' nx' => Nat.eqb k k' && wnext_eqb nx nx'
  | WSending m, WSending m' => m =? m'
  | WReport m r, WReport m' r' => (m =? m') && sres_eqb r r'
  | WStatus x, WStatus y => scode_eqb x y
  | _, _ => false
  end.
Definition state_eqb (a b : state) : bool :=
  (rem a =? rem b) && listN_eqb (msgs a) (msgs b) && Bool.eqb (closed a) (closed b)
  && listN_eqb (sent a) (sent b) && Bool.eqb (init_sd a) (init_sd b)
  && Bool.eqb (complete a) (complete b) && Bool.eqb (app_sd a) (app_sd b)
  && Bool.eqb (supp_alive a) (supp_alive b) && ppc_eqb (prod a) (prod b) && wpc_eqb (work a) (work b)
  && Bool.eqb (wrapped a) (wrapped b) && Bool.eqb (zero_seen a) (zero_seen b)
  && Bool.eqb (big_seen a) (big_seen b) && Bool.eqb (taken a) (taken b)
  && Bool.eqb (closed_early a) (closed_early b)
  && (g_off a =? g_off b) && (g_sent a =? g_sent b) && (g_fail a =? g_fail b)
  && (g_dump a =? g_dump b) && (g_ref a =? g_ref b) && (g_left a =? g_left b).

Definition mem_state (s : state) (l : list state) : bool := existsb (state_eqb s) l.
Fixpoint add_new (cand acc : list state) : list state :=      (* acc ++ the candidates not yet in it *)
  match cand with
  | [] => acc
  | s :: r => if mem_state s acc then add_new r acc else add_new r (acc ++ [s])
  end.

(* tau-closure by iteration; None = fuel exhausted (reported, never taken for a verdict) *)
Fixpoint tau_close (c : cfg) (fuel : nat) (acc : list state) : option (list state) :=
  match fuel with
  | O => None
  | S f =>
      let acc' := add_new (flat_map (tau_succ c) acc) acc in
      if Nat.eqb (length acc') (length acc) then Some acc else tau_close c f acc'
  end.

Definition fire (c : cfg) (l : label) (X : list state) : list state :=
  add_new (flat_map (succ_over c [l]) X) [].

Definition wpos_ok (p : wpos) (w : wpc) : bool :=
  match p, w with
  | PosConnect, WStart | PosSend, WSending _ | PosSleep, WSleep | PosSelect, WSelect
  | PosChanSend, WReport _ _ | PosChanSend, WSupp _ _ | PosGone, WDone | PosGone, WCrash => true
  | PosOther, _ => true
  | _, _ => false
  end.
Definition probe_ok (p : probe) (s : state) : bool :=
  (rem s =? p_rem p) && (lenN (msgs s) =? p_nmsgs p)
  && match p_queued p with Some q => listN_eqb (msgs s) q | None => true end
  && (lenN (sent s) =? p_nsent p) && Bool.eqb (init_sd s) (p_init p)
  && Bool.eqb (complete s) (p_complete p) && wpos_ok (p_wpos p) (work s).

Definition is_idle (p : ppc) : bool := match p with PIdle => true | _ => false end.
Definition is_pcrash (p : ppc) : bool := match p with PCrash _ => true | _ => false end.

(* one observed event: the visible label it stands for (if any) and the filter it imposes *)
Definition obs_label (o : obs) : option label :=
  match o with
  | OCall n => Some (LCall n)
  | OShutdown => Some LShutdown
  | OShutdownRet true => Some LShutdownTimeout
  | OShutdownRet false => Some LShutdownDone
  | OConnect r => Some (LConnect r)
  | OSendCall _ => Some LRecv
  | OSendRet r => Some (LSendRet r)
  | ORespErr code metric => Some (LRespErr code metric)
  | OWake => Some LWake
  | OClone ok => Some (LClone ok)
  | OWorkerCrash => Some LRecvClosed
  | ORet | OBlocked | OProdCrash | OWorkerEnd | OProbe _ => None
  end.
Definition obs_filter (c : cfg) (o : obs) (s : state) : bool :=
  match o with
  | ORet => is_idle (prod s)
  | OBlocked => producer_blocked c s
  | OProdCrash => is_pcrash (prod s)
  | OSendCall m => match work s with WSending m' => m =? m' | _ => false end
  | OWorkerEnd => match work s with WDone => true | _ => false end
  | OWorkerCrash => match work s with WCrash => true | _ => false end
  | OProbe p => probe_ok p s
  | OShutdownRet _ => is_idle (prod s)
  | _ => true
  end.

Definition TAU_FUEL : nat := 400.

(* OShutdownRet: the select label fires, then closeMessages runs (tau) and the call returns *)
Definition is_shutdownret (o : obs) : bool := match o with OShutdownRet _ => true | _ => false end.
Definition obs_step_f (c : cfg) (fuel : nat) (o : obs) (X : list state) : option (list state) :=
  match tau_close c fuel X with
  | None => None
  | Some X1 =>
      let X2 := match obs_label o with Some l => fire c l X1 | None => X1 end in
      if is_shutdownret o
      then match tau_close c fuel X2 with
           | None => None
           | Some X3 => Some (filter (obs_filter c o) X3)
           end
      else Some (filter (obs_filter c o) X2)
  end.
Definition obs_step (c : cfg) : obs -> list state -> option (list state) := obs_step_f c TAU_FUEL.

Inductive verdict := Accept | Reject (k : nat) | OutOfFuel (k : nat).

Fixpoint accepts_from (c : cfg) (X : list state) (os : list obs) (k : nat) : verdict :=
  match os with
  | [] => Accept
  | o :: r =>
      match obs_step c o X with
      | None => OutOfFuel k
      | Some [] => Reject k              (* the LTS has no run matching the log up to event k *)
      | Some X' => accepts_from c X' r (S k)
      end
  end.
Definition accepts (c : cfg) (os : list obs) : verdict := accepts_from c [init c] os 0.
Definition accepted (v : verdict) : bool := match v with Accept => true | _ => false end.

(* ------------------------------------------------------------------ the monitor
   The property itself on (scenario input, implementation output) only: it never runs the LTS.
   Input: QueueSize and the ops issued; output: the event log with its probes, the ids of the batches
   offered / received by the sender, and the AgentQueueDumped / Sent metric totals. *)
Record mobs := {
  m_qsize : N;
  m_log : list obs;
  m_offered : list (N * N);        (* (id, count) of every QueueBatch call that returned *)
  m_refused : list (N * N);        (* ... those issued when shutdown had already begun *)
  m_received : list (N * N);       (* (id, count) of the batches handed to sender.send, in order *)
  m_dumped : N;                    (* total of Supportability/InfiniteTracing/Span/AgentQueueDumped *)
  m_exact : bool;                  (* every offered count is below 2^53: the float64 metric values are exact *)
  m_left : N;                      (* spans peeked in the queue just before it was closed *)
  m_queued_end : N;                (* spans peeked in the queue at the end (0 once closed) *)
  m_quiescent : bool;              (* at the end the producer is idle and the worker holds no batch *)
  m_shutdown_late : bool;          (* a Shutdown(t) took longer than t + watchdog *)
  m_worker_stuck : bool            (* shutdown began and at the end the worker sits on a channel send *)
}.

Definition sum_counts (l : list (N * N)) : N := fold_right (fun p a => snd p + a) 0 l.
Fixpoint nodup_ids (l : list (N * N)) : bool :=
  match l with
  | [] => true
  | p :: r => negb (existsb (fun q => fst q =? fst p) r) && nodup_ids r
  end.
Definition pair_in (p : N * N) (l : list (N * N)) : bool :=
  existsb (fun q => (fst q =? fst p) && (snd q =? snd p)) l.

Definition mon_noblock (o : mobs) : bool :=
  negb (existsb (fun e => match e with OBlocked => true | _ => false end) (m_log o)).
Definition mon_nocrash (o : mobs) : bool :=
  negb (existsb (fun e => match e with OWorkerCrash | OProdCrash => true | _ => false end) (m_log o)).
(* queued spans <= QueueSize, and the capacity counter within [0, QueueSize], at every probe *)
Definition probe_bound_ok (q : N) (p : probe) : bool :=
  (p_rem p <=? q) && (p_nmsgs p <=? q)
  && match p_queued p with Some l => qsum l <=? q | None => true end.
Definition mon_bound (o : mobs) : bool :=
  forallb (fun e => match e with OProbe p => probe_bound_ok (m_qsize o) p | _ => true end) (m_log o).
(* every span handed over is accounted for exactly once *)
Definition mon_acct (o : mobs) : bool :=
  nodup_ids (m_received o) && forallb (fun p => pair_in p (m_offered o)) (m_received o)
  && forallb (fun p => negb (pair_in p (m_refused o))) (m_received o)
  && (if negb (m_exact o) then true
      else if m_quiescent o
      then sum_counts (m_offered o) =?
           sum_counts (m_received o) + m_dumped o + sum_counts (m_refused o) + m_left o + m_queued_end o
      else sum_counts (m_received o) + m_dumped o + sum_counts (m_refused o) + m_left o + m_queued_end o
           <=? sum_counts (m_offered o)).
Definition mon_shutdown (o : mobs) : bool := negb (m_shutdown_late o) && negb (m_worker_stuck o).

Definition c16_monitor (o : mobs) : bool :=
  mon_noblock o && mon_nocrash o && mon_bound o && mon_acct o && mon_shutdown o.
