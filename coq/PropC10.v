(* C10 -- malformed agent messages are contained.  Statements only.
   step budget st ev: the daemon (connection goroutine under serve's recover, processor goroutine under
   worker.go's crashGuard) handling one event; EvMsg bs = the byte string bs delivered as a message;
   budget = the largest span queue the machine can allocate. *)
From Coq Require Import NArith ZArith String List Bool.
From Verif Require Import SchemaTypes Flatbuf2 ProtoDecode ProtoDecodeProofs ProtoMonitor ProtoExamples.
Import ListNotations.
Open Scope N_scope.

(* EVERY byte string, of any length, with or without a live run id, in any state of the daemon: the connection
   goroutine ends in one of no-reply / reply / protocol error / recovered panic, and the processor keeps running. *)
Theorem C10_no_crash : forall budget st bs,
  exists st' o, step budget st (EvMsg bs) = Running st' o.
Proof. exact msg_never_crashes. Qed.
Print Assumptions C10_no_crash.

(* A panic while decoding on the connection goroutine closes that connection and changes nothing; a protocol
   error changes nothing either. *)
Theorem C10_conn_panic_contained : forall budget st bs st' o, step budget st (EvMsg bs) = Running st' o ->
  ((process_binary bs = None <-> o = OutPanic) /\ (process_binary bs = Some ConnErr <-> o = OutErr)) /\
  (o = OutPanic \/ o = OutErr -> st' = st).
Proof. exact conn_panic_contained. Qed.
Print Assumptions C10_conn_panic_contained.

(* The processor can be stopped by exactly one kind of step: the connect of an application whose (well-formed) App
   message named a trace observer host and a span queue size beyond what the machine can allocate. *)
Theorem C10_crash_only_at_connect : forall budget st ev,
  step budget st ev = Crashed <->
  exists k rid info, ev = EvConnected k rid /\ nth_error (ps_apps st) k = Some info /\
                     lenN (ai_to_host info) <> 0 /\ budget < ai_queue_size info.
Proof. exact crash_iff. Qed.
Print Assumptions C10_crash_only_at_connect.

(* The full statement "no sequence of agent messages and collector answers stops the worker" is FALSE for the code
   as it is: span_queue_size is used unchecked as a channel capacity (witness: ProtoExamples.ex_queue_crash, the
   well-formed App message ex_hostile_app with span_queue_size = 2^62, then the connect of that application). *)
Theorem C10_no_crash_any_history_refuted :
  ~ (forall budget, budget <= max_chan_elems -> forall st evs, exists st', run budget st evs = Some st').
Proof. exact no_crash_any_history_refuted. Qed.
Print Assumptions C10_no_crash_any_history_refuted.

(* It holds under the guard that excludes exactly that case: every application announced with a trace observer host
   has a span queue size the machine can allocate. *)
Theorem C10_no_crash_any_history_partial : forall budget evs st,
  Forall (queue_ok budget) (ps_apps st) -> Forall (msg_queue_ok budget) evs ->
  exists st', run budget st evs = Some st'.
Proof. exact no_crash_partial. Qed.
Print Assumptions C10_no_crash_any_history_partial.

(* Frame: a message changes no run but the one it addresses, and that one only by appending what was decoded before
   the decode ended or panicked; no run appears or disappears; at most one application is added (by an App message
   that decoded completely). *)
Theorem C10_others_untouched : forall budget st bs st' o, step budget st (EvMsg bs) = Running st' o ->
  (forall rid, addressed bs <> Some rid -> find_run rid (ps_harvests st') = find_run rid (ps_harvests st)) /\
  (forall rid h, addressed bs = Some rid -> find_run rid (ps_harvests st) = Some h ->
      find_run rid (ps_harvests st') = Some (h ++ snd (decode_txn bs))%list) /\
  map fst (ps_harvests st') = map fst (ps_harvests st) /\
  (ps_apps st' = ps_apps st \/ exists info, ps_apps st' = (ps_apps st ++ [info])%list).
Proof. exact others_untouched. Qed.
Print Assumptions C10_others_untouched.

(* Service continues: the state after a transaction message (complete or cut short) differs from the state before it
   only by that message's own contribution to its run (same_but), a message that addresses no run leaves every
   harvest as it was, and two states related by same_but answer EVERY later event identically and stay related. *)
Theorem C10_service_continues : forall budget,
  (forall st bs st' o r, step budget st (EvMsg bs) = Running st' o -> addressed bs = Some r -> same_but r st st') /\
  (forall st bs st' o, step budget st (EvMsg bs) = Running st' o -> addressed bs = None ->
     ps_harvests st' = ps_harvests st) /\
  (forall r st st', same_but r st st' -> forall ev,
     match step budget st ev, step budget st' ev with
     | Running s1 o1, Running s2 o2 => o1 = o2 /\ same_but r s1 s2
     | Crashed, Crashed => True
     | _, _ => False
     end).
Proof. exact service_continues_all. Qed.
Print Assumptions C10_service_continues.

(* Hostile values: whatever 64-bit number the agent sends as an event limit, the limit the daemon uses lies between 0
   and its own maximum / the collector's limit. *)
Theorem C10_limits_bounded : forall v m, (0 <= m)%Z ->
  (0 <= agent_limit v m <= m)%Z /\ (0 <= final_log_limit v m <= m)%Z.
Proof. exact limits_bounded. Qed.
Print Assumptions C10_limits_bounded.
