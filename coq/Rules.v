(* Rules.v -- model of daemon/internal/newrelic/metric_rules.go.  Definitions only.

   Part 1 (Section Abstract): MetricRule.Apply, replaceFirst, MetricRules.Apply and
   NewMetricRulesFromJSON (filtering, replacement transformation, sorting) over an ABSTRACT
   regular-expression matcher given as Section variables; the independent relational
   specification RuleSem (rule_sem / chain_sem / rules_sem).
   Part 2: a small CONCRETE matcher (literals matched case-insensitively as under "(?i)",
   ".", "[0-9]", greedy "*" and "+" on single-character atoms, "^", "$", one capture group,
   templates with ${n}) which instantiates part 1 for execution.  Go's regexp package itself is
   outside the model: the concrete matcher is tied to it by the correspondence runs only. *)
From Coq Require Import ZArith NArith List Bool Permutation Sorted.
From Verif Require Import Metrics.
Import ListNotations.
Open Scope nat_scope.

Inductive rresult := RMatched | RUnmatched | RIgnore.

Definition SLASH : N := 47%N.

(* strings.Split(s, "/") and strings.Join(l, "/") *)
Fixpoint split_slash (s : name) : list name :=
  match s with
  | [] => [[]]
  | c :: r =>
      if N.eqb c SLASH then [] :: split_slash r
      else match split_slash r with
           | seg :: segs => (c :: seg) :: segs
           | [] => [[c]]
           end
  end.
Fixpoint join_slash (l : list name) : name :=
  match l with
  | [] => []
  | [x] => x
  | x :: r => x ++ SLASH :: join_slash r
  end.

(* s[i:j] *)
Definition slice (s : name) (i j : nat) : name := firstn (j - i) (skipn i s).

(* ---- replacement transformation: \N -> ${N}; a replacement containing \\N is ambiguous ---- *)
Definition BSL : N := 92%N.
Definition is_digit (c : N) : bool := (N.leb 48 c) && (N.leb c 57).
Fixpoint span_digits (s : name) : name * name :=
  match s with
  | c :: r => if is_digit c then let (d, rest) := span_digits r in (c :: d, rest) else ([], s)
  | [] => ([], [])
  end.
Fixpoint drop_digits (s : name) : name :=
  match s with
  | c :: r => if is_digit c then drop_digits r else s
  | [] => []
  end.
(* transformReplacementAmbiguous = `\\\\([0-9]+)` *)
Fixpoint ambiguous_repl (s : name) : bool :=
  match s with
  | a :: r =>
      (N.eqb a BSL && match r with
                      | b :: c :: _ => N.eqb b BSL && is_digit c
                      | _ => false
                      end) || ambiguous_repl r
  | [] => false
  end.
(* transformReplacementRegex.ReplaceAllString(orig, "$${${1}}") with regex `\\([0-9]+)` *)
Fixpoint transform_repl_f (fuel : nat) (s : name) : name :=
  match fuel with
  | O => s
  | S f =>
      match s with
      | [] => []
      | a :: r =>
          if N.eqb a BSL && match r with c :: _ => is_digit c | [] => false end
          then [36%N; 123%N] ++ fst (span_digits r) ++ [125%N] ++ transform_repl_f f (drop_digits r)
          else a :: transform_repl_f f r
      end
  end.
Definition transform_repl (s : name) : name := transform_repl_f (S (length s)) s.

Section Abstract.
  Variable regex : Type.
  (* re.FindStringIndex(s): leftmost match as (start, end) *)
  Variable find_first : regex -> name -> option (nat * nat).
  (* re.ReplaceAllString(s, template) *)
  Variable replace_all : regex -> name -> name -> name.
  (* regexp.Compile("(?i)" + expr) *)
  Variable compile : name -> option regex.

  Record rule := R {
    r_ignore : bool; r_each_segment : bool; r_replace_all : bool; r_terminate : bool;
    r_order : Z; r_repl : name (* TransformedReplacement *); r_re : regex }.

  (* func replaceFirst *)
  Definition replace_first (re : regex) (s rp : name) : rresult * name :=
    match find_first re s with
    | None => (RUnmatched, s)
    | Some (a, b) => (RMatched, firstn a s ++ replace_all re (slice s a b) rp ++ skipn b s)
    end.

  Fixpoint each_segment (re : regex) (rp : name) (segs : list name) : bool * list name :=
    match segs with
    | [] => (false, [])
    | seg :: r =>
        let (res, out) := replace_first re seg rp in
        let (any, outs) := each_segment re rp r in
        (match res with RMatched => true | _ => any end, out :: outs)
    end.

  (* func (r *MetricRule) Apply *)
  Definition rule_apply (r : rule) (s : name) : rresult * name :=
    if r_ignore r then
      match find_first (r_re r) s with
      | Some (a, b) => match slice s a b with [] => (RUnmatched, s) | _ :: _ => (RIgnore, []) end
      | None => (RUnmatched, s)
      end
    else if r_replace_all r then
      match find_first (r_re r) s with
      | Some _ => (RMatched, replace_all (r_re r) s (r_repl r))
      | None => (RUnmatched, s)
      end
    else if r_each_segment r then
      let (any, outs) := each_segment (r_re r) (r_repl r) (split_slash s) in
      (if any then RMatched else RUnmatched, join_slash outs)
    else replace_first (r_re r) s (r_repl r).

  (* func (rules MetricRules) Apply: the loop, [matched] is the flag *)
  Fixpoint rules_loop (rs : list rule) (s : name) (matched : bool) : rresult * name :=
    match rs with
    | [] => (if matched then RMatched else RUnmatched, s)
    | r :: rest =>
        let (res, out) := rule_apply r s in
        match res with
        | RIgnore => (RIgnore, [])
        | RMatched => if r_terminate r then (RMatched, out) else rules_loop rest out true
        | RUnmatched => rules_loop rest out matched
        end
    end.
  Definition rules_apply (rs : list rule) (s : name) : rresult * name := rules_loop rs s false.

  (* NewMetricRulesFromJSON: the decoded JSON objects in document order *)
  Record raw_rule := RAW {
    w_ignore : bool; w_each_segment : bool; w_replace_all : bool; w_terminate : bool;
    w_order : Z; w_repl : name; w_expr : name }.

  Definition compile_rule (w : raw_rule) : option rule :=
    match compile (w_expr w) with
    | None => None
    | Some re =>
        if ambiguous_repl (w_repl w) then None
        else Some (R (w_ignore w) (w_each_segment w) (w_replace_all w) (w_terminate w) (w_order w)
                     (transform_repl (w_repl w)) re)
    end.
  Fixpoint compile_all (ws : list raw_rule) : list rule :=
    match ws with
    | [] => []
    | w :: r => match compile_rule w with Some x => x :: compile_all r | None => compile_all r end
    end.
  (* sort.Sort(valid) by eval_order, "rules should be applied in increasing order" *)
  Fixpoint insert_rule (r : rule) (l : list rule) : list rule :=
    match l with
    | [] => [r]
    | x :: l' => if Z.leb (r_order r) (r_order x) then r :: l else x :: insert_rule r l'
    end.
  Definition sort_rules (l : list rule) : list rule := fold_right insert_rule [] l.
  Definition rules_from_json (ws : list raw_rule) : list rule := sort_rules (compile_all ws).

  (* the renaming ApplyRules uses: nil/empty rule list = no renaming at all *)
  Definition rename_of (rs : list rule) : option (name -> name) :=
    match rs with [] => None | _ => Some (fun n => snd (rules_apply rs n)) end.

  (* ================= RuleSem: the relational specification ================= *)

  (* first-match replacement: only the leftmost match is rewritten, the rest is kept *)
  Inductive first_sem (re : regex) (rp : name) (s : name) : rresult -> name -> Prop :=
  | FS_miss : find_first re s = None -> first_sem re rp s RUnmatched s
  | FS_hit a b pre mid post :
      find_first re s = Some (a, b) -> s = pre ++ mid ++ post -> length pre = a -> length (pre ++ mid) = b ->
      first_sem re rp s RMatched (pre ++ replace_all re mid rp ++ post).

  (* s is the segments joined with "/" *)
  Inductive joined : list name -> name -> Prop :=
  | J_one x : joined [x] x
  | J_more x y r s : joined (y :: r) s -> joined (x :: y :: r) (x ++ SLASH :: s).
  Definition no_slash (s : name) : Prop := ~ In SLASH s.
  Definition split_sem (s : name) (segs : list name) : Prop := joined segs s /\ Forall no_slash segs.

  Inductive segs_sem (re : regex) (rp : name) : list name -> bool -> list name -> Prop :=
  | SS_nil : segs_sem re rp [] false []
  | SS_cons seg segs res out any outs :
      first_sem re rp seg res out -> segs_sem re rp segs any outs ->
      segs_sem re rp (seg :: segs) (match res with RMatched => true | _ => any end) (out :: outs).

  (* one constructor per flag combination *)
  Inductive rule_sem (r : rule) (s : name) : rresult -> name -> Prop :=
  | RS_ignore_hit a b :
      r_ignore r = true -> find_first (r_re r) s = Some (a, b) -> (a < b)%nat -> rule_sem r s RIgnore []
  | RS_ignore_miss :
      r_ignore r = true -> (forall a b, find_first (r_re r) s = Some (a, b) -> (b <= a)%nat) ->
      rule_sem r s RUnmatched s
  | RS_all_hit ab :
      r_ignore r = false -> r_replace_all r = true -> find_first (r_re r) s = Some ab ->
      rule_sem r s RMatched (replace_all (r_re r) s (r_repl r))
  | RS_all_miss :
      r_ignore r = false -> r_replace_all r = true -> find_first (r_re r) s = None ->
      rule_sem r s RUnmatched s
  | RS_each segs any outs out :
      r_ignore r = false -> r_replace_all r = false -> r_each_segment r = true ->
      split_sem s segs -> segs_sem (r_re r) (r_repl r) segs any outs -> joined outs out ->
      rule_sem r s (if any then RMatched else RUnmatched) out
  | RS_first res out :
      r_ignore r = false -> r_replace_all r = false -> r_each_segment r = false ->
      first_sem (r_re r) (r_repl r) s res out -> rule_sem r s res out.

  (* the chain: rules in list order; the first matching rule with terminate_chain stops it;
     an ignore rule that hits ends it with the empty name *)
  Inductive chain_sem : list rule -> name -> bool -> rresult -> name -> Prop :=
  | CS_nil s m : chain_sem [] s m (if m then RMatched else RUnmatched) s
  | CS_ignore r rest s m out : rule_sem r s RIgnore out -> chain_sem (r :: rest) s m RIgnore []
  | CS_unmatched r rest s m out res fin :
      rule_sem r s RUnmatched out -> chain_sem rest out m res fin -> chain_sem (r :: rest) s m res fin
  | CS_terminate r rest s m out :
      rule_sem r s RMatched out -> r_terminate r = true -> chain_sem (r :: rest) s m RMatched out
  | CS_continue r rest s m out res fin :
      rule_sem r s RMatched out -> r_terminate r = false -> chain_sem rest out true res fin ->
      chain_sem (r :: rest) s m res fin.

  Definition order_le (a b : rule) : Prop := (r_order a <= r_order b)%Z.
  (* rules are applied in ascending eval_order *)
  Definition rules_sem (rs : list rule) (s : name) (res : rresult) (out : name) : Prop :=
    exists sorted, Permutation sorted rs /\ StronglySorted order_le sorted /\ chain_sem sorted s false res out.

  Definition matcher_wf : Prop :=
    forall re s a b, find_first re s = Some (a, b) -> (a <= b /\ b <= length s)%nat.
End Abstract.

Arguments R {regex}.
Arguments r_ignore {regex}. Arguments r_each_segment {regex}. Arguments r_replace_all {regex}.
Arguments r_terminate {regex}. Arguments r_order {regex}. Arguments r_repl {regex}. Arguments r_re {regex}.

(* ===================================================================== concrete matcher *)
Inductive atom := AChar (c : N) | AAny | ADigit.
Inductive item := IAtom (a : atom) | IStar (a : atom) | IPlus (a : atom) | IBegin | IEnd | IOpen | IClose.
Definition cregex := list item.

Definition lower (c : N) : N := if N.leb 65 c && N.leb c 90 then (c + 32)%N else c.
Definition atom_ok (a : atom) (c : N) : bool :=
  match a with
  | AChar x => N.eqb (lower x) (lower c)       (* "(?i)" *)
  | AAny => negb (N.eqb c 10)
  | ADigit => is_digit c
  end.

(* literal characters of the class: letters, digits, space, '/', '_', '-', ':', ',', '#', '%', '@', '=' *)
Definition is_literal (c : N) : bool :=
  (N.leb 48 c && N.leb c 57) || (N.leb 65 c && N.leb c 90) || (N.leb 97 c && N.leb c 122) ||
  N.eqb c 32 || N.eqb c 47 || N.eqb c 95 || N.eqb c 45 || N.eqb c 58 || N.eqb c 44 ||
  N.eqb c 35 || N.eqb c 37 || N.eqb c 64 || N.eqb c 61.

Definition parse_atom (s : name) : option (atom * name) :=
  match s with
  | 46%N :: r => Some (AAny, r)
  | 91%N :: 48%N :: 45%N :: 57%N :: 93%N :: r => Some (ADigit, r)
  | c :: r => if is_literal c then Some (AChar c, r) else None
  | [] => None
  end.

(* grp: 0 = no group seen, 1 = inside the group, 2 = group closed *)
Fixpoint parse_re_f (fuel : nat) (s : name) (grp : N) : option cregex :=
  match fuel with
  | O => None
  | S f =>
      match s with
      | [] => if N.eqb grp 1 then None else Some []
      | 94%N :: r => option_map (cons IBegin) (parse_re_f f r grp)
      | 36%N :: r => option_map (cons IEnd) (parse_re_f f r grp)
      | 40%N :: r => if N.eqb grp 0 then option_map (cons IOpen) (parse_re_f f r 1) else None
      | 41%N :: r => if N.eqb grp 1 then option_map (cons IClose) (parse_re_f f r 2) else None
      | _ =>
          match parse_atom s with
          | None => None
          | Some (a, r) =>
              match r with
              | 42%N :: r' => option_map (cons (IStar a)) (parse_re_f f r' grp)
              | 43%N :: r' => option_map (cons (IPlus a)) (parse_re_f f r' grp)
              | _ => option_map (cons (IAtom a)) (parse_re_f f r grp)
              end
          end
      end
  end.
Definition parse_re (s : name) : option cregex := parse_re_f (S (length s)) s 0.

(* backtracking matcher, greedy, leftmost-first: [inp] is the text from absolute position [pos];
   result = (end, capture start, capture end) *)
Definition mres := (nat * nat * nat)%type.
Fixpoint star_loop (a : atom) (inp : name) (pos : nat) (k : name -> nat -> option mres) : option mres :=
  match inp with
  | c :: rest =>
      if atom_ok a c then
        match star_loop a rest (S pos) k with
        | Some r => Some r
        | None => k inp pos
        end
      else k inp pos
  | [] => k inp pos
  end.

Fixpoint m_items (its : cregex) (inp : name) (pos cs ce : nat) : option mres :=
  match its with
  | [] => Some (pos, cs, ce)
  | IAtom a :: r =>
      match inp with
      | c :: rest => if atom_ok a c then m_items r rest (S pos) cs ce else None
      | [] => None
      end
  | IStar a :: r => star_loop a inp pos (fun inp' pos' => m_items r inp' pos' cs ce)
  | IPlus a :: r =>
      match inp with
      | c :: rest => if atom_ok a c then star_loop a rest (S pos) (fun inp' pos' => m_items r inp' pos' cs ce) else None
      | [] => None
      end
  | IBegin :: r => if Nat.eqb pos 0 then m_items r inp pos cs ce else None
  | IEnd :: r => match inp with [] => m_items r inp pos cs ce | _ :: _ => None end
  | IOpen :: r => m_items r inp pos pos ce
  | IClose :: r => m_items r inp pos cs pos
  end.

(* leftmost match at or after [pos]: (start, end, capture start, capture end) *)
Fixpoint find_from (re : cregex) (inp : name) (pos : nat) : option (nat * nat * nat * nat) :=
  match m_items re inp pos 0 0 with
  | Some (e, cs, ce) => Some (pos, e, cs, ce)
  | None => match inp with [] => None | _ :: r => find_from re r (S pos) end
  end.

Definition c_find_first (re : cregex) (s : name) : option (nat * nat) :=
  match find_from re s 0 with Some (a, b, _, _) => Some (a, b) | None => None end.

Definition has_group (re : cregex) : bool := existsb (fun i => match i with IOpen => true | _ => false end) re.

Fixpoint digits_val (ds : name) (acc : N) : N :=
  match ds with [] => acc | d :: r => digits_val r (acc * 10 + (d - 48))%N end.

(* Regexp.expand for templates made of literal text and ${N} *)
Fixpoint expand_f (fuel : nat) (tmpl : name) (re : cregex) (s : name) (a b cs ce : nat) : name :=
  match fuel with
  | O => tmpl
  | S f =>
      match tmpl with
      | [] => []
      | 36%N :: 123%N :: r =>
          let (ds, rest) := span_digits r in
          match ds, rest with
          | _ :: _, 125%N :: rest' =>
              let n := digits_val ds 0 in
              (* "disallow leading zeros": ${00}, ${01} name a (non-existent) named group *)
              (if match ds with 48%N :: _ :: _ => true | _ => false end then []
               else if N.eqb n 0 then slice s a b
               else if N.eqb n 1 && has_group re then slice s cs ce else [])
              ++ expand_f f rest' re s a b cs ce
          | _, _ => 36%N :: expand_f f (123%N :: r) re s a b cs ce
          end
      | c :: r => c :: expand_f f r re s a b cs ce
      end
  end.
Definition expand (tmpl : name) (re : cregex) (s : name) (a b cs ce : nat) : name :=
  expand_f (S (length tmpl)) tmpl re s a b cs ce.

(* Regexp.replaceAll on ASCII text *)
Fixpoint ra_loop (fuel : nat) (re : cregex) (tmpl s : name) (search last : nat) (acc : name) : name :=
  match fuel with
  | O => acc ++ skipn last s
  | S f =>
      if Nat.ltb (length s) search then acc ++ skipn last s
      else
        match find_from re (skipn search s) search with
        | None => acc ++ skipn last s
        | Some (a, b, cs, ce) =>
            let acc1 := acc ++ slice s last a in
            let acc2 := if Nat.ltb last b || Nat.eqb a 0 then acc1 ++ expand tmpl re s a b cs ce else acc1 in
            let width := if Nat.ltb search (length s) then 1 else 0 in
            let search' := if Nat.ltb b (search + width) then search + width
                           else if Nat.ltb b (search + 1) then search + 1 else b in
            ra_loop f re tmpl s search' b acc2
        end
  end.
Definition c_replace_all (re : cregex) (s tmpl : name) : name := ra_loop (length s + 2) re tmpl s 0 0 [].

(* ---- the instantiation used for execution ---- *)
Definition crule := rule cregex.
Definition craw := raw_rule.
Definition c_rule_apply : crule -> name -> rresult * name := rule_apply cregex c_find_first c_replace_all.
Definition c_rules_apply : list crule -> name -> rresult * name := rules_apply cregex c_find_first c_replace_all.
Definition c_rules_from_json : list craw -> list crule := rules_from_json cregex parse_re.
Definition c_rename_of : list crule -> option (name -> name) := rename_of cregex c_find_first c_replace_all.
