From Coq Require Import NArith List Bool Lia.
From Verif Require Import Watcher.
Import ListNotations.
Open Scope N_scope.

Lemma words_iter n :
  fst (N.iter n words_step (0, [])) = n /\
  forall x, x < n -> In x (snd (N.iter n words_step (0, []))).
Proof.
  induction n as [|n IH] using N.peano_ind.
  - split; [reflexivity|]. intros x Hx. lia.
  - rewrite N.iter_succ. destruct IH as [IH1 IH2]. unfold words_step at 1 3. cbn [fst snd].
    rewrite IH1. split; [reflexivity|]. intros x Hx.
    destruct (N.eq_dec x n) as [->|Hne]; [left; reflexivity|right; apply IH2; lia].
Qed.

Lemma words_complete n x : x < n -> In x (words n).
Proof. intros H. unfold words. apply (proj2 (words_iter n)). exact H. Qed.

Lemma forall_lt_by_compute (P : N -> bool) n :
  forallb P (words n) = true -> forall x, x < n -> P x = true.
Proof.
  intros H x Hx. rewrite forallb_forall in H. apply H. apply words_complete; assumption.
Qed.

(* exit codes: all 256 *)
Lemma respawn_exit_all :
  forallb (fun c => Bool.eqb (should_respawn (encode (Exit c))) (spec_respawn (Exit c))) (words 256) = true.
Proof. vm_compute. reflexivity. Qed.

Lemma respawn_killed_all :
  forallb (fun s => Bool.eqb (should_respawn (encode (Killed s true))) (spec_respawn (Killed s true))
                 && Bool.eqb (should_respawn (encode (Killed s false))) (spec_respawn (Killed s false))
                 || negb (valid_cause (Killed s true))) (words 128) = true.
Proof. vm_compute. reflexivity. Qed.

Lemma respawn_stopped_all :
  forallb (fun s => Bool.eqb (should_respawn (encode (StoppedBy s))) true) (words 256) = true.
Proof. vm_compute. reflexivity. Qed.

Lemma respawn_iff c : valid_cause c = true -> should_respawn (encode c) = spec_respawn c.
Proof.
  destruct c as [code|sig core|sig| |]; cbn [valid_cause]; intros Hv.
  - apply N.ltb_lt in Hv.
    pose proof (forall_lt_by_compute _ 256 respawn_exit_all code Hv) as H.
    apply Bool.eqb_prop in H. exact H.
  - apply andb_prop in Hv. destruct Hv as [H1 H2]. apply N.ltb_lt in H2.
    assert (Hs : sig < 128) by lia.
    pose proof (forall_lt_by_compute _ 128 respawn_killed_all sig Hs) as H.
    cbn beta in H. cbn [valid_cause] in H. rewrite H1 in H.
    assert (H2' : (sig <? 127) = true) by (apply N.ltb_lt; exact H2). rewrite H2' in H.
    cbn [andb negb] in H. rewrite orb_false_r in H. apply andb_prop in H. destruct H as [Ha Hb].
    destruct core; [apply Bool.eqb_prop in Ha|apply Bool.eqb_prop in Hb]; assumption.
  - apply N.ltb_lt in Hv.
    pose proof (forall_lt_by_compute _ 256 respawn_stopped_all sig Hv) as H.
    apply Bool.eqb_prop in H. exact H.
  - reflexivity.
  - reflexivity.
Qed.

(* the explicit reading of the property *)
Lemma respawn_cases c : valid_cause c = true ->
  (should_respawn (encode c) = false <->
   c = Exit 0 \/ c = Exit 1 \/ exists core, c = Killed SIGTERM core).
Proof.
  intros Hv. rewrite (respawn_iff c Hv). destruct c as [code|sig core|sig| |]; cbn [spec_respawn].
  - split.
    + intros H. apply N.leb_gt in H.
      assert (code = 0 \/ code = 1) as [->| ->] by lia; auto.
    + intros [H|[H|[core H]]]; try discriminate; inversion H; reflexivity.
  - split.
    + intros H. apply negb_false_iff in H. apply N.eqb_eq in H. subst. right. right. eauto.
    + intros [H|[H|[core' H]]]; try discriminate. inversion H. reflexivity.
  - split; [discriminate|]. intros [H|[H|[core H]]]; discriminate.
  - split; [discriminate|]. intros [H|[H|[core H]]]; discriminate.
  - split; [discriminate|]. intros [H|[H|[core H]]]; discriminate.
Qed.

(* decision depends on the low 16 bits only, for every 32-bit status word -- exhaustive on 2^16 *)
Definition decode16 (w : N) : cause :=
  if ws_Exited w then Exit (ws_ExitStatus w)
  else if ws_Signaled w then Killed (ws_Signal w) (ws_CoreDump w)
  else if ws_Stopped w then StoppedBy (ws_ExitStatus w)
  else Continued.

Lemma respawn_all_words :
  forallb (fun w => Bool.eqb (should_respawn (WStatus w)) (spec_respawn (decode16 w))
                    && valid_cause (decode16 w)) (words 65536) = true.
Proof. vm_compute. reflexivity. Qed.

Lemma respawn_word w : w < 65536 ->
  should_respawn (WStatus w) = spec_respawn (decode16 w) /\ valid_cause (decode16 w) = true.
Proof.
  intros H. pose proof (forall_lt_by_compute _ 65536 respawn_all_words w) as P.
  cbn beta in P. specialize (P H). apply andb_prop in P. destruct P as [P1 P2]. apply Bool.eqb_prop in P1. auto.
Qed.

(* ---- watcher loop ---- *)

(* iterations that all end in an abnormal termination *)
Definition abnormal (i : iter) : Prop :=
  exists c, i = ItTerm c /\ should_respawn (encode c) = true.

Lemma run_watcher_prefix pre rest :
  Forall abnormal pre ->
  run_watcher (pre ++ rest) = repeat ASpawn (length pre) ++ run_watcher rest.
Proof.
  induction pre as [|i pre IH]; intros Hf; [reflexivity|].
  inversion Hf as [|? ? Hi Hpre]; subst. destruct Hi as [c [-> Hc]].
  cbn [app run_watcher length repeat]. rewrite Hc. f_equal. apply IH. exact Hpre.
Qed.

(* a worker is spawned after a termination iff ShouldRespawn; SIGTERM forwards and ends the loop *)
Lemma watcher_loop pre rest :
  Forall abnormal pre ->
  (forall c, valid_cause c = true ->
     run_watcher (pre ++ ItTerm c :: rest) =
       repeat ASpawn (length pre) ++
       (if spec_respawn c then ASpawn :: run_watcher rest else [ASpawn; AReturn false])) /\
  run_watcher (pre ++ ItSigterm :: rest) =
       repeat ASpawn (length pre) ++ [ASpawn; AForwardSignal; AReturn false] /\
  run_watcher (pre ++ ItSpawnFail :: rest) =
       repeat ASpawn (length pre) ++ [ASpawn; AReturn true].
Proof.
  intros Hf. repeat split.
  - intros c Hv. rewrite run_watcher_prefix by assumption. cbn [run_watcher].
    rewrite (respawn_iff c Hv). reflexivity.
  - rewrite run_watcher_prefix by assumption. reflexivity.
  - rewrite run_watcher_prefix by assumption. reflexivity.
Qed.

(* exactly one worker at a time: number of spawns = 1 + number of abnormal terminations consumed *)
Lemma spawns_count its :
  (count_spawns (run_watcher its) <= S (length its))%nat.
Proof.
  induction its as [|i its IH]; cbn; [lia|].
  destruct i as [|c|]; cbn; try lia.
  destruct (should_respawn (encode c)); cbn; unfold count_spawns in *; cbn; lia.
Qed.
