(* LogSites.v -- the typed table of log call sites (C14, translation side).
   coq/Gen/LogSites_gen.v (generated from the current Go sources by tools/gens/logsites.py through
   tools/gofacts logsites) lists every log.Debugf / Infof / Warnf / Errorf / Healthf / Audit call in the
   module's non-test code, each argument with its source text, static type, syntactic class, defining
   expression (for a local variable) and the features computed by gofacts.  Definitions only. *)
From Coq Require Import Ascii String.
From Coq Require Import NArith List Bool.
Import ListNotations.
Local Open Scope string_scope.

Record log_arg := mkArg {
  la_expr : string;
  la_type : string;
  la_class : string;
  la_def : string;
  la_features : list string
}.

Record log_site := mkSite {
  ls_file : string;
  ls_line : N;
  ls_func : string;
  ls_level : string;
  ls_format : string;
  ls_args : list log_arg
}.

Definition smem (s : string) (l : list string) : bool := existsb (String.eqb s) l.

(* raw secret carriers:
     conv_license   string(x) / []byte(x) with x : collector.LicenseKey     (the un-obfuscated key)
     url_raw        RpmCmd.url(false)                                        (the URL with the full key)
     proxy_field    <config>.Proxy                                           (the proxy setting)
     os_args        os.Args outside redactArgs(...)                          (the raw command line)
     raw_license    a struct printed field by field that holds an unexported LicenseKey
   directly in the argument or (def:) in the expression that defines the local variable passed *)
Definition bad_features : list string :=
  ["conv_license"; "url_raw"; "proxy_field"; "os_args"; "raw_license";
   "def:conv_license"; "def:url_raw"; "def:proxy_field"; "def:os_args"].

(* a whole configuration struct holding a Proxy field may only be printed when it was built with
   Proxy: "**REDACTED**" and not assigned since *)
Definition arg_ok (a : log_arg) : bool :=
  forallb (fun f => negb (smem f bad_features)) (la_features a) &&
  (if smem "proxy_struct" (la_features a) then smem "redacted_lit" (la_features a) else true).

Definition site_ok (s : log_site) : bool := forallb arg_ok (ls_args s).

Definition bad_sites (l : list log_site) : list log_site := filter (fun s => negb (site_ok s)) l.

(* the start-up echo exists and prints the elements of redactArgs(os.Args) *)
Definition is_argv_echo (s : log_site) : bool :=
  String.eqb (ls_func s) "main" && String.eqb (ls_format s) "ARGV[%d]: %s" &&
  existsb (fun a => String.eqb (la_def a) "range:redactArgs(os.Args)") (ls_args s).

(* the collector client logs the request URL only through its obfuscated rendering *)
Definition is_clean_url_arg (a : log_arg) : bool :=
  String.eqb (la_expr a) "cleanURL" && String.eqb (la_def a) "cmd.url(true)".

Definition execute_sites (l : list log_site) : list log_site :=
  filter (fun s => String.eqb (ls_func s) "*clientImpl.Execute") l.

Definition table_sane (l : list log_site) : bool :=
  existsb is_argv_echo l &&
  negb (Nat.ltb (length (execute_sites l)) 4) &&
  forallb (fun s => forallb (fun a => if String.eqb (la_expr a) "cleanURL" then is_clean_url_arg a else true)
                            (ls_args s)) (execute_sites l).
