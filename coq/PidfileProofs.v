(* PidfileProofs.v -- proofs about the pid-file protocol model (Pidfile.v). *)
From Coq Require Import NArith List Bool Arith Lia.
From Verif Require Import Pidfile.
Import ListNotations.

(* ---------------------------------------------------------------- process table *)
Lemma nth_upd l p c q c0 :
  nth_error l p = Some c0 ->
  nth_error (upd l p c) q = if Nat.eqb q p then Some c else nth_error l q.
Proof.
  revert p q. induction l as [|x l IH]; intros p q H.
  - destruct p; discriminate.
  - destruct p as [|p]; destruct q as [|q]; cbn; try reflexivity.
    cbn in H. apply IH. exact H.
Qed.

Lemma upd_length l p c : length (upd l p c) = length l.
Proof.
  revert p. induction l as [|x l IH]; intros [|p]; cbn; try reflexivity. now rewrite IH.
Qed.

Lemma getp_lt s p c : getp s p = Some c -> p < length (procs s).
Proof. unfold getp. intros H. apply nth_error_Some. congruence. Qed.

(* ---------------------------------------------------------------- step <-> exec *)
Lemma step_exec mx s l s' : step mx s l s' -> exec mx s l = Some s'.
Proof.
  intros H. destruct H; cbn [exec];
    repeat match goal with
           | H : getp _ _ = Some _ |- _ => rewrite H
           | H : path _ = _ |- _ => rewrite H
           | H : lock_free _ _ _ = _ |- _ => rewrite H
           | H : trunc_next _ = _ |- _ => rewrite H
           | H : can_remove _ = _ |- _ => rewrite H
           | H : after_close _ = _ |- _ => rewrite H
           | H : fail_next _ _ = _ |- _ => rewrite H
           | H : is_done _ = _ |- _ => rewrite H
           end; try reflexivity.
  - apply N.ltb_lt in H0. rewrite H0. reflexivity.
  - apply N.ltb_lt in H0. rewrite H0. reflexivity.
  - apply N.leb_le in H0. rewrite H0. reflexivity.
  - rewrite N.eqb_refl. reflexivity.
  - destruct (N.eqb_spec j i); [contradiction|reflexivity].
Qed.

Lemma exec_step mx s l s' : exec mx s l = Some s' -> step mx s l s'.
Proof.
  destruct l as [p|p|p|p|p|p|p|p|p|p|p|p|p|p]; cbn [exec]; intros H.
  - destruct (getp s p) as [[k| | | | | |]|] eqn:G; try discriminate.
    destruct (N.ltb_spec k mx) as [L|L]; try discriminate.
    destruct (path s) as [i|] eqn:P; inversion H; subst.
    + eapply S_open_old; eassumption.
    + eapply S_open_new; eassumption.
  - destruct (getp s p) as [[k| | | | | |]|] eqn:G; try discriminate.
    destruct (N.leb_spec mx k) as [L|L]; try discriminate. inversion H; subst.
    eapply S_give_up; eassumption.
  - destruct (getp s p) as [[|i k| | | | |]|] eqn:G; try discriminate.
    destruct (lock_free (locks s) i p) eqn:F; try discriminate. inversion H; subst.
    eapply S_lock_ok; eassumption.
  - destruct (getp s p) as [[|i k| | | | |]|] eqn:G; try discriminate.
    destruct (lock_free (locks s) i p) eqn:F; try discriminate. inversion H; subst.
    eapply S_lock_busy; eassumption.
  - destruct (getp s p) as [[| |i k| | | |]|] eqn:G; try discriminate.
    destruct (path s) as [j|] eqn:P; try discriminate.
    destruct (N.eqb_spec j i); try discriminate. inversion H; subst.
    eapply S_stat_same; eassumption.
  - destruct (getp s p) as [[| |i k| | | |]|] eqn:G; try discriminate.
    destruct (path s) as [j|] eqn:P; try discriminate. inversion H; subst.
    eapply S_stat_gone; eassumption.
  - destruct (getp s p) as [[| |i k| | | |]|] eqn:G; try discriminate.
    destruct (path s) as [j|] eqn:P; try discriminate.
    destruct (N.eqb_spec j i); try discriminate. inversion H; subst.
    eapply S_stat_changed; eassumption.
  - destruct (getp s p) as [[| | |i st| | |]|] eqn:G; try discriminate.
    destruct (trunc_next st) as [st'|] eqn:T; try discriminate. inversion H; subst.
    eapply S_trunc; eassumption.
  - destruct (getp s p) as [[| | |i [| | |]| | |]|] eqn:G; try discriminate. inversion H; subst.
    eapply S_write; eassumption.
  - destruct (getp s p) as [[| | |i st| | |]|] eqn:G; try discriminate.
    destruct (can_remove st) eqn:C; try discriminate.
    destruct (path s) as [j|] eqn:P; try discriminate. inversion H; subst.
    eapply S_unlink; eassumption.
  - destruct (getp s p) as [[| | |i st| | |]|] eqn:G; try discriminate.
    destruct (can_remove st) eqn:C; try discriminate.
    destruct (path s) as [j|] eqn:P; try discriminate. inversion H; subst.
    eapply S_unlink_gone; eassumption.
  - destruct (getp s p) as [c|] eqn:G; try discriminate.
    destruct (after_close c) as [[i c']|] eqn:A; try discriminate. inversion H; subst.
    eapply S_close; eassumption.
  - destruct (getp s p) as [c|] eqn:G; try discriminate.
    destruct (fail_next mx c) as [c'|] eqn:A; try discriminate. inversion H; subst.
    eapply S_fail; eassumption.
  - destruct (getp s p) as [c|] eqn:G; try discriminate.
    destruct (is_done c) eqn:A; try discriminate. inversion H; subst.
    eapply S_die; eassumption.
Qed.

Lemma step_iff_exec mx s l s' : step mx s l s' <-> exec mx s l = Some s'.
Proof. split; [apply step_exec|apply exec_step]. Qed.

Lemma step_deterministic mx s l s1 s2 : step mx s l s1 -> step mx s l s2 -> s1 = s2.
Proof. intros H1 H2. apply step_exec in H1, H2. congruence. Qed.

Lemma steps_app mx s tr1 s1 tr2 s2 :
  steps mx s tr1 s1 -> steps mx s1 tr2 s2 -> steps mx s (tr1 ++ tr2) s2.
Proof.
  intros H1 H2. induction H2 as [|s1 tr s2 l s3 H2 IH H3].
  - rewrite app_nil_r. exact H1.
  - rewrite app_assoc. eapply steps_snoc; [apply IH; exact H1|exact H3].
Qed.

Lemma steps_one mx s l s' : step mx s l s' -> steps mx s [l] s'.
Proof. intros H. apply (steps_snoc mx s [] s l s' (steps_nil mx s) H). Qed.

Lemma exec_all_steps mx tr : forall s s', exec_all mx s tr = Some s' -> steps mx s tr s'.
Proof.
  induction tr as [|l tr IH]; intros s s' H; cbn in H.
  - inversion H; subst. constructor.
  - destruct (exec mx s l) as [s1|] eqn:E; try discriminate.
    change (l :: tr) with ([l] ++ tr). eapply steps_app; [apply steps_one, exec_step; exact E|apply IH; exact H].
Qed.

Lemma steps_exec_all mx s tr s' : steps mx s tr s' -> exec_all mx s tr = Some s'.
Proof.
  intros H. induction H as [|s tr s1 l s2 H IH H2]; [reflexivity|].
  apply step_exec in H2. clear H. revert s IH. induction tr as [|x tr IHt]; intros s IH; cbn in *.
  - inversion IH; subst. rewrite H2. reflexivity.
  - destruct (exec mx s x); [apply IHt; exact IH|discriminate].
Qed.

(* the enumeration [enabled] lists exactly the transitions of the relation *)
Lemma enabled_complete mx s l s' : step mx s l s' -> In (l, s') (enabled mx s).
Proof.
  intros H. pose proof (step_exec _ _ _ _ H) as E. unfold enabled.
  apply in_flat_map. exists (label_pid l). split.
  - apply in_seq. split; [lia|]. cbn.
    destruct H; cbn [label_pid]; eapply getp_lt; eassumption.
  - apply in_flat_map. exists l. split.
    + destruct l; cbn; tauto.
    + rewrite E. left. reflexivity.
Qed.

Lemma enabled_sound mx s l s' : In (l, s') (enabled mx s) -> step mx s l s'.
Proof.
  unfold enabled. intros H. apply in_flat_map in H. destruct H as [p [_ H]].
  apply in_flat_map in H. destruct H as [l0 [_ H]].
  destruct (exec mx s l0) as [s0|] eqn:E; [|contradiction].
  destruct H as [H|[]]. inversion H; subst. apply exec_step. exact E.
Qed.

(* ---------------------------------------------------------------- the lock table *)
Lemma in_release_inode lk i p j q :
  In (j, q) (release_inode lk i p) <-> In (j, q) lk /\ ~ (j = i /\ q = p).
Proof.
  unfold release_inode. rewrite filter_In. cbn [fst snd]. split; intros [H1 H2]; split; auto.
  - intros [-> ->]. rewrite N.eqb_refl, Nat.eqb_refl in H2. discriminate.
  - destruct (N.eqb_spec j i); destruct (Nat.eqb_spec q p); cbn; try reflexivity. exfalso; auto.
Qed.

Lemma in_release_all lk p j q : In (j, q) (release_all lk p) <-> In (j, q) lk /\ q <> p.
Proof.
  unfold release_all. rewrite filter_In. cbn [fst snd]. split; intros [H1 H2]; split; auto.
  - intros ->. rewrite Nat.eqb_refl in H2. discriminate.
  - destruct (Nat.eqb_spec q p); [contradiction|reflexivity].
Qed.

Lemma lock_free_spec lk i p : lock_free lk i p = true <-> forall q, In (i, q) lk -> q = p.
Proof.
  unfold lock_free. rewrite forallb_forall. split.
  - intros H q Hq. specialize (H _ Hq). cbn [fst snd] in H. rewrite N.eqb_refl in H. cbn in H.
    apply Nat.eqb_eq in H. exact H.
  - intros H [j q] Hq. cbn [fst snd]. destruct (N.eqb_spec j i) as [->|]; cbn; [|reflexivity].
    apply Nat.eqb_eq. apply H. exact Hq.
Qed.

Lemma lock_busy_spec lk i p : lock_free lk i p = false -> exists q, In (i, q) lk /\ q <> p.
Proof.
  unfold lock_free. intros H.
  induction lk as [|[j q] lk IH]; cbn in H; [discriminate|].
  apply andb_false_iff in H. destruct H as [H|H].
  - apply orb_false_iff in H. destruct H as [H1 H2]. apply negb_false_iff in H1.
    apply N.eqb_eq in H1. apply Nat.eqb_neq in H2. subst. exists q. split; [left; reflexivity|exact H2].
  - destruct (IH H) as [q' [Hin Hne]]. exists q'. split; [right; exact Hin|exact Hne].
Qed.

(* ---------------------------------------------------------------- the invariant *)
Definition holds (c : pc) : option inode :=
  match c with Locked i _ | Owner i _ | Unlinked i => Some i | _ => None end.
Definition after_unlink (c : pc) : bool :=
  match c with Unlinked _ | Done OExited | Done ODied => true | _ => false end.
Definition retry_ok (mx : N) (pa : option inode) (u : N) (c : pc) : Prop :=
  match c with
  | Start k => (k <= u)%N
  | Opened i k | Locked i k => (k <= u)%N /\ (pa <> Some i -> (k < u)%N)
  | Closing i (CRetry k) => (k <= u)%N
  | Closing _ (CExit ORetryLimit) | Done ORetryLimit => (mx <= u)%N
  | _ => True
  end.
Definition nunl (s : state) : N := N.of_nat (length (unl s)).

Record Inv (mx : N) (s : state) : Prop := {
  I_excl : forall i p q, In (i, p) (locks s) -> In (i, q) (locks s) -> p = q;
  I_lock_fd : forall i p, In (i, p) (locks s) -> exists c, getp s p = Some c /\ fd_of c = Some i;
  I_holds : forall p c i, getp s p = Some c -> holds c = Some i -> In (i, p) (locks s);
  I_fresh_path : forall i, path s = Some i -> (i < next s)%N;
  I_fresh_fd : forall p c i, getp s p = Some c -> fd_of c = Some i -> (i < next s)%N;
  I_owner_path : forall p i st, getp s p = Some (Owner i st) -> path s = Some i;
  I_unlinked : forall p i, getp s p = Some (Unlinked i) -> path s <> Some i;
  I_data : forall p i, getp s p = Some (Owner i SWritten) -> content s i = Some p;
  I_retry : forall p c, getp s p = Some c -> retry_ok mx (path s) (nunl s) c;
  I_pos : (0 < next s)%N /\ forall i, path s = Some i -> (0 < i)%N;
  I_unl_nodup : NoDup (unl s);
  I_unl_state : forall p, In p (unl s) -> exists c, getp s p = Some c /\ after_unlink c = true
}.

Lemma getp_init n p c : getp (init n) p = Some c -> c = Start 0%N.
Proof.
  unfold getp, init. cbn [procs]. intros H. apply nth_error_In in H. apply repeat_spec in H. exact H.
Qed.

Lemma inv_init mx n : Inv mx (init n).
Proof.
  constructor; cbn [init locks path unl]; intros; try contradiction; try discriminate;
    try (match goal with H : getp _ _ = Some _ |- _ => apply getp_init in H; try discriminate; subst end);
    try discriminate.
  all: try (unfold retry_ok, nunl; cbn; lia).
  - split; [cbn; lia|intros i P; discriminate].
  - constructor.
Qed.

(* ---------------------------------------------------------------- preservation, one field at a time *)
Lemma pres_excl mx s l s' : Inv mx s -> step mx s l s' ->
  forall i p q, In (i, p) (locks s') -> In (i, q) (locks s') -> p = q.
Proof.
  intros HI Hs. destruct Hs; cbn [locks setpc]; intros i0 p0 q0 L1 L2;
    try (eapply (I_excl _ _ HI); eassumption);
    try (apply in_release_all in L1, L2; eapply (I_excl _ _ HI); [apply L1|apply L2]);
    try (apply in_release_inode in L1, L2; eapply (I_excl _ _ HI); [apply L1|apply L2]).
  match goal with F : lock_free _ _ _ = true |- _ => rewrite lock_free_spec in F; rename F into LF end.
  cbn in L1, L2.
  destruct L1 as [L1|L1]; destruct L2 as [L2|L2];
    try (inversion L1; subst); try (inversion L2; subst); auto.
  - symmetry. auto.
  - eapply (I_excl _ _ HI); eassumption.
Qed.

Lemma after_close_fd c i c' : after_close c = Some (i, c') -> fd_of c = Some i /\ fd_of c' = None /\ holds c' = None.
Proof. destruct c as [| | | |j [k|o]|j|]; cbn; intros H; inversion H; subst; auto. Qed.

Lemma fail_next_fd mx c c' i : fail_next mx c = Some c' -> fd_of c = Some i -> fd_of c' = Some i.
Proof.
  destruct c as [k|j k|j k|j [| | |]|j c0|j|o]; cbn; intros H F; try discriminate; inversion H; subst; auto.
Qed.

(* fd_of of the acting process's new state, per step *)
Lemma pres_lock_fd mx s l s' : Inv mx s -> step mx s l s' ->
  forall i p, In (i, p) (locks s') -> exists c, getp s' p = Some c /\ fd_of c = Some i.
Proof.
  intros HI Hs.
  assert (Hnone : forall p c i, getp s p = Some c -> fd_of c = None -> ~ In (i, p) (locks s)).
  { intros p c i Hg Hf Hin. destruct (I_lock_fd _ _ HI _ _ Hin) as [c' [Hg' Hf']]. congruence. }
  assert (Hsame : forall p c i j, getp s p = Some c -> fd_of c = Some j -> In (i, p) (locks s) -> i = j).
  { intros p c i j Hg Hf Hin. destruct (I_lock_fd _ _ HI _ _ Hin) as [c' [Hg' Hf']]. congruence. }
  destruct Hs; unfold setpc; cbn [locks]; intros i0 p0 Hin;
    try (apply in_release_all in Hin; destruct Hin as [Hin Hne]);
    try (apply in_release_inode in Hin; destruct Hin as [Hin Hne]);
    try (destruct Hin as [Hin|Hin]; [inversion Hin; subst|]);
    unfold getp; cbn [procs];
    match goal with Hg : getp _ ?pp = Some _ |- _ =>
      rewrite (nth_upd _ _ _ _ _ Hg);
      destruct (Nat.eqb_spec p0 pp) as [E|E];
      [try subst p0; eexists; split; [reflexivity|]
      |first [apply (I_lock_fd _ _ HI); exact Hin | congruence]]
    end; cbn [fd_of];
    try (exfalso; eapply Hnone; [eassumption|reflexivity|eassumption]);
    try (f_equal; symmetry; eapply Hsame; [eassumption|reflexivity|eassumption]);
    try reflexivity; try congruence.
  - exfalso. apply Hne. split; [|reflexivity].
    match goal with A : after_close _ = _ |- _ => apply after_close_fd in A; destruct A as [A _] end.
    eapply Hsame; eassumption.
  - match goal with A : fail_next _ _ = _ |- _ => eapply fail_next_fd; [exact A|] end.
    destruct (I_lock_fd _ _ HI _ _ Hin) as [c0 [G0 F0]]. congruence.
Qed.

Lemma fail_next_holds mx c c' : fail_next mx c = Some c' -> holds c' = None.
Proof.
  destruct c as [k|j k|j k|j [| | |]|j c0|j|o]; cbn; intros H; try discriminate; inversion H; subst; auto.
  destruct (N.ltb k mx); inversion H1; reflexivity.
Qed.

Ltac split_acting G q0 :=
  unfold getp in G; cbn [procs] in G;
  match goal with Hg : getp _ ?pp = Some _ |- _ =>
    rewrite (nth_upd _ _ _ _ _ Hg) in G;
    let E := fresh "E" in
    destruct (Nat.eqb_spec q0 pp) as [E|E];
    [ try subst q0; inversion G; subst; clear G
    | match type of G with nth_error (procs ?s0) _ = _ => change (nth_error (procs s0) q0) with (getp s0 q0) in G end ]
  end.

Lemma pres_holds mx s l s' : Inv mx s -> step mx s l s' ->
  forall p c i, getp s' p = Some c -> holds c = Some i -> In (i, p) (locks s').
Proof.
  intros HI Hs. destruct Hs; unfold setpc; cbn [locks]; intros q0 c0 i0 G Hh; split_acting G q0;
    try (pose proof (I_holds _ _ HI _ _ _ G Hh) as IH);
    try exact IH; try (right; exact IH);
    try (apply in_release_all; split; assumption);
    try (apply in_release_inode; split; [assumption|intros [_ ?]; congruence]);
    cbn [holds] in Hh; try discriminate; try (inversion Hh; subst);
    try (left; reflexivity);
    try (eapply (I_holds _ _ HI); [eassumption|reflexivity]).
  - match goal with A : after_close _ = _ |- _ => apply after_close_fd in A; destruct A as [_ [_ A]]; congruence end.
  - match goal with A : fail_next _ _ = _ |- _ => apply fail_next_holds in A; congruence end.
Qed.

Lemma fail_next_fd_inv mx c c' i : fail_next mx c = Some c' -> fd_of c' = Some i -> fd_of c = Some i.
Proof.
  destruct c as [k|j k|j k|j [| | |]|j c0|j|o]; cbn; intros H F; try discriminate; inversion H; subst; auto.
  destruct (N.ltb k mx); inversion H1; subst; discriminate.
Qed.

Lemma pres_fresh mx s l s' : Inv mx s -> step mx s l s' ->
  (forall i, path s' = Some i -> (i < next s')%N) /\
  (forall p c i, getp s' p = Some c -> fd_of c = Some i -> (i < next s')%N).
Proof.
  intros HI Hs.
  pose proof (I_fresh_path _ _ HI) as FP. pose proof (I_fresh_fd _ _ HI) as FF.
  destruct Hs; unfold setpc; cbn [path next]; (split; [intros i0 P0|intros q0 c0 i0 G F0; split_acting G q0]);
    try discriminate;
    try (apply FP; assumption);
    try (eapply FF; eassumption);
    try (inversion P0; subst; lia);
    try (specialize (FF _ _ _ G F0); lia);
    cbn [fd_of] in F0; try discriminate; try (inversion F0; subst);
    try (eapply FF; [eassumption|reflexivity]);
    try (apply FP; assumption); try lia.
  - match goal with A : after_close _ = _ |- _ => apply after_close_fd in A; destruct A as [_ [A _]]; congruence end.
  - match goal with A : fail_next _ _ = _ |- _ => eapply FF; [eassumption|eapply fail_next_fd_inv; eassumption] end.
Qed.

Lemma pres_owner_path mx s l s' : Inv mx s -> step mx s l s' ->
  forall p i st, getp s' p = Some (Owner i st) -> path s' = Some i.
Proof.
  intros HI Hs. pose proof (I_owner_path _ _ HI) as OP.
  destruct Hs; unfold setpc; cbn [path]; intros q0 i0 st0 G; split_acting G q0;
    try (eapply OP; eassumption);
    try assumption;
    try (specialize (OP _ _ _ G); congruence).
  - exfalso. apply E.
    match goal with Hg : getp s ?pp = Some (Owner ?ii ?ss) |- _ =>
      pose proof (OP _ _ _ Hg) as P1; pose proof (OP _ _ _ G) as P2;
      assert (ii = i0) by congruence; subst;
      eapply (I_excl _ _ HI); [eapply (I_holds _ _ HI); [exact G|reflexivity]|eapply (I_holds _ _ HI); [exact Hg|reflexivity]]
    end.
  - match goal with A : after_close _ = _ |- _ => apply after_close_fd in A; destruct A as [_ [A _]]; discriminate end.
  - match goal with A : fail_next _ _ = _ |- _ => apply fail_next_holds in A; discriminate end.
Qed.

Lemma owner_unique mx s p q i j st st' : Inv mx s ->
  getp s p = Some (Owner i st) -> getp s q = Some (Owner j st') -> p = q.
Proof.
  intros HI G1 G2.
  pose proof (I_owner_path _ _ HI _ _ _ G1) as P1. pose proof (I_owner_path _ _ HI _ _ _ G2) as P2.
  assert (i = j) by congruence. subst.
  eapply (I_excl _ _ HI); eapply (I_holds _ _ HI); try eassumption; reflexivity.
Qed.

Lemma pres_unlinked mx s l s' : Inv mx s -> step mx s l s' ->
  forall p i, getp s' p = Some (Unlinked i) -> path s' <> Some i.
Proof.
  intros HI Hs. pose proof (I_unlinked _ _ HI) as UP.
  destruct Hs; unfold setpc; cbn [path]; intros q0 i0 G; split_acting G q0;
    try (eapply UP; eassumption); try discriminate.
  - pose proof (I_fresh_fd _ _ HI _ _ _ G eq_refl) as F. intros X. inversion X. lia.
  - match goal with A : after_close _ = _ |- _ => apply after_close_fd in A; destruct A as [_ [A _]]; discriminate end.
  - match goal with A : fail_next _ _ = _ |- _ => apply fail_next_holds in A; discriminate end.
Qed.

Lemma content_cons s i c j : content_of ((i, c) :: data s) j = if N.eqb i j then c else content s j.
Proof. reflexivity. Qed.

Lemma pres_data mx s l s' : Inv mx s -> step mx s l s' ->
  forall p i, getp s' p = Some (Owner i SWritten) -> content s' i = Some p.
Proof.
  intros HI Hs. pose proof (I_data _ _ HI) as DP.
  destruct Hs; unfold setpc, content; cbn [data]; intros q0 i0 G; split_acting G q0;
    try (eapply DP; eassumption); try discriminate;
    try rewrite content_cons.
  - pose proof (I_fresh_fd _ _ HI _ _ _ G eq_refl) as F.
    destruct (N.eqb_spec (next s) i0); [lia|]. eapply DP; eassumption.
  - match goal with T : trunc_next ?st = Some SWritten |- _ => destruct st; discriminate end.
  - exfalso. apply E. eapply owner_unique; eassumption.
  - rewrite N.eqb_refl. reflexivity.
  - exfalso. apply E. eapply owner_unique; eassumption.
  - match goal with A : after_close _ = _ |- _ => apply after_close_fd in A; destruct A as [_ [A _]]; discriminate end.
  - match goal with A : fail_next _ _ = _ |- _ => apply fail_next_holds in A; discriminate end.
Qed.

Lemma pres_unl mx s l s' : Inv mx s -> step mx s l s' ->
  NoDup (unl s') /\ (forall p, In p (unl s') -> exists c, getp s' p = Some c /\ after_unlink c = true).
Proof.
  intros HI Hs. pose proof (I_unl_nodup _ _ HI) as ND. pose proof (I_unl_state _ _ HI) as US.
  assert (NI : forall p c, getp s p = Some c -> after_unlink c = false -> ~ In p (unl s)).
  { intros p c G A Hin. destruct (US _ Hin) as [c1 [G1 A1]]. congruence. }
  destruct Hs; unfold setpc; cbn [unl]; (split; [try exact ND|intros q0 Hq; unfold getp; cbn [procs];
    match goal with Hg : getp _ ?pp = Some _ |- _ =>
      rewrite (nth_upd _ _ _ _ _ Hg);
      destruct (Nat.eqb_spec q0 pp) as [E|E];
      [try subst q0; eexists; split; [reflexivity|]
      |first [apply US; exact Hq|idtac]]
    end]);
    try reflexivity;
    try (exfalso; eapply NI; [eassumption|reflexivity|eassumption]).
  - constructor; [|exact ND]. eapply NI; [eassumption|reflexivity].
  - destruct Hq as [Hq|Hq]; [congruence|]. apply US. exact Hq.
  - destruct (US _ Hq) as [c1 [G1 A1]].
    match goal with Hg : getp s p = Some ?c0, A : after_close ?c0 = _ |- _ =>
      rewrite Hg in G1; inversion G1; subst; destruct c1 as [| | | |? [|]| |]; cbn in A, A1; try discriminate; inversion A; reflexivity end.
  - destruct (US _ Hq) as [c1 [G1 A1]].
    match goal with Hg : getp s p = Some ?c0, A : fail_next _ ?c0 = _ |- _ =>
      rewrite Hg in G1; inversion G1; subst; destruct c1; cbn in A, A1; discriminate end.
Qed.

Lemma retry_weaken mx pa u c pa' u' :
  retry_ok mx pa u c -> (u <= u')%N ->
  (forall i, fd_of c = Some i -> pa' <> Some i -> pa <> Some i \/ (u < u')%N) ->
  retry_ok mx pa' u' c.
Proof.
  destruct c as [k|j k|j k|j st|j [k|[| | | |]]|j|[| | | |]]; cbn; intros R L W; try exact I; try lia.
  - destruct R as [R1 R2]. split; [lia|]. intros X. destruct (W _ eq_refl X) as [Y|Y]; [specialize (R2 Y)|]; lia.
  - destruct R as [R1 R2]. split; [lia|]. intros X. destruct (W _ eq_refl X) as [Y|Y]; [specialize (R2 Y)|]; lia.
Qed.

Lemma pres_retry mx s l s' : Inv mx s -> step mx s l s' ->
  forall p c, getp s' p = Some c -> retry_ok mx (path s') (nunl s') c.
Proof.
  intros HI Hs. pose proof (I_retry _ _ HI) as RP.
  destruct Hs; unfold setpc, nunl; cbn [path unl]; intros q0 c0 G; split_acting G q0;
    try (apply RP; assumption);
    try (match goal with Hg : getp s _ = Some _ |- _ => pose proof (RP _ _ Hg) as R0; cbn in R0 end);
    try (cbn; unfold nunl in *; first [exact I | lia | tauto]).
  - eapply retry_weaken; [exact (RP _ _ G)|unfold nunl; lia|].
    intros i0 _ _. left. congruence.
  - cbn. unfold nunl in R0. destruct R0 as [R1 R2].
    assert (NP : path s <> Some i) by congruence. specialize (R2 NP). lia.
  - cbn. unfold nunl in R0. destruct R0 as [R1 R2].
    assert (NP : path s <> Some i) by congruence. specialize (R2 NP). lia.
  - eapply retry_weaken; [exact (RP _ _ G)| |]; unfold nunl; cbn [length]; rewrite Nat2N.inj_succ; [lia|].
    intros i0 _ _. right. lia.
  - specialize (RP _ _ G). match goal with P : path s = None |- _ => rewrite P in RP end. exact RP.
  - match goal with Hg : getp s p = Some ?c1, A : after_close ?c1 = _ |- _ =>
      pose proof (RP _ _ Hg) as R1; destruct c1 as [| | | |? [|[| | | |]]| |]; cbn in A; try discriminate;
      inversion A; subst; cbn in *; try exact I; exact R1 end.
  - match goal with Hg : getp s p = Some ?c1, A : fail_next _ ?c1 = _ |- _ =>
      destruct c1 as [k1| | |? [| | |]| | |]; cbn in A; try discriminate;
      try (destruct (N.ltb k1 mx); try discriminate); inversion A; subst; exact I end.
Qed.

Lemma pres_pos mx s l s' : Inv mx s -> step mx s l s' ->
  (0 < next s')%N /\ forall i, path s' = Some i -> (0 < i)%N.
Proof.
  intros HI Hs. destruct (I_pos _ _ HI) as [P1 P2].
  destruct Hs; unfold setpc; cbn [path next]; (split; [try exact P1; lia|intros i0 P0; try (apply P2; assumption); try discriminate]).
  inversion P0; subst. exact P1.
Qed.

Lemma inv_step mx s l s' : Inv mx s -> step mx s l s' -> Inv mx s'.
Proof.
  intros HI Hs. constructor.
  - eapply pres_excl; eassumption.
  - eapply pres_lock_fd; eassumption.
  - eapply pres_holds; eassumption.
  - eapply pres_fresh; eassumption.
  - eapply pres_fresh; eassumption.
  - eapply pres_owner_path; eassumption.
  - eapply pres_unlinked; eassumption.
  - eapply pres_data; eassumption.
  - eapply pres_retry; eassumption.
  - eapply pres_pos; eassumption.
  - eapply pres_unl; eassumption.
  - eapply pres_unl; eassumption.
Qed.

Lemma inv_steps mx s tr s' : Inv mx s -> steps mx s tr s' -> Inv mx s'.
Proof. intros HI H. induction H as [|s tr s1 l s2 H IH H2]; [exact HI|]. eapply inv_step; [apply IH; exact HI|exact H2]. Qed.

Lemma inv_reachable mx n tr s : steps mx (init n) tr s -> Inv mx s.
Proof. apply inv_steps. apply inv_init. Qed.

Lemma step_length mx s l s' : step mx s l s' -> length (procs s') = length (procs s).
Proof. intros H. destruct H; unfold setpc; cbn [procs]; apply upd_length. Qed.

Lemma steps_length mx s tr s' : steps mx s tr s' -> length (procs s') = length (procs s).
Proof. intros H. induction H as [|s tr s1 l s2 H IH H2]; [reflexivity|]. rewrite (step_length _ _ _ _ H2). exact IH. Qed.

(* ================================================================ exclusivity *)
Lemma owner_holds_path_lock mx n tr s p :
  steps mx (init n) tr s -> owner s p -> holds_path_lock s p.
Proof.
  intros H [i [st G]]. pose proof (inv_reachable _ _ _ _ H) as HI.
  exists i. split; [eapply (I_owner_path _ _ HI); exact G|eapply (I_holds _ _ HI); [exact G|reflexivity]].
Qed.

Lemma path_lock_unique mx n tr s p q :
  steps mx (init n) tr s -> holds_path_lock s p -> holds_path_lock s q -> p = q.
Proof.
  intros H [i [P1 L1]] [j [P2 L2]]. pose proof (inv_reachable _ _ _ _ H) as HI.
  assert (i = j) by congruence. subst. eapply (I_excl _ _ HI); eassumption.
Qed.

Lemma lock_exclusive mx n tr s :
  steps mx (init n) tr s ->
  (forall p, owner s p -> holds_path_lock s p) /\
  (forall p q, holds_path_lock s p -> holds_path_lock s q -> p = q) /\
  (forall p q, owner s p -> owner s q -> p = q).
Proof.
  intros H. split; [|split].
  - intros p. eapply owner_holds_path_lock; eassumption.
  - intros p q. eapply path_lock_unique; eassumption.
  - intros p q O1 O2. eapply path_lock_unique; [eassumption| |]; eapply owner_holds_path_lock; eassumption.
Qed.

(* the pid in the file is the owner's, from its write until it begins Remove *)
Lemma pidfile_names_owner mx n tr s p i :
  steps mx (init n) tr s -> getp s p = Some (Owner i SWritten) ->
  path s = Some i /\ content s i = Some p.
Proof.
  intros H G. pose proof (inv_reachable _ _ _ _ H) as HI. split.
  - eapply (I_owner_path _ _ HI); exact G.
  - eapply (I_data _ _ HI); exact G.
Qed.

(* ================================================================ release *)
(* a process that has ended (exit or death, at any point of the protocol) holds no lock *)
Lemma ended_holds_nothing mx n tr s p o :
  steps mx (init n) tr s -> getp s p = Some (Done o) -> forall i, ~ In (i, p) (locks s).
Proof.
  intros H G i Hin. pose proof (inv_reachable _ _ _ _ H) as HI.
  destruct (I_lock_fd _ _ HI _ _ Hin) as [c [G' F]]. rewrite G in G'. inversion G'; subst. discriminate.
Qed.

Lemma die_ends mx s p s' : step mx s (LDie p) s' -> getp s' p = Some (Done ODied).
Proof.
  intros H. inversion H; subst. unfold getp; cbn [procs].
  match goal with Hg : getp s p = Some _ |- _ => rewrite (nth_upd _ _ _ _ _ Hg) end.
  rewrite Nat.eqb_refl. reflexivity.
Qed.

Lemma getp_upd_same s p c0 c pa nx lk d u :
  getp s p = Some c0 -> getp (mk pa nx lk d (upd (procs s) p c) u) p = Some c.
Proof. intros G. unfold getp; cbn [procs]. rewrite (nth_upd _ _ _ _ _ G). rewrite Nat.eqb_refl. reflexivity. Qed.

Lemma getp_upd_other s p q c0 c pa nx lk d u :
  getp s p = Some c0 -> q <> p -> getp (mk pa nx lk d (upd (procs s) p c) u) q = getp s q.
Proof.
  intros G N. unfold getp; cbn [procs]. rewrite (nth_upd _ _ _ _ _ G).
  destruct (Nat.eqb_spec q p); [contradiction|reflexivity].
Qed.

Lemma steps_cons mx s l s1 tr s2 : step mx s l s1 -> steps mx s1 tr s2 -> steps mx s (l :: tr) s2.
Proof. intros H1 H2. change (l :: tr) with ([l] ++ tr). eapply steps_app; [apply steps_one; exact H1|exact H2]. Qed.

(* the undisturbed run of a process at the loop head, when nobody holds the lock on the file the
   path names: it becomes the owner (on that file if it exists, else on a new one) *)
Lemma solo_succeeds mx n tr s p k :
  steps mx (init n) tr s -> path_lock_free s -> getp s p = Some (Start k) -> (k < mx)%N ->
  exists s' i, steps mx s (solo p) s' /\ getp s' p = Some (Owner i SWritten) /\
               path s' = Some i /\ content s' i = Some p /\ In (i, p) (locks s') /\
               (forall j, path s = Some j -> i = j) /\
               (forall q, q <> p -> getp s' q = getp s q).
Proof.
  intros H PF G L. pose proof (inv_reachable _ _ _ _ H) as HI.
  assert (NL : forall j, ~ In (j, p) (locks s)).
  { intros j Hin. destruct (I_lock_fd _ _ HI _ _ Hin) as [c [G' F]]. rewrite G in G'. inversion G'; subst. discriminate. }
  unfold solo.
  destruct (path s) as [i|] eqn:P.
  - (* the file exists *)
    assert (LF : lock_free (locks s) i p = true).
    { apply lock_free_spec. intros q Hq. exfalso. eapply PF; eassumption. }
    pose (s1 := setpc s p (Opened i k)).
    assert (S1 : step mx s (LOpen p) s1) by (eapply S_open_old; eassumption).
    assert (G1 : getp s1 p = Some (Opened i k)) by (eapply getp_upd_same; exact G).
    pose (s2 := mk (path s1) (next s1) ((i, p) :: locks s1) (data s1) (upd (procs s1) p (Locked i k)) (unl s1)).
    assert (S2 : step mx s1 (LLockOk p) s2) by (eapply S_lock_ok; [exact G1|exact LF]).
    assert (G2 : getp s2 p = Some (Locked i k)) by (eapply getp_upd_same; exact G1).
    pose (s3 := setpc s2 p (Owner i SChecked)).
    assert (S3 : step mx s2 (LStatSame p) s3) by (eapply S_stat_same; [exact G2|exact P]).
    assert (G3 : getp s3 p = Some (Owner i SChecked)) by (eapply getp_upd_same; exact G2).
    pose (s4 := mk (path s3) (next s3) (locks s3) ((i, None) :: data s3) (upd (procs s3) p (Owner i SCreated)) (unl s3)).
    assert (S4 : step mx s3 (LTrunc p) s4) by (eapply S_trunc; [exact G3|reflexivity]).
    assert (G4 : getp s4 p = Some (Owner i SCreated)) by (eapply getp_upd_same; exact G3).
    pose (s5 := mk (path s4) (next s4) (locks s4) ((i, None) :: data s4) (upd (procs s4) p (Owner i STruncated)) (unl s4)).
    assert (S5 : step mx s4 (LTrunc p) s5) by (eapply S_trunc; [exact G4|reflexivity]).
    assert (G5 : getp s5 p = Some (Owner i STruncated)) by (eapply getp_upd_same; exact G4).
    pose (s6 := mk (path s5) (next s5) (locks s5) ((i, Some p) :: data s5) (upd (procs s5) p (Owner i SWritten)) (unl s5)).
    assert (S6 : step mx s5 (LWrite p) s6) by (eapply S_write; exact G5).
    exists s6, i. split; [|split; [|split; [|split; [|split; [|split]]]]].
    + eapply steps_cons; [exact S1|]. eapply steps_cons; [exact S2|]. eapply steps_cons; [exact S3|].
      eapply steps_cons; [exact S4|]. eapply steps_cons; [exact S5|]. eapply steps_cons; [exact S6|]. constructor.
    + eapply getp_upd_same; exact G5.
    + exact P.
    + unfold content, s6. cbn [data]. rewrite content_cons. rewrite N.eqb_refl. reflexivity.
    + left. reflexivity.
    + intros j Pj. congruence.
    + intros q Nq. unfold s6. rewrite (getp_upd_other _ _ _ _ _ _ _ _ _ _ G5 Nq).
      unfold s5. rewrite (getp_upd_other _ _ _ _ _ _ _ _ _ _ G4 Nq).
      unfold s4. rewrite (getp_upd_other _ _ _ _ _ _ _ _ _ _ G3 Nq).
      unfold s3, setpc. rewrite (getp_upd_other _ _ _ _ _ _ _ _ _ _ G2 Nq).
      unfold s2. rewrite (getp_upd_other _ _ _ _ _ _ _ _ _ _ G1 Nq).
      unfold s1, setpc. rewrite (getp_upd_other _ _ _ _ _ _ _ _ _ _ G Nq). reflexivity.
  - (* no file: a new inode *)
    set (i := next s).
    assert (LF : lock_free (locks s) i p = true).
    { apply lock_free_spec. intros q Hq. exfalso.
      destruct (I_lock_fd _ _ HI _ _ Hq) as [c [Gq Fq]]. pose proof (I_fresh_fd _ _ HI _ _ _ Gq Fq). unfold i in *. lia. }
    pose (s1 := mk (Some i) (N.succ i) (locks s) ((i, None) :: data s) (upd (procs s) p (Opened i k)) (unl s)).
    assert (S1 : step mx s (LOpen p) s1) by (eapply S_open_new; eassumption).
    assert (G1 : getp s1 p = Some (Opened i k)) by (eapply getp_upd_same; exact G).
    pose (s2 := mk (path s1) (next s1) ((i, p) :: locks s1) (data s1) (upd (procs s1) p (Locked i k)) (unl s1)).
    assert (S2 : step mx s1 (LLockOk p) s2) by (eapply S_lock_ok; [exact G1|exact LF]).
    assert (G2 : getp s2 p = Some (Locked i k)) by (eapply getp_upd_same; exact G1).
    pose (s3 := setpc s2 p (Owner i SChecked)).
    assert (S3 : step mx s2 (LStatSame p) s3) by (eapply S_stat_same; [exact G2|reflexivity]).
    assert (G3 : getp s3 p = Some (Owner i SChecked)) by (eapply getp_upd_same; exact G2).
    pose (s4 := mk (path s3) (next s3) (locks s3) ((i, None) :: data s3) (upd (procs s3) p (Owner i SCreated)) (unl s3)).
    assert (S4 : step mx s3 (LTrunc p) s4) by (eapply S_trunc; [exact G3|reflexivity]).
    assert (G4 : getp s4 p = Some (Owner i SCreated)) by (eapply getp_upd_same; exact G3).
    pose (s5 := mk (path s4) (next s4) (locks s4) ((i, None) :: data s4) (upd (procs s4) p (Owner i STruncated)) (unl s4)).
    assert (S5 : step mx s4 (LTrunc p) s5) by (eapply S_trunc; [exact G4|reflexivity]).
    assert (G5 : getp s5 p = Some (Owner i STruncated)) by (eapply getp_upd_same; exact G4).
    pose (s6 := mk (path s5) (next s5) (locks s5) ((i, Some p) :: data s5) (upd (procs s5) p (Owner i SWritten)) (unl s5)).
    assert (S6 : step mx s5 (LWrite p) s6) by (eapply S_write; exact G5).
    exists s6, i. split; [|split; [|split; [|split; [|split; [|split]]]]].
    + eapply steps_cons; [exact S1|]. eapply steps_cons; [exact S2|]. eapply steps_cons; [exact S3|].
      eapply steps_cons; [exact S4|]. eapply steps_cons; [exact S5|]. eapply steps_cons; [exact S6|]. constructor.
    + eapply getp_upd_same; exact G5.
    + reflexivity.
    + unfold content, s6. cbn [data]. rewrite content_cons. rewrite N.eqb_refl. reflexivity.
    + left. reflexivity.
    + intros j Pj. discriminate.
    + intros q Nq. unfold s6. rewrite (getp_upd_other _ _ _ _ _ _ _ _ _ _ G5 Nq).
      unfold s5. rewrite (getp_upd_other _ _ _ _ _ _ _ _ _ _ G4 Nq).
      unfold s4. rewrite (getp_upd_other _ _ _ _ _ _ _ _ _ _ G3 Nq).
      unfold s3, setpc. rewrite (getp_upd_other _ _ _ _ _ _ _ _ _ _ G2 Nq).
      unfold s2. rewrite (getp_upd_other _ _ _ _ _ _ _ _ _ _ G1 Nq).
      unfold s1. rewrite (getp_upd_other _ _ _ _ _ _ _ _ _ _ G Nq). reflexivity.
Qed.

(* the holder dies (SIGKILL, crash, at any stage after the same-file check): the stale file stays,
   the lock is gone, and the next process that runs the protocol takes the same file over *)
Lemma successor_after_death mx n tr s h i st s1 p k :
  steps mx (init n) tr s -> getp s h = Some (Owner i st) -> step mx s (LDie h) s1 ->
  getp s1 p = Some (Start k) -> (k < mx)%N ->
  exists s2, steps mx s1 (solo p) s2 /\ getp s2 p = Some (Owner i SWritten) /\
             path s2 = Some i /\ content s2 i = Some p /\ In (i, p) (locks s2).
Proof.
  intros H G D Gp L. pose proof (inv_reachable _ _ _ _ H) as HI.
  assert (H1 : steps mx (init n) (tr ++ [LDie h]) s1) by (eapply steps_snoc; eassumption).
  assert (P1 : path s1 = Some i).
  { inversion D; subst. cbn [path]. eapply (I_owner_path _ _ HI); exact G. }
  assert (PF : path_lock_free s1).
  { intros j q Pj Hin. assert (j = i) by congruence. subst j.
    inversion D; subst. cbn [locks] in Hin. apply in_release_all in Hin. destruct Hin as [Hin Hne].
    apply Hne. eapply (I_excl _ _ HI); [exact Hin|]. eapply (I_holds _ _ HI); [exact G|reflexivity]. }
  destruct (solo_succeeds _ _ _ _ _ _ H1 PF Gp L) as [s2 [i' [R1 [R2 [R3 [R4 [R5 [R6 _]]]]]]]].
  assert (i' = i) by (apply R6; exact P1). subst i'.
  exists s2. repeat split; assumption.
Qed.

(* the holder exits cleanly (Remove = unlink, then close): from the unlink on -- even before the
   close -- the next process creates a NEW file and becomes its owner, while the old holder, until it
   closes, still holds its lock on the unlinked one *)
Lemma successor_after_unlink mx n tr s h i st s1 p k :
  steps mx (init n) tr s -> getp s h = Some (Owner i st) -> step mx s (LUnlink h) s1 ->
  getp s1 p = Some (Start k) -> (k < mx)%N -> p <> h ->
  exists s2 j, steps mx s1 (solo p) s2 /\ getp s2 p = Some (Owner j SWritten) /\
               path s2 = Some j /\ content s2 j = Some p /\ In (j, p) (locks s2) /\
               j <> i /\ getp s2 h = Some (Unlinked i) /\ In (i, h) (locks s2).
Proof.
  intros H G U Gp L Nph. pose proof (inv_reachable _ _ _ _ H) as HI.
  assert (H1 : steps mx (init n) (tr ++ [LUnlink h]) s1) by (eapply steps_snoc; eassumption).
  assert (P1 : path s1 = None) by (inversion U; subst; reflexivity).
  assert (PF : path_lock_free s1) by (intros j q Pj; congruence).
  assert (Gh : getp s1 h = Some (Unlinked i)).
  { inversion U; subst.
    match goal with X : getp s h = Some (Owner ?i1 _) |- _ => assert (i1 = i) by congruence; subst i1 end.
    eapply getp_upd_same; exact G. }
  destruct (solo_succeeds _ _ _ _ _ _ H1 PF Gp L) as [s2 [j [R1 [R2 [R3 [R4 [R5 [R6 R7]]]]]]]].
  assert (H2 : steps mx (init n) ((tr ++ [LUnlink h]) ++ solo p) s2) by (eapply steps_app; eassumption).
  pose proof (inv_reachable _ _ _ _ H2) as HI2.
  assert (Gh2 : getp s2 h = Some (Unlinked i)) by (rewrite R7; [exact Gh|auto]).
  exists s2, j. repeat split; try assumption.
  - intros ->. eapply (I_unlinked _ _ HI2); eassumption.
  - eapply (I_holds _ _ HI2); [exact Gh2|reflexivity].
Qed.

(* ---- the retry bound ---- *)
Lemma nodup_bounded_length (l : list nat) n : NoDup l -> (forall x, In x l -> x < n) -> length l <= n.
Proof.
  intros ND B. rewrite <- (seq_length n 0). apply NoDup_incl_length; [exact ND|].
  intros x Hx. apply in_seq. specialize (B _ Hx). lia.
Qed.

(* a process ends with ErrRetryLimit only after mx unlinks of the path by mx DIFFERENT other
   processes (each an owner that ran Remove); with at most mx daemons in all it cannot happen *)
Lemma retry_limit_needs_unlinks mx n tr s p :
  steps mx (init n) tr s -> getp s p = Some (Done ORetryLimit) ->
  (mx <= N.of_nat (length (unl s)))%N /\ NoDup (unl s) /\ ~ In p (unl s) /\
  (forall q, In q (unl s) -> q < n) /\ (mx < N.of_nat n)%N.
Proof.
  intros H G. pose proof (inv_reachable _ _ _ _ H) as HI.
  pose proof (I_retry _ _ HI _ _ G) as R. cbn in R. unfold nunl in R.
  pose proof (I_unl_nodup _ _ HI) as ND.
  assert (NI : ~ In p (unl s)).
  { intros Hin. destruct (I_unl_state _ _ HI _ Hin) as [c [G' A]]. rewrite G in G'. inversion G'; subst. discriminate. }
  assert (LN : length (procs s) = n).
  { rewrite (steps_length _ _ _ _ H). unfold init. cbn [procs]. apply repeat_length. }
  assert (B : forall q, In q (unl s) -> q < n).
  { intros q Hin. destruct (I_unl_state _ _ HI _ Hin) as [c [G' A]]. rewrite <- LN. eapply getp_lt; exact G'. }
  repeat split; try assumption.
  assert (S (length (unl s)) <= n).
  { change (S (length (unl s))) with (length (p :: unl s)). apply nodup_bounded_length.
    - constructor; assumption.
    - intros x [<-|Hx]; [rewrite <- LN; eapply getp_lt; exact G|apply B; exact Hx]. }
  lia.
Qed.

(* a process gets ErrLocked only when another process holds the lock on the file it opened *)
Lemma locked_means_other_holder mx s p s' :
  step mx s (LLockBusy p) s' -> exists i k q, getp s p = Some (Opened i k) /\ In (i, q) (locks s) /\ q <> p.
Proof.
  intros H. inversion H; subst.
  match goal with F : lock_free _ _ _ = false |- _ => destruct (lock_busy_spec _ _ _ F) as [q [Hin Hne]] end.
  eauto 8.
Qed.

(* ================================================================ the unlink -> close window *)
Definition window_trace : list label := solo 0 ++ [LUnlink 0] ++ solo 1.

Lemma one_locker_refuted :
  exists mx n tr s p q i j,
    steps mx (init n) tr s /\ p <> q /\ passed_and_locked s p /\ passed_and_locked s q /\
    In (i, p) (locks s) /\ In (j, q) (locks s).
Proof.
  exists 10%N, 2, window_trace.
  destruct (exec_all 10 (init 2) window_trace) as [s|] eqn:E; [|vm_compute in E; discriminate].
  exists s, 0, 1, 1%N, 2%N.
  pose proof (exec_all_steps _ _ _ _ E) as HS.
  vm_compute in E. inversion E; subst. clear E.
  split; [exact HS|]. split; [discriminate|].
  split; [exists 1%N; right; reflexivity|].
  split; [exists 2%N; left; exists SWritten; reflexivity|].
  split; cbn; auto.
Qed.

Lemma one_locker_partial mx n tr s p q :
  steps mx (init n) tr s -> passed_and_locked s p -> passed_and_locked s q ->
  p = q \/ in_remove_window s p \/ in_remove_window s q.
Proof.
  intros H [i [[st G1]|G1]] [j [[st' G2]|G2]]; pose proof (inv_reachable _ _ _ _ H) as HI.
  - left. eapply owner_unique; eassumption.
  - right. right. exists j. exact G2.
  - right. left. exists i. exact G1.
  - right. left. exists i. exact G1.
Qed.

(* what the window is: the process inside Remove holds exactly the lock on the file it has
   unlinked, which the path does not name any more (and never will again) *)
Lemma remove_window_harmless mx n tr s p i :
  steps mx (init n) tr s -> getp s p = Some (Unlinked i) ->
  path s <> Some i /\ In (i, p) (locks s) /\ (forall j, In (j, p) (locks s) -> j = i) /\ ~ holds_path_lock s p.
Proof.
  intros H G. pose proof (inv_reachable _ _ _ _ H) as HI.
  assert (A : forall j, In (j, p) (locks s) -> j = i).
  { intros j Hin. destruct (I_lock_fd _ _ HI _ _ Hin) as [c [G' F]]. rewrite G in G'. inversion G'; subst.
    cbn in F. congruence. }
  repeat split.
  - eapply (I_unlinked _ _ HI); exact G.
  - eapply (I_holds _ _ HI); [exact G|reflexivity].
  - exact A.
  - intros [j [P Hin]]. apply A in Hin. subst. eapply (I_unlinked _ _ HI); eassumption.
Qed.

(* ================================================================ settled states *)
Definition settled (s : state) : Prop :=
  forall p c, getp s p = Some c ->
    c = Start 0%N \/ (exists i, c = Owner i SWritten) \/ (exists o, c = Done o).

(* when every process is either not started, up, or gone: a daemon is up, or nobody holds the lock on
   the file the path names -- so the next daemon started becomes the owner (solo_succeeds) *)
Lemma settled_owner_or_free mx n tr s :
  steps mx (init n) tr s -> settled s -> (exists p, owner s p) \/ path_lock_free s.
Proof.
  intros H ST. pose proof (inv_reachable _ _ _ _ H) as HI.
  destruct (path s) as [i|] eqn:P; [|right; intros j q Pj; congruence].
  destruct (existsb (fun e => N.eqb (fst e) i) (locks s)) eqn:E.
  - left. apply existsb_exists in E. destruct E as [[j q] [Hin Ej]]. cbn in Ej. apply N.eqb_eq in Ej. subst j.
    destruct (I_lock_fd _ _ HI _ _ Hin) as [c [G F]].
    destruct (ST _ _ G) as [->|[[i' ->]|[o ->]]]; try discriminate.
    exists q, i', SWritten. exact G.
  - right. intros j q Pj Hin. assert (j = i) by congruence. subst j.
    assert (existsb (fun e => N.eqb (fst e) i) (locks s) = true).
    { apply existsb_exists. exists (i, q). split; [exact Hin|apply N.eqb_refl]. }
    congruence.
Qed.

(* ================================================================ monitor soundness:
   every history that the correspondence check accepts (a run of the model whose snapshots agree)
   satisfies the exclusivity monitor and the release monitor *)
Lemma in_add_pid p cl q : In q (add_pid p cl) <-> q = p \/ In q cl.
Proof.
  unfold add_pid. destruct (existsb (Nat.eqb p) cl) eqn:E.
  - split; [auto|]. intros [->|H]; [|exact H]. apply existsb_exists in E. destruct E as [x [Hx Ex]].
    apply Nat.eqb_eq in Ex. subst. exact Hx.
  - cbn. split; intros [H|H]; auto.
Qed.

Lemma nodup_add_pid p cl : NoDup cl -> NoDup (add_pid p cl).
Proof.
  intros ND. unfold add_pid. destruct (existsb (Nat.eqb p) cl) eqn:E; [exact ND|].
  constructor; [|exact ND]. intros Hin.
  assert (existsb (Nat.eqb p) cl = true) by (apply existsb_exists; exists p; split; [exact Hin|apply Nat.eqb_refl]).
  congruence.
Qed.

Lemma in_remove_pid p cl q : In q (remove_pid p cl) <-> In q cl /\ q <> p.
Proof.
  unfold remove_pid. rewrite filter_In. split; intros [H1 H2]; split; auto.
  - intros ->. rewrite Nat.eqb_refl in H2. discriminate.
  - destruct (Nat.eqb_spec q p); [contradiction|reflexivity].
Qed.

Lemma nodup_remove_pid p cl : NoDup cl -> NoDup (remove_pid p cl).
Proof. apply NoDup_filter. Qed.

Definition claimant (s : state) (p : pid) : Prop :=
  exists i st, getp s p = Some (Owner i st) /\ st <> SChecked.
Definition claims_ok (s : state) (cl : list pid) : Prop :=
  NoDup cl /\ forall p, In p cl -> claimant s p.

Lemma claims_length mx s cl : Inv mx s -> claims_ok s cl -> length cl <= 1.
Proof.
  intros HI [ND C]. destruct cl as [|a [|b r]]; cbn; try lia. exfalso.
  destruct (C a (or_introl eq_refl)) as [i [st [G1 _]]].
  destruct (C b (or_intror (or_introl eq_refl))) as [j [st' [G2 _]]].
  assert (a = b) by (eapply owner_unique; eassumption). subst.
  inversion ND as [|? ? N1 _]; subst. apply N1. left. reflexivity.
Qed.

(* a process other than the acting one keeps its state; an owner past CreatePidFile can only
   truncate, write, unlink or die *)
Lemma step_claims mx s l s' cl ino sn :
  Inv mx s -> step mx s l s' -> claims_ok s cl -> claims_ok s' (claims_after cl (ESys l ino sn)).
Proof.
  intros HI Hs [ND C].
  assert (KEEP : forall q c0 c1 pa nx lk d u p, getp s p = Some c0 -> q <> p -> claimant s q ->
                 claimant (mk pa nx lk d (upd (procs s) p c1) u) q).
  { intros q c0 c1 pa nx lk d u p G N [i [st [Gq Sq]]]. exists i, st. split; [|exact Sq].
    rewrite (getp_upd_other _ _ _ _ _ _ _ _ _ _ G N). exact Gq. }
  assert (NOTCL : forall p c0, getp s p = Some c0 -> (forall i st, c0 = Owner i st -> st = SChecked) -> ~ In p cl).
  { intros p c0 G F Hin. destruct (C _ Hin) as [i [st [G' S']]]. rewrite G in G'. inversion G'; subst.
    apply S'. eapply F. reflexivity. }
  destruct Hs; unfold setpc; cbn [claims_after]; split;
    try exact ND; try (apply nodup_add_pid; exact ND); try (apply nodup_remove_pid; exact ND);
    intros q Hq;
    try (apply in_add_pid in Hq; destruct Hq as [->|Hq]);
    try (apply in_remove_pid in Hq; destruct Hq as [Hq Nq]);
    try (match goal with Hg : getp s ?pp = Some _ |- _ =>
           destruct (Nat.eq_dec q pp) as [->|Nq'];
           [|eapply KEEP; [exact Hg|exact Nq'|apply C; exact Hq]] end);
    try (eapply KEEP; [eassumption|assumption|apply C; exact Hq]);
    try (exfalso; eapply NOTCL; [eassumption| |eassumption]; intros; discriminate).
  - exists i, st'. split; [eapply getp_upd_same; eassumption|].
    match goal with T : trunc_next ?st0 = Some _ |- _ => destruct st0; inversion T; discriminate end.
  - exists i, st'. split; [eapply getp_upd_same; eassumption|].
    match goal with T : trunc_next ?st0 = Some _ |- _ => destruct st0; inversion T; discriminate end.
  - exists i, SWritten. split; [eapply getp_upd_same; eassumption|discriminate].
  - exists i, SWritten. split; [eapply getp_upd_same; eassumption|discriminate].
  - exfalso. eapply NOTCL; [eassumption| |eassumption].
    intros i0 st0 ->. match goal with A : after_close _ = _ |- _ => cbn in A; discriminate end.
  - exfalso. eapply NOTCL; [eassumption| |eassumption].
    intros i0 st0 ->. match goal with A : fail_next _ _ = _ |- _ => destruct st0; cbn in A; try discriminate; reflexivity end.
Qed.


Lemma nodup_all_equal (l : list nat) :
  (forall a b, In a l -> In b l -> a = b) -> length (nodup Nat.eq_dec l) <= 1.
Proof.
  intros E. pose proof (NoDup_nodup Nat.eq_dec l) as ND.
  assert (E' : forall a b, In a (nodup Nat.eq_dec l) -> In b (nodup Nat.eq_dec l) -> a = b).
  { intros a b Ha Hb. apply nodup_In in Ha, Hb. auto. }
  destruct (nodup Nat.eq_dec l) as [|a [|b r]]; cbn; try lia. exfalso.
  assert (a = b) by (apply E'; cbn; auto). subst.
  inversion ND as [|? ? N1 _]; subst. apply N1. left. reflexivity.
Qed.

Lemma in_path_lockers sn q :
  In q (path_lockers sn) <->
  sn_path sn <> 0%N /\ exists w, In (sn_path sn, q, w) (sn_locks sn).
Proof.
  unfold path_lockers. destruct (N.eqb_spec (sn_path sn) 0) as [Z|Z].
  - split; [intros []|intros [H _]; contradiction].
  - rewrite nodup_In, in_map_iff. split.
    + intros [[[i p] w] [Hq Hin]]. cbn in Hq. subst. apply filter_In in Hin. cbn in Hin. destruct Hin as [Hin Hi].
      apply N.eqb_eq in Hi. subst. split; [exact Z|]. exists w. exact Hin.
    + intros [_ [w Hin]]. exists (sn_path sn, q, w). split; [reflexivity|].
      apply filter_In. split; [exact Hin|]. cbn. apply N.eqb_refl.
Qed.

Lemma snapshot_part mx s sn cl :
  Inv mx s -> snap_ok s sn = true -> claims_ok s cl ->
  Nat.leb (length (path_lockers sn)) 1 && forallb (fun p => existsb (Nat.eqb p) (path_lockers sn)) cl = true.
Proof.
  intros HI SO [ND C]. unfold snap_ok in SO.
  apply andb_prop in SO. destruct SO as [SO S4]. apply andb_prop in SO. destruct SO as [SO S3].
  apply andb_prop in SO. destruct SO as [S1 S2]. apply N.eqb_eq in S1.
  rewrite forallb_forall in S2, S3.
  apply andb_true_intro. split.
  - apply Nat.leb_le.
    assert (E : forall a b, In a (path_lockers sn) -> In b (path_lockers sn) -> a = b).
    { intros a b Ha Hb. apply in_path_lockers in Ha, Hb.
      destruct Ha as [Z [wa Ha]]. destruct Hb as [_ [wb Hb]].
      assert (LA : forall q w, In (sn_path sn, q, w) (sn_locks sn) -> In (sn_path sn, q) (locks s)).
      { intros q w Hin. specialize (S2 _ Hin). cbn in S2. apply andb_prop in S2. destruct S2 as [_ S2].
        apply existsb_exists in S2. destruct S2 as [[j r] [Hx Ex]]. cbn in Ex. apply andb_prop in Ex.
        destruct Ex as [E1 E2]. apply N.eqb_eq in E1. apply Nat.eqb_eq in E2. subst. exact Hx. }
      eapply (I_excl _ _ HI); eapply LA; eassumption. }
    unfold path_lockers in *. destruct (N.eqb (sn_path sn) 0); [cbn; lia|].
    apply nodup_all_equal. intros a b Ha Hb. apply E; apply nodup_In; assumption.
  - apply forallb_forall. intros p Hp. destruct (C _ Hp) as [i [st [G _]]].
    pose proof (I_owner_path _ _ HI _ _ _ G) as P. pose proof (I_holds _ _ HI _ _ _ G eq_refl) as L.
    rewrite P in S1. pose proof (proj2 (I_pos _ _ HI) _ P) as Pos.
    specialize (S3 _ L). unfold lock_obs in S3. apply existsb_exists in S3.
    destruct S3 as [[[j r] w] [Hx Ex]]. cbn in Ex. apply andb_prop in Ex. destruct Ex as [E1 E2].
    apply N.eqb_eq in E1. apply Nat.eqb_eq in E2. subst j r.
    apply existsb_exists. exists p. split; [|apply Nat.eqb_refl].
    apply in_path_lockers. split; [rewrite <- S1; lia|]. exists w. rewrite <- S1. exact Hx.
Qed.

Lemma claims_remove s cl p : claims_ok s cl -> claims_ok s (remove_pid p cl).
Proof.
  intros [ND C]. split; [apply nodup_remove_pid; exact ND|].
  intros q Hq. apply in_remove_pid in Hq. apply C. apply Hq.
Qed.

Lemma replay_exclusive mx h : forall s cl s2,
  Inv mx s -> claims_ok s cl -> replay mx s h = Some s2 -> mon_exclusive_from cl h = true.
Proof.
  induction h as [|e r IH]; intros s cl s2 HI CO R; [reflexivity|].
  cbn [mon_exclusive_from]. cbn [replay] in R. destruct e as [p|l ino sn|p|p|p sn|p code sn].
  - (* EStart *)
    destruct (getp s p) as [[[|?]| | | | | |]|]; try discriminate.
    cbn [claims_after snap_of]. rewrite (IH _ _ _ HI CO R).
    pose proof (claims_length _ _ _ HI CO) as L. apply Nat.leb_le in L. rewrite L. reflexivity.
  - (* ESys *)
    destruct (exec mx s l) as [s1|] eqn:E; [|discriminate].
    destruct (snap_ok s1 sn && fd_ok s1 (label_pid l) ino) eqn:SO; [|discriminate].
    apply andb_prop in SO. destruct SO as [SO _].
    pose proof (exec_step _ _ _ _ E) as ST. pose proof (inv_step _ _ _ _ HI ST) as HI1.
    pose proof (step_claims _ _ _ _ _ ino sn HI ST CO) as CO1.
    cbn [snap_of]. rewrite (IH _ _ _ HI1 CO1 R).
    pose proof (claims_length _ _ _ HI1 CO1) as L. apply Nat.leb_le in L. rewrite L.
    rewrite (snapshot_part _ _ _ _ HI1 SO CO1). reflexivity.
  - (* EUp *)
    destruct (getp s p) as [[| | |i [| | |]| | |]|] eqn:G; try discriminate.
    assert (CO1 : claims_ok s (add_pid p cl)).
    { destruct CO as [ND C]. split; [apply nodup_add_pid; exact ND|].
      intros q Hq. apply in_add_pid in Hq. destruct Hq as [->|Hq]; [|apply C; exact Hq].
      exists i, SWritten. split; [exact G|discriminate]. }
    cbn [claims_after snap_of]. rewrite (IH _ _ _ HI CO1 R).
    pose proof (claims_length _ _ _ HI CO1) as L. apply Nat.leb_le in L. rewrite L. reflexivity.
  - (* ETerm *)
    destruct (getp s p) as [[| | |i [| | |]| | |]|] eqn:G; try discriminate.
    cbn [claims_after snap_of]. rewrite (IH _ _ _ HI CO R).
    pose proof (claims_length _ _ _ HI CO) as L. apply Nat.leb_le in L. rewrite L. reflexivity.
  - (* EKill *)
    destruct (exec mx s (LDie p)) as [s1|] eqn:E; [|discriminate].
    destruct (snap_ok s1 sn) eqn:SO; [|discriminate].
    pose proof (exec_step _ _ _ _ E) as ST. pose proof (inv_step _ _ _ _ HI ST) as HI1.
    pose proof (step_claims _ _ _ _ _ 0%N sn HI ST CO) as CO1. cbn [claims_after] in CO1.
    cbn [claims_after snap_of]. rewrite (IH _ _ _ HI1 CO1 R).
    pose proof (claims_length _ _ _ HI1 CO1) as L. apply Nat.leb_le in L. rewrite L.
    rewrite (snapshot_part _ _ _ _ HI1 SO CO1). reflexivity.
  - (* EExit *)
    set (s1 := match exec mx s (LGiveUp p) with Some s' => s' | None => s end) in R.
    assert (A : Inv mx s1 /\ claims_ok s1 cl).
    { unfold s1. destruct (exec mx s (LGiveUp p)) as [s'|] eqn:E; [|split; assumption].
      pose proof (exec_step _ _ _ _ E) as ST. split; [eapply inv_step; eassumption|].
      pose proof (step_claims _ _ _ _ _ 0%N sn HI ST CO) as CO1. exact CO1. }
    destruct A as [HI1 CO0]. pose proof (claims_remove _ _ p CO0) as CO1.
    destruct (getp s1 p) as [[| | | | | |o]|]; try discriminate.
    destruct (exit_code o) as [c|]; [|discriminate].
    destruct (N.eqb c code && snap_ok s1 sn) eqn:SO; [|discriminate].
    apply andb_prop in SO. destruct SO as [_ SO].
    cbn [claims_after snap_of]. rewrite (IH _ _ _ HI1 CO1 R).
    pose proof (claims_length _ _ _ HI1 CO1) as L. apply Nat.leb_le in L. rewrite L.
    rewrite (snapshot_part _ _ _ _ HI1 SO CO1). reflexivity.
Qed.

(* every history the correspondence accepts satisfies the exclusivity monitor *)
Lemma accepted_exclusive mx n h : accepts mx n h = true -> mon_exclusive h = true.
Proof.
  unfold accepts, mon_exclusive. destruct (replay mx (init n) h) as [s2|] eqn:R; [intros _|discriminate].
  eapply replay_exclusive; [apply inv_init| |exact R].
  split; [constructor|intros p []].
Qed.

(* ---- release monitor ---- *)
Lemma no_lock_of_done mx s sn p o :
  Inv mx s -> snap_ok s sn = true -> getp s p = Some (Done o) ->
  negb (existsb (fun x => Nat.eqb (snd (fst x)) p) (sn_locks sn)) = true.
Proof.
  intros HI SO G. apply negb_true_iff. apply Bool.not_true_iff_false. intros E.
  apply existsb_exists in E. destruct E as [[[i q] w] [Hin Eq]]. cbn in Eq. apply Nat.eqb_eq in Eq. subst q.
  unfold snap_ok in SO. apply andb_prop in SO. destruct SO as [SO _]. apply andb_prop in SO. destruct SO as [SO _].
  apply andb_prop in SO. destruct SO as [_ S2]. rewrite forallb_forall in S2. specialize (S2 _ Hin).
  cbn in S2. apply andb_prop in S2. destruct S2 as [_ S2]. apply existsb_exists in S2.
  destruct S2 as [[j r] [Hx Ex]]. cbn in Ex. apply andb_prop in Ex. destruct Ex as [E1 E2].
  apply N.eqb_eq in E1. apply Nat.eqb_eq in E2. subst.
  destruct (I_lock_fd _ _ HI _ _ Hx) as [c [G' F]]. rewrite G in G'. inversion G'; subst. discriminate.
Qed.

Lemma replay_released mx h : forall s s2, Inv mx s -> replay mx s h = Some s2 -> mon_released h = true.
Proof.
  unfold mon_released.
  induction h as [|e r IH]; intros s s2 HI R; [reflexivity|].
  cbn [forallb]. cbn [replay] in R. destruct e as [p|l ino sn|p|p|p sn|p code sn].
  - destruct (getp s p) as [[[|?]| | | | | |]|]; try discriminate. rewrite (IH _ _ HI R). reflexivity.
  - destruct (exec mx s l) as [s1|] eqn:E; [|discriminate].
    destruct (snap_ok s1 sn && fd_ok s1 (label_pid l) ino); [|discriminate].
    pose proof (inv_step _ _ _ _ HI (exec_step _ _ _ _ E)) as HI1. rewrite (IH _ _ HI1 R). reflexivity.
  - destruct (getp s p) as [[| | |i [| | |]| | |]|]; try discriminate. rewrite (IH _ _ HI R). reflexivity.
  - destruct (getp s p) as [[| | |i [| | |]| | |]|]; try discriminate. rewrite (IH _ _ HI R). reflexivity.
  - destruct (exec mx s (LDie p)) as [s1|] eqn:E; [|discriminate].
    destruct (snap_ok s1 sn) eqn:SO; [|discriminate].
    pose proof (exec_step _ _ _ _ E) as ST. pose proof (inv_step _ _ _ _ HI ST) as HI1.
    rewrite (IH _ _ HI1 R). rewrite (no_lock_of_done _ _ _ _ _ HI1 SO (die_ends _ _ _ _ ST)). reflexivity.
  - set (s1 := match exec mx s (LGiveUp p) with Some s' => s' | None => s end) in R.
    assert (HI1 : Inv mx s1).
    { unfold s1. destruct (exec mx s (LGiveUp p)) as [s'|] eqn:E; [|assumption].
      eapply inv_step; [exact HI|apply exec_step; exact E]. }
    destruct (getp s1 p) as [[| | | | | |o]|] eqn:G; try discriminate.
    destruct (exit_code o) as [c|]; [|discriminate].
    destruct (N.eqb c code && snap_ok s1 sn) eqn:SO; [|discriminate].
    apply andb_prop in SO. destruct SO as [_ SO].
    rewrite (IH _ _ HI1 R). rewrite (no_lock_of_done _ _ _ _ _ HI1 SO G). reflexivity.
Qed.

Lemma accepted_released mx n h : accepts mx n h = true -> mon_released h = true.
Proof.
  unfold accepts. destruct (replay mx (init n) h) as [s2|] eqn:R; [intros _|discriminate].
  eapply replay_released; [apply inv_init|exact R].
Qed.

(* ---- content monitor ---- *)
Definition writers_ok (s : state) (w : list pid) : Prop :=
  forall p, In p w -> exists i, getp s p = Some (Owner i SWritten).

Lemma step_writers mx s l s' w ino sn :
  step mx s l s' -> writers_ok s w -> writers_ok s' (writers_after w (ESys l ino sn)).
Proof.
  intros Hs C.
  assert (KEEP : forall q c0 c1 pa nx lk d u p, getp s p = Some c0 -> q <> p ->
                 (exists i, getp s q = Some (Owner i SWritten)) ->
                 exists i, getp (mk pa nx lk d (upd (procs s) p c1) u) q = Some (Owner i SWritten)).
  { intros q c0 c1 pa nx lk d u p G N [i Gq]. exists i.
    rewrite (getp_upd_other _ _ _ _ _ _ _ _ _ _ G N). exact Gq. }
  assert (NOTW : forall p c0, getp s p = Some c0 -> (forall i, c0 <> Owner i SWritten) -> ~ In p w).
  { intros p c0 G F Hin. destruct (C _ Hin) as [i G']. rewrite G in G'. inversion G'; subst. eapply F. reflexivity. }
  destruct Hs; unfold setpc; cbn [writers_after];
    intros q Hq;
    try (apply in_add_pid in Hq; destruct Hq as [->|Hq]);
    try (apply in_remove_pid in Hq; destruct Hq as [Hq Nq]);
    try (match goal with Hg : getp s ?pp = Some _ |- _ =>
           destruct (Nat.eq_dec q pp) as [->|Nq'];
           [|eapply KEEP; [exact Hg|exact Nq'|apply C; exact Hq]] end);
    try (eapply KEEP; [eassumption|assumption|apply C; exact Hq]);
    try (exfalso; eapply NOTW; [eassumption| |eassumption]; intros; discriminate);
    try (eexists; eapply getp_upd_same; eassumption).
  - exfalso. eapply NOTW; [eassumption| |eassumption].
    intros i0 E. inversion E; subst. match goal with T : trunc_next _ = Some _ |- _ => discriminate end.
  - exfalso. eapply NOTW; [eassumption| |eassumption].
    intros i0 E. subst. match goal with A : after_close _ = _ |- _ => cbn in A; discriminate end.
  - exfalso. eapply NOTW; [eassumption| |eassumption].
    intros i0 E. subst. match goal with A : fail_next _ _ = _ |- _ => cbn in A; discriminate end.
Qed.

Lemma content_part mx s sn w :
  Inv mx s -> snap_ok s sn = true -> writers_ok s w ->
  forallb (fun p => fcontent_eqb (sn_content sn) (FPid p)) w = true.
Proof.
  intros HI SO C. apply forallb_forall. intros p Hp. destruct (C _ Hp) as [i G].
  pose proof (I_owner_path _ _ HI _ _ _ G) as P. pose proof (I_data _ _ HI _ _ G) as D.
  unfold snap_ok in SO. apply andb_prop in SO. destruct SO as [_ S4].
  unfold model_content in S4. rewrite P, D in S4.
  destruct (sn_content sn); cbn in *; try discriminate. apply Nat.eqb_eq in S4. subst. apply Nat.eqb_refl.
Qed.

Lemma writers_remove s w p : writers_ok s w -> writers_ok s (remove_pid p w).
Proof. intros C q Hq. apply in_remove_pid in Hq. apply C. apply Hq. Qed.

Lemma replay_content mx h : forall s w s2,
  Inv mx s -> writers_ok s w -> replay mx s h = Some s2 -> mon_content_from w h = true.
Proof.
  induction h as [|e r IH]; intros s w s2 HI CO R; [reflexivity|].
  cbn [mon_content_from]. cbn [replay] in R. destruct e as [p|l ino sn|p|p|p sn|p code sn].
  - destruct (getp s p) as [[[|?]| | | | | |]|]; try discriminate.
    cbn [writers_after snap_of]. rewrite (IH _ _ _ HI CO R). reflexivity.
  - destruct (exec mx s l) as [s1|] eqn:E; [|discriminate].
    destruct (snap_ok s1 sn && fd_ok s1 (label_pid l) ino) eqn:SO; [|discriminate].
    apply andb_prop in SO. destruct SO as [SO _].
    pose proof (exec_step _ _ _ _ E) as ST. pose proof (inv_step _ _ _ _ HI ST) as HI1.
    pose proof (step_writers _ _ _ _ _ ino sn ST CO) as CO1.
    cbn [snap_of]. rewrite (IH _ _ _ HI1 CO1 R). rewrite (content_part _ _ _ _ HI1 SO CO1). reflexivity.
  - destruct (getp s p) as [[| | |i [| | |]| | |]|]; try discriminate.
    cbn [writers_after snap_of]. rewrite (IH _ _ _ HI CO R). reflexivity.
  - destruct (getp s p) as [[| | |i [| | |]| | |]|]; try discriminate.
    cbn [writers_after snap_of]. rewrite (IH _ _ _ HI CO R). reflexivity.
  - destruct (exec mx s (LDie p)) as [s1|] eqn:E; [|discriminate].
    destruct (snap_ok s1 sn) eqn:SO; [|discriminate].
    pose proof (exec_step _ _ _ _ E) as ST. pose proof (inv_step _ _ _ _ HI ST) as HI1.
    pose proof (step_writers _ _ _ _ _ 0%N sn ST CO) as CO1. cbn [writers_after] in CO1.
    cbn [writers_after snap_of]. rewrite (IH _ _ _ HI1 CO1 R). rewrite (content_part _ _ _ _ HI1 SO CO1). reflexivity.
  - set (s1 := match exec mx s (LGiveUp p) with Some s' => s' | None => s end) in R.
    assert (A : Inv mx s1 /\ writers_ok s1 w).
    { unfold s1. destruct (exec mx s (LGiveUp p)) as [s'|] eqn:E; [|split; assumption].
      pose proof (exec_step _ _ _ _ E) as ST. split; [eapply inv_step; eassumption|].
      exact (step_writers _ _ _ _ _ 0%N sn ST CO). }
    destruct A as [HI1 CO0]. pose proof (writers_remove _ _ p CO0) as CO1.
    destruct (getp s1 p) as [[| | | | | |o]|]; try discriminate.
    destruct (exit_code o) as [c|]; [|discriminate].
    destruct (N.eqb c code && snap_ok s1 sn) eqn:SO; [|discriminate].
    apply andb_prop in SO. destruct SO as [_ SO].
    cbn [writers_after snap_of]. rewrite (IH _ _ _ HI1 CO1 R). rewrite (content_part _ _ _ _ HI1 SO CO1). reflexivity.
Qed.

Lemma accepted_content mx n h : accepts mx n h = true -> mon_content h = true.
Proof.
  unfold accepts, mon_content. destruct (replay mx (init n) h) as [s2|] eqn:R; [intros _|discriminate].
  eapply replay_content; [apply inv_init| |exact R]. intros p [].
Qed.

(* the three safety monitors hold on every history that is a run of the model *)
Lemma accepted_safety_monitors mx n h :
  accepts mx n h = true -> mon_exclusive h = true /\ mon_content h = true /\ mon_released h = true.
Proof.
  intros A. split; [eapply accepted_exclusive; exact A|split; [eapply accepted_content; exact A|eapply accepted_released; exact A]].
Qed.

(* ================================================================ non-vacuity and sanity examples *)
(* a lone daemon becomes the owner of a new file (hypotheses of solo_succeeds hold in the initial state) *)
Example ex_solo :
  exists s, exec_all 10 (init 1) (solo 0) = Some s /\ getp s 0 = Some (Owner 1%N SWritten) /\
            path s = Some 1%N /\ content s 1%N = Some 0 /\ locks s = [(1%N, 0)].
Proof. eexists. split; [vm_compute; reflexivity|]. vm_compute. repeat split. Qed.

Example ex_path_lock_free_init : path_lock_free (init 3).
Proof. intros i q P. discriminate. Qed.

(* the race described in pidfile.go: B opens, A exits (unlink, close), B locks the deleted file, the
   same-file check sends B round again; meanwhile C has made a new file; B then finds it locked *)
Definition race_trace : list label :=
  solo 0 ++ [LOpen 1; LUnlink 0; LClose 0; LLockOk 1; LStatGone 1] ++ solo 2 ++ [LClose 1; LOpen 1; LLockBusy 1; LClose 1].
Example ex_race :
  exists s, exec_all 10 (init 3) race_trace = Some s /\
            getp s 0 = Some (Done OExited) /\ getp s 1 = Some (Done OLocked) /\
            getp s 2 = Some (Owner 2%N SWritten) /\ path s = Some 2%N /\ locks s = [(2%N, 2)].
Proof. eexists. split; [vm_compute; reflexivity|]. vm_compute. repeat split. Qed.

(* without the same-file check B would own the deleted file 1 while C owns file 2: in the model B is
   sent round again instead -- the state after B's stat is Closing, never Owner *)
Example ex_race_midpoint :
  exists s, exec_all 10 (init 3) (solo 0 ++ [LOpen 1; LUnlink 0; LClose 0; LLockOk 1; LStatGone 1] ++ solo 2) = Some s /\
            getp s 1 = Some (Closing 1%N (CRetry 1)) /\ locks s = [(2%N, 2); (1%N, 1)].
Proof. eexists. split; [vm_compute; reflexivity|]. vm_compute. repeat split. Qed.

(* the holder is killed: the successor takes the same (stale) file over *)
Example ex_successor_after_kill :
  exists s, exec_all 10 (init 2) (solo 0 ++ [LDie 0] ++ solo 1) = Some s /\
            getp s 1 = Some (Owner 1%N SWritten) /\ content s 1%N = Some 1 /\ locks s = [(1%N, 1)].
Proof. eexists. split; [vm_compute; reflexivity|]. vm_compute. repeat split. Qed.

(* the unlink -> close window: 0 is inside Remove and still holds its lock on file 1, 1 owns file 2 *)
Example ex_window :
  exists s, exec_all 10 (init 2) window_trace = Some s /\
            getp s 0 = Some (Unlinked 1%N) /\ getp s 1 = Some (Owner 2%N SWritten) /\
            path s = Some 2%N /\ locks s = [(2%N, 1); (1%N, 0)].
Proof. eexists. split; [vm_compute; reflexivity|]. vm_compute. repeat split. Qed.

(* the retry bound is tight: ten owners that come and go one after the other, each between the
   victim's open and its F_SETLK, drive the eleventh process into ErrRetryLimit *)
Definition cycle (victim c : pid) : list label :=
  solo c ++ [LOpen victim; LUnlink c; LClose c; LLockOk victim; LStatGone victim; LClose victim].
Definition exhaust_trace : list label := flat_map (cycle 10) (seq 0 10) ++ [LGiveUp 10].
Example ex_retry_limit :
  exists s, exec_all 10 (init 11) exhaust_trace = Some s /\
            getp s 10 = Some (Done ORetryLimit) /\ length (unl s) = 10 /\ path s = None /\ locks s = [].
Proof. eexists. split; [vm_compute; reflexivity|]. vm_compute. repeat split. Qed.

(* hypotheses of successor_after_death / successor_after_unlink are met *)
Example ex_successor_hyps :
  exists s s1, exec_all 10 (init 2) (solo 0) = Some s /\ getp s 0 = Some (Owner 1%N SWritten) /\
               step 10 s (LDie 0) s1 /\ getp s1 1 = Some (Start 0).
Proof.
  destruct (exec_all 10 (init 2) (solo 0)) as [s|] eqn:E; [|vm_compute in E; discriminate].
  destruct (exec 10 s (LDie 0)) as [s1|] eqn:E1.
  - exists s, s1. vm_compute in E. inversion E; subst. clear E. vm_compute in E1. inversion E1; subst.
    split; [reflexivity|]. split; [reflexivity|]. split; [|reflexivity].
    apply exec_step. vm_compute. reflexivity.
  - vm_compute in E. inversion E; subst. vm_compute in E1. discriminate.
Qed.

(* a history as the harness writes it (two daemons: 0 becomes the owner, 1 finds the file locked and
   leaves with status 0; then 0 is terminated and removes the file): accepted, monitors true *)
Definition sample_history : list ev :=
  [EStart 0; ESys (LOpen 0) 1 (mksnap 1 [] FEmpty); ESys (LLockOk 0) 1 (mksnap 1 [(1%N, 0, true)] FEmpty);
   EStart 1; ESys (LOpen 1) 1 (mksnap 1 [(1%N, 0, true)] FEmpty);
   ESys (LStatSame 0) 1 (mksnap 1 [(1%N, 0, true)] FEmpty);
   ESys (LLockBusy 1) 1 (mksnap 1 [(1%N, 0, true)] FEmpty);
   ESys (LTrunc 0) 1 (mksnap 1 [(1%N, 0, true)] FEmpty); ESys (LTrunc 0) 1 (mksnap 1 [(1%N, 0, true)] FEmpty);
   ESys (LClose 1) 1 (mksnap 1 [(1%N, 0, true)] FEmpty); EExit 1 0 (mksnap 1 [(1%N, 0, true)] FEmpty);
   ESys (LWrite 0) 1 (mksnap 1 [(1%N, 0, true)] (FPid 0)); EUp 0; ETerm 0;
   ESys (LUnlink 0) 1 (mksnap 0 [(1%N, 0, true)] FNoFile); ESys (LClose 0) 1 (mksnap 0 [] FNoFile);
   EExit 0 0 (mksnap 0 [] FNoFile)].
Example ex_sample_accepted : accepts 10 2 sample_history = true /\ monitor true sample_history = true.
Proof. split; vm_compute; reflexivity. Qed.

(* the monitors are not vacuous: a second claimant, a stale pid, a lock kept by a dead process and a
   missing successor are each rejected *)
Example ex_monitor_rejects :
  mon_exclusive [ESys (LWrite 0) 1 (mksnap 1 [(1%N, 0, true)] (FPid 0)); EUp 1] = false /\
  mon_exclusive [ESys (LLockOk 1) 1 (mksnap 1 [(1%N, 0, false); (1%N, 1, false)] FEmpty)] = false /\
  mon_content [ESys (LWrite 0) 1 (mksnap 1 [(1%N, 0, true)] (FPid 0));
               ESys (LTrunc 1) 1 (mksnap 1 [(1%N, 0, true)] FEmpty)] = false /\
  mon_released [EKill 0 (mksnap 1 [(1%N, 0, true)] FEmpty)] = false /\
  mon_successor true [EStart 0; ESys (LOpen 0) 1 (mksnap 1 [] FEmpty); EExit 0 1 (mksnap 1 [] FEmpty)] = false.
Proof. repeat split; vm_compute; reflexivity. Qed.

Example ex_settled_init : settled (init 4).
Proof. intros p c G. apply getp_init in G. left. exact G. Qed.
