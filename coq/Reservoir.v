(* Reservoir.v -- model of daemon/internal/newrelic/analytics_events.go (analyticsEvents: AddEvent with
   the deferred heap.Init, Merge, MergeFailed, Split, counters) and of the thin wrappers in
   txn_events.go / custom_events.go / error_events.go / span_events.go / log_events.go.
   Sampling priorities (sampling.go: float64, IsLowerPriority = <) are modelled on the exact grid
   k / 2^20 as the integer k; a synthetics event gets + 2 (txn_events.go AddSyntheticsEvent).
   Definitions only; proofs are in ReservoirProofs.v. *)
From Coq Require Import List ZArith Arith Bool.
From Verif Require Import Heap TopK.
From Verif.Gen Require Import Limits_gen.
Import ListNotations.
Open Scope nat_scope.

Record ev := mkEv { prio : Z; tag : N }.      (* AnalyticsEvent{priority, data}; tag identifies data *)

(* func (x SamplingPriority) IsLowerPriority(y SamplingPriority) bool { return x < y } *)
Definition is_lower_priority (x y : Z) : bool := (x <? y)%Z.
(* func (h analyticsEventHeap) Less(i, j int) bool *)
Definition ev_less (a b : ev) : bool := is_lower_priority (prio a) (prio b).

(* analyticsEvents{numSeen, events (a slice: items + its fixed capacity), failedHarvests} *)
Record res := mkRes { cap : nat; items : list ev; seen : Z; failed : Z }.

(* newAnalyticsEvents(max) *)
Definition new_res (max : nat) : res := mkRes max [] 0 0.

(* func (events *analyticsEvents) AddEvent(e AnalyticsEvent) *)
Definition add_event (r : res) (e : ev) : res :=
  let seen' := (seen r + 1)%Z in                                 (* events.numSeen++ *)
  if length (items r) <? cap r then                              (* len < cap *)
    let it := items r ++ [e] in                                  (* events.events.Push(e) *)
    if length it =? cap r
    then mkRes (cap r) (init ev_less it) seen' (failed r)        (* heap.Init once, when it fills *)
    else mkRes (cap r) it seen' (failed r)
  else if cap r =? 0 then mkRes (cap r) (items r) seen' (failed r)   (* capacity 0: disabled *)
  else
    match items r with
    | [] => mkRes (cap r) (items r) seen' (failed r)             (* not reachable: len >= cap > 0 *)
    | root :: _ =>
        if is_lower_priority (prio e) (prio root)
        then mkRes (cap r) (items r) seen' (failed r)            (* lower than the minimum: refused *)
        else
          match pop ev_less (items r) with                       (* heap.Pop; heap.Push *)
          | Some (_, it') => mkRes (cap r) (push ev_less it' e) seen' (failed r)
          | None => mkRes (cap r) (items r) seen' (failed r)
          end
    end.

(* func (events *analyticsEvents) Merge(other *analyticsEvents) *)
Definition merge (r o : res) : res :=
  let all_seen := (seen r + seen o)%Z in
  let r' := fold_left add_event (items o) r in
  mkRes (cap r') (items r') all_seen (failed r').

(* func (events *analyticsEvents) MergeFailed(other *analyticsEvents) *)
Definition merge_failed (r o : res) : res :=
  let fails := (failed o + 1)%Z in
  if (FailedEventsAttemptsLimit <? fails)%Z then r               (* discarded *)
  else merge (mkRes (cap r) (items r) (seen r) fails) o.

(* func (events *analyticsEvents) Split(): the halves are slices with len = cap *)
Definition split (r : res) : res * res :=
  let n := length (items r) in
  let n1 := n / 2 in
  let n2 := n - n1 in
  let seen1 := Z.max (seen r / 2) (Z.of_nat n1) in
  let seen2 := Z.max (seen r - seen1) (Z.of_nat n2) in
  (mkRes n1 (firstn n1 (items r)) seen1 (failed r),
   mkRes n2 (skipn n1 (items r)) seen2 (failed r)).

(* ---- wrappers: TxnEvents.AddTxnEvent / AddSyntheticsEvent, *.AddEventFromData ---- *)
Definition synth_boost : Z := 2 * 2 ^ 20.        (* "2 +" on the 2^-20 grid *)
Definition boost (e : ev) : ev := mkEv (synth_boost + prio e) (tag e).
Definition add_txn_event (r : res) (e : ev) : res := add_event r e.
Definition add_synthetics_event (r : res) (e : ev) : res := add_event r (boost e).
Definition add_event_from_data (r : res) (e : ev) : res := add_event r e.

(* ---- operation sequences on one reservoir ---- *)
Inductive rop :=
| OAdd (e : ev)              (* AddTxnEvent / AddEventFromData *)
| OAddSynth (e : ev)         (* AddSyntheticsEvent *)
| OMerge (o : res)           (* Merge *)
| OMergeFailed (o : res).    (* MergeFailed: carried over from a failed delivery *)

Definition rstep (r : res) (op : rop) : res :=
  match op with
  | OAdd e => add_txn_event r e
  | OAddSynth e => add_synthetics_event r e
  | OMerge o => merge r o
  | OMergeFailed o => merge_failed r o
  end.

Definition run_res (K : nat) (ops : list rop) : res := fold_left rstep ops (new_res K).

(* whether MergeFailed(other) keeps other's events: at most 10 failed attempts *)
Definition carried (o : res) : bool := negb (FailedEventsAttemptsLimit <? failed o + 1)%Z.

(* everything offered to the reservoir by an operation *)
Definition offered_op (op : rop) : list ev :=
  match op with
  | OAdd e => [e]
  | OAddSynth e => [boost e]
  | OMerge o => items o
  | OMergeFailed o => if carried o then items o else []
  end.
Definition offered (ops : list rop) : list ev := flat_map offered_op ops.

(* the number of events that offer stands for *)
Definition seen_op (op : rop) : Z :=
  match op with
  | OAdd _ | OAddSynth _ => 1
  | OMerge o => seen o
  | OMergeFailed o => if carried o then seen o else 0
  end.
Definition seen_total (ops : list rop) : Z := fold_right (fun op acc => (seen_op op + acc)%Z) 0%Z ops.

(* ---- monitors: judge an implementation outcome from the inputs only ---- *)
(* K = capacity, offered priorities, retained priorities, reported numSeen, expected count *)
Definition mon_events (K : nat) (offered_p retained_p : list Z) (seen_obs seen_exp : Z) : bool :=
  mon_topk K offered_p retained_p && (seen_obs =? seen_exp)%Z.

(* no retained non-synthetics event (priority < 2) while an offered synthetics one (>= 2) is missing *)
Definition mon_synth (offered_p retained_p : list Z) : bool :=
  let two := (2 * 2 ^ 20)%Z in
  let syn_off := filter (fun p => (two <=? p)%Z) offered_p in
  let syn_ret := filter (fun p => (two <=? p)%Z) retained_p in
  let non_ret := filter (fun p => (p <? two)%Z) retained_p in
  match non_ret with
  | [] => true
  | _ => list_eqbZ (sort_desc syn_ret) (sort_desc syn_off)
  end.
