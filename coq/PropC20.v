(* C20 -- crashed workers are respawned (decision + watcher loop).  Statements only. *)
From Coq Require Import NArith List Bool.
From Verif Require Import Watcher WatcherProofs.
Import ListNotations.
Open Scope N_scope.

(* For every way a worker can terminate, the watcher's decision on the kernel's encoding of it is:
   respawn unless exit 0, exit 1 or death by SIGTERM. *)
Theorem C20_respawn_iff : forall c, valid_cause c = true ->
  should_respawn (encode c) = spec_respawn c.
Proof. exact respawn_iff. Qed.
Print Assumptions C20_respawn_iff.

Theorem C20_no_respawn_cases : forall c, valid_cause c = true ->
  (should_respawn (encode c) = false <->
   c = Exit 0 \/ c = Exit 1 \/ exists core, c = Killed SIGTERM core).
Proof. exact respawn_cases. Qed.
Print Assumptions C20_no_respawn_cases.

(* Every one of the 2^16 wait-status words decodes to a valid cause and is decided by the rule. *)
Theorem C20_respawn_every_status_word : forall w, w < 65536 ->
  should_respawn (WStatus w) = spec_respawn (decode16 w) /\ valid_cause (decode16 w) = true.
Proof. exact respawn_word. Qed.
Print Assumptions C20_respawn_every_status_word.

(* Watcher loop: after any number of abnormal terminations, the next termination is followed by a
   spawn iff the rule says respawn; SIGTERM is forwarded to the worker and ends supervision with no
   further spawn; a failed spawn ends supervision. *)
Theorem C20_watcher_loop : forall pre rest, Forall abnormal pre ->
  (forall c, valid_cause c = true ->
     run_watcher (pre ++ ItTerm c :: rest) =
       repeat ASpawn (length pre) ++
       (if spec_respawn c then ASpawn :: run_watcher rest else [ASpawn; AReturn false])) /\
  run_watcher (pre ++ ItSigterm :: rest) =
       repeat ASpawn (length pre) ++ [ASpawn; AForwardSignal; AReturn false] /\
  run_watcher (pre ++ ItSpawnFail :: rest) =
       repeat ASpawn (length pre) ++ [ASpawn; AReturn true].
Proof. exact watcher_loop. Qed.
Print Assumptions C20_watcher_loop.
