(* C20 -- crashed workers are respawned (decision + watcher loop).  Statements only. *)
From Coq Require Import NArith List Bool.
From Verif Require Import Watcher WatcherProofs.
From Verif Require Import Pidfile PidfileProofs.
Import ListNotations.
Open Scope N_scope.

(* For every way a worker can terminate, the watcher's decision on the kernel's encoding of it is:
   respawn unless exit 0, exit 1 or death by SIGTERM. *)
Theorem C20_respawn_iff : forall c, valid_cause c = true ->
  should_respawn (encode c) = spec_respawn c.
Proof. exact respawn_iff. Qed.
Print Assumptions C20_respawn_iff.

Theorem C20_no_respawn_cases : forall c, valid_cause c = true ->
  (should_respawn (encode c) = false <->
   c = Exit 0 \/ c = Exit 1 \/ exists core, c = Killed SIGTERM core).
Proof. exact respawn_cases. Qed.
Print Assumptions C20_no_respawn_cases.

(* Every one of the 2^16 wait-status words decodes to a valid cause and is decided by the rule. *)
Theorem C20_respawn_every_status_word : forall w, w < 65536 ->
  should_respawn (WStatus w) = spec_respawn (decode16 w) /\ valid_cause (decode16 w) = true.
Proof. exact respawn_word. Qed.
Print Assumptions C20_respawn_every_status_word.

(* Watcher loop: after any number of abnormal terminations, the next termination is followed by a
   spawn iff the rule says respawn; SIGTERM is forwarded to the worker and ends supervision with no
   further spawn; a failed spawn ends supervision. *)
Theorem C20_watcher_loop : forall pre rest, Forall abnormal pre ->
  (forall c, valid_cause c = true ->
     run_watcher (pre ++ ItTerm c :: rest) =
       repeat ASpawn (length pre) ++
       (if spec_respawn c then ASpawn :: run_watcher rest else [ASpawn; AReturn false])) /\
  run_watcher (pre ++ ItSigterm :: rest) =
       repeat ASpawn (length pre) ++ [ASpawn; AForwardSignal; AReturn false] /\
  run_watcher (pre ++ ItSpawnFail :: rest) =
       repeat ASpawn (length pre) ++ [ASpawn; AReturn true].
Proof. exact watcher_loop. Qed.
Print Assumptions C20_watcher_loop.

(* ---- the pid file (model: Pidfile.v; mx = limits.MaxPidfileRetries, any value) ---- *)

(* For every number n of daemons racing for one pid file, every interleaving of their system calls and
   deaths at any point: a process that has passed the same-file check and has not begun Remove holds
   the lock on the file the path names; at most one process holds that lock; hence at most one process
   at a time is past CreatePidFile. *)
Theorem C20_lock_exclusive : forall mx n tr s, steps mx (init n) tr s ->
  (forall p, owner s p -> holds_path_lock s p) /\
  (forall p q, holds_path_lock s p -> holds_path_lock s q -> p = q) /\
  (forall p q, owner s p -> owner s q -> p = q).
Proof. exact lock_exclusive. Qed.
Print Assumptions C20_lock_exclusive.

(* Once the owner has written it, the file the path names holds the owner's pid. *)
Theorem C20_pidfile_names_owner : forall mx n tr s p i, steps mx (init n) tr s ->
  getp s p = Some (Owner i SWritten) -> path s = Some i /\ content s i = Some p.
Proof. exact pidfile_names_owner. Qed.
Print Assumptions C20_pidfile_names_owner.

(* A process that has ended -- by exit or killed at any point of the protocol -- holds no lock. *)
Theorem C20_lock_released : forall mx n tr s p o, steps mx (init n) tr s ->
  getp s p = Some (Done o) -> forall i, ~ In (i, p) (locks s).
Proof. exact ended_holds_nothing. Qed.
Print Assumptions C20_lock_released.

(* Whenever nobody holds the lock on the file the path names (or the path names nothing), a process
   at the head of the retry loop that runs undisturbed gets past the same-file check at once and ends
   as the owner, with its pid in the file. *)
Theorem C20_successor_runs : forall mx n tr s p k, steps mx (init n) tr s ->
  path_lock_free s -> getp s p = Some (Start k) -> (k < mx)%N ->
  exists s' i, steps mx s (solo p) s' /\ getp s' p = Some (Owner i SWritten) /\
               path s' = Some i /\ content s' i = Some p /\ In (i, p) (locks s') /\
               (forall j, path s = Some j -> i = j) /\
               (forall q, q <> p -> getp s' q = getp s q).
Proof. exact solo_succeeds. Qed.
Print Assumptions C20_successor_runs.

(* The holder dies at any stage after the same-file check: the next process to run takes the same
   file over. *)
Theorem C20_successor_after_death : forall mx n tr s h i st s1 p k, steps mx (init n) tr s ->
  getp s h = Some (Owner i st) -> step mx s (LDie h) s1 -> getp s1 p = Some (Start k) -> (k < mx)%N ->
  exists s2, steps mx s1 (solo p) s2 /\ getp s2 p = Some (Owner i SWritten) /\
             path s2 = Some i /\ content s2 i = Some p /\ In (i, p) (locks s2).
Proof. exact successor_after_death. Qed.
Print Assumptions C20_successor_after_death.

(* The holder exits through Remove (unlink, then close): from the unlink on, even before the close,
   the next process makes a new file and owns it; until the close the old holder still holds its lock
   on the unlinked file. *)
Theorem C20_successor_after_unlink : forall mx n tr s h i st s1 p k, steps mx (init n) tr s ->
  getp s h = Some (Owner i st) -> step mx s (LUnlink h) s1 -> getp s1 p = Some (Start k) -> (k < mx)%N -> p <> h ->
  exists s2 j, steps mx s1 (solo p) s2 /\ getp s2 p = Some (Owner j SWritten) /\
               path s2 = Some j /\ content s2 j = Some p /\ In (j, p) (locks s2) /\
               j <> i /\ getp s2 h = Some (Unlinked i) /\ In (i, h) (locks s2).
Proof. exact successor_after_unlink. Qed.
Print Assumptions C20_successor_after_unlink.

(* With contenders: a process can end with ErrRetryLimit only after mx DIFFERENT other processes have
   each become owner and unlinked the path; with no more than mx daemons in all it never happens.
   (ex_retry_limit in PidfileProofs.v: with mx + 1 = 11 daemons it does.) *)
Theorem C20_retry_limit_needs_unlinks : forall mx n tr s p, steps mx (init n) tr s ->
  getp s p = Some (Done ORetryLimit) ->
  (mx <= N.of_nat (length (unl s)))%N /\ NoDup (unl s) /\ ~ In p (unl s) /\
  (forall q, In q (unl s) -> (q < n)%nat) /\ (mx < N.of_nat n)%N.
Proof. exact retry_limit_needs_unlinks. Qed.
Print Assumptions C20_retry_limit_needs_unlinks.

(* The over-literal reading "never two processes past the same-file check that hold a pid-file lock"
   FAILS between unlink and close in Remove (witness: 0 runs, unlinks; 1 runs; 0 has not closed yet) ... *)
Theorem C20_one_locker_refuted :
  exists mx n tr s p q i j,
    steps mx (init n) tr s /\ p <> q /\ passed_and_locked s p /\ passed_and_locked s q /\
    In (i, p) (locks s) /\ In (j, q) (locks s).
Proof. exact one_locker_refuted. Qed.
Print Assumptions C20_one_locker_refuted.

(* ... and holds outside exactly that window; inside it the exiting process holds only the lock on the
   file it has unlinked, which the path does not name. *)
Theorem C20_one_locker_partial : forall mx n tr s p q, steps mx (init n) tr s ->
  passed_and_locked s p -> passed_and_locked s q ->
  p = q \/ in_remove_window s p \/ in_remove_window s q.
Proof. exact one_locker_partial. Qed.
Print Assumptions C20_one_locker_partial.

Theorem C20_remove_window_harmless : forall mx n tr s p i, steps mx (init n) tr s ->
  getp s p = Some (Unlinked i) ->
  path s <> Some i /\ In (i, p) (locks s) /\ (forall j, In (j, p) (locks s) -> j = i) /\ ~ holds_path_lock s p.
Proof. exact remove_window_harmless. Qed.
Print Assumptions C20_remove_window_harmless.

(* The relation and its executable twin agree (the correspondence replays observed histories with exec). *)
Theorem C20_pidfile_exec_agrees : forall mx s l s', step mx s l s' <-> exec mx s l = Some s'.
Proof. exact step_iff_exec. Qed.
Print Assumptions C20_pidfile_exec_agrees.

(* At a settled point (every process not started, up, or gone) either a daemon is up or nobody holds
   the lock on the file the path names, so that C20_successor_runs applies to the next one started. *)
Theorem C20_settled_successor : forall mx n tr s, steps mx (init n) tr s -> settled s ->
  (exists p, owner s p) \/ path_lock_free s.
Proof. exact settled_owner_or_free. Qed.
Print Assumptions C20_settled_successor.

(* Monitors vs model: every observed history that the correspondence accepts (a run of the model whose
   per-call kernel snapshots agree) satisfies the three safety monitors evaluated on the real daemons. *)
Theorem C20_pidfile_monitors_sound : forall mx n h, accepts mx n h = true ->
  mon_exclusive h = true /\ mon_content h = true /\ mon_released h = true.
Proof. exact accepted_safety_monitors. Qed.
Print Assumptions C20_pidfile_monitors_sound.
