(* TriggerLts.v -- part (b) of the C12 model: the goroutines of one AppHarvest as a labelled transition
   system.  harvest_trigger.go (triggerBuilder, customTriggerBuilder's members and broadcast goroutine),
   app_harvest.go (forwarder goroutine, Close), processor.go (shutdownAppHarvest: `go Close()`), and a
   processor that is receptive or busy.  Unbuffered channels are rendez-vous (one transition moves both
   parties); time.Ticker.C is a 1-slot buffer whose excess ticks are dropped.
   Definitions only; proofs are in TriggerLtsProofs.v.

   triggerBuilder goroutine k:    for { select { case <-ticker.C: trigger <- t      TL b --TakeTick--> TS
                                                 case <-cancel: ticker.Stop()        TL b --MCancel--> TC
                                                                cancel <- true       TC --MConfirm--> TD
                                                                return } }
   broadcast goroutine:           <-cancel; for c in group { c <- true; <-c }; cancel <- true
   forwarder:                     for t := range ah.trigger { ph <- event(t) }
   Close:                         cancel <- true; <-cancel; [TraceObserver.Shutdown]; close(trigger); close(cancel) *)
From Coq Require Import NArith PArith List Bool Arith FMapPositive.
Import ListNotations.

Inductive tst := TL (tb : bool) | TS (tb : bool) | TC | TD.
(*  TL b: in the select, b = a tick is buffered in ticker.C;   TS b: blocked in `trigger <- t`;
    TC: ticker stopped, blocked in `cancel <- true`;            TD: returned *)
Inductive fst_ := FR | FS | FD.         (* receiving from trigger / blocked in `ph <- event` / returned *)
Inductive bst := BNone | BW | BS (k : nat) | BR (k : nat) | BC | BD.
(*  BNone: no broadcast goroutine (single trigger); BW: `<-cancel`; BS k: `c_k <- true`; BR k: `<-c_k`;
    BC: `cancel <- true`; BD: returned *)
Inductive cst := CI | CS | CR | CT | CX | CY | CD.
(*  CI: Close not called; CS: `ah.cancel <- true`; CR: `<-ah.cancel`; CT: `if ah.TraceObserver != nil { Shutdown }`;
    CX: close(ah.trigger); CY: close(ah.cancel); CD: returned *)
Inductive pst := PR | PB | PW.   (* processor: in its select / handling a message / inside a synchronous Close *)

Record tcfg := {
  n_trig : nat;          (* 1 (triggerBuilder(HarvestAll)) or 6 (customTriggerBuilder) in the code *)
  grouped : bool;        (* customTriggerBuilder: members have their own cancel channels + a broadcast goroutine *)
  sync_close : bool      (* false in the code (`go p.harvests[id].Close()`); true = the variant that calls Close() inline *)
}.

Record tstate := {
  ts : list tst; fs : fst_; bs : bst; cs : cst; ps : pst;
  trig_closed : bool; cancel_closed : bool; crashed : bool
}.

Inductive tlabel :=
| Tick (k : nat)            (* the ticker of trigger k fires and the tick is buffered (or the ticker is stopped) *)
| TickDrop (k : nat)        (* it fires while a tick is still buffered: dropped *)
| TakeTick (k : nat)        (* select case <-ticker.C *)
| Deliver (k : nat)         (* trigger <- t  meets  the forwarder's receive *)
| Harvest                   (* ph <- event  meets  the processor's receive *)
| PBusy | PIdle             (* the processor starts / finishes other work *)
| StartClose                (* shutdownAppHarvest *)
| CancelT (k : nat)         (* single: ah.cancel <- true  meets  trigger k's case <-cancel *)
| ConfirmT (k : nat)        (* single: trigger k's cancel <- true  meets  Close's <-ah.cancel *)
| BCancel                   (* grouped: ah.cancel <- true  meets  the broadcaster's <-cancel *)
| MCancel (k : nat)         (* grouped: c_k <- true  meets  member k's case <-cancel *)
| MConfirm (k : nat)        (* grouped: member k's cancel <- true  meets  the broadcaster's <-c_k *)
| BConfirm                  (* grouped: broadcaster's cancel <- true  meets  Close's <-ah.cancel *)
| TOShutdown | CloseTrigger | CloseCancel
| FClosed                   (* the forwarder's range sees the closed trigger channel *)
| SendOnClosed (k : nat).   (* trigger k is blocked in `trigger <- t` and the channel gets closed: panic *)

Fixpoint tupd {A} (i : nat) (x : A) (l : list A) {struct l} : list A :=
  match l, i with
  | [], _ => []
  | _ :: t, O => x :: t
  | h :: t, S j => h :: tupd j x t
  end.

Definition w_ts (s : tstate) (x : list tst) : tstate :=
  {| ts := x; fs := fs s; bs := bs s; cs := cs s; ps := ps s;
     trig_closed := trig_closed s; cancel_closed := cancel_closed s; crashed := crashed s |}.
Definition w_fs (s : tstate) (x : fst_) : tstate :=
  {| ts := ts s; fs := x; bs := bs s; cs := cs s; ps := ps s;
     trig_closed := trig_closed s; cancel_closed := cancel_closed s; crashed := crashed s |}.
Definition w_bs (s : tstate) (x : bst) : tstate :=
  {| ts := ts s; fs := fs s; bs := x; cs := cs s; ps := ps s;
     trig_closed := trig_closed s; cancel_closed := cancel_closed s; crashed := crashed s |}.
Definition w_cs (s : tstate) (x : cst) : tstate :=
  {| ts := ts s; fs := fs s; bs := bs s; cs := x; ps := ps s;
     trig_closed := trig_closed s; cancel_closed := cancel_closed s; crashed := crashed s |}.
Definition w_ps (s : tstate) (x : pst) : tstate :=
  {| ts := ts s; fs := fs s; bs := bs s; cs := cs s; ps := x;
     trig_closed := trig_closed s; cancel_closed := cancel_closed s; crashed := crashed s |}.
Definition w_tc (s : tstate) (x : bool) : tstate :=
  {| ts := ts s; fs := fs s; bs := bs s; cs := cs s; ps := ps s;
     trig_closed := x; cancel_closed := cancel_closed s; crashed := crashed s |}.
Definition w_cc (s : tstate) (x : bool) : tstate :=
  {| ts := ts s; fs := fs s; bs := bs s; cs := cs s; ps := ps s;
     trig_closed := trig_closed s; cancel_closed := x; crashed := crashed s |}.
Definition w_crash (s : tstate) : tstate :=
  {| ts := ts s; fs := fs s; bs := bs s; cs := cs s; ps := ps s;
     trig_closed := trig_closed s; cancel_closed := cancel_closed s; crashed := true |}.

Definition tinit (c : tcfg) : tstate :=
  {| ts := repeat (TL false) (n_trig c); fs := FR; bs := (if grouped c then BW else BNone);
     cs := CI; ps := PR; trig_closed := false; cancel_closed := false; crashed := false |}.

Definition next_member (c : tcfg) (k : nat) : bst := if S k <? n_trig c then BS (S k) else BC.

(* one constructor per channel operation / branch; a crashed system has no transitions *)
Inductive tstep (c : tcfg) : tstate -> tlabel -> tstate -> Prop :=
| s_tick_l s k : crashed s = false -> nth_error (ts s) k = Some (TL false) ->
    tstep c s (Tick k) (w_ts s (tupd k (TL true) (ts s)))
| s_tick_s s k : crashed s = false -> nth_error (ts s) k = Some (TS false) ->
    tstep c s (Tick k) (w_ts s (tupd k (TS true) (ts s)))
| s_tick_stopped_c s k : crashed s = false -> nth_error (ts s) k = Some TC -> tstep c s (Tick k) s
| s_tick_stopped_d s k : crashed s = false -> nth_error (ts s) k = Some TD -> tstep c s (Tick k) s
| s_drop_l s k : crashed s = false -> nth_error (ts s) k = Some (TL true) -> tstep c s (TickDrop k) s
| s_drop_s s k : crashed s = false -> nth_error (ts s) k = Some (TS true) -> tstep c s (TickDrop k) s
| s_drop_c s k : crashed s = false -> nth_error (ts s) k = Some TC -> tstep c s (TickDrop k) s
| s_drop_d s k : crashed s = false -> nth_error (ts s) k = Some TD -> tstep c s (TickDrop k) s
| s_take s k : crashed s = false -> nth_error (ts s) k = Some (TL true) ->
    tstep c s (TakeTick k) (w_ts s (tupd k (TS false) (ts s)))
| s_deliver s k b : crashed s = false -> nth_error (ts s) k = Some (TS b) -> fs s = FR -> trig_closed s = false ->
    tstep c s (Deliver k) (w_fs (w_ts s (tupd k (TL b) (ts s))) FS)
| s_send_closed s k b : crashed s = false -> nth_error (ts s) k = Some (TS b) -> trig_closed s = true ->
    tstep c s (SendOnClosed k) (w_crash s)
| s_harvest s : crashed s = false -> fs s = FS -> ps s = PR ->
    tstep c s Harvest (w_ps (w_fs s FR) PB)
| s_pbusy s : crashed s = false -> ps s = PR -> tstep c s PBusy (w_ps s PB)
| s_pidle s : crashed s = false -> ps s = PB -> tstep c s PIdle (w_ps s PR)
| s_fclosed s : crashed s = false -> fs s = FR -> trig_closed s = true -> tstep c s FClosed (w_fs s FD)
| s_start_close s : crashed s = false -> cs s = CI -> ps s <> PW ->
    tstep c s StartClose (w_ps (w_cs s CS) (if sync_close c then PW else ps s))
| s_cancel_t s k b : crashed s = false -> grouped c = false -> cs s = CS -> nth_error (ts s) k = Some (TL b) ->
    tstep c s (CancelT k) (w_cs (w_ts s (tupd k TC (ts s))) CR)
| s_confirm_t s k : crashed s = false -> grouped c = false -> cs s = CR -> nth_error (ts s) k = Some TC ->
    tstep c s (ConfirmT k) (w_cs (w_ts s (tupd k TD (ts s))) CT)
| s_bcancel s : crashed s = false -> cs s = CS -> bs s = BW ->
    tstep c s BCancel (w_bs (w_cs s CR) (if 0 <? n_trig c then BS 0 else BC))
| s_mcancel s k b : crashed s = false -> bs s = BS k -> nth_error (ts s) k = Some (TL b) ->
    tstep c s (MCancel k) (w_bs (w_ts s (tupd k TC (ts s))) (BR k))
| s_mconfirm s k : crashed s = false -> bs s = BR k -> nth_error (ts s) k = Some TC ->
    tstep c s (MConfirm k) (w_bs (w_ts s (tupd k TD (ts s))) (next_member c k))
| s_bconfirm s : crashed s = false -> bs s = BC -> cs s = CR ->
    tstep c s BConfirm (w_cs (w_bs s BD) CT)
| s_to_shutdown s : crashed s = false -> cs s = CT -> tstep c s TOShutdown (w_cs s CX)
| s_close_trigger s : crashed s = false -> cs s = CX -> trig_closed s = false ->
    tstep c s CloseTrigger (w_cs (w_tc s true) CY)
| s_close_trigger_twice s : crashed s = false -> cs s = CX -> trig_closed s = true ->
    tstep c s CloseTrigger (w_crash s)
| s_close_cancel s : crashed s = false -> cs s = CY -> cancel_closed s = false ->
    tstep c s CloseCancel (w_ps (w_cs (w_cc s true) CD) (match ps s with PW => PB | p => p end))
| s_close_cancel_twice s : crashed s = false -> cs s = CY -> cancel_closed s = true ->
    tstep c s CloseCancel (w_crash s).

(* ---- executable twin ---- *)
Definition tstep_fn (c : tcfg) (s : tstate) (l : tlabel) : option tstate :=
  if crashed s then None else
  match l with
  | Tick k => match nth_error (ts s) k with
              | Some (TL false) => Some (w_ts s (tupd k (TL true) (ts s)))
              | Some (TS false) => Some (w_ts s (tupd k (TS true) (ts s)))
              | Some TC | Some TD => Some s
              | _ => None end
  | TickDrop k => match nth_error (ts s) k with
                  | Some (TL true) | Some (TS true) | Some TC | Some TD => Some s
                  | _ => None end
  | TakeTick k => match nth_error (ts s) k with
                  | Some (TL true) => Some (w_ts s (tupd k (TS false) (ts s)))
                  | _ => None end
  | Deliver k => match nth_error (ts s) k, fs s, trig_closed s with
                 | Some (TS b), FR, false => Some (w_fs (w_ts s (tupd k (TL b) (ts s))) FS)
                 | _, _, _ => None end
  | SendOnClosed k => match nth_error (ts s) k, trig_closed s with
                      | Some (TS b), true => Some (w_crash s)
                      | _, _ => None end
  | Harvest => match fs s, ps s with
               | FS, PR => Some (w_ps (w_fs s FR) PB)
               | _, _ => None end
  | PBusy => match ps s with PR => Some (w_ps s PB) | _ => None end
  | PIdle => match ps s with PB => Some (w_ps s PR) | _ => None end
  | FClosed => match fs s, trig_closed s with FR, true => Some (w_fs s FD) | _, _ => None end
  | StartClose => match cs s, ps s with
                  | CI, PW => None
                  | CI, p => Some (w_ps (w_cs s CS) (if sync_close c then PW else p))
                  | _, _ => None end
  | CancelT k => match grouped c, cs s, nth_error (ts s) k with
                 | false, CS, Some (TL b) => Some (w_cs (w_ts s (tupd k TC (ts s))) CR)
                 | _, _, _ => None end
  | ConfirmT k => match grouped c, cs s, nth_error (ts s) k with
                  | false, CR, Some TC => Some (w_cs (w_ts s (tupd k TD (ts s))) CT)
                  | _, _, _ => None end
  | BCancel => match cs s, bs s with
               | CS, BW => Some (w_bs (w_cs s CR) (if 0 <? n_trig c then BS 0 else BC))
               | _, _ => None end
  | MCancel k => match bs s, nth_error (ts s) k with
                 | BS k', Some (TL b) => if k' =? k then Some (w_bs (w_ts s (tupd k TC (ts s))) (BR k)) else None
                 | _, _ => None end
  | MConfirm k => match bs s, nth_error (ts s) k with
                  | BR k', Some TC => if k' =? k then Some (w_bs (w_ts s (tupd k TD (ts s))) (next_member c k)) else None
                  | _, _ => None end
  | BConfirm => match bs s, cs s with
                | BC, CR => Some (w_cs (w_bs s BD) CT)
                | _, _ => None end
  | TOShutdown => match cs s with CT => Some (w_cs s CX) | _ => None end
  | CloseTrigger => match cs s with
                    | CX => if trig_closed s then Some (w_crash s) else Some (w_cs (w_tc s true) CY)
                    | _ => None end
  | CloseCancel => match cs s with
                   | CY => if cancel_closed s then Some (w_crash s)
                           else Some (w_ps (w_cs (w_cc s true) CD) (match ps s with PW => PB | p => p end))
                   | _ => None end
  end.

(* labels worth trying for trigger k, by its state *)
Definition labels_t (k : nat) (x : tst) : list tlabel :=
  match x with
  | TL false => [Tick k; CancelT k; MCancel k]
  | TL true => [TickDrop k; TakeTick k; CancelT k; MCancel k]
  | TS false => [Tick k; Deliver k; SendOnClosed k]
  | TS true => [TickDrop k; Deliver k; SendOnClosed k]
  | TC => [Tick k; TickDrop k; ConfirmT k; MConfirm k]
  | TD => [Tick k; TickDrop k]
  end.
Definition labels_glob : list tlabel :=
  [PBusy; PIdle; StartClose; Harvest; BCancel; BConfirm; TOShutdown; CloseTrigger; CloseCancel; FClosed].

Fixpoint labels_ts (k : nat) (l : list tst) : list tlabel :=
  match l with [] => [] | x :: r => labels_t k x ++ labels_ts (S k) r end.

Definition candidates (s : tstate) : list tlabel := labels_glob ++ labels_ts 0 (ts s).

Definition tenabled (c : tcfg) (s : tstate) : list (tlabel * tstate) :=
  flat_map (fun l => match tstep_fn c s l with Some s' => [(l, s')] | None => [] end) (candidates s).

(* ---- classification of labels ---- *)
(* environment: ticks and the processor turning busy; everything else is progress of the goroutines
   (PIdle: a busy processor eventually returns to its select) *)
Definition is_env (l : tlabel) : bool :=
  match l with Tick _ | TickDrop _ | PBusy | StartClose => true | _ => false end.
Definition is_processor_own (l : tlabel) : bool :=
  match l with PBusy | PIdle | StartClose => true | _ => false end.

Definition tst_done (t : tst) : bool := match t with TD => true | _ => false end.
Definition is_final (s : tstate) : bool :=
  forallb tst_done (ts s)
  && match fs s with FD => true | _ => false end
  && match bs s with BNone | BD => true | _ => false end
  && match cs s with CD => true | _ => false end
  && trig_closed s && cancel_closed s && negb (crashed s).

Definition close_started (s : tstate) : bool := match cs s with CI => false | _ => true end.

(* ---- ranking function: bounds the number of progress transitions still possible without a tick ---- *)
Definition rank_t (t : tst) : N :=
  match t with TD => 0 | TC => 1 | TL false => 2 | TS false => 5 | TL true => 6 | TS true => 9 end%N.
Definition rank_f (f : fst_) : N := match f with FD => 0 | FR => 1 | FS => 3 end%N.
Definition rank_b (n : nat) (b : bst) : N :=
  match b with
  | BNone | BD => 0 | BC => 1
  | BR k => 2 * N.of_nat (n - k) | BS k => 2 * N.of_nat (n - k) + 1
  | BW => 2 * N.of_nat n + 3
  end%N.
Definition rank_c (c : cst) : N :=
  match c with CD => 0 | CY => 1 | CX => 2 | CT => 3 | CR => 4 | CS => 5 | CI => 6 end%N.
Definition rank_p (p : pst) : N := match p with PR => 0 | PB => 1 | PW => 1 end%N.
Definition rank (c : tcfg) (s : tstate) : N :=
  (fold_right (fun t a => rank_t t + a) 0 (ts s) + rank_f (fs s) + rank_b (n_trig c) (bs s)
   + rank_c (cs s) + rank_p (ps s))%N.

(* ---- encoding of states as positive numbers (for the reachable-set enumeration) ---- *)
Definition enc_t (t : tst) : N :=
  match t with TL false => 0 | TL true => 1 | TS false => 2 | TS true => 3 | TC => 4 | TD => 5 end%N.
Definition enc_f (f : fst_) : N := match f with FR => 0 | FD => 1 | FS => 2 end%N.
Definition enc_b (b : bst) : N :=
  match b with BNone => 0 | BW => 1 | BC => 2 | BD => 3 | BS k => 4 + 2 * N.of_nat k | BR k => 5 + 2 * N.of_nat k end%N.
Definition enc_c (c : cst) : N :=
  match c with CI => 0 | CS => 1 | CR => 2 | CT => 3 | CX => 4 | CY => 5 | CD => 6 end%N.
Definition enc_p (p : pst) : N := match p with PR => 0 | PB => 1 | PW => 2 end%N.
Definition b2n (b : bool) : N := if b then 1%N else 0%N.

(* fields in 3..5-bit slots; valid for n_trig <= 6 (k < 6 fits in the slots) *)
Definition encode (s : tstate) : positive :=
  let tsn := fold_right (fun t a => (enc_t t + 8 * a)%N) 1%N (ts s) in   (* leading 1 keeps the length *)
  N.succ_pos
    (b2n (crashed s) + 2 * (b2n (cancel_closed s) + 2 * (b2n (trig_closed s)
     + 2 * (enc_p (ps s) + 4 * (enc_c (cs s) + 8 * (enc_b (bs s) + 32 * (enc_f (fs s) + 16 * tsn)))))))%N.

(* ---- structural equality ---- *)
Definition tst_eqb (a b : tst) : bool :=
  match a, b with TL x, TL y | TS x, TS y => Bool.eqb x y | TC, TC | TD, TD => true | _, _ => false end.
Fixpoint tsl_eqb (a b : list tst) : bool :=
  match a, b with [], [] => true | x :: a', y :: b' => tst_eqb x y && tsl_eqb a' b' | _, _ => false end.
Definition fst_eqb (a b : fst_) : bool :=
  match a, b with FR, FR | FD, FD | FS, FS => true | _, _ => false end.
Definition bst_eqb (a b : bst) : bool :=
  match a, b with BNone, BNone | BW, BW | BC, BC | BD, BD => true | BS x, BS y | BR x, BR y => x =? y | _, _ => false end.
Definition cst_eqb (a b : cst) : bool :=
  match a, b with CI, CI | CS, CS | CR, CR | CT, CT | CX, CX | CY, CY | CD, CD => true | _, _ => false end.
Definition pst_eqb (a b : pst) : bool :=
  match a, b with PR, PR | PB, PB | PW, PW => true | _, _ => false end.
Definition tstate_eqb (a b : tstate) : bool :=
  tsl_eqb (ts a) (ts b) && fst_eqb (fs a) (fs b) && bst_eqb (bs a) (bs b) && cst_eqb (cs a) (cs b)
  && pst_eqb (ps a) (ps b) && Bool.eqb (trig_closed a) (trig_closed b)
  && Bool.eqb (cancel_closed a) (cancel_closed b) && Bool.eqb (crashed a) (crashed b).

(* ---- breadth-first enumeration of the reachable states, keyed by their code ---- *)
Definition smap := PositiveMap.t tstate.

Definition add_succs (c : tcfg) (acc : list tstate * smap) (s : tstate) : list tstate * smap :=
  fold_left (fun a ls =>
               let s' := snd ls in let e := encode s' in
               match PositiveMap.find e (snd a) with
               | Some _ => a
               | None => (s' :: fst a, PositiveMap.add e s' (snd a))
               end) (tenabled c s) acc.

Fixpoint bfs (c : tcfg) (fuel : nat) (frontier : list tstate) (m : smap) : list tstate * smap :=
  match fuel with
  | O => (frontier, m)
  | S f => match frontier with
           | [] => ([], m)
           | _ => let r := fold_left (add_succs c) frontier ([], m) in bfs c f (fst r) (snd r)
           end
  end.

Definition reach_map (c : tcfg) (fuel : nat) : smap :=
  snd (bfs c fuel [tinit c] (PositiveMap.add (encode (tinit c)) (tinit c) (PositiveMap.empty tstate))).

Definition in_map (m : smap) (s : tstate) : bool :=
  match PositiveMap.find (encode s) m with Some s' => tstate_eqb s' s | None => false end.

Definition is_start_close (l : tlabel) : bool := match l with StartClose => true | _ => false end.
Definition is_send_on_closed (l : tlabel) : bool := match l with SendOnClosed _ => true | _ => false end.

(* everything C12 asks of one reachable state of the asynchronous system *)
Definition ck_closed (c : tcfg) (m : smap) (s : tstate) : bool :=
  forallb (fun ls => in_map m (snd ls)) (tenabled c s).
(* no panic: no send on a closed channel, no double close *)
Definition ck_safe (c : tcfg) (s : tstate) : bool :=
  negb (crashed s) && forallb (fun ls => negb (is_send_on_closed (fst ls)) && negb (crashed (snd ls))) (tenabled c s).
(* no deadlock: a non-final state has a transition; once Close has started it has one that is neither a tick nor
   the processor turning busy *)
Definition ck_live (c : tcfg) (s : tstate) : bool :=
  is_final s
  || (match tenabled c s with [] => false | _ => true end
      && (negb (close_started s) || existsb (fun ls => negb (is_env (fst ls))) (tenabled c s))).
(* after Close has started every transition that is not a tick / PBusy lowers the rank *)
Definition ck_rank (c : tcfg) (s : tstate) : bool :=
  negb (close_started s) || forallb (fun ls => is_env (fst ls) || (rank c (snd ls) <? rank c s)%N) (tenabled c s).
(* a final state stays final; close_started is never undone *)
Definition ck_stable (c : tcfg) (s : tstate) : bool :=
  (negb (is_final s) || forallb (fun ls => is_final (snd ls)) (tenabled c s))
  && (negb (close_started s) || forallb (fun ls => close_started (snd ls)) (tenabled c s)).
(* the processor is never inside the hand-shake; shutdownAppHarvest is enabled whenever Close was not called yet
   and leaves the processor where it was *)
Definition ck_proc (c : tcfg) (s : tstate) : bool :=
  match ps s with PW => false | _ => true end
  && (close_started s
      || existsb (fun ls => is_start_close (fst ls) && pst_eqb (ps (snd ls)) (ps s)) (tenabled c s)).

Definition check_state (c : tcfg) (m : smap) (s : tstate) : bool :=
  ck_closed c m s && ck_safe c s && ck_live c s && ck_rank c s && ck_stable c s && ck_proc c s.

Definition check_all (c : tcfg) (fuel : nat) : bool :=
  let m := reach_map c fuel in
  in_map m (tinit c) && forallb (fun ks => check_state c m (snd ks)) (PositiveMap.elements m).

Fixpoint trun (c : tcfg) (s : tstate) (tr : list tlabel) : option tstate :=
  match tr with
  | [] => Some s
  | l :: r => match tstep_fn c s l with Some s' => trun c s' r | None => None end
  end.

(* a state in which the processor sits inside a synchronous Close and only ticks can happen *)
Definition processor_stuck (c : tcfg) (s : tstate) : bool :=
  match ps s with PW => true | _ => false end && negb (is_final s)
  && forallb (fun ls => is_env (fst ls)) (tenabled c s).

Definition cfg1 : tcfg := {| n_trig := 1; grouped := false; sync_close := false |}.
Definition cfg6 : tcfg := {| n_trig := 6; grouped := true; sync_close := false |}.
Definition sync_of (c : tcfg) : tcfg := {| n_trig := n_trig c; grouped := grouped c; sync_close := true |}.

(* ---- trace inclusion for the correspondence runs ----
   The harness plays the environment (ticks, the processor's receive, Close) and cannot see the goroutines'
   internal hand-shakes: accepts simulates the LTS on sets of states, closing under the internal (tau) labels.
   A ghost variable remembers which trigger's type the forwarder holds, so that the type received by the
   processor can be compared (the core LTS does not need it). *)
Definition is_tau (l : tlabel) : bool :=
  match l with
  | TakeTick _ | Deliver _ | CancelT _ | ConfirmT _ | BCancel | MCancel _ | MConfirm _ | BConfirm
  | TOShutdown | CloseTrigger | CloseCancel | FClosed | SendOnClosed _ => true
  | _ => false
  end.

Record istate := { core : tstate; fk : nat }.
Definition ikey (s : istate) : positive := Pos.add (Pos.mul (encode (core s)) 8) (Pos.of_succ_nat (fk s)).
Definition ighost (l : tlabel) (old : nat) : nat := match l with Deliver k => k | _ => old end.
Definition istep (c : tcfg) (s : istate) (l : tlabel) : option istate :=
  match tstep_fn c (core s) l with
  | Some s' => Some {| core := s'; fk := ighost l (fk s) |}
  | None => None
  end.
Definition tau_succs (c : tcfg) (s : istate) : list istate :=
  flat_map (fun ls => if is_tau (fst ls) then [{| core := snd ls; fk := ighost (fst ls) (fk s) |}] else [])
           (tenabled c (core s)).

Definition imap := PositiveMap.t istate.
Definition iadd (acc : list istate * imap) (s : istate) : list istate * imap :=
  match PositiveMap.find (ikey s) (snd acc) with
  | Some _ => acc
  | None => (s :: fst acc, PositiveMap.add (ikey s) s (snd acc))
  end.
Fixpoint iclose (c : tcfg) (fuel : nat) (frontier : list istate) (m : imap) : option imap :=
  match frontier with
  | [] => Some m
  | _ => match fuel with
         | O => None
         | S f => let r := fold_left (fun acc s => fold_left iadd (tau_succs c s) acc) frontier ([], m) in
                  iclose c f (fst r) (snd r)
         end
  end.
Definition iclosure (c : tcfg) (l : list istate) : option (list istate) :=
  let r := fold_left iadd l ([], PositiveMap.empty istate) in
  match iclose c 400 (fst r) (snd r) with
  | Some m => Some (map snd (PositiveMap.elements m))
  | None => None
  end.

Inductive vev :=
| VL (l : tlabel)          (* Tick k / TickDrop k / PBusy / PIdle / StartClose performed by the harness *)
| VRecv (k : nat)          (* the processor received the harvest type of trigger k *)
| VQuiet                   (* after a long wait: nothing internal is enabled and no delivery is pending to a receptive processor *)
| VCloseDone (b : bool)    (* Close has returned / has not *)
| VGone (b : bool).        (* the goroutines of the AppHarvest (triggers, broadcaster, forwarder, Close) are all gone / not *)

Definition goroutines_gone (s : tstate) : bool :=
  forallb tst_done (ts s) && match fs s with FD => true | _ => false end
  && match bs s with BNone | BD => true | _ => false end
  && match cs s with CD => true | _ => false end.

Definition quiet (c : tcfg) (s : tstate) : bool :=
  forallb (fun ls => negb (is_tau (fst ls))) (tenabled c s)
  && negb (match fs s, ps s with FS, PR => true | _, _ => false end).

Definition vstep (c : tcfg) (ss : list istate) (e : vev) : option (list istate) :=
  match e with
  | VL l => iclosure c (flat_map (fun s => match istep c s l with Some s' => [s'] | None => [] end) ss)
  | VRecv k => iclosure c (flat_map (fun s => if fk s =? k then match istep c s Harvest with Some s' => [s'] | None => [] end else []) ss)
  | VQuiet => Some (filter (fun s => quiet c (core s)) ss)
  | VCloseDone b => Some (filter (fun s => Bool.eqb (match cs (core s) with CD => true | _ => false end) b) ss)
  | VGone b => Some (filter (fun s => Bool.eqb (goroutines_gone (core s)) b) ss)
  end.

(* result: 0 = accepted; k+1 = the k-th event (from 0) cannot be matched; 65535 = closure fuel exhausted *)
Fixpoint vrun (c : tcfg) (ss : list istate) (evs : list vev) (k : N) : N :=
  match evs with
  | [] => 0%N
  | e :: r => match vstep c ss e with
              | Some [] => N.succ k
              | Some ss' => vrun c ss' r (N.succ k)
              | None => 65535%N
              end
  end.

Definition taccepts (c : tcfg) (evs : list vev) : N :=
  match iclosure c [{| core := tinit c; fk := 0 |}] with
  | Some ss => vrun c ss evs 0%N
  | None => 65535%N
  end.
