(* C06 -- when over capacity, the highest-priority items are the ones kept.  Statements only.
   Priorities are on the exact grid k/2^20 (the integer k); "+ 2" for synthetics is + 2*2^20. *)
From Coq Require Import List ZArith NArith Arith Bool Permutation.
From Verif Require Import Heap HeapProofs TopK TopKProofs Reservoir ReservoirProofs
  ErrTrace ErrTraceProofs SlowSQL SlowSQLProofs.
Import ListNotations.
Open Scope nat_scope.

(* ---- container/heap as transcribed in Heap.v, for less a b = (key a <? key b) ---- *)
Theorem C06_heap_init_ordered : forall (A : Type) (less : A -> A -> bool) (key : A -> Z),
  (forall a b, less a b = (key a <? key b)%Z) ->
  forall l, heap_ordered key (init less l) /\ Permutation (init less l) l.
Proof. exact heap_init_thm. Qed.
Print Assumptions C06_heap_init_ordered.

Theorem C06_heap_push_ordered : forall (A : Type) (less : A -> A -> bool) (key : A -> Z),
  (forall a b, less a b = (key a <? key b)%Z) ->
  forall l x, heap_ordered key l -> heap_ordered key (push less l x) /\ Permutation (push less l x) (x :: l).
Proof. exact heap_push_thm. Qed.
Print Assumptions C06_heap_push_ordered.

Theorem C06_heap_pop_min : forall (A : Type) (less : A -> A -> bool) (key : A -> Z),
  (forall a b, less a b = (key a <? key b)%Z) ->
  forall a t, heap_ordered key (a :: t) ->
  exists l', pop less (a :: t) = Some (a, l') /\ Permutation (a :: t) (a :: l') /\ heap_ordered key l' /\
             forall y, In y (a :: t) -> (key a <= key y)%Z.
Proof. exact heap_pop_thm. Qed.
Print Assumptions C06_heap_pop_min.

(* ---- event reservoirs (transaction, custom, error, span, log events) ---- *)
(* After ANY sequence of AddEvent / AddSyntheticsEvent / Merge / MergeFailed into a reservoir of
   capacity K -- K = 0, K = 1, ties and duplicates included -- the retained events are a sub-multiset
   of everything offered (direct offers and events carried over by a merge), there are min(K, offered)
   of them, and no event that was left out has a higher priority than a retained one. *)
Theorem C06_events_topk : forall K ops, topk_rel prio K (items (run_res K ops)) (offered ops).
Proof. exact events_topk. Qed.
Print Assumptions C06_events_topk.

(* equivalently: the retained priorities are the first K of the offered priorities sorted downwards *)
Theorem C06_events_topk_sorted : forall K ops,
  sort_desc (map prio (items (run_res K ops))) = firstn K (sort_desc (map prio (offered ops))).
Proof. exact events_topk_sorted. Qed.
Print Assumptions C06_events_topk_sorted.

(* With priorities in their documented range [0, 2): as soon as one non-synthetics event is retained,
   every synthetics event that was offered is retained. *)
Theorem C06_synthetics_outrank : forall K ops,
  Forall op_in_range ops ->
  forall e, In (OAdd e) ops -> In e (items (run_res K ops)) ->
  Permutation (filter is_synth (items (run_res K ops))) (filter is_synth (offered ops)) /\
  forall s, In (OAddSynth s) ops -> In (boost s) (items (run_res K ops)).
Proof. exact synthetics_outrank. Qed.
Print Assumptions C06_synthetics_outrank.

(* counters: never above the capacity; numSeen is the number offered (a merged reservoir counting for
   what it had seen); a delivery carried over after more than 10 failures is dropped *)
Theorem C06_events_counters : forall K ops,
  length (items (run_res K ops)) = Nat.min K (length (offered ops)) /\
  seen (run_res K ops) = seen_total ops /\
  (forall r o, failed (merge_failed r o) = if carried o then (failed o + 1)%Z else failed r) /\
  (forall o, carried o = true <-> (failed o + 1 <= 10)%Z).
Proof. exact events_counters. Qed.
Print Assumptions C06_events_counters.

(* ---- errors ---- *)
(* The retained errors are K of the highest priority (K = 20 in the daemon), AddError never panics for
   K > 0, and every single AddError keeps the new error (room), or refuses it because every retained
   error has at least its priority, or displaces a minimal retained error of STRICTLY lower priority:
   an error is never displaced by a later one of equal or lower priority. *)
Theorem C06_errors_topk_fifo : forall K es, 0 < K ->
  (exists h, run_errors K es = Some h /\ topk_rel e_prio K (e_items h) es /\ length (e_items h) <= K) /\
  (forall pre e post, es = pre ++ e :: post ->
     exists h1 h2, run_errors K pre = Some h1 /\ run_errors K (pre ++ [e]) = Some h2 /\
                   err_step_ok K (e_items h1) e (e_items h2)).
Proof. exact errors_topk_fifo. Qed.
Print Assumptions C06_errors_topk_fifo.

(* ---- transaction traces ---- *)
(* Per pool (1 regular, 10 force-persisted, 20 synthetics; synthetics wins over force-persist) the
   retained traces are the longest-running offered of that kind; never a panic; and the IsKeeper gate
   used at the call site makes no difference. *)
Theorem C06_traces_longest : forall l,
  (exists ts, run_traces l = Some ts /\
     forall p, topk_rel t_dur (pool_limit p) (t_items (get_pool ts p)) (of_pool p l) /\
               length (t_items (get_pool ts p)) <= pool_limit p) /\
  run_offers l = run_traces l.
Proof. exact traces_longest_gate. Qed.
Print Assumptions C06_traces_longest.

(* ---- slow SQLs ---- *)
(* The retained statements have distinct ids, were all observed, are min(K, distinct statements) many;
   each retained record carries the largest MaxMicros ever observed for its statement; and no statement
   that is left out was ever observed slower than any retained statement's maximum: the retained ones
   are K statements with the largest maximum duration. *)
Theorem C06_slowsql_topk : forall K obs,
  let st := sl_items (run_slow K obs) in
  NoDup (ids st) /\ incl (ids st) (ids obs) /\
  length st = Nat.min K (length (nodup N.eq_dec (ids obs))) /\
  (forall s, In s st ->
     (forall o, In o obs -> s_id o = s_id s -> (s_max o <= s_max s)%Z) /\
     (exists o, In o obs /\ s_id o = s_id s /\ s_max o = s_max s)) /\
  (forall o, In o obs -> ~ In (s_id o) (ids st) -> forall s, In s st -> (s_max o <= s_max s)%Z).
Proof. exact slowsql_topk. Qed.
Print Assumptions C06_slowsql_topk.

(* Repeated observations of a retained statement are merged: its record aggregates its observations
   from the one that admitted it (anything observed of it earlier was strictly faster and had been left
   out): Count and TotalMicros added in int32 / uint64, MinMicros and MaxMicros the minimum and
   maximum, the text fields those of an observation that attains the maximum. *)
Theorem C06_slowsql_merge : forall K obs s,
  Forall typed obs -> In s (sl_items (run_slow K obs)) ->
  exists pre o post, obs = pre ++ o :: post /\ s_id o = s_id s /\
    (forall x, In x pre -> s_id x = s_id s -> (s_max x < s_max o)%Z) /\
    merged_fields s o (of_id (s_id s) post).
Proof. exact slowsql_merge_fields. Qed.
Print Assumptions C06_slowsql_merge.

(* one Observe of a statement that is retained merges into its entry, in place *)
Theorem C06_slowsql_merge_step : forall K l o l1 ex l2,
  l = l1 ++ ex :: l2 -> s_id ex = s_id o -> (forall x, In x l1 -> s_id x <> s_id o) ->
  sl_items (observe (mkSlows K l) o) = l1 ++ merge_slow ex o :: l2.
Proof. exact slowsql_merge_step. Qed.
Print Assumptions C06_slowsql_merge_step.
