(* C09 -- socket framing is lossless, bounded and self-delineating.  Statements only.
   Model: Framing.v (io.ReadFull over a chunked transport, isLegacyAgent, ReadMessage,
   MessageWriter.Write, conn.Serve).  A chunking of b is ANY list of chunks whose concatenation is b:
   empty chunks (a Read returning 0, nil) included, chunk boundaries anywhere.  fuel counts loop
   iterations; C09_fuel_sufficient shows that running out of it is not a behaviour. *)
From Coq Require Import NArith List Bool.
From Verif Require Import Framing FramingProofs.
Import ListNotations.
Open Scope N_scope.

(* Lossless, however the transport fragments the stream: every list of messages with type < 2^32 and
   body <= 2 MiB, written as frames, is delivered as exactly that list, the connection then ends
   with EOF, replies are framed (see C09_reply_framed), and each body is allocated at its own size. *)
Theorem C09_roundtrip : forall (h : handler) (ms : list msg) (cs : stream) (fuel : nat),
  Forall valid_msg ms -> chunking cs (encode ms) -> (length ms < fuel)%nat ->
  serve fuel h cs =
  {| delivered := ms; written := replies h ms;
     allocs := map (fun m => lenN (snd m)) ms; ended := EndEOF |}.
Proof. exact roundtrip. Qed.
Print Assumptions C09_roundtrip.

(* The whole outcome depends on the concatenation of the chunks only (any stream, valid or not). *)
Theorem C09_chunking_irrelevant : forall (fuel : nat) (h : handler) (s1 s2 : stream),
  concat s1 = concat s2 -> serve fuel h s1 = serve fuel h s2.
Proof. exact chunking_irrelevant. Qed.
Print Assumptions C09_chunking_irrelevant.

(* The two header formats cannot be confused, in either direction. *)
Theorem C09_legacy_no_collision : forall len ty r,
  len <= 2097152 -> is_legacy_agent (header len ty ++ r) = false.
Proof. exact legacy_no_collision. Qed.
Print Assumptions C09_legacy_no_collision.

Theorem C09_legacy_header_is_oversize : forall hdr,
  is_legacy_agent hdr = true -> 536870912 <= le32_dec hdr.
Proof. exact legacy_implies_oversize. Qed.
Print Assumptions C09_legacy_header_is_oversize.

(* A header announcing more than 2 MiB, after any valid messages and followed by anything: the
   messages before it are delivered, nothing after it, no answer is written for it, the connection
   ends, and the announced size is never allocated. *)
Theorem C09_oversize : forall (h : handler) ms hdr extra cs fuel,
  Forall valid_msg ms -> lenN hdr = 8 -> is_legacy_agent hdr = false -> 2097152 < le32_dec hdr ->
  chunking cs (encode ms ++ hdr ++ extra) -> (length ms < fuel)%nat ->
  serve fuel h cs =
  {| delivered := ms; written := replies h ms;
     allocs := map (fun m => lenN (snd m)) ms; ended := EndTooLarge (le32_dec hdr) |}.
Proof. exact oversize. Qed.
Print Assumptions C09_oversize.

(* A legacy-format header: same, plus exactly the fixed 10-byte answer after the replies. *)
Theorem C09_legacy : forall (h : handler) ms hdr extra cs fuel,
  Forall valid_msg ms -> lenN hdr = 8 -> is_legacy_agent hdr = true ->
  chunking cs (encode ms ++ hdr ++ extra) -> (length ms < fuel)%nat ->
  serve fuel h cs =
  {| delivered := ms; written := replies h ms ++ [53; 32; 48; 32; 48; 10; 0; 0; 0; 0];
     allocs := map (fun m => lenN (snd m)) ms; ended := EndLegacy |}.
Proof. exact legacy. Qed.
Print Assumptions C09_legacy.

(* Bounded: on EVERY stream, with every handler, no size passed to make exceeds 2 MiB. *)
Theorem C09_alloc_bounded : forall (fuel : nat) (h : handler) (s : stream),
  Forall (fun a => a <= 2097152) (allocs (serve fuel h s)).
Proof. exact allocs_bounded_all. Qed.
Print Assumptions C09_alloc_bounded.

(* Truncation: complete frames followed by a proper prefix p of one more frame deliver exactly the
   complete ones; p is never delivered, whatever its length. *)
Theorem C09_truncated : forall (h : handler) pre m p q cs fuel,
  Forall valid_msg pre -> valid_msg m -> p ++ q = frame m -> q <> [] ->
  chunking cs (encode pre ++ p) -> (length pre < fuel)%nat ->
  delivered (serve fuel h cs) = pre /\
  written (serve fuel h cs) = replies h pre /\
  ended (serve fuel h cs) =
    (if lenN p =? 0 then EndEOF else if lenN p <? 8 then EndTruncatedHeader else EndTruncatedBody).
Proof. exact truncated. Qed.
Print Assumptions C09_truncated.

(* The same for a cut at ANY offset strictly inside an encoded sequence. *)
Theorem C09_truncated_at : forall (h : handler) ms (cut : nat) cs fuel,
  Forall valid_msg ms -> (cut < length (encode ms))%nat ->
  chunking cs (firstn cut (encode ms)) -> (length ms < fuel)%nat ->
  exists k, (k < length ms)%nat /\
    (length (encode (firstn k ms)) <= cut < length (encode (firstn (S k) ms)))%nat /\
    delivered (serve fuel h cs) = firstn k ms /\
    written (serve fuel h cs) = replies h (firstn k ms) /\
    (ended (serve fuel h cs) = EndEOF <-> cut = length (encode (firstn k ms))) /\
    (ended (serve fuel h cs) = EndEOF \/ ended (serve fuel h cs) = EndTruncatedHeader \/
     ended (serve fuel h cs) = EndTruncatedBody).
Proof. exact truncated_at. Qed.
Print Assumptions C09_truncated_at.

(* Replies: for each delivered message with a non-nil reply r, exactly le32(len r) ++ le32(request
   type) ++ r, once, in request order, and nothing else except the legacy answer (replies is that
   concatenation by definition; tail_out t contributes the legacy answer or nothing). *)
Theorem C09_reply_framed : forall (h : handler) ms t cs fuel,
  Forall valid_msg ms -> tail_ok t -> chunking cs (encode ms ++ tail_bytes t) -> (length ms < fuel)%nat ->
  written (serve fuel h cs) =
  concat (map (fun m => match h m with
                        | Some r => le32 (lenN r) ++ le32 (fst m) ++ r
                        | None => []
                        end) ms) ++ written (tail_out t).
Proof. exact reply_framed. Qed.
Print Assumptions C09_reply_framed.

(* ... which is itself a frame sequence: the replies, typed as their requests. *)
Theorem C09_replies_are_frames : forall (h : handler) ms,
  replies h ms = encode (reply_msgs h ms).
Proof. exact replies_encode. Qed.
Print Assumptions C09_replies_are_frames.

(* Closed form of every run on (valid messages ++ tail), from which the clauses above follow. *)
Theorem C09_closed_form : forall (h : handler) ms t cs fuel,
  Forall valid_msg ms -> tail_ok t -> chunking cs (encode ms ++ tail_bytes t) ->
  (length ms < fuel)%nat -> serve fuel h cs = predict h ms t.
Proof. exact serve_predict. Qed.
Print Assumptions C09_closed_form.

(* The descriptor form used by the correspondence for bodies of about 2 MiB. *)
Theorem C09_boundary_descriptors : forall (h : handler) (hd : dhandler) ms t cs fuel,
  (forall m, h m = hd (desc_of m)) ->
  Forall valid_msg ms -> tail_ok t -> chunking cs (encode ms ++ tail_bytes t) -> (length ms < fuel)%nat ->
  proj_d (serve fuel h cs) = predict_d hd (map desc_of ms) (desc_tail t).
Proof. exact serve_predict_d. Qed.
Print Assumptions C09_boundary_descriptors.

(* The same including replies too large to spell out: the written bytes are a frame sequence rs followed
   by the tail's answer, and the (type, length) descriptors of the delivered messages and of rs are
   computed from the request descriptors and the LENGTH of each reply alone. *)
Theorem C09_boundary_reply_descriptors : forall (h : handler) (hl : lhandler) ms t cs fuel,
  (forall m, option_map lenN (h m) = hl (desc_of m)) ->
  Forall valid_msg ms -> tail_ok t -> chunking cs (encode ms ++ tail_bytes t) -> (length ms < fuel)%nat ->
  exists rs,
    written (serve fuel h cs) = encode rs ++ tail_written_d (desc_tail t) /\
    (map desc_of (delivered (serve fuel h cs)), map desc_of rs, tail_written_d (desc_tail t),
     end_class (ended (serve fuel h cs)), allocs_bounded (serve fuel h cs))
    = predict_dl hl (map desc_of ms) (desc_tail t).
Proof. exact serve_predict_dl. Qed.
Print Assumptions C09_boundary_reply_descriptors.

(* Fuel: one iteration per 8 bytes of stream (plus one) always suffices. *)
Theorem C09_fuel_sufficient : forall (fuel : nat) (h : handler) (s : stream),
  lenN (concat s) / 8 < N.of_nat fuel -> ended (serve fuel h s) <> EndOutOfFuel.
Proof. exact fuel_sufficient. Qed.
Print Assumptions C09_fuel_sufficient.

(* The executable monitor used on the implementation's observations means the property. *)
Theorem C09_monitor_sound : forall (h : handler) ms t got o,
  monitor h ms t got o = true ->
  got = ms /\ o_closed o = true /\ o_alloc_bounded o = true /\
  o_written o = replies h ms ++ tail_answer t.
Proof. exact monitor_sound. Qed.
Print Assumptions C09_monitor_sound.

(* ... and the model meets the same right-hand sides on every input the property speaks about. *)
Theorem C09_model_meets_monitor_spec : forall (h : handler) ms t cs fuel,
  Forall valid_msg ms -> tail_ok t -> chunking cs (encode ms ++ tail_bytes t) -> (length ms < fuel)%nat ->
  delivered (serve fuel h cs) = ms /\
  allocs_bounded (serve fuel h cs) = true /\
  written (serve fuel h cs) = replies h ms ++ tail_answer t.
Proof. exact model_meets_monitor_spec. Qed.
Print Assumptions C09_model_meets_monitor_spec.
