(* LimiterWiring.v -- the production configuration of the limiter, from the generated constants
   (Gen/Limits_gen.v) and the generated wiring facts (Gen/ClientWiring_gen.v). *)
From Coq Require Import NArith ZArith List Bool String Lia.
From Verif Require Import Limiter LimiterProofs.
From Verif.Gen Require Import Limits_gen ClientWiring_gen.
Import ListNotations.

(* what newrelic.NewClient + collector.NewClient install *)
Definition production_limiter : option lcfg :=
  match wired_MaxParallel, wired_Timeout with
  | Some m, Some t => new_client_limiter m t
  | _, _ => None
  end.

Lemma max_is_100 :
  wired_MaxParallel = Some 100%Z /\ wired_Timeout = Some 45000000000%Z /\
  limit_args_fields = ["MaxParallel"; "Timeout"]%string /\
  bypass_conds = ["MaxParallel <= 0"]%string /\
  production_limiter = Some {| max := 100%N; has_timer := true |} /\
  forall n s, reachable {| max := 100%N; has_timer := true |} n s ->
    (running s <= 100)%N /\ (permits s + running s = 100)%N.
Proof.
  repeat split; try reflexivity.
  - apply (bound_reachable _ _ _ H).
  - apply (inv_reachable _ _ _ H).
Qed.
