(* FramingProofs.v -- lemmas about Framing.v (C09). *)
From Coq Require Import NArith ZArith List Bool Lia ZifyBool ZifyNat ZifyN.
From Verif Require Import Framing.
Import ListNotations.
Open Scope N_scope.

(* ------------------------------------------------------------------ *)
(* N-indexed list helpers                                              *)
(* ------------------------------------------------------------------ *)

Lemma lenN_app a b : lenN (a ++ b) = lenN a + lenN b.
Proof. induction a as [|x a IH]; cbn [lenN app]; [lia|rewrite IH; lia]. Qed.

Lemma lenN_nat l : lenN l = N.of_nat (length l).
Proof. induction l as [|x l IH]; cbn [lenN length]; [reflexivity|rewrite IH; lia]. Qed.

Lemma lenN_zero l : lenN l = 0 -> l = [].
Proof. destruct l; cbn [lenN]; [reflexivity|lia]. Qed.

Lemma takeN_0 l : takeN 0 l = [].
Proof. destruct l; reflexivity. Qed.

Lemma dropN_0 l : dropN 0 l = l.
Proof. destruct l; reflexivity. Qed.

Lemma takeN_nil n : takeN n [] = [].
Proof. reflexivity. Qed.

Lemma dropN_nil n : dropN n [] = [].
Proof. reflexivity. Qed.

Lemma takeN_app n : forall a b, takeN n (a ++ b) = takeN n a ++ takeN (n - lenN a) b.
Proof.
  intros a. revert n. induction a as [|x a IH]; intros n b; cbn [app takeN lenN].
  - rewrite N.sub_0_r. reflexivity.
  - destruct (N.eqb_spec n 0) as [->|Hn].
    + rewrite N.sub_0_l, takeN_0. reflexivity.
    + rewrite IH. cbn [app]. replace (N.pred n - lenN a) with (n - N.succ (lenN a)) by lia. reflexivity.
Qed.

Lemma dropN_app n : forall a b, dropN n (a ++ b) = dropN n a ++ dropN (n - lenN a) b.
Proof.
  intros a. revert n. induction a as [|x a IH]; intros n b; cbn [app dropN lenN].
  - rewrite N.sub_0_r. reflexivity.
  - destruct (N.eqb_spec n 0) as [->|Hn].
    + rewrite N.sub_0_l, dropN_0. reflexivity.
    + rewrite IH. replace (N.pred n - lenN a) with (n - N.succ (lenN a)) by lia. reflexivity.
Qed.

Lemma takeN_all n : forall l, lenN l <= n -> takeN n l = l.
Proof.
  intros l. revert n. induction l as [|x l IH]; intros n H; cbn [takeN lenN] in *; [reflexivity|].
  destruct (N.eqb_spec n 0) as [->|Hn]; [lia|]. rewrite IH by lia. reflexivity.
Qed.

Lemma dropN_all n : forall l, lenN l <= n -> dropN n l = [].
Proof.
  intros l. revert n. induction l as [|x l IH]; intros n H; cbn [dropN lenN] in *; [reflexivity|].
  destruct (N.eqb_spec n 0) as [->|Hn]; [lia|]. apply IH. lia.
Qed.

Lemma takeN_dropN n : forall l, takeN n l ++ dropN n l = l.
Proof.
  intros l. revert n. induction l as [|x l IH]; intros n; cbn [takeN dropN]; [reflexivity|].
  destruct (N.eqb_spec n 0) as [->|Hn]; [reflexivity|]. cbn [app]. rewrite IH. reflexivity.
Qed.

Lemma lenN_takeN n : forall l, lenN (takeN n l) = N.min n (lenN l).
Proof.
  intros l. revert n. induction l as [|x l IH]; intros n; cbn [takeN lenN]; [lia|].
  destruct (N.eqb_spec n 0) as [->|Hn]; cbn [lenN]; [lia|]. rewrite IH. lia.
Qed.

Lemma lenN_dropN n l : lenN (dropN n l) = lenN l - n.
Proof.
  pose proof (takeN_dropN n l) as H. apply (f_equal lenN) in H.
  rewrite lenN_app, lenN_takeN in H. lia.
Qed.

Lemma takeN_app_exact a b : takeN (lenN a) (a ++ b) = a.
Proof. rewrite takeN_app, N.sub_diag, takeN_0, app_nil_r. apply takeN_all. lia. Qed.

Lemma dropN_app_exact a b : dropN (lenN a) (a ++ b) = b.
Proof. rewrite dropN_app, N.sub_diag, dropN_0, dropN_all by lia. reflexivity. Qed.

Lemma takeN_firstn n l : takeN n l = firstn (N.to_nat n) l.
Proof.
  revert n. induction l as [|x l IH]; intros n; cbn [takeN].
  - rewrite firstn_nil. reflexivity.
  - destruct (N.eqb_spec n 0) as [->|Hn]; [reflexivity|].
    replace (N.to_nat n) with (S (N.to_nat (N.pred n))) by lia. cbn [firstn]. rewrite IH. reflexivity.
Qed.

Lemma dropN_skipn n l : dropN n l = skipn (N.to_nat n) l.
Proof.
  revert n. induction l as [|x l IH]; intros n; cbn [dropN].
  - rewrite skipn_nil. reflexivity.
  - destruct (N.eqb_spec n 0) as [->|Hn]; [reflexivity|].
    replace (N.to_nat n) with (S (N.to_nat (N.pred n))) by lia. cbn [skipn]. apply IH.
Qed.

(* ------------------------------------------------------------------ *)
(* chunk_by really produces chunkings, of every shape                  *)
(* ------------------------------------------------------------------ *)

Lemma chunk_by_chunking sizes : forall b, chunking (chunk_by sizes b) b.
Proof.
  unfold chunking. induction sizes as [|k r IH]; intros b; cbn [chunk_by].
  - destruct b; cbn [concat]; [reflexivity|apply app_nil_r].
  - cbn [concat]. rewrite IH. apply takeN_dropN.
Qed.

(* every chunking without trailing garbage is some chunk_by *)
Lemma chunking_is_chunk_by cs : chunk_by (map lenN cs) (concat cs) = cs.
Proof.
  induction cs as [|c cs IH]; cbn [map concat chunk_by]; [reflexivity|].
  rewrite takeN_app_exact, dropN_app_exact, IH. reflexivity.
Qed.

(* ------------------------------------------------------------------ *)
(* io.ReadFull over chunks = reading from the concatenation            *)
(* ------------------------------------------------------------------ *)

Lemma read_full_aux_spec s : forall need got, 0 < need ->
  match read_full_aux need got s with
  | RfOk d r => need <= lenN (concat s) /\ d = takeN need (concat s) /\ concat r = dropN need (concat s)
  | RfEOF => lenN (concat s) < need /\ got = false /\ concat s = []
  | RfUnexpectedEOF => lenN (concat s) < need /\ (got = true \/ concat s <> [])
  end.
Proof.
  induction s as [|c rest IH]; intros need got Hneed; cbn [read_full_aux concat].
  - destruct got; cbn [lenN]; repeat split; auto; lia.
  - destruct (N.ltb_spec (lenN c) need) as [Hlt|Hge].
    + specialize (IH (need - lenN c) (got || (0 <? lenN c)) ltac:(lia)).
      destruct (read_full_aux (need - lenN c) (got || (0 <? lenN c)) rest) as [d r| |].
      * destruct IH as (H1 & H2 & H3). rewrite lenN_app. split; [lia|]. split.
        -- rewrite takeN_app, takeN_all by lia. rewrite H2. reflexivity.
        -- rewrite dropN_app, dropN_all by lia. exact H3.
      * destruct IH as (H1 & H2 & H3). apply orb_false_iff in H2. destruct H2 as [Hg Hl].
        assert (Hc : c = []) by (apply lenN_zero; lia). subst c.
        rewrite H3. cbn [app lenN] in *. repeat split; auto; lia.
      * destruct IH as (H1 & H2). rewrite lenN_app. split; [lia|].
        destruct H2 as [H2|H2].
        -- apply orb_true_iff in H2. destruct H2 as [H2|H2]; [left; exact H2|].
           right. intros E. apply app_eq_nil in E. destruct E as [E _]. subst c. cbn in H2. discriminate.
        -- right. intros E. apply app_eq_nil in E. destruct E as [_ E]. contradiction.
    + rewrite lenN_app. split; [lia|]. split.
      * rewrite takeN_app. replace (need - lenN c) with 0 by lia. rewrite takeN_0, app_nil_r. reflexivity.
      * cbn [concat]. rewrite dropN_app. replace (need - lenN c) with 0 by lia. rewrite dropN_0. reflexivity.
Qed.

Definition flatten_rf (r : rf_result) : rff_result :=
  match r with RfOk d r => RffOk d (concat r) | RfEOF => RffEOF | RfUnexpectedEOF => RffUnexpectedEOF end.

Lemma read_full_flat_eq need s : read_full_flat need (concat s) = flatten_rf (read_full need s).
Proof.
  unfold read_full_flat, read_full. destruct (N.eqb_spec need 0) as [->|Hn]; [reflexivity|].
  pose proof (read_full_aux_spec s need false ltac:(lia)) as H.
  destruct (read_full_aux need false s) as [d r| |]; cbn [flatten_rf].
  - destruct H as (H1 & -> & H3). rewrite H3.
    destruct (N.ltb_spec (lenN (concat s)) need); [lia|reflexivity].
  - destruct H as (H1 & _ & H3). rewrite H3 in *.
    destruct (N.ltb_spec (lenN (@nil N)) need); [reflexivity|lia].
  - destruct H as (H1 & [H2|H2]); [discriminate|].
    destruct (N.ltb_spec (lenN (concat s)) need); [|lia].
    destruct (concat s); [contradiction|reflexivity].
Qed.

Definition flatten_rm (r : rm_result) : rmf_result :=
  match r with
  | RmOk ty b rest => RmfOk ty b (concat rest)
  | RmEOF => RmfEOF
  | RmErrLegacy => RmfErrLegacy
  | RmErrTooLarge n => RmfErrTooLarge n
  | RmErrTruncatedHeader => RmfErrTruncatedHeader
  | RmErrTruncatedBody => RmfErrTruncatedBody
  end.

Lemma read_message_flat_eq s :
  read_message_flat (concat s) = (flatten_rm (fst (read_message s)), snd (read_message s)).
Proof.
  unfold read_message_flat, read_message. rewrite read_full_flat_eq.
  destruct (read_full msg_header_size s) as [h rest| |]; cbn [flatten_rf]; try reflexivity.
  destruct (is_legacy_agent h); [reflexivity|].
  destruct (max_message_size <? le32_dec h); [reflexivity|].
  rewrite read_full_flat_eq.
  destruct (read_full (le32_dec h) rest) as [b rest'| |]; reflexivity.
Qed.

Lemma serve_eq_flat fuel : forall h s, serve fuel h s = serve_flat fuel h (concat s).
Proof.
  induction fuel as [|f IH]; intros h s; cbn [serve serve_flat]; [reflexivity|].
  rewrite read_message_flat_eq. destruct (read_message s) as [r al].
  destruct r as [ty b rest| | | n | |]; cbn [flatten_rm fst snd]; try reflexivity.
  rewrite IH. reflexivity.
Qed.

(* the result depends on the concatenation only *)
Lemma chunking_irrelevant fuel h s1 s2 : concat s1 = concat s2 -> serve fuel h s1 = serve fuel h s2.
Proof. intros E. rewrite !serve_eq_flat, E. reflexivity. Qed.

(* ------------------------------------------------------------------ *)
(* little endian                                                        *)
(* ------------------------------------------------------------------ *)

Lemma lenN_le32 v : lenN (le32 v) = 4.
Proof. reflexivity. Qed.

Lemma lenN_header len ty : lenN (header len ty) = 8.
Proof. reflexivity. Qed.

Lemma le32_recompose v : v < 4294967296 ->
  v mod 256 + 256 * ((v / 256) mod 256) + 65536 * ((v / 65536) mod 256)
  + 16777216 * ((v / 16777216) mod 256) = v.
Proof.
  intros H.
  pose proof (N.div_mod v 256 ltac:(lia)) as E0.
  pose proof (N.div_mod (v / 256) 256 ltac:(lia)) as E1.
  pose proof (N.div_mod (v / 256 / 256) 256 ltac:(lia)) as E2.
  pose proof (N.div_mod (v / 256 / 256 / 256) 256 ltac:(lia)) as E3.
  rewrite !N.div_div in E1, E2, E3 by lia. change (256 * 256) with 65536 in *.
  change (65536 * 256) with 16777216 in *.
  assert (Hs : v / 16777216 < 256) by (apply N.div_lt_upper_bound; lia).
  rewrite (N.mod_small (v / 16777216) 256 Hs) in *.
  lia.
Qed.

Lemma le32_dec_le32 v r : v < 4294967296 -> le32_dec (le32 v ++ r) = v.
Proof. intros H. unfold le32, le32_dec. cbn [app]. apply le32_recompose. exact H. Qed.

Lemma le32_dec_le32' v : v < 4294967296 -> le32_dec (le32 v) = v.
Proof. intros H. rewrite <- (app_nil_r (le32 v)). apply le32_dec_le32. exact H. Qed.

Lemma le32_bytes v : Forall (fun b => b < 256) (le32 v).
Proof. unfold le32. repeat constructor; apply N.mod_lt; lia. Qed.

Lemma le32_hi_zero v : v <= 2097152 -> (v / 16777216) mod 256 = 0.
Proof. intros H. rewrite N.div_small by lia. reflexivity. Qed.

(* ------------------------------------------------------------------ *)
(* the two header formats do not collide                                *)
(* ------------------------------------------------------------------ *)

(* a new-format header announcing at most 2 MiB is never taken for a legacy header ... *)
Lemma legacy_no_collision len ty r : len <= 2097152 -> is_legacy_agent (header len ty ++ r) = false.
Proof.
  intros H. unfold header, le32. cbn [app]. unfold is_legacy_agent. rewrite (le32_hi_zero len H).
  destruct (is_digit (len mod 256)); cbn [negb]; [|reflexivity].
  destruct ((len / 256) mod 256 =? 32); cbn [negb]; [|reflexivity].
  destruct (is_digit ((len / 65536) mod 256)); cbn [negb]; [|reflexivity].
  reflexivity.
Qed.

Lemma legacy_no_collision' len ty : len <= 2097152 -> is_legacy_agent (header len ty) = false.
Proof. intros H. rewrite <- (app_nil_r (header len ty)). apply legacy_no_collision. exact H. Qed.

(* ... and every legacy header, read as a new-format header, announces at least 512 MiB: no
   frame the size check accepts is ever answered as legacy, whatever isLegacyAgent's later bytes say *)
Lemma legacy_implies_oversize h : is_legacy_agent h = true -> 536870912 <= le32_dec h.
Proof.
  destruct h as [|p0 [|p1 [|p2 [|p3 [|p4 [|p5 r]]]]]]; try discriminate.
  unfold is_legacy_agent, le32_dec.
  destruct (is_digit p0); cbn [negb]; [|discriminate].
  destruct (p1 =? 32); cbn [negb]; [|discriminate].
  destruct (is_digit p2); cbn [negb]; [|discriminate].
  destruct (N.eqb_spec p3 32) as [->|]; cbn [negb]; [|discriminate].
  intros _. lia.
Qed.

Lemma legacy_not_valid h : is_legacy_agent h = true -> 2097152 < le32_dec h.
Proof. intros H. apply legacy_implies_oversize in H. lia. Qed.

(* ------------------------------------------------------------------ *)
(* reading one frame from the flat stream                               *)
(* ------------------------------------------------------------------ *)

Lemma read_full_flat_app n a b : lenN a = n -> read_full_flat n (a ++ b) = RffOk a b.
Proof.
  intros <-. unfold read_full_flat. destruct (N.eqb_spec (lenN a) 0) as [E|E].
  - apply lenN_zero in E. subst a. reflexivity.
  - rewrite lenN_app. destruct (N.ltb_spec (lenN a + lenN b) (lenN a)); [lia|].
    rewrite takeN_app_exact, dropN_app_exact. reflexivity.
Qed.

Lemma dropN4_header len ty : dropN 4 (header len ty) = le32 ty.
Proof. reflexivity. Qed.

Lemma dropN4_header_app len ty r : dropN 4 (header len ty ++ r) = le32 ty ++ r.
Proof. reflexivity. Qed.

Lemma le32_dec_header_app len ty r : len < 4294967296 -> le32_dec (header len ty ++ r) = len.
Proof. intros H. unfold header. rewrite <- app_assoc. apply le32_dec_le32. exact H. Qed.

Lemma le32_dec_header len ty : len < 4294967296 -> le32_dec (header len ty) = len.
Proof. intros H. unfold header. apply le32_dec_le32. exact H. Qed.

Lemma read_message_flat_frame m rest : valid_msg m ->
  read_message_flat (frame m ++ rest) = (RmfOk (fst m) (snd m) rest, [lenN (snd m)]).
Proof.
  intros [Hty Hlen]. unfold frame. rewrite <- app_assoc. unfold read_message_flat, msg_header_size.
  rewrite (read_full_flat_app 8 _ _ (lenN_header _ _)).
  rewrite legacy_no_collision' by exact Hlen.
  rewrite dropN4_header, le32_dec_le32' by exact Hty.
  rewrite le32_dec_header by lia.
  unfold max_message_size. destruct (N.ltb_spec 2097152 (lenN (snd m))); [lia|].
  rewrite read_full_flat_app by reflexivity. reflexivity.
Qed.

(* ------------------------------------------------------------------ *)
(* the tail of the stream                                               *)
(* ------------------------------------------------------------------ *)

Lemma delivered_tail_out t : delivered (tail_out t) = [].
Proof.
  destruct t as [|h e|p]; cbn [tail_out]; [reflexivity| |].
  - destruct (is_legacy_agent h); reflexivity.
  - destruct (lenN p =? 0); [reflexivity|]. destruct (lenN p <? 8); reflexivity.
Qed.

Lemma partial_split p q m : 8 <= lenN p -> p ++ q = frame m ->
  exists b', p = header (lenN (snd m)) (fst m) ++ b' /\ b' ++ q = snd m.
Proof.
  intros Hp E. unfold frame in E.
  assert (Ht : takeN 8 p = header (lenN (snd m)) (fst m)).
  { pose proof (f_equal (takeN 8) E) as E8. rewrite !takeN_app in E8.
    rewrite lenN_header in E8. replace (8 - lenN p) with 0 in E8 by lia.
    change (8 - 8) with 0 in E8. rewrite !takeN_0, !app_nil_r in E8.
    rewrite E8. apply takeN_all. rewrite lenN_header. lia. }
  exists (dropN 8 p). split.
  - rewrite <- Ht. symmetry. apply takeN_dropN.
  - rewrite <- (takeN_dropN 8 p), Ht, <- app_assoc in E. apply app_inv_head in E. exact E.
Qed.

Lemma serve_flat_tail f h t : tail_ok t -> serve_flat (S f) h (tail_bytes t) = tail_out t.
Proof.
  destruct t as [|hdr e|p]; cbn [tail_ok tail_bytes tail_out serve_flat].
  - intros _. reflexivity.
  - intros [H8 Hbad]. unfold read_message_flat, msg_header_size. rewrite (read_full_flat_app 8 hdr e H8).
    destruct (is_legacy_agent hdr) eqn:El; [reflexivity|].
    destruct Hbad as [Hbad|Hbad]; [discriminate|].
    unfold max_message_size. destruct (N.ltb_spec 2097152 (le32_dec hdr)); [reflexivity|lia].
  - intros (m & q & [Hty Hlen] & Hq & E).
    destruct (N.eqb_spec (lenN p) 0) as [E0|E0].
    { apply lenN_zero in E0. subst p. reflexivity. }
    destruct (N.ltb_spec (lenN p) 8) as [Hlt|Hge].
    { unfold read_message_flat, msg_header_size, read_full_flat. cbn [N.eqb].
      destruct (N.ltb_spec (lenN p) 8); [|lia]. destruct p; [cbn in E0; lia|reflexivity]. }
    destruct (partial_split p q m Hge E) as (b' & -> & Eb).
    unfold read_message_flat, msg_header_size.
    rewrite (read_full_flat_app 8 _ _ (lenN_header _ _)).
    rewrite legacy_no_collision' by exact Hlen.
    rewrite dropN4_header, le32_dec_le32' by exact Hty.
    rewrite le32_dec_header, le32_dec_header_app by lia.
    unfold max_message_size. destruct (N.ltb_spec 2097152 (lenN (snd m))); [lia|].
    assert (Hq' : 0 < lenN q) by (destruct q; [contradiction|cbn [lenN]; lia]).
    assert (Hb : lenN b' < lenN (snd m)) by (rewrite <- Eb, lenN_app; lia).
    unfold read_full_flat. destruct (N.eqb_spec (lenN (snd m)) 0); [lia|].
    destruct (N.ltb_spec (lenN b') (lenN (snd m))); [|lia].
    destruct b'; reflexivity.
Qed.

(* ------------------------------------------------------------------ *)
(* the whole run, closed form                                           *)
(* ------------------------------------------------------------------ *)

Lemma encode_cons m ms : encode (m :: ms) = frame m ++ encode ms.
Proof. reflexivity. Qed.

Lemma encode_app a b : encode (a ++ b) = encode a ++ encode b.
Proof. unfold encode. rewrite map_app, concat_app. reflexivity. Qed.

Lemma replies_cons h m ms :
  replies h (m :: ms) =
  (match h m with Some r => write_message (fst m) r | None => [] end) ++ replies h ms.
Proof.
  unfold replies. cbn [map concat]. destruct (h m) as [r|]; [|reflexivity].
  unfold write_message, header. rewrite <- !app_assoc. reflexivity.
Qed.

Lemma serve_flat_predict h t : tail_ok t -> forall ms fuel,
  Forall valid_msg ms -> (length ms < fuel)%nat ->
  serve_flat fuel h (encode ms ++ tail_bytes t) = predict h ms t.
Proof.
  intros Ht. induction ms as [|m ms IH]; intros fuel Hv Hf.
  - destruct fuel as [|f]; [cbn in Hf; lia|]. cbn [encode map concat app].
    rewrite (serve_flat_tail f h t Ht). unfold predict.
    pose proof (delivered_tail_out t) as Hd. destruct (tail_out t) as [d w a e]. cbn in *. subst d.
    reflexivity.
  - destruct fuel as [|f]; [cbn in Hf; lia|]. inversion Hv as [|? ? Hm Hms]; subst.
    rewrite encode_cons, <- app_assoc. cbn [serve_flat].
    rewrite (read_message_flat_frame m _ Hm).
    rewrite (IH f Hms ltac:(cbn [length] in Hf; lia)).
    unfold predict. cbn [delivered written allocs ended map app].
    rewrite replies_cons, <- app_assoc. destruct m as [ty b]. reflexivity.
Qed.

(* MASTER: on every chunking of (valid messages ++ tail) the loop computes the closed form *)
Lemma serve_predict h ms t cs fuel :
  Forall valid_msg ms -> tail_ok t -> chunking cs (encode ms ++ tail_bytes t) ->
  (length ms < fuel)%nat -> serve fuel h cs = predict h ms t.
Proof.
  intros Hv Ht Hc Hf. unfold chunking in Hc. rewrite serve_eq_flat, Hc.
  apply serve_flat_predict; assumption.
Qed.

(* ------------------------------------------------------------------ *)
(* the property's clauses as corollaries                                *)
(* ------------------------------------------------------------------ *)

Lemma roundtrip h ms cs fuel :
  Forall valid_msg ms -> chunking cs (encode ms) -> (length ms < fuel)%nat ->
  serve fuel h cs = mk_out ms (replies h ms) (map (fun m => lenN (snd m)) ms) EndEOF.
Proof.
  intros Hv Hc Hf. rewrite (serve_predict h ms TNone cs fuel Hv I).
  - unfold predict. cbn [tail_out written allocs ended]. rewrite !app_nil_r. reflexivity.
  - unfold chunking in *. cbn [tail_bytes]. rewrite app_nil_r. exact Hc.
  - exact Hf.
Qed.

Lemma oversize h ms hdr extra cs fuel :
  Forall valid_msg ms -> lenN hdr = 8 -> is_legacy_agent hdr = false -> 2097152 < le32_dec hdr ->
  chunking cs (encode ms ++ hdr ++ extra) -> (length ms < fuel)%nat ->
  serve fuel h cs =
  mk_out ms (replies h ms) (map (fun m => lenN (snd m)) ms) (EndTooLarge (le32_dec hdr)).
Proof.
  intros Hv H8 Hl Hbig Hc Hf.
  rewrite (serve_predict h ms (TBadHeader hdr extra) cs fuel Hv); [|cbn; auto|exact Hc|exact Hf].
  unfold predict. cbn [tail_out]. rewrite Hl. cbn [written allocs ended]. rewrite !app_nil_r. reflexivity.
Qed.

Lemma legacy h ms hdr extra cs fuel :
  Forall valid_msg ms -> lenN hdr = 8 -> is_legacy_agent hdr = true ->
  chunking cs (encode ms ++ hdr ++ extra) -> (length ms < fuel)%nat ->
  serve fuel h cs =
  mk_out ms (replies h ms ++ legacy_reply) (map (fun m => lenN (snd m)) ms) EndLegacy.
Proof.
  intros Hv H8 Hl Hc Hf.
  rewrite (serve_predict h ms (TBadHeader hdr extra) cs fuel Hv); [|cbn; auto|exact Hc|exact Hf].
  unfold predict. cbn [tail_out]. rewrite Hl. cbn [written allocs ended]. rewrite !app_nil_r. reflexivity.
Qed.

(* every size ever passed to make is at most 2 MiB: for EVERY stream, handler and fuel *)
Lemma read_message_allocs s : Forall (fun a => a <= 2097152) (snd (read_message s)).
Proof.
  unfold read_message. destruct (read_full msg_header_size s) as [h rest| |]; cbn [snd]; try constructor.
  destruct (is_legacy_agent h); cbn [snd]; [constructor|].
  unfold max_message_size. destruct (N.ltb_spec 2097152 (le32_dec h)); cbn [snd]; [constructor|].
  destruct (read_full (le32_dec h) rest); cbn [snd]; repeat constructor; lia.
Qed.

Lemma allocs_bounded_all fuel : forall h s, Forall (fun a => a <= 2097152) (allocs (serve fuel h s)).
Proof.
  induction fuel as [|f IH]; intros h s; cbn [serve]; [constructor|].
  pose proof (read_message_allocs s) as Ha. destruct (read_message s) as [r al]. cbn [snd] in Ha.
  destruct r; cbn [allocs]; try exact Ha.
  apply Forall_app. split; [exact Ha|apply IH].
Qed.

(* truncation: the stream is (complete frames) ++ (a proper prefix p of the next frame) *)
Lemma truncated h pre m p q cs fuel :
  Forall valid_msg pre -> valid_msg m -> p ++ q = frame m -> q <> [] ->
  chunking cs (encode pre ++ p) -> (length pre < fuel)%nat ->
  delivered (serve fuel h cs) = pre /\
  written (serve fuel h cs) = replies h pre /\
  ended (serve fuel h cs) =
    (if lenN p =? 0 then EndEOF else if lenN p <? 8 then EndTruncatedHeader else EndTruncatedBody).
Proof.
  intros Hv Hm E Hq Hc Hf.
  rewrite (serve_predict h pre (TPartial p) cs fuel Hv); [|exists m, q; auto|exact Hc|exact Hf].
  unfold predict. cbn [tail_out delivered written ended].
  destruct (lenN p =? 0); [cbn; rewrite app_nil_r; auto|].
  destruct (lenN p <? 8); cbn; rewrite app_nil_r; auto.
Qed.

(* every proper prefix of an encoded sequence has that shape *)
Lemma prefix_decompose : forall ms cut, (cut < length (encode ms))%nat ->
  exists pre m post p q,
    ms = pre ++ m :: post /\ firstn cut (encode ms) = encode pre ++ p /\ p ++ q = frame m /\ q <> [] /\
    (length (encode pre) <= cut < length (encode (pre ++ [m])))%nat.
Proof.
  induction ms as [|m ms IH]; intros cut Hc; [cbn in Hc; lia|].
  rewrite encode_cons, app_length in Hc.
  destruct (Nat.lt_ge_cases cut (length (frame m))) as [Hlt|Hge].
  - exists [], m, ms, (firstn cut (frame m)), (skipn cut (frame m)).
    split; [reflexivity|]. split.
    { rewrite encode_cons, firstn_app. replace (cut - length (frame m))%nat with 0%nat by lia.
      cbn [firstn encode map concat app]. rewrite app_nil_r. reflexivity. }
    split; [apply firstn_skipn|]. split.
    { intros E. apply (f_equal (@length N)) in E. rewrite skipn_length in E. cbn [length] in E. lia. }
    cbn [app encode map concat length]. rewrite app_nil_r. lia.
  - destruct (IH (cut - length (frame m))%nat ltac:(lia)) as (pre & m' & post & p & q & E1 & E2 & E3 & E4 & E5).
    exists (m :: pre), m', post, p, q. split; [rewrite E1; reflexivity|]. split.
    { rewrite !encode_cons, firstn_app, firstn_all2 by lia. rewrite E2, <- app_assoc. reflexivity. }
    split; [exact E3|]. split; [exact E4|].
    cbn [app]. rewrite !encode_cons, !app_length. lia.
Qed.

Lemma Forall_valid_split pre m post :
  Forall valid_msg (pre ++ m :: post) -> Forall valid_msg pre /\ valid_msg m.
Proof.
  intros H. apply Forall_app in H. destruct H as [H1 H2]. inversion H2; subst. auto.
Qed.

(* cut anywhere strictly inside the encoded sequence: exactly the complete frames before the cut *)
Lemma truncated_at h ms cut cs fuel :
  Forall valid_msg ms -> (cut < length (encode ms))%nat ->
  chunking cs (firstn cut (encode ms)) -> (length ms < fuel)%nat ->
  exists k, (k < length ms)%nat /\
    (length (encode (firstn k ms)) <= cut < length (encode (firstn (S k) ms)))%nat /\
    delivered (serve fuel h cs) = firstn k ms /\
    written (serve fuel h cs) = replies h (firstn k ms) /\
    (ended (serve fuel h cs) = EndEOF <-> cut = length (encode (firstn k ms))) /\
    (ended (serve fuel h cs) = EndEOF \/ ended (serve fuel h cs) = EndTruncatedHeader \/
     ended (serve fuel h cs) = EndTruncatedBody).
Proof.
  intros Hv Hcut Hc Hf.
  destruct (prefix_decompose ms cut Hcut) as (pre & m & post & p & q & E1 & E2 & E3 & E4 & E5).
  subst ms. destruct (Forall_valid_split _ _ _ Hv) as [Hpre Hm].
  rewrite app_length in Hf. cbn [length] in Hf.
  unfold chunking in Hc. rewrite E2 in Hc.
  destruct (truncated h pre m p q cs fuel Hpre Hm E3 E4 Hc ltac:(lia)) as (D & W & En).
  exists (length pre).
  assert (F1 : firstn (length pre) (pre ++ m :: post) = pre).
  { rewrite firstn_app, Nat.sub_diag, firstn_all. cbn [firstn]. apply app_nil_r. }
  assert (F2 : firstn (S (length pre)) (pre ++ m :: post) = pre ++ [m]).
  { rewrite firstn_app, firstn_all2 by lia.
    replace (S (length pre) - length pre)%nat with 1%nat by lia. reflexivity. }
  rewrite F1, F2. split; [rewrite app_length; cbn [length]; lia|]. split; [exact E5|].
  split; [exact D|]. split; [exact W|].
  assert (Lp : length p = (cut - length (encode pre))%nat).
  { pose proof (f_equal (@length N) E2) as L. rewrite app_length, firstn_length in L. lia. }
  rewrite En. split.
  - rewrite lenN_nat. destruct (N.eqb_spec (N.of_nat (length p)) 0) as [Z|NZ].
    + split; [intros _; lia|reflexivity].
    + split.
      * destruct (N.of_nat (length p) <? 8); discriminate.
      * intros Ec. lia.
  - destruct (lenN p =? 0); [auto|]. destruct (lenN p <? 8); auto.
Qed.

(* replies: one frame per non-nil reply, of the request's type, once, in order *)
Lemma reply_framed h ms t cs fuel :
  Forall valid_msg ms -> tail_ok t -> chunking cs (encode ms ++ tail_bytes t) -> (length ms < fuel)%nat ->
  written (serve fuel h cs) = replies h ms ++ written (tail_out t).
Proof. intros Hv Ht Hc Hf. rewrite (serve_predict h ms t cs fuel Hv Ht Hc Hf). reflexivity. Qed.

(* what the agent reads back: the reply stream is itself a valid frame sequence *)
Definition reply_msgs (h : handler) (ms : list msg) : list msg :=
  flat_map (fun m => match h m with Some r => [(fst m, r)] | None => [] end) ms.

Lemma replies_encode h ms : replies h ms = encode (reply_msgs h ms).
Proof.
  induction ms as [|m ms IH]; [reflexivity|].
  unfold replies, reply_msgs in *. cbn [map concat flat_map]. rewrite IH, encode_app.
  f_equal. destruct (h m) as [r|]; [|reflexivity].
  unfold encode, frame, header. cbn [map concat fst snd]. rewrite app_nil_r, <- app_assoc. reflexivity.
Qed.

(* ------------------------------------------------------------------ *)
(* fuel                                                                 *)
(* ------------------------------------------------------------------ *)

Lemma read_message_flat_consumes b ty d rest al :
  read_message_flat b = (RmfOk ty d rest, al) -> lenN rest + 8 <= lenN b.
Proof.
  unfold read_message_flat, msg_header_size, read_full_flat. cbn [N.eqb].
  destruct (N.ltb_spec (lenN b) 8) as [H|H]; [destruct b; discriminate|].
  destruct (is_legacy_agent (takeN 8 b)); [discriminate|].
  destruct (max_message_size <? le32_dec (takeN 8 b)); [discriminate|].
  destruct (le32_dec (takeN 8 b) =? 0).
  - intros E. inversion E; subst. rewrite lenN_dropN. lia.
  - destruct (lenN (dropN 8 b) <? le32_dec (takeN 8 b)); [destruct (dropN 8 b); discriminate|].
    intros E. inversion E; subst. rewrite !lenN_dropN. lia.
Qed.

(* one unit of fuel per 8 bytes (plus one) always suffices: out-of-fuel is not a behaviour *)
Lemma fuel_sufficient_flat fuel : forall h b, lenN b / 8 < N.of_nat fuel ->
  ended (serve_flat fuel h b) <> EndOutOfFuel.
Proof.
  induction fuel as [|f IH]; intros h b Hf; [lia|]. cbn [serve_flat].
  destruct (read_message_flat b) as [r al] eqn:E.
  destruct r as [ty d rest| | | n | |]; cbn [ended]; try discriminate.
  apply IH. apply read_message_flat_consumes in E.
  assert (lenN rest / 8 + 1 <= lenN b / 8).
  { replace (lenN rest / 8 + 1) with ((lenN rest + 1 * 8) / 8) by (rewrite N.div_add by lia; reflexivity).
    apply N.div_le_mono; lia. }
  lia.
Qed.

Lemma fuel_sufficient fuel h s : lenN (concat s) / 8 < N.of_nat fuel ->
  ended (serve fuel h s) <> EndOutOfFuel.
Proof. intros H. rewrite serve_eq_flat. apply fuel_sufficient_flat. exact H. Qed.

(* ------------------------------------------------------------------ *)
(* descriptor form (boundary sizes)                                     *)
(* ------------------------------------------------------------------ *)

Lemma replies_desc h hd ms : (forall m, h m = hd (desc_of m)) -> replies h ms = replies_d hd (map desc_of ms).
Proof.
  intros Hh. unfold replies, replies_d. rewrite map_map. f_equal. apply map_ext. intros m.
  rewrite Hh. reflexivity.
Qed.

Lemma le32_dec_takeN8 p : 8 <= lenN p -> le32_dec (takeN 8 p) = le32_dec p.
Proof.
  destruct p as [|a [|b [|c [|d r]]]]; cbn [lenN]; try lia. intros _. reflexivity.
Qed.

Lemma forallb_map_c {A B} (f : B -> bool) (g : A -> B) l :
  forallb f (map g l) = forallb (fun x => f (g x)) l.
Proof. induction l as [|x l IH]; cbn [map forallb]; [reflexivity|rewrite IH; reflexivity]. Qed.

Lemma predict_desc h hd ms t : (forall m, h m = hd (desc_of m)) ->
  proj_d (predict h ms t) = predict_d hd (map desc_of ms) (desc_tail t).
Proof.
  intros Hh. unfold proj_d, predict, predict_d, allocs_bounded.
  cbn [delivered written allocs ended]. rewrite (replies_desc h hd ms Hh).
  rewrite forallb_app, !forallb_map_c. cbn [snd desc_of].
  destruct t as [|hdr e|p]; cbn [tail_out desc_tail tail_written_d tail_class_d tail_alloc_ok_d].
  - reflexivity.
  - destruct (is_legacy_agent hdr); reflexivity.
  - destruct (N.eqb_spec (lenN p) 0) as [E0|E0].
    + rewrite E0. reflexivity.
    + destruct (N.ltb_spec (lenN p) 8) as [E8|E8]; [reflexivity|].
      cbn [written allocs ended end_class forallb]. rewrite le32_dec_takeN8 by exact E8.
      rewrite andb_true_r. reflexivity.
Qed.

Lemma serve_predict_d h hd ms t cs fuel :
  (forall m, h m = hd (desc_of m)) ->
  Forall valid_msg ms -> tail_ok t -> chunking cs (encode ms ++ tail_bytes t) -> (length ms < fuel)%nat ->
  proj_d (serve fuel h cs) = predict_d hd (map desc_of ms) (desc_tail t).
Proof.
  intros Hh Hv Ht Hc Hf. rewrite (serve_predict h ms t cs fuel Hv Ht Hc Hf). apply predict_desc. exact Hh.
Qed.

Lemma mk_handler_desc mode fixed : mode <> 2 -> mode <> 4 ->
  forall m, mk_handler mode fixed m = mk_dhandler mode fixed (desc_of m).
Proof.
  intros H2 H4 m. unfold mk_handler, mk_dhandler, desc_of. cbn [fst].
  destruct (N.eqb_spec mode 0); [reflexivity|]. destruct (N.eqb_spec mode 1); [reflexivity|].
  destruct (N.eqb_spec mode 2); [contradiction|]. destruct (N.eqb_spec mode 3); [reflexivity|].
  destruct (N.eqb_spec mode 4); [contradiction|]. reflexivity.
Qed.

(* ---- replies seen through their length (large replies) ---- *)

Lemma fill_iter a b k : forall s acc, lenN (snd (N.iter k (fill_step a b) (s, acc))) = k + lenN acc.
Proof.
  induction k as [|k IH] using N.peano_ind; intros s acc.
  - cbn. lia.
  - rewrite N.iter_succ. unfold fill_step at 1. cbn [snd lenN]. rewrite IH. lia.
Qed.

Lemma lenN_fill n a b : lenN (fill n a b) = n.
Proof. unfold fill. rewrite fill_iter. cbn [lenN]. lia. Qed.

Lemma mk_handler_len mode fixed : mode <> 2 -> mode <> 4 ->
  forall m, option_map lenN (mk_handler mode fixed m) = mk_lhandler mode (lenN fixed) (desc_of m).
Proof.
  intros H2 H4 m. unfold mk_handler, mk_lhandler, desc_of. cbn [fst].
  destruct (N.eqb_spec mode 0); [reflexivity|]. destruct (N.eqb_spec mode 1); [reflexivity|].
  destruct (N.eqb_spec mode 2); [contradiction|]. destruct (N.eqb_spec mode 3); [reflexivity|].
  destruct (N.eqb_spec mode 4); [contradiction|].
  destruct (N.eqb_spec mode 6); [cbn [option_map]; rewrite lenN_fill; reflexivity|].
  destruct (fst m mod 3) as [|[q|q|]]; reflexivity.
Qed.

Lemma reply_msgs_cons h m ms :
  reply_msgs h (m :: ms) = (match h m with Some r => [(fst m, r)] | None => [] end) ++ reply_msgs h ms.
Proof. reflexivity. Qed.

Lemma reply_descs_cons hl d ds :
  reply_descs hl (d :: ds) = (match hl d with Some n => [(fst d, n)] | None => [] end) ++ reply_descs hl ds.
Proof. reflexivity. Qed.

Lemma reply_msgs_descs h hl ms : (forall m, option_map lenN (h m) = hl (desc_of m)) ->
  map desc_of (reply_msgs h ms) = reply_descs hl (map desc_of ms).
Proof.
  intros Hh. induction ms as [|m ms IH]; [reflexivity|].
  rewrite reply_msgs_cons. cbn [map]. rewrite reply_descs_cons, map_app. f_equal; [|exact IH].
  rewrite <- (Hh m). destruct (h m) as [r|]; reflexivity.
Qed.

Lemma tail_written_desc t : written (tail_out t) = tail_written_d (desc_tail t).
Proof.
  destruct t as [|hdr e|p]; cbn [tail_out desc_tail tail_written_d]; [reflexivity| |].
  - destruct (is_legacy_agent hdr); reflexivity.
  - destruct (lenN p =? 0); [reflexivity|]. destruct (lenN p <? 8); reflexivity.
Qed.

Lemma predict_class_alloc h ms t :
  end_class (ended (predict h ms t)) = tail_class_d (desc_tail t) /\
  allocs_bounded (predict h ms t) =
    forallb (fun d => snd d <=? 2097152) (map desc_of ms) && tail_alloc_ok_d (desc_tail t).
Proof.
  unfold predict, allocs_bounded. cbn [allocs ended].
  rewrite forallb_app, !forallb_map_c. cbn [snd desc_of].
  destruct t as [|hdr e|p]; cbn [tail_out desc_tail tail_class_d tail_alloc_ok_d].
  - split; reflexivity.
  - destruct (is_legacy_agent hdr); split; reflexivity.
  - destruct (N.eqb_spec (lenN p) 0) as [E0|E0].
    + rewrite E0. split; reflexivity.
    + destruct (N.ltb_spec (lenN p) 8) as [E8|E8]; [split; reflexivity|].
      cbn [allocs ended end_class forallb]. rewrite le32_dec_takeN8 by exact E8.
      rewrite andb_true_r. split; reflexivity.
Qed.

(* the written bytes are the frames rs followed by the tail's answer, and the descriptors of what was
   delivered and of rs are the ones predict_dl computes from the request descriptors alone *)
Lemma serve_predict_dl h hl ms t cs fuel :
  (forall m, option_map lenN (h m) = hl (desc_of m)) ->
  Forall valid_msg ms -> tail_ok t -> chunking cs (encode ms ++ tail_bytes t) -> (length ms < fuel)%nat ->
  exists rs,
    written (serve fuel h cs) = encode rs ++ tail_written_d (desc_tail t) /\
    (map desc_of (delivered (serve fuel h cs)), map desc_of rs, tail_written_d (desc_tail t),
     end_class (ended (serve fuel h cs)), allocs_bounded (serve fuel h cs))
    = predict_dl hl (map desc_of ms) (desc_tail t).
Proof.
  intros Hh Hv Ht Hc Hf. exists (reply_msgs h ms).
  rewrite (serve_predict h ms t cs fuel Hv Ht Hc Hf).
  destruct (predict_class_alloc h ms t) as [Hcl Hal]. rewrite Hcl, Hal.
  unfold predict_dl. rewrite (reply_msgs_descs h hl ms Hh).
  split; [|reflexivity].
  unfold predict. cbn [written]. rewrite replies_encode, tail_written_desc. reflexivity.
Qed.

(* ------------------------------------------------------------------ *)
(* the monitors say what the property says                              *)
(* ------------------------------------------------------------------ *)

Lemma spec_legacy_eq h : spec_legacy h = is_legacy_agent h.
Proof.
  destruct h as [|p0 [|p1 [|p2 [|p3 [|p4 [|p5 r]]]]]]; try reflexivity.
  unfold spec_legacy, is_legacy_agent, spec_digit, is_digit.
  destruct ((48 <=? p0) && (p0 <=? 57)); cbn [negb andb]; [|reflexivity].
  destruct (p1 =? 32); cbn [negb andb]; [|reflexivity].
  destruct ((48 <=? p2) && (p2 <=? 57)); cbn [negb andb]; [|reflexivity].
  destruct (p3 =? 32); cbn [negb andb]; [|reflexivity].
  destruct (p4 =? 48); cbn [negb andb]; [|reflexivity].
  destruct (p5 =? 10); reflexivity.
Qed.

Lemma spec_announced_eq h : spec_announced h = le32_dec h.
Proof.
  destruct h as [|b0 [|b1 [|b2 [|b3 r]]]]; try reflexivity.
  unfold spec_announced, spec_u32, le32_dec. lia.
Qed.

Lemma bytes_eqb_eq a : forall b, bytes_eqb a b = true <-> a = b.
Proof.
  induction a as [|x a IH]; intros [|y b]; cbn [bytes_eqb]; split; intros H; try reflexivity; try discriminate.
  - apply andb_prop in H. destruct H as [H1 H2]. apply N.eqb_eq in H1. apply IH in H2. subst. reflexivity.
  - inversion H; subst. rewrite N.eqb_refl. cbn [andb]. apply IH. reflexivity.
Qed.

Lemma msgs_eqb_eq a : forall b, msgs_eqb a b = true <-> a = b.
Proof.
  induction a as [|[t1 b1] a IH]; intros [|[t2 b2] b]; cbn [msgs_eqb]; split; intros H;
    try reflexivity; try discriminate.
  - apply andb_prop in H. destruct H as [H1 H2]. unfold msg_eqb in H1. cbn [fst snd] in H1.
    apply andb_prop in H1. destruct H1 as [H1 H3]. apply N.eqb_eq in H1. apply bytes_eqb_eq in H3.
    apply IH in H2. subst. reflexivity.
  - inversion H; subst. unfold msg_eqb. cbn [fst snd]. rewrite N.eqb_refl.
    rewrite (proj2 (bytes_eqb_eq b2 b2) eq_refl). cbn [andb]. apply IH. reflexivity.
Qed.

Lemma le32_unique b0 b1 b2 b3 : b0 < 256 -> b1 < 256 -> b2 < 256 -> b3 < 256 ->
  le32 (spec_u32 b0 b1 b2 b3) = [b0; b1; b2; b3].
Proof.
  intros H0 H1 H2 H3. unfold le32, spec_u32.
  assert (E0 : (((b3 * 256 + b2) * 256 + b1) * 256 + b0) mod 256 = b0).
  { rewrite N.add_comm, N.mod_add by lia. apply N.mod_small. exact H0. }
  assert (D0 : (((b3 * 256 + b2) * 256 + b1) * 256 + b0) / 256 = (b3 * 256 + b2) * 256 + b1).
  { rewrite N.add_comm, N.div_add by lia. rewrite N.div_small by exact H0. reflexivity. }
  assert (E1 : ((b3 * 256 + b2) * 256 + b1) mod 256 = b1).
  { rewrite N.add_comm, N.mod_add by lia. apply N.mod_small. exact H1. }
  assert (D1 : ((b3 * 256 + b2) * 256 + b1) / 256 = b3 * 256 + b2).
  { rewrite N.add_comm, N.div_add by lia. rewrite N.div_small by exact H1. reflexivity. }
  assert (E2 : (b3 * 256 + b2) mod 256 = b2).
  { rewrite N.add_comm, N.mod_add by lia. apply N.mod_small. exact H2. }
  assert (D2 : (b3 * 256 + b2) / 256 = b3).
  { rewrite N.add_comm, N.div_add by lia. rewrite N.div_small by exact H2. reflexivity. }
  change 65536 with (256 * 256). change 16777216 with (256 * 256 * 256).
  rewrite <- !N.div_div by lia. rewrite E0, !D0, E1, !D1, E2, D2.
  rewrite (N.mod_small b3 256 H3). reflexivity.
Qed.

(* the bytes the property requires for a list of (request type, reply) pairs *)
Definition expected_bytes (exp : list (N * option bytes)) : bytes :=
  concat (map (fun e => match snd e with
                        | Some r => le32 (lenN r) ++ le32 (fst e) ++ r
                        | None => []
                        end) exp).

Lemma replies_framedb_sound exp : forall w rest, Forall (fun b => b < 256) w ->
  replies_framedb exp w = Some rest -> w = expected_bytes exp ++ rest.
Proof.
  induction exp as [|[ty [rep|]] exp IH]; intros w rest Hw H; cbn [replies_framedb] in H.
  - inversion H. reflexivity.
  - destruct w as [|l0 [|l1 [|l2 [|l3 [|t0 [|t1 [|t2 [|t3 w']]]]]]]]; try discriminate.
    destruct ((spec_u32 l0 l1 l2 l3 =? lenN rep) && (spec_u32 t0 t1 t2 t3 =? ty)
              && (lenN rep <=? lenN w') && bytes_eqb (takeN (lenN rep) w') rep) eqn:C; [|discriminate].
    apply andb_prop in C. destruct C as [C C4]. apply andb_prop in C. destruct C as [C C3].
    apply andb_prop in C. destruct C as [C1 C2].
    apply N.eqb_eq in C1. apply N.eqb_eq in C2. apply bytes_eqb_eq in C4.
    assert (Hall : l0 < 256 /\ l1 < 256 /\ l2 < 256 /\ l3 < 256 /\ t0 < 256 /\ t1 < 256 /\ t2 < 256 /\
                   t3 < 256 /\ Forall (fun b => b < 256) w').
    { repeat match goal with Hf : Forall _ (_ :: _) |- _ => inversion Hf; clear Hf; subst end.
      repeat split; assumption. }
    destruct Hall as (B0 & B1 & B2 & B3 & B4 & B5 & B6 & B7 & Bw).
    assert (Hw' : Forall (fun b => b < 256) (dropN (lenN rep) w')).
    { rewrite <- (takeN_dropN (lenN rep) w') in Bw. apply Forall_app in Bw. apply Bw. }
    specialize (IH _ _ Hw' H).
    unfold expected_bytes in *. cbn [map concat fst snd].
    rewrite <- C1, <- C2, !le32_unique by assumption. cbn [app].
    rewrite <- app_assoc, <- IH. rewrite <- C4 at 1. rewrite takeN_dropN. reflexivity.
  - unfold expected_bytes. cbn [map concat fst snd app]. apply IH; assumption.
Qed.

Lemma expected_bytes_replies h ms : expected_bytes (map (fun m => (fst m, h m)) ms) = replies h ms.
Proof. unfold expected_bytes, replies. rewrite map_map. reflexivity. Qed.

(* what the connection must carry after the replies, given the tail *)
Definition tail_answer (t : tail) : bytes :=
  match t with TBadHeader hdr _ => if is_legacy_agent hdr then legacy_reply else [] | _ => [] end.

Lemma monitor_rest_sound exp t o : monitor_rest exp t o = true ->
  o_closed o = true /\ o_alloc_bounded o = true /\ o_written o = expected_bytes exp ++ tail_answer t.
Proof.
  unfold monitor_rest. intros H.
  apply andb_prop in H. destruct H as [H H4]. apply andb_prop in H. destruct H as [H H3].
  apply andb_prop in H. destruct H as [H1 H2]. split; [exact H1|]. split; [exact H2|].
  assert (Hw : Forall (fun b => b < 256) (o_written o)).
  { apply Forall_forall. intros b Hb. rewrite forallb_forall in H3. specialize (H3 b Hb). lia. }
  destruct (replies_framedb exp (o_written o)) as [rest|] eqn:E; [|discriminate].
  apply (replies_framedb_sound exp _ _ Hw) in E. rewrite E. f_equal.
  destruct t as [|hdr e|p]; cbn [tail_answer]; try (apply bytes_eqb_eq; exact H4).
  rewrite <- spec_legacy_eq. destruct (spec_legacy hdr); apply bytes_eqb_eq; exact H4.
Qed.

Lemma monitor_sound h ms t got o : monitor h ms t got o = true ->
  got = ms /\ o_closed o = true /\ o_alloc_bounded o = true /\
  o_written o = replies h ms ++ tail_answer t.
Proof.
  unfold monitor. intros H. apply andb_prop in H. destruct H as [H1 H2].
  apply msgs_eqb_eq in H1. apply monitor_rest_sound in H2. rewrite expected_bytes_replies in H2.
  tauto.
Qed.

(* and the model's own behaviour satisfies exactly that (same right-hand sides as monitor_sound) *)
Lemma model_meets_monitor_spec h ms t cs fuel :
  Forall valid_msg ms -> tail_ok t -> chunking cs (encode ms ++ tail_bytes t) -> (length ms < fuel)%nat ->
  delivered (serve fuel h cs) = ms /\
  allocs_bounded (serve fuel h cs) = true /\
  written (serve fuel h cs) = replies h ms ++ tail_answer t.
Proof.
  intros Hv Ht Hc Hf. split; [|split].
  - rewrite (serve_predict h ms t cs fuel Hv Ht Hc Hf). reflexivity.
  - unfold allocs_bounded. apply forallb_forall. intros a Ha.
    pose proof (allocs_bounded_all fuel h cs) as B. rewrite Forall_forall in B. specialize (B a Ha). lia.
  - rewrite (reply_framed h ms t cs fuel Hv Ht Hc Hf). f_equal.
    destruct t as [|hdr e|p]; cbn [tail_out tail_answer]; [reflexivity| |].
    + destruct (is_legacy_agent hdr); reflexivity.
    + destruct (lenN p =? 0); [reflexivity|]. destruct (lenN p <? 8); reflexivity.
Qed.

(* ------------------------------------------------------------------ *)
(* non-vacuity                                                          *)
(* ------------------------------------------------------------------ *)

Definition ex_ms : list msg := [(2, [1; 2; 3]); (0, []); (4294967295, [255]); (7, [9; 8; 7; 6; 5; 4; 3; 2; 1])].
Definition ex_echo : handler := fun m => if fst m =? 0 then None else Some (snd m).

Example ex_valid : Forall valid_msg ex_ms.
Proof. repeat constructor; cbn; lia. Qed.

(* a chunking with 1-byte, empty, header-splitting and frame-spanning chunks *)
Example ex_roundtrip :
  let cs := chunk_by [1; 0; 3; 7; 2; 0; 0; 9; 1; 1; 1; 10] (encode ex_ms) in
  chunking cs (encode ex_ms) /\ (length ex_ms < 5)%nat /\ (length cs = 13)%nat /\
  serve 5 ex_echo cs = mk_out ex_ms (replies ex_echo ex_ms) [3; 0; 1; 9] EndEOF /\
  replies ex_echo ex_ms =
    [3;0;0;0; 2;0;0;0; 1;2;3] ++ [1;0;0;0; 255;255;255;255; 255] ++ [9;0;0;0; 7;0;0;0; 9;8;7;6;5;4;3;2;1].
Proof. cbn zeta. split; [apply chunk_by_chunking|]. vm_compute. repeat split; (lia || reflexivity). Qed.

(* the bound itself: a header announcing exactly 2 MiB is accepted, 2 MiB + 1 is not *)
Example ex_boundary :
  is_legacy_agent (header 2097152 2) = false /\ le32_dec (header 2097152 2) = 2097152 /\
  fst (read_message [header 2097153 2]) = RmErrTooLarge 2097153 /\
  snd (read_message [header 2097153 2]) = [] /\
  read_message [header 2097152 2] = (RmErrTruncatedBody, [2097152]).
Proof. vm_compute. repeat split; reflexivity. Qed.

Example ex_oversize :
  let hdr := header 4294967295 2 in
  lenN hdr = 8 /\ is_legacy_agent hdr = false /\ 2097152 < le32_dec hdr /\
  serve 5 ex_echo (chunk_by [5; 1; 40; 3] (encode ex_ms ++ hdr ++ frame (2, [1])))
  = mk_out ex_ms (replies ex_echo ex_ms) [3; 0; 1; 9] (EndTooLarge 4294967295).
Proof. vm_compute. repeat split; reflexivity. Qed.

(* "1 2 0\n" + two more bytes: legacy; as a new-format header it would announce 540155953 bytes *)
Example ex_legacy :
  let hdr := [49; 32; 50; 32; 48; 10; 0; 0] in
  lenN hdr = 8 /\ is_legacy_agent hdr = true /\ le32_dec hdr = 540155953 /\
  serve 5 ex_echo (chunk_by [5; 1; 40; 3] (encode ex_ms ++ hdr ++ frame (2, [1])))
  = mk_out ex_ms (replies ex_echo ex_ms ++ legacy_reply) [3; 0; 1; 9] EndLegacy /\
  (* one byte off the pattern: not legacy, rejected by size, no answer *)
  is_legacy_agent [49; 32; 50; 32; 49; 10; 0; 0] = false /\
  serve 5 ex_echo [[49; 32; 50; 32; 49; 10; 0; 0]] = mk_out [] [] [] (EndTooLarge 540155953).
Proof. vm_compute. repeat split; reflexivity. Qed.

Example ex_truncated :
  (* cut inside the body of the 4th message, inside a header, and on a frame boundary *)
  (35 < length (encode ex_ms))%nat /\
  serve 5 ex_echo (chunk_by [4; 4; 4] (firstn 42 (encode ex_ms)))
  = mk_out (firstn 3 ex_ms) (replies ex_echo (firstn 3 ex_ms)) [3; 0; 1; 9] EndTruncatedBody /\
  serve 5 ex_echo (chunk_by [4; 4; 4] (firstn 15 (encode ex_ms)))
  = mk_out (firstn 1 ex_ms) (replies ex_echo (firstn 1 ex_ms)) [3] EndTruncatedHeader /\
  serve 5 ex_echo (chunk_by [4; 4; 4] (firstn 19 (encode ex_ms)))
  = mk_out (firstn 2 ex_ms) (replies ex_echo (firstn 2 ex_ms)) [3; 0] EndEOF.
Proof. vm_compute. repeat split; (lia || reflexivity). Qed.

Example ex_tail_ok_partial : tail_ok (TPartial (firstn 10 (frame (7, [9; 8; 7])))).
Proof. exists (7, [9; 8; 7]), [7]. split; [split; cbn; lia|]. split; [discriminate|reflexivity]. Qed.

Example ex_monitor :
  let o := serve 5 ex_echo (chunk_by [3; 3] (encode ex_ms)) in
  monitor ex_echo ex_ms TNone (delivered o) (mk_obs (written o) true (allocs_bounded o)) = true /\
  (* a reply framed with the wrong type, a dropped message, a partial message: all rejected *)
  monitor ex_echo [(2, [1])] TNone [(2, [1])] (mk_obs [1;0;0;0; 3;0;0;0; 1] true true) = false /\
  monitor ex_echo [(2, [1]); (3, [])] TNone [(2, [1])] (mk_obs [1;0;0;0; 2;0;0;0; 1] true true) = false /\
  monitor ex_echo [] (TPartial [1;0;0]) [(0, [])] (mk_obs [] true true) = false /\
  monitor ex_echo [] (TBadHeader [49; 32; 50; 32; 49; 10; 0; 0] []) [] (mk_obs legacy_reply true true) = false /\
  monitor ex_echo [] (TBadHeader [49; 32; 50; 32; 48; 10; 0; 0] []) [] (mk_obs legacy_reply true true) = true.
Proof. vm_compute. repeat split; reflexivity. Qed.
