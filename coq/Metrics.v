(* Metrics.v -- model of daemon/internal/newrelic/metrics.go (MetricTable) and of
   aggregateMetrics in commands.go.  Definitions only; proofs are in MetricsProofs.v.

   Exact domain: the six float64 fields of metricData are modelled as integers (Z).  On
   integer-valued floats below 2^53 float64 addition and comparison are exact, the generators
   stay below 2^40; nothing is claimed outside that domain (NaN, rounding).

   Go map iteration order is random.  Every function that ranges over a table's map takes the
   iteration order as an explicit argument [ord] (a list of (key, entry) pairs); the theorems
   quantify over every [ord] that is a permutation of the table's entries.  The versions without
   [ord] use the stored order and are what the correspondence executes. *)
From Coq Require Import ZArith NArith List Bool Permutation.
From Verif.Gen Require Import Limits_gen.
Import ListNotations.
Open Scope Z_scope.

(* ---- names and keys: byte strings; a key is (name, scope), scope [] = unscoped ---- *)
Definition name := list N.
Definition key := (name * name)%type.

Fixpoint name_eqb (a b : name) : bool :=
  match a, b with
  | [], [] => true
  | x :: a', y :: b' => if N.eqb x y then name_eqb a' b' else false
  | _, _ => false
  end.
(* written with [if], not [&&]: under call-by-value evaluation [&&] would always compare both parts *)
Definition key_eqb (a b : key) : bool := if name_eqb (fst a) (fst b) then name_eqb (snd a) (snd b) else false.

(* ---- metricData and metricData.aggregate ---- *)
Record mdata := MD { cnt : Z; tot : Z; exc : Z; mn : Z; mx : Z; ssq : Z }.

Definition aggregate (d s : mdata) : mdata :=
  MD (cnt d + cnt s) (tot d + tot s) (exc d + exc s)
     (if mn s <? mn d then mn s else mn d)
     (if mx d <? mx s then mx s else mx d)
     (ssq d + ssq s).

(* metric{forced, data}; forced = true is Go's Forced *)
Record mentry := ME { forced : bool; data : mdata }.

(* MetricTable: maxTableSize, count, numDropped, failedHarvests, metrics (the nested map, flattened) *)
Record table := T { tmax : Z; tcount : Z; tdropped : Z; tfailed : Z; entries : list (key * mentry) }.

Definition new_table (max : Z) : table := T max 0 0 0 [].
Definition full (t : table) : bool := tmax t <=? tcount t.

Fixpoint lookup (k : key) (l : list (key * mentry)) : option mentry :=
  match l with
  | [] => None
  | (k', e) :: r => if key_eqb k k' then Some e else lookup k r
  end.

(* existing key: to.data.aggregate(&m.data), the forced flag of the stored metric is kept;
   absent key: *to = *m *)
Fixpoint upsert (k : key) (m : mentry) (l : list (key * mentry)) : list (key * mentry) :=
  match l with
  | [] => [(k, m)]
  | (k', e) :: r =>
      if key_eqb k k' then (k', ME (forced e) (aggregate (data e) (data m))) :: r
      else (k', e) :: upsert k m r
  end.

(* func (mt *MetricTable) mergeMetric *)
Definition merge_metric (t : table) (k : key) (m : mentry) : table :=
  match lookup k (entries t) with
  | None =>
      if full t && negb (forced m)
      then T (tmax t) (tcount t) (tdropped t + 1) (tfailed t) (entries t)
      else T (tmax t) (tcount t + 1) (tdropped t) (tfailed t) (upsert k m (entries t))
  | Some _ => T (tmax t) (tcount t) (tdropped t) (tfailed t) (upsert k m (entries t))
  end.

Definition merge_entries (t : table) (ord : list (key * mentry)) : table :=
  fold_left (fun a ke => merge_metric a (fst ke) (snd ke)) ord t.

(* func (mt *MetricTable) Merge(from) *)
Definition merge_ord (t : table) (ord : list (key * mentry)) : table := merge_entries t ord.
Definition merge (t from : table) : table := merge_ord t (entries from).

(* func (mt *MetricTable) MergeFailed(from): the counter keeps the maximum *)
Definition merge_failed_ord (t from : table) (ord : list (key * mentry)) : table :=
  let fails := tfailed from + 1 in
  if FailedMetricAttemptsLimit <? fails then t
  else merge_entries
         (T (tmax t) (tcount t) (tdropped t) (if tfailed t <? fails then fails else tfailed t) (entries t))
         ord.
Definition merge_failed (t from : table) : table := merge_failed_ord t from (entries from).

(* func (mt *MetricTable) ApplyRules(rules) for non-empty rules; [rn] is the renaming
   (second component of MetricRules.Apply).  New table, failedHarvests copied, the capacity is
   lifted to mt.count while refilling and restored afterwards. *)
Definition apply_rules_ord (rn : name -> name) (t : table) (ord : list (key * mentry)) : table :=
  let lifted := if tmax t <? tcount t then tcount t else tmax t in
  let filled := fold_left (fun a ke => merge_metric a (rn (fst (fst ke)), snd (fst ke)) (snd ke))
                          ord (T lifted 0 0 (tfailed t) []) in
  T (tmax t) (tcount filled) (tdropped filled) (tfailed filled) (entries filled).
Definition apply_rules (rn : name -> name) (t : table) : table := apply_rules_ord rn t (entries t).
(* nil or empty rule list: ApplyRules returns mt itself *)
Definition apply_rules_opt (rn : option (name -> name)) (t : table) : table :=
  match rn with None => t | Some f => apply_rules f t end.

(* AddRaw / AddCount / AddValue *)
Definition add_raw (t : table) (n scope : name) (d : mdata) (f : bool) : table :=
  merge_metric t (n, scope) (ME f d).
Definition count_data (c : Z) : mdata := MD c 0 0 0 0 0.
Definition value_data (v : Z) : mdata := MD 1 v 0 v v (v * v).
Definition add_count (t : table) (n scope : name) (c : Z) (f : bool) : table := add_raw t n scope (count_data c) f.
Definition add_value (t : table) (n scope : name) (v : Z) (f : bool) : table := add_raw t n scope (value_data v) f.

(* aggregateMetrics(txn, h, txnName): every metric unscoped, a scoped one also under the txn name *)
Record tmetric := TM { tm_name : name; tm_scoped : bool; tm_forced : bool; tm_data : mdata }.
Definition aggregate_metric1 (txn : name) (t : table) (m : tmetric) : table :=
  let t1 := add_raw t (tm_name m) [] (tm_data m) (tm_forced m) in
  if tm_scoped m then add_raw t1 (tm_name m) txn (tm_data m) (tm_forced m) else t1.
Definition aggregate_metrics (t : table) (txn : name) (ms : list tmetric) : table :=
  fold_left (aggregate_metric1 txn) ms t.

(* ---- observation of a table: key -> six numbers ---- *)
Definition get (k : key) (t : table) : option mdata := option_map data (lookup k (entries t)).
Definition unforced_count (t : table) : Z :=
  Z.of_nat (length (filter (fun ke => negb (forced (snd ke))) (entries t))).

(* ================= specification side (does not mention tables) ================= *)

(* a contribution: what one AddRaw call carries *)
Record contrib := C { ckey : key; cforced : bool; cdata : mdata }.

(* the commutative monoid (option mdata, oplus): None = no contribution *)
Definition oplus (a b : option mdata) : option mdata :=
  match a, b with
  | None, x => x
  | x, None => x
  | Some x, Some y => Some (aggregate x y)
  end.
Definition msum (l : list (option mdata)) : option mdata := fold_right oplus None l.

(* the combination of all contributions received for key k *)
Definition at_key (k : key) (c : contrib) : option mdata := if key_eqb (ckey c) k then Some (cdata c) else None.
Definition combined (cs : list contrib) (k : key) : option mdata := msum (map (at_key k) cs).

(* the same, written field by field as the property text does: added / minimum / maximum *)
Definition zsum (l : list Z) : Z := fold_right Z.add 0 l.
Definition fieldwise (ds : list mdata) : option mdata :=
  match ds with
  | [] => None
  | d :: r =>
      Some (MD (zsum (map cnt ds)) (zsum (map tot ds)) (zsum (map exc ds))
               (fold_right Z.min (mn d) (map mn r)) (fold_right Z.max (mx d) (map mx r))
               (zsum (map ssq ds)))
  end.
Definition datas_at (k : key) (cs : list contrib) : list mdata :=
  map cdata (filter (fun c => key_eqb (ckey c) k) cs).

(* one AddRaw/AddCount/AddValue call *)
Inductive aop :=
| ARaw (k : key) (f : bool) (d : mdata)
| ACount (k : key) (f : bool) (c : Z)
| AValue (k : key) (f : bool) (v : Z).
Definition aop_contrib (a : aop) : contrib :=
  match a with
  | ARaw k f d => C k f d
  | ACount k f c => C k f (count_data c)
  | AValue k f v => C k f (value_data v)
  end.
Definition add_op (t : table) (a : aop) : table :=
  match a with
  | ARaw k f d => add_raw t (fst k) (snd k) d f
  | ACount k f c => add_count t (fst k) (snd k) c f
  | AValue k f v => add_value t (fst k) (snd k) v f
  end.
Definition add_ops (t : table) (l : list aop) : table := fold_left add_op l t.

Definition tmetric_contribs (txn : name) (m : tmetric) : list contrib :=
  C (tm_name m, []) (tm_forced m) (tm_data m) ::
  (if tm_scoped m then [C (tm_name m, txn) (tm_forced m) (tm_data m)] else []).

(* how a table comes to be: any regrouping of contributions into direct adds, transactions,
   merges, carry-overs of failed harvests and rule applications *)
Inductive build :=
| BNew (max : Z)
| BAdds (b : build) (l : list aop)
| BTxn (b : build) (txn : name) (ms : list tmetric)
| BMerge (b from : build)
| BMergeFailed (b from : build)
| BRules (b : build) (rn : option (name -> name)).

(* failed-attempt counter of the table a build yields; [lim] = attempts limit *)
Fixpoint bfailed (lim : Z) (b : build) : Z :=
  match b with
  | BNew _ => 0
  | BAdds b _ | BTxn b _ _ | BMerge b _ | BRules b _ => bfailed lim b
  | BMergeFailed b f =>
      let fails := bfailed lim f + 1 in
      if lim <? fails then bfailed lim b else Z.max (bfailed lim b) fails
  end.

Definition rename_contrib (rn : name -> name) (c : contrib) : contrib :=
  C (rn (fst (ckey c)), snd (ckey c)) (cforced c) (cdata c).

(* the contributions a build is made of (those of a given-up failed harvest are discarded by design) *)
Fixpoint contribs (lim : Z) (b : build) : list contrib :=
  match b with
  | BNew _ => []
  | BAdds b l => contribs lim b ++ map aop_contrib l
  | BTxn b txn ms => contribs lim b ++ flat_map (tmetric_contribs txn) ms
  | BMerge b f => contribs lim b ++ contribs lim f
  | BMergeFailed b f =>
      if lim <? bfailed lim f + 1 then contribs lim b else contribs lim b ++ contribs lim f
  | BRules b None => contribs lim b
  | BRules b (Some rn) => map (rename_contrib rn) (contribs lim b)
  end.

(* executable evaluation with the stored iteration order *)
Fixpoint exec (b : build) : table :=
  match b with
  | BNew max => new_table max
  | BAdds b l => add_ops (exec b) l
  | BTxn b txn ms => aggregate_metrics (exec b) txn ms
  | BMerge b f => merge (exec b) (exec f)
  | BMergeFailed b f => merge_failed (exec b) (exec f)
  | BRules b rn => apply_rules_opt rn (exec b)
  end.

(* evaluation under EVERY map iteration order; the third index counts the refusals
   (numDropped increments) that happened anywhere in the build *)
Inductive builds : build -> table -> Z -> Prop :=
| B_new max : builds (BNew max) (new_table max) 0
| B_adds b t r l : builds b t r ->
    builds (BAdds b l) (add_ops t l) (r + (tdropped (add_ops t l) - tdropped t))
| B_txn b t r txn ms : builds b t r ->
    builds (BTxn b txn ms) (aggregate_metrics t txn ms)
           (r + (tdropped (aggregate_metrics t txn ms) - tdropped t))
| B_merge b f t tf r rf ord : builds b t r -> builds f tf rf -> Permutation ord (entries tf) ->
    builds (BMerge b f) (merge_ord t ord) (r + rf + (tdropped (merge_ord t ord) - tdropped t))
| B_mfail b f t tf r rf ord : builds b t r -> builds f tf rf -> Permutation ord (entries tf) ->
    builds (BMergeFailed b f) (merge_failed_ord t tf ord)
           (r + rf + (tdropped (merge_failed_ord t tf ord) - tdropped t))
| B_rules_none b t r : builds b t r -> builds (BRules b None) t r
| B_rules_some b t r rn ord : builds b t r -> Permutation ord (entries t) ->
    builds (BRules b (Some rn)) (apply_rules_ord rn t ord) (r + tdropped (apply_rules_ord rn t ord)).

(* a refusal, stated on the table's observable state: absent key, table full, unforced metric *)
Definition refuses (t : table) (k : key) (m : mentry) : bool :=
  match get k t with None => full t && negb (forced m) | Some _ => false end.
Fixpoint count_refused (t : table) (ord : list (key * mentry)) : Z :=
  match ord with
  | [] => 0
  | ke :: r => (if refuses t (fst ke) (snd ke) then 1 else 0) + count_refused (merge_metric t (fst ke) (snd ke)) r
  end.
