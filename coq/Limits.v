(* Limits.v -- model of the limit negotiation of the daemon (C05).  Definitions only; proofs are in
   LimitsProofs.v.

   Transcribed from
     daemon/internal/newrelic/collector/event_data.go   getEventConfig, EventHarvestConfig.UnmarshalJSON,
                                                         SpanEventHarvestConfig.UnmarshalJSON, NewHarvestLimits,
                                                         NewEventHarvestConfig, EventHarvestConfig.MarshalJSON
     daemon/internal/newrelic/app.go                     combineEventConfig, parseConnectReply (event part)
     daemon/internal/newrelic/processor.go               processLogEventLimits
     daemon/internal/newrelic/commands.go                UnmarshalAppInfo (the three uint64 -> int conversions)
     daemon/internal/newrelic/harvest.go                 NewHarvest (which limit each reservoir gets)
   Constants come from Verif.Gen.Limits_gen (generated from limits.go on every run).

   Numbers.  Go's int is int64 here.  JSON numbers are arbitrary integers (Z); a value that does not
   fit the Go type is a decoding error, as encoding/json reports it.  Durations are int64 nanoseconds
   with Go's wrap-around multiplication.  The float64 arithmetic of processLogEventLimits is modelled
   on Z: agent * collectorPeriod is an exact integer product, the division by 60 s is truncated
   towards zero (Go's float64 -> int conversion).  This is exact whenever the product is below 2^53;
   above that the float64 result is >= 1.5e5 > every collector limit, so the comparison that
   follows has the same outcome (argument in LimitsProofs.v, remark `float_domain`); a quotient
   outside int64 converts to the minimum int64 on amd64, which is what [f2i] returns. *)
From Coq Require Import ZArith List Bool.
From Verif.Gen Require Import Limits_gen.
Import ListNotations.
Open Scope Z_scope.

(* ------------------------------------------------------------------ machine integers *)
Definition two63 : Z := 2 ^ 63.
Definition two64 : Z := 2 ^ 64.
Definition in_int64 (z : Z) : bool := (- two63 <=? z) && (z <? two63).
Definition in_uint64 (z : Z) : bool := (0 <=? z) && (z <? two64).
(* conversion of any integer to int64: two's complement *)
Definition wrap64 (z : Z) : Z := let m := z mod two64 in if m <? two63 then m else m - two64.
(* int(x) for a uint64 x *)
Definition int_of_uint64 (u : Z) : Z := wrap64 u.
(* int(f) for a float64 f holding the integer q: out of range gives the minimum int64 (amd64) *)
Definition f2i (q : Z) : Z := if in_int64 q then q else - two63.

(* ------------------------------------------------------------------ JSON values of the connect reply *)
(* what the collector wrote for one numeric member *)
Inductive jval :=
| JAbsent            (* member not present *)
| JNull              (* null *)
| JInt (z : Z)       (* an integer literal of any size *)
| JOther.            (* any other JSON value (string, fraction, object ...): a type error *)

(* decoding into a *int field whose initial value is [init] (nil or a pointer to a default).
   None = json.Unmarshal returns an error *)
Definition dec_int_ptr (j : jval) (init : option Z) : option (option Z) :=
  match j with
  | JAbsent => Some init
  | JNull => Some None
  | JInt z => if in_int64 z then Some (Some z) else None
  | JOther => None
  end.
(* decoding into a uint64 field with initial value [init] *)
Definition dec_uint64 (j : jval) (init : Z) : option Z :=
  match j with
  | JAbsent | JNull => Some init
  | JInt z => if in_uint64 z then Some z else None
  | JOther => None
  end.

(* event_harvest_config: report_period_ms and harvest_limits.{error,analytic,custom,span,log}_event_data *)
Record raw_ehc := RawEhc { r_period : jval; r_error : jval; r_txn : jval; r_custom : jval; r_span : jval; r_log : jval }.
(* span_event_harvest_config: report_period_ms and harvest_limit *)
Record raw_sehc := RawSehc { s_period : jval; s_limit : jval }.
(* the two members of the connect reply; None = the member is absent (the Go struct keeps its zero value) *)
Record reply_in := ReplyIn { in_ehc : option raw_ehc; in_sehc : option raw_sehc }.

(* ------------------------------------------------------------------ collector.Event / EventConfigs *)
Record evcfg := EvCfg { ec_limit : Z; ec_period : Z }.        (* Limit int; ReportPeriod time.Duration (ns) *)
Record configs := Cfgs { c_error : evcfg; c_txn : evcfg; c_custom : evcfg; c_span : evcfg; c_log : evcfg }.
Record ehconfig := Ehc { report_period : Z; cfgs : configs }.
Definition zero_evcfg : evcfg := EvCfg 0 0.
Definition zero_ehc : ehconfig := Ehc 0 (Cfgs zero_evcfg zero_evcfg zero_evcfg zero_evcfg zero_evcfg).

Definition millisecond : Z := 1000000.
(* time.Duration(ms) * time.Millisecond on a uint64 ms: both steps wrap *)
Definition duration_of_ms (ms : Z) : Z := wrap64 (wrap64 ms * millisecond).
(* durationToMilliseconds(limits.DefaultReportPeriod) *)
Definition default_period_ms : Z := DefaultReportPeriod / millisecond.

(* func getEventConfig(rawLimit *int, collectorRate, defaultLimit, defaultRate); None = error *)
Definition get_event_config (raw : option Z) (collector_rate default_limit default_rate : Z) : option evcfg :=
  match raw with
  | None => Some (EvCfg default_limit default_rate)
  | Some l =>
      if l <? 0 then None
      else Some (EvCfg (if default_limit <? l then default_limit else l) collector_rate)
  end.

(* the validated report period: 0 is replaced by the default *)
Definition report_period_of (ms : Z) : Z := if ms =? 0 then DefaultReportPeriod else duration_of_ms ms.

Definition obind {A B} (o : option A) (f : A -> option B) : option B := match o with Some x => f x | None => None end.

(* func (daemonConfig *EventHarvestConfig) UnmarshalJSON *)
Definition unmarshal_ehc (r : raw_ehc) : option ehconfig :=
  obind (dec_uint64 (r_period r) default_period_ms) (fun ms =>
  obind (dec_int_ptr (r_error r) None) (fun l_error =>
  obind (dec_int_ptr (r_txn r) None) (fun l_txn =>
  obind (dec_int_ptr (r_custom r) None) (fun l_custom =>
  obind (dec_int_ptr (r_span r) None) (fun l_span =>
  obind (dec_int_ptr (r_log r) None) (fun l_log =>
  let rp := report_period_of ms in
  obind (get_event_config l_error rp MaxErrorEvents DefaultReportPeriod) (fun e_error =>
  obind (get_event_config l_txn rp MaxTxnEvents DefaultReportPeriod) (fun e_txn =>
  obind (get_event_config l_custom rp MaxCustomMaxEvents DefaultReportPeriod) (fun e_custom =>
  obind (get_event_config l_span rp MaxSpanMaxEvents DefaultReportPeriod) (fun e_span =>
  obind (get_event_config l_log rp MaxLogMaxEvents DefaultReportPeriod) (fun e_log =>
  Some (Ehc rp (Cfgs e_error e_txn e_custom e_span e_log))))))))))))).

(* func (daemonConfig *SpanEventHarvestConfig) UnmarshalJSON: the limit pointer starts at &MaxSpanMaxEvents *)
Definition unmarshal_sehc (r : raw_sehc) : option evcfg :=
  obind (dec_uint64 (s_period r) default_period_ms) (fun ms =>
  obind (dec_int_ptr (s_limit r) (Some MaxSpanMaxEvents)) (fun l =>
  get_event_config l (report_period_of ms) MaxSpanMaxEvents DefaultReportPeriod)).

(* func combineEventConfig(ehc, sehc) *)
Definition combine_event_config (e : ehconfig) (s : evcfg) : ehconfig :=
  let c := cfgs e in
  Ehc (report_period e) (Cfgs (c_error c) (c_txn c) (c_custom c) (EvCfg (ec_limit s) (ec_period s)) (c_log c)).

(* the event part of parseConnectReply (a reply with an agent run id): None = error *)
Definition parse_connect_reply (r : reply_in) : option ehconfig :=
  obind (match in_ehc r with None => Some zero_ehc | Some x => unmarshal_ehc x end) (fun e =>
  obind (match in_sehc r with None => Some zero_evcfg | Some x => unmarshal_sehc x end) (fun s =>
  Some (combine_event_config e s))).

(* ------------------------------------------------------------------ the agent's settings *)
(* span / log / custom _events_max_samples_stored of the App message: uint64, 0 when absent *)
Record agent_u64 := Agent { a_span : Z; a_log : Z; a_custom : Z }.
(* UnmarshalAppInfo: info.AgentEventLimits.X.Limit = int(app.X()) *)
Record agent_limits := AgentLimits { al_span : Z; al_log : Z; al_custom : Z }.
Definition unmarshal_agent_limits (a : agent_u64) : agent_limits :=
  AgentLimits (int_of_uint64 (a_span a)) (int_of_uint64 (a_log a)) (int_of_uint64 (a_custom a)).

(* ------------------------------------------------------------------ processLogEventLimits *)
Definition scale_agent_log (agent_log collector_period : Z) : Z :=
  f2i (Z.quot (agent_log * collector_period) DefaultReportPeriod).

(* agentLogLimitValid := agentLogLimit >= 0 is recorded BEFORE the scaling (fix b82e6ce): a small negative
   value scaled to a short period truncates to 0 and would otherwise pass the test after the scaling *)
Definition final_log_limit (agent_log collector_limit collector_period : Z) : Z :=
  let valid := 0 <=? agent_log in
  let scaled := scale_agent_log agent_log collector_period in
  if valid && (0 <=? scaled) && (scaled <? collector_limit) then scaled else collector_limit.

Definition process_log_event_limits (agent_log : Z) (e : ehconfig) : ehconfig :=
  let c := cfgs e in
  Ehc (report_period e)
      (Cfgs (c_error c) (c_txn c) (c_custom c) (c_span c)
            (EvCfg (final_log_limit agent_log (ec_limit (c_log c)) (ec_period (c_log c))) (ec_period (c_log c)))).

(* ------------------------------------------------------------------ NewHarvest: reservoir capacities *)
Inductive ecat := EError | ETxn | ECustom | ESpan | ELog.
Definition cfg_of (c : configs) (k : ecat) : evcfg :=
  match k with EError => c_error c | ETxn => c_txn c | ECustom => c_custom c | ESpan => c_span c | ELog => c_log c end.
(* NewErrorEvents(hl.ErrorEventConfig.Limit) etc. *)
Definition harvest_cap (e : ehconfig) (k : ecat) : Z := ec_limit (cfg_of (cfgs e) k).
(* the daemon maxima *)
Definition daemon_max (k : ecat) : Z :=
  match k with EError => MaxErrorEvents | ETxn => MaxTxnEvents | ECustom => MaxCustomMaxEvents
             | ESpan => MaxSpanMaxEvents | ELog => MaxLogMaxEvents end.

(* connect: parse the reply, fold the agent's log limit in, size the reservoirs *)
Definition negotiate (a : agent_u64) (r : reply_in) : option ehconfig :=
  option_map (process_log_event_limits (al_log (unmarshal_agent_limits a))) (parse_connect_reply r).

(* ------------------------------------------------------------------ what is advertised at connect *)
Definition lowered (max agent : Z) : Z := if (agent <? max) && (0 <=? agent) then agent else max.
(* func NewHarvestLimits(agentLimits *EventConfigs) *)
Definition new_harvest_limits (a : option agent_limits) : configs :=
  let span := match a with Some x => lowered MaxSpanMaxEvents (al_span x) | None => MaxSpanMaxEvents end in
  let log := match a with Some x => lowered MaxLogMaxEvents (al_log x) | None => MaxLogMaxEvents end in
  let custom := match a with Some x => lowered MaxCustomMaxEvents (al_custom x) | None => MaxCustomMaxEvents end in
  Cfgs (EvCfg MaxErrorEvents 0) (EvCfg MaxTxnEvents 0) (EvCfg custom 0) (EvCfg span 0) (EvCfg log 0).
(* func NewEventHarvestConfig(agentLimits *EventConfigs) *)
Definition new_event_harvest_config (a : option agent_limits) : ehconfig :=
  Ehc DefaultReportPeriod (new_harvest_limits a).
(* EventHarvestConfig.MarshalJSON: report_period_ms and the five limits (error, analytic, custom, span, log) *)
Definition advertised (a : agent_u64) : Z * (Z * Z * Z * Z * Z) :=
  let e := new_event_harvest_config (Some (unmarshal_agent_limits a)) in
  let c := cfgs e in
  (report_period e / millisecond,
   (ec_limit (c_error c), ec_limit (c_txn c), ec_limit (c_custom c), ec_limit (c_span c), ec_limit (c_log c))).

(* ================= specification side: the property's own words and numbers ================= *)
(* documented maxima *)
Definition doc_max (k : ecat) : Z :=
  match k with EError => 100 | ETxn => 10000 | ECustom => 100000 | ESpan => 10000 | ELog => 20000 end.
(* the collector's harvest limit for a category as written in the reply (span: span_event_harvest_config) *)
Definition collector_jval (r : reply_in) (k : ecat) : option jval :=
  match k with
  | ESpan => option_map s_limit (in_sehc r)
  | EError => option_map r_error (in_ehc r)
  | ETxn => option_map r_txn (in_ehc r)
  | ECustom => option_map r_custom (in_ehc r)
  | ELog => option_map r_log (in_ehc r)
  end.
(* min(daemon maximum, collector limit); no collector limit given: the daemon maximum *)
Definition capped (max : Z) (j : jval) : Z :=
  match j with JInt z => Z.min max z | _ => max end.
(* the report period the collector asked for, in ns (60 s when absent or 0); for a category whose limit is
   not given the daemon keeps its own 60 s *)
Definition spec_period_ms (j : jval) : Z := match j with JInt z => if z =? 0 then 60000 else z | _ => 60000 end.

(* ---- monitor of one negotiation (inputs + implementation outputs only; documented numbers) ---- *)
Record nego_obs := NegoObs {
  o_parse_ok : bool;                     (* parseConnectReply returned no error *)
  o_caps : list Z;                       (* cap() of the error, txn, custom, span, log reservoirs of NewHarvest *)
  o_adv_period_ms : Z;                   (* connect payload: event_harvest_config.report_period_ms *)
  o_adv : list Z                         (* ... harvest_limits: error, analytic, custom, span, log *)
}.

Definition ecats : list ecat := [EError; ETxn; ECustom; ESpan; ELog].
Definition jval_ok_int (j : jval) : bool :=
  match j with JInt z => (0 <=? z) && (z <? 2 ^ 63) | JOther => false | _ => true end.
Definition jval_ok_u64 (j : jval) : bool :=
  match j with JInt z => (0 <=? z) && (z <? 2 ^ 64) | JOther => false | _ => true end.
(* every number of the reply is a non-negative integer that fits: the reply must be accepted *)
Definition reply_well_formed (r : reply_in) : bool :=
  match in_ehc r with
  | None => true
  | Some e => jval_ok_u64 (r_period e) && jval_ok_int (r_error e) && jval_ok_int (r_txn e) &&
              jval_ok_int (r_custom e) && jval_ok_int (r_span e) && jval_ok_int (r_log e)
  end &&
  match in_sehc r with
  | None => true
  | Some s => jval_ok_u64 (s_period s) && jval_ok_int (s_limit s)
  end.
(* some limit is negative: the reply must be refused *)
Definition jval_negative (j : jval) : bool := match j with JInt z => (z <? 0) && (- 2 ^ 63 <=? z) | _ => false end.

(* the period (ms) that applies to log events: the collector's period when it gave a log limit, else 60 s *)
Definition spec_log_period_ms (r : reply_in) : Z :=
  match in_ehc r with
  | Some e => match r_log e with JInt _ => spec_period_ms (r_period e) | _ => 60000 end
  | None => 60000
  end.

Definition mon_cap (a : agent_u64) (r : reply_in) (k : ecat) (cap : Z) : bool :=
  (0 <=? cap) &&
  match collector_jval r k with
  | None => cap <=? doc_max k                                   (* configuration object absent *)
  | Some j =>
      let c := capped (doc_max k) j in
      match k with
      | ELog =>
          (* the agent's limit counts for one minute; scaled to the collector's report period *)
          let agent := a_log a in
          if agent <? 2 ^ 63 then
            let scaled := agent * spec_log_period_ms r / 60000 in
            if spec_log_period_ms r <? 2 ^ 40 then cap =? Z.min c scaled else cap <=? c
          else cap =? c                                          (* >= 2^63, not a valid count: ignored *)
      | _ => cap =? c
      end
  end.

Definition mon_adv1 (max agent adv : Z) : bool :=
  adv =? (if agent <? max then agent else max).      (* agent is a uint64: >= 0 *)

Definition mon_nego (a : agent_u64) (r : reply_in) (o : nego_obs) : bool :=
  (* advertised: the maxima, lowered to the agent's span / log / custom settings *)
  (o_adv_period_ms o =? 60000) &&
  match o_adv o with
  | [ad_error; ad_txn; ad_custom; ad_span; ad_log] =>
      (ad_error =? 100) && (ad_txn =? 10000) && mon_adv1 100000 (a_custom a) ad_custom &&
      mon_adv1 10000 (a_span a) ad_span && mon_adv1 20000 (a_log a) ad_log
  | _ => false
  end &&
  (* the reply is accepted when well formed *)
  (if reply_well_formed r then o_parse_ok o else true) &&
  (if existsb (fun k => match collector_jval r k with Some j => jval_negative j | None => false end) ecats
   then negb (o_parse_ok o) else true) &&
  (* capacities *)
  (if o_parse_ok o then
     match o_caps o with
     | [c_e; c_t; c_c; c_s; c_l] =>
         mon_cap a r EError c_e && mon_cap a r ETxn c_t && mon_cap a r ECustom c_c &&
         mon_cap a r ESpan c_s && mon_cap a r ELog c_l
     | _ => false
     end
   else match o_caps o with [] => true | _ => false end).

(* ---- projection of the model for the correspondence ---- *)
Definition model_nego (a : agent_u64) (r : reply_in) : nego_obs :=
  let '(p, (l1, l2, l3, l4, l5)) := advertised a in
  match negotiate a r with
  | Some e => NegoObs true (map (harvest_cap e) ecats) p [l1; l2; l3; l4; l5]
  | None => NegoObs false [] p [l1; l2; l3; l4; l5]
  end.
(* more of the model's state, compared as well: limits and periods after parseConnectReply, agent ints *)
Record nego_detail := NegoDetail { d_limits : list Z; d_periods : list Z; d_report : Z; d_agent : list Z }.
Definition model_detail (a : agent_u64) (r : reply_in) : option nego_detail :=
  let al := unmarshal_agent_limits a in
  option_map (fun e => NegoDetail (map (fun k => ec_limit (cfg_of (cfgs e) k)) ecats)
                                  (map (fun k => ec_period (cfg_of (cfgs e) k)) ecats)
                                  (report_period e) [al_span al; al_log al; al_custom al])
             (parse_connect_reply r).

Definition zlist_eqb (a b : list Z) : bool :=
  (length a =? length b)%nat && forallb (fun p => fst p =? snd p) (combine a b).
Definition nego_obs_eqb (x y : nego_obs) : bool :=
  Bool.eqb (o_parse_ok x) (o_parse_ok y) && zlist_eqb (o_caps x) (o_caps y) &&
  (o_adv_period_ms x =? o_adv_period_ms y) && zlist_eqb (o_adv x) (o_adv y).
Definition nego_detail_eqb (x y : option nego_detail) : bool :=
  match x, y with
  | None, None => true
  | Some a, Some b => zlist_eqb (d_limits a) (d_limits b) && zlist_eqb (d_periods a) (d_periods b) &&
                      (d_report a =? d_report b) && zlist_eqb (d_agent a) (d_agent b)
  | _, _ => false
  end.
