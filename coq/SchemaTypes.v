(* SchemaTypes.v -- C15: the data types of the three renderings of the agent/daemon wire schema.
   Definitions only.  Gen/Schema_gen.v (generated from protocol.fbs, protocol/*.go and
   nr_commands_private.h on every run) is a list of values of these types. *)
From Coq Require Import NArith ZArith List String.
Import ListNotations.

(* what is stored in a table slot / struct member *)
Inductive kind :=
| KBool | KU8 | KI8 | KU16 | KI16 | KU32 | KI32 | KU64 | KI64 | KF32 | KF64
| KBytes                       (* offset to a byte vector: string or [ubyte] *)
| KTable (t : string)          (* offset to a table *)
| KVecTable (t : string)       (* offset to a vector of offsets to tables *)
| KStruct (t : string)         (* inline struct; "" when the rendering does not name it *)
| KUnion                       (* offset to the table selected by the preceding _type field *)
| KOffset                      (* an offset whose target the rendering does not state (builders) *)
| KUnknown.                    (* the rendering could not be understood *)

(* one field.  fnum is, depending on the list the record occurs in: the slot index (schema, builders,
   C enum), the vtable offset (Go getters), or the byte offset inside a struct.
   fdef: the default the rendering states for a scalar (None: none stated). *)
Record fieldr := mkF { fname : string; fnum : N; fkind : kind; fdef : option Z }.

(* a table: name, number of slots (fbs: declared; Go: StartObject(n); C: X_NUM_FIELDS), fields *)
Definition tabler := (string * N * list fieldr)%type.
(* numbering only *)
Definition slotsr := (string * N * list (string * N))%type.
(* enum or union: name, members with their values *)
Definition enumr := (string * list (string * Z))%type.
(* struct: name, alignment, size, members (fnum = byte offset) *)
Definition structr := (string * N * N * list fieldr)%type.
(* one use of a field constant by the agent's transmit code: table, field, kind of the call *)
Definition user := (string * string * kind)%type.
(* vector element layout: table, field, element size, alignment *)
Definition vecr := (string * string * N * N)%type.
