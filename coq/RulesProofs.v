(* RulesProofs.v -- the rule functions of Rules.v satisfy the relational specification RuleSem,
   and RuleSem is functional (C07_rules_order). *)
From Coq Require Import ZArith NArith List Bool Permutation Sorted Lia.
From Verif Require Import Metrics Rules.
Import ListNotations.
Open Scope nat_scope.

(* ------------------------------------------------------------------ cutting a string *)
Lemma skipn_skipn' {A} (a b : nat) (l : list A) : skipn a (skipn b l) = skipn (b + a) l.
Proof.
  revert l. induction b as [|b IH]; intros l; [reflexivity|].
  destruct l as [|x l]; cbn [skipn plus]; [destruct a; reflexivity|apply IH].
Qed.

Lemma cut_three (s : name) a b : a <= b -> b <= length s ->
  s = firstn a s ++ slice s a b ++ skipn b s.
Proof.
  intros Hab Hb. unfold slice.
  rewrite <- (firstn_skipn a s) at 1. f_equal.
  rewrite <- (firstn_skipn (b - a) (skipn a s)) at 1. f_equal.
  rewrite skipn_skipn'. f_equal. lia.
Qed.

Lemma cut_unique (s pre mid post : name) a b :
  s = pre ++ mid ++ post -> length pre = a -> length (pre ++ mid) = b ->
  pre = firstn a s /\ mid = slice s a b /\ post = skipn b s.
Proof.
  intros -> Ha Hb. rewrite app_length in Hb. unfold slice. subst a.
  assert (E1 : firstn (length pre) (pre ++ mid ++ post) = pre).
  { rewrite firstn_app, Nat.sub_diag, firstn_all. cbn [firstn]. apply app_nil_r. }
  assert (E2 : skipn (length pre) (pre ++ mid ++ post) = mid ++ post).
  { rewrite skipn_app, Nat.sub_diag, skipn_all. reflexivity. }
  repeat split.
  - symmetry. exact E1.
  - rewrite E2. replace (b - length pre) with (length mid) by lia.
    rewrite firstn_app, Nat.sub_diag, firstn_all. cbn [firstn]. symmetry. apply app_nil_r.
  - subst b. rewrite app_assoc. rewrite skipn_app. rewrite <- app_length, Nat.sub_diag, skipn_all. reflexivity.
Qed.

(* ------------------------------------------------------------------ split / join *)
Lemma split_slash_nonempty s : split_slash s <> [].
Proof.
  destruct s as [|c r]; cbn [split_slash]; [discriminate|].
  destruct (N.eqb c SLASH); [discriminate|]. destruct (split_slash r); discriminate.
Qed.

Section Abs.
  Variable regex : Type.
  Variable find_first : regex -> name -> option (nat * nat).
  Variable replace_all : regex -> name -> name -> name.
  Variable compile : name -> option regex.
  Hypothesis wf : matcher_wf regex find_first.

  Notation rule := (rule regex).
  Notation first_sem := (first_sem regex find_first replace_all).
  Notation segs_sem := (segs_sem regex find_first replace_all).
  Notation rule_sem := (rule_sem regex find_first replace_all).
  Notation chain_sem := (chain_sem regex find_first replace_all).
  Notation rules_sem := (rules_sem regex find_first replace_all).
  Notation replace_first := (replace_first regex find_first replace_all).
  Notation each_segment := (each_segment regex find_first replace_all).
  Notation rule_apply := (rule_apply regex find_first replace_all).
  Notation rules_loop := (rules_loop regex find_first replace_all).
  Notation rules_apply := (rules_apply regex find_first replace_all).

  Lemma split_joined s : joined (split_slash s) s.
  Proof.
    induction s as [|c r IH]; cbn [split_slash]; [constructor|].
    destruct (N.eqb_spec c SLASH) as [->|Hne].
    - destruct (split_slash r) as [|y l] eqn:E; [exfalso; eapply split_slash_nonempty; exact E|].
      change (SLASH :: r) with ([] ++ SLASH :: r). constructor. exact IH.
    - destruct (split_slash r) as [|seg segs] eqn:E; [exfalso; eapply split_slash_nonempty; exact E|].
      inversion IH; subst.
      + constructor.
      + match goal with |- joined _ (c :: ?x ++ SLASH :: ?s') => change (c :: x ++ SLASH :: s') with ((c :: x) ++ SLASH :: s') end.
        constructor. assumption.
  Qed.

  Lemma split_no_slash s : Forall no_slash (split_slash s).
  Proof.
    induction s as [|c r IH]; cbn [split_slash].
    - constructor; [intros []|constructor].
    - destruct (N.eqb_spec c SLASH) as [->|Hne].
      + constructor; [intros []|exact IH].
      + destruct (split_slash r) as [|seg segs]; [constructor; [|constructor]|].
        * intros [H|[]]. congruence.
        * inversion IH as [|? ? Hs Hr]; subst. constructor; [|exact Hr].
          intros [H|H]; [congruence|contradiction].
  Qed.

  Lemma split_sem_split s : split_sem s (split_slash s).
  Proof. split; [apply split_joined|apply split_no_slash]. Qed.

  Lemma no_slash_app_inj (x x' s s' : name) :
    no_slash x -> no_slash x' -> x ++ SLASH :: s = x' ++ SLASH :: s' -> x = x' /\ s = s'.
  Proof.
    revert x'. induction x as [|c x IH]; intros [|c' x'] Hx Hx' E; cbn [app] in E.
    - inversion E. auto.
    - inversion E; subst. exfalso. apply Hx'. left. reflexivity.
    - inversion E; subst. exfalso. apply Hx. left. reflexivity.
    - inversion E; subst. destruct (IH x') as [E1 E2]; try assumption.
      + intros H. apply Hx. right. exact H.
      + intros H. apply Hx'. right. exact H.
      + subst. auto.
  Qed.

  Lemma split_sem_fun s l1 l2 : split_sem s l1 -> split_sem s l2 -> l1 = l2.
  Proof.
    intros [J1 F1] [J2 F2]. revert l2 J2 F2 F1.
    induction J1 as [x|x y r s J1 IH]; intros l2 J2 F2 F1.
    - inversion J2 as [x'|x' y' r' s' J2']; subst; [reflexivity|].
      exfalso. inversion F1 as [|? ? Hx _]; subst. apply Hx. apply in_or_app. right. left. reflexivity.
    - inversion J2 as [x'|x' y' r' s' J2' E1 E2]; subst.
      + exfalso. inversion F2 as [|? ? Hx _]; subst. apply Hx. apply in_or_app. right. left. reflexivity.
      + inversion F1 as [|? ? Hx Hr]; subst. inversion F2 as [|? ? Hx' Hr']; subst.
        destruct (no_slash_app_inj x x' s s' Hx Hx') as [-> ->]; [congruence|].
        f_equal. apply IH; assumption.
  Qed.

  Lemma joined_join l : l <> [] -> joined l (join_slash l).
  Proof.
    induction l as [|x r IH]; intros H; [contradiction|].
    destruct r as [|y r']; [constructor|].
    change (join_slash (x :: y :: r')) with (x ++ SLASH :: join_slash (y :: r')).
    constructor. apply IH. discriminate.
  Qed.

  Lemma joined_fun l s1 s2 : joined l s1 -> joined l s2 -> s1 = s2.
  Proof.
    intros J1. revert s2. induction J1 as [x|x y r s J1 IH]; intros s2 J2; inversion J2; subst; [reflexivity|].
    f_equal. f_equal. apply IH. assumption.
  Qed.

  (* ------------------------------------------------------------------ first match *)
  Lemma replace_first_sem re rp s :
    first_sem re rp s (fst (replace_first re s rp)) (snd (replace_first re s rp)).
  Proof.
    unfold Rules.replace_first. destruct (find_first re s) as [[a b]|] eqn:E; cbn [fst snd].
    - destruct (wf re s a b E) as [Hab Hb].
      apply FS_hit with (a := a) (b := b); try assumption.
      + apply cut_three; assumption.
      + apply firstn_length_le. lia.
      + rewrite app_length. unfold slice. rewrite firstn_length_le by lia.
        rewrite firstn_length_le; [lia|]. rewrite skipn_length. lia.
    - apply FS_miss. exact E.
  Qed.

  Lemma first_sem_fun re rp s r1 o1 r2 o2 :
    first_sem re rp s r1 o1 -> first_sem re rp s r2 o2 -> r1 = r2 /\ o1 = o2.
  Proof.
    intros H1 H2. destruct H1 as [E1|a b pre mid post E1 Hs Ha Hb]; destruct H2 as [E2|a' b' pre' mid' post' E2 Hs' Ha' Hb']; try congruence.
    - auto.
    - assert (Eab : a' = a /\ b' = b) by (rewrite E1 in E2; inversion E2; auto).
      destruct Eab as [Ea Eb]. rewrite Ea in Ha'. rewrite Eb in Hb'.
      destruct (cut_unique _ _ _ _ _ _ Hs Ha Hb) as (P1 & P2 & P3).
      destruct (cut_unique _ _ _ _ _ _ Hs' Ha' Hb') as (Q1 & Q2 & Q3).
      split; [reflexivity|]. rewrite Q1, Q2, Q3, P1, P2, P3. reflexivity.
  Qed.

  (* ------------------------------------------------------------------ segments *)
  Lemma each_segment_sem re rp segs :
    segs_sem re rp segs (fst (each_segment re rp segs)) (snd (each_segment re rp segs)).
  Proof.
    induction segs as [|seg r IH]; cbn [Rules.each_segment]; [constructor|].
    pose proof (replace_first_sem re rp seg) as H1.
    destruct (replace_first re seg rp) as [res out]. destruct (each_segment re rp r) as [any outs].
    cbn [fst snd] in *. constructor; assumption.
  Qed.

  Lemma segs_sem_fun re rp segs a1 o1 a2 o2 :
    segs_sem re rp segs a1 o1 -> segs_sem re rp segs a2 o2 -> a1 = a2 /\ o1 = o2.
  Proof.
    intros H1. revert a2 o2. induction H1 as [|seg segs res out any outs Hf Hs IH]; intros a2 o2 H2; inversion H2; subst.
    - auto.
    - match goal with Hf2 : first_sem _ _ seg _ _ |- _ => destruct (first_sem_fun _ _ _ _ _ _ _ Hf Hf2) as [-> ->] end.
      match goal with Hs2 : segs_sem _ _ segs _ _ |- _ => destruct (IH _ _ Hs2) as [-> ->] end.
      auto.
  Qed.

  Lemma segs_sem_length re rp segs any outs : segs_sem re rp segs any outs -> length outs = length segs.
  Proof. induction 1; cbn [length]; congruence. Qed.

  (* ------------------------------------------------------------------ one rule *)
  Lemma slice_length (s : name) a b : a <= b -> b <= length s -> length (slice s a b) = b - a.
  Proof. intros Hab Hb. unfold slice. apply firstn_length_le. rewrite skipn_length. lia. Qed.

  Lemma rule_apply_sem (r : rule) s : rule_sem r s (fst (rule_apply r s)) (snd (rule_apply r s)).
  Proof.
    unfold Rules.rule_apply. destruct (r_ignore r) eqn:Ei.
    - destruct (find_first (r_re r) s) as [[a b]|] eqn:E.
      + destruct (wf _ _ _ _ E) as [Hab Hb]. pose proof (slice_length s a b Hab Hb) as Hl.
        destruct (slice s a b) as [|c sl] eqn:Es; cbn [fst snd].
        * apply RS_ignore_miss; [exact Ei|]. intros a' b' E'. rewrite E in E'. inversion E'; subst. cbn [length] in Hl. lia.
        * apply RS_ignore_hit with (a := a) (b := b); [exact Ei|exact E|]. cbn [length] in Hl. lia.
      + cbn [fst snd]. apply RS_ignore_miss; [exact Ei|]. intros a b E'. congruence.
    - destruct (r_replace_all r) eqn:Ea.
      + destruct (find_first (r_re r) s) as [ab|] eqn:E; cbn [fst snd].
        * eapply RS_all_hit; eassumption.
        * apply RS_all_miss; assumption.
      + destruct (r_each_segment r) eqn:Ee.
        * pose proof (each_segment_sem (r_re r) (r_repl r) (split_slash s)) as Hs.
          destruct (each_segment (r_re r) (r_repl r) (split_slash s)) as [any outs] eqn:Eo. cbn [fst snd] in *.
          apply RS_each with (segs := split_slash s) (outs := outs); try assumption.
          -- apply split_sem_split.
          -- apply joined_join. intros ->. apply segs_sem_length in Hs. cbn [length] in Hs.
             pose proof (split_slash_nonempty s). destruct (split_slash s); [contradiction|discriminate].
        * apply RS_first; try assumption. apply replace_first_sem.
  Qed.

  Lemma rule_sem_fun (r : rule) s r1 o1 r2 o2 :
    rule_sem r s r1 o1 -> rule_sem r s r2 o2 -> r1 = r2 /\ o1 = o2.
  Proof.
    intros H1 H2.
    destruct H1 as [a b Hi Hf Hlt|Hi Hn|ab Hi Ha Hf|Hi Ha Hf|segs any outs out Hi Ha He Hsp Hss Hj|res out Hi Ha He Hfs];
    destruct H2 as [a' b' Hi' Hf' Hlt'|Hi' Hn'|ab' Hi' Ha' Hf'|Hi' Ha' Hf'|segs' any' outs' out' Hi' Ha' He' Hsp' Hss' Hj'|res' out' Hi' Ha' He' Hfs'];
    try congruence; try (split; reflexivity).
    - specialize (Hn' _ _ Hf). lia.
    - specialize (Hn _ _ Hf'). lia.
    - assert (segs' = segs) by (eapply split_sem_fun; eassumption). subst segs'.
      destruct (segs_sem_fun _ _ _ _ _ _ _ Hss Hss') as [-> ->].
      split; [reflexivity|]. eapply joined_fun; eassumption.
    - eapply first_sem_fun; eassumption.
  Qed.

  (* ------------------------------------------------------------------ the chain *)
  Lemma rules_loop_sem rs : forall s m,
    chain_sem rs s m (fst (rules_loop rs s m)) (snd (rules_loop rs s m)).
  Proof.
    induction rs as [|r rest IH]; intros s m; cbn [Rules.rules_loop].
    - cbn [fst snd]. constructor.
    - pose proof (rule_apply_sem r s) as Hr. destruct (rule_apply r s) as [res out]. cbn [fst snd] in Hr.
      destruct res.
      + destruct (r_terminate r) eqn:Et; cbn [fst snd].
        * eapply CS_terminate; eassumption.
        * eapply CS_continue; [eassumption|exact Et|apply IH].
      + eapply CS_unmatched; [eassumption|apply IH].
      + cbn [fst snd]. eapply CS_ignore. eassumption.
  Qed.

  Lemma chain_sem_fun rs s m r1 o1 r2 o2 :
    chain_sem rs s m r1 o1 -> chain_sem rs s m r2 o2 -> r1 = r2 /\ o1 = o2.
  Proof.
    intros H1. revert r2 o2.
    induction H1 as [s m|r rest s m out Hr|r rest s m out res fin Hr Hc IH|r rest s m out Hr Ht|r rest s m out res fin Hr Ht Hc IH];
      intros r2 o2 H2; inversion H2; subst;
      try match goal with
          | Ha : rule_sem ?r ?s _ _, Hb : rule_sem ?r ?s _ _ |- _ =>
              let E1 := fresh in let E2 := fresh in
              destruct (rule_sem_fun _ _ _ _ _ _ Ha Hb) as [E1 E2]; try discriminate E1; subst
          end; try congruence; auto.
  Qed.

  Theorem rules_apply_chain rs s : chain_sem rs s false (fst (rules_apply rs s)) (snd (rules_apply rs s)).
  Proof. apply rules_loop_sem. Qed.

  (* ------------------------------------------------------------------ sorting by eval_order *)
  Notation order_le := (order_le regex).
  Notation insert_rule := (insert_rule regex).
  Notation sort_rules := (sort_rules regex).

  Lemma insert_perm (r : rule) l : Permutation (insert_rule r l) (r :: l).
  Proof.
    induction l as [|x l IH]; cbn [Rules.insert_rule]; [apply Permutation_refl|].
    destruct (Z.leb (r_order r) (r_order x)); [apply Permutation_refl|].
    eapply Permutation_trans; [apply perm_skip; exact IH|apply perm_swap].
  Qed.

  Lemma insert_sorted (r : rule) l : StronglySorted order_le l -> StronglySorted order_le (insert_rule r l).
  Proof.
    induction l as [|x l IH]; intros Hs; cbn [Rules.insert_rule].
    - constructor; constructor.
    - inversion Hs as [|? ? Hs' Hf]; subst.
      destruct (Z.leb_spec (r_order r) (r_order x)) as [Hle|Hgt].
      + constructor; [exact Hs|]. constructor; [exact Hle|].
        eapply Forall_impl; [|exact Hf]. intros y Hy. unfold Rules.order_le in *. lia.
      + constructor; [apply IH; exact Hs'|].
        eapply Permutation_Forall; [apply Permutation_sym; apply insert_perm|].
        constructor; [unfold Rules.order_le; lia|exact Hf].
  Qed.

  Lemma sort_perm l : Permutation (sort_rules l) l.
  Proof.
    induction l as [|x l IH]; cbn [Rules.sort_rules fold_right]; [constructor|].
    eapply Permutation_trans; [apply insert_perm|]. apply perm_skip. exact IH.
  Qed.

  Lemma sort_sorted l : StronglySorted order_le (sort_rules l).
  Proof.
    induction l as [|x l IH]; cbn [Rules.sort_rules fold_right]; [constructor|]. apply insert_sorted. exact IH.
  Qed.

  Lemma sorted_perm_unique (l1 l2 : list rule) :
    Permutation l1 l2 -> StronglySorted order_le l1 -> StronglySorted order_le l2 ->
    NoDup (map (fun r => r_order r) l1) -> l1 = l2.
  Proof.
    revert l2. induction l1 as [|x l1 IH]; intros l2 Hp S1 S2 Hnd.
    - apply Permutation_nil in Hp. congruence.
    - destruct l2 as [|y l2]; [apply Permutation_sym, Permutation_nil in Hp; discriminate|].
      inversion S1 as [|? ? S1' F1]; subst. inversion S2 as [|? ? S2' F2]; subst.
      cbn [map] in Hnd. inversion Hnd as [|? ? Hni Hnd']; subst.
      assert (Exy : x = y).
      { assert (Hy : In y (x :: l1)) by (eapply Permutation_in; [apply Permutation_sym; exact Hp|left; reflexivity]).
        destruct Hy as [Hy|Hy]; [exact Hy|].
        assert (Hx : In x (y :: l2)) by (eapply Permutation_in; [exact Hp|left; reflexivity]).
        destruct Hx as [Hx|Hx]; [congruence|].
        exfalso. rewrite Forall_forall in F1, F2. specialize (F1 _ Hy). specialize (F2 _ Hx).
        unfold Rules.order_le in *. apply Hni.
        replace (r_order x) with (r_order y) by lia. apply in_map with (f := fun r => r_order r). exact Hy. }
      subst y. f_equal. apply IH; try assumption. eapply Permutation_cons_inv. exact Hp.
  Qed.

  (* the pipeline of NewMetricRulesFromJSON followed by Apply meets the specification *)
  Theorem rules_pipeline_sem rs s :
    rules_sem rs s (fst (rules_apply (sort_rules rs) s)) (snd (rules_apply (sort_rules rs) s)).
  Proof.
    exists (sort_rules rs). split; [apply sort_perm|]. split; [apply sort_sorted|]. apply rules_apply_chain.
  Qed.

  Theorem rules_sem_fun rs s r1 o1 r2 o2 : NoDup (map (fun r => r_order r) rs) ->
    rules_sem rs s r1 o1 -> rules_sem rs s r2 o2 -> r1 = r2 /\ o1 = o2.
  Proof.
    intros Hnd (l1 & P1 & S1 & C1) (l2 & P2 & S2 & C2).
    assert (l1 = l2).
    { apply sorted_perm_unique; try assumption.
      - eapply Permutation_trans; [exact P1|apply Permutation_sym; exact P2].
      - eapply Permutation_NoDup; [|exact Hnd]. apply Permutation_map. apply Permutation_sym. exact P1. }
    subst l2. eapply chain_sem_fun; eassumption.
  Qed.
End Abs.

(* ------------------------------------------------------------------ the concrete matcher is well-formed *)
Definition kgood (k : name -> nat -> option mres) (L : nat) : Prop :=
  forall inp' pos' e c1 c2, pos' + length inp' = L -> k inp' pos' = Some (e, c1, c2) -> pos' <= e /\ e <= L.

Lemma star_loop_bound a inp : forall pos k L e c1 c2,
  pos + length inp = L -> kgood k L -> star_loop a inp pos k = Some (e, c1, c2) -> pos <= e /\ e <= L.
Proof.
  induction inp as [|c rest IH]; intros pos k L e c1 c2 HL Hk H; cbn [star_loop] in H.
  - eapply Hk; eassumption.
  - destruct (atom_ok a c).
    + destruct (star_loop a rest (S pos) k) as [[[e' c1'] c2']|] eqn:E.
      * inversion H; subst e' c1' c2'. cbn [length] in HL.
        destruct (IH (S pos) k L e c1 c2) as [H1 H2]; try assumption; lia.
      * eapply Hk; eassumption.
    + eapply Hk; eassumption.
Qed.

Lemma m_items_bound its : forall inp pos cs ce L e c1 c2,
  pos + length inp = L -> m_items its inp pos cs ce = Some (e, c1, c2) -> pos <= e /\ e <= L.
Proof.
  induction its as [|it r IH]; intros inp pos cs ce L e c1 c2 HL H; cbn [m_items] in H.
  - inversion H; subst. lia.
  - destruct it as [a|a|a| | | |].
    + destruct inp as [|c rest]; [discriminate|]. destruct (atom_ok a c); [|discriminate].
      cbn [length] in HL. destruct (IH rest (S pos) cs ce L e c1 c2) as [H1 H2]; try assumption; lia.
    + eapply star_loop_bound; [exact HL| |exact H].
      intros inp' pos' e' c1' c2' HL' Hk. eapply IH; eassumption.
    + destruct inp as [|c rest]; [discriminate|]. destruct (atom_ok a c); [|discriminate].
      cbn [length] in HL.
      destruct (star_loop_bound a rest (S pos) (fun inp' pos' => m_items r inp' pos' cs ce) L e c1 c2) as [H1 H2]; try assumption; try lia.
      intros inp' pos' e' c1' c2' HL' Hk. eapply IH; eassumption.
    + destruct (Nat.eqb pos 0); [|discriminate]. eapply IH; eassumption.
    + destruct inp; [|discriminate]. eapply IH; eassumption.
    + eapply IH; eassumption.
    + eapply IH; eassumption.
Qed.

Lemma find_from_bound re inp : forall pos a b cs ce,
  find_from re inp pos = Some (a, b, cs, ce) -> pos <= a /\ a <= b /\ b <= pos + length inp.
Proof.
  induction inp as [|c rest IH]; intros pos a b cs ce H; cbn [find_from] in H.
  - destruct (m_items re [] pos 0 0) as [[[e c1] c2]|] eqn:E; [|discriminate].
    inversion H; subst. destruct (m_items_bound re [] a 0 0 (a + 0) b cs ce) as [H1 H2]; auto; cbn [length]; lia.
  - destruct (m_items re (c :: rest) pos 0 0) as [[[e c1] c2]|] eqn:E.
    + inversion H; subst. destruct (m_items_bound re (c :: rest) a 0 0 (a + length (c :: rest)) b cs ce) as [H1 H2]; auto; lia.
    + destruct (IH (S pos) a b cs ce H) as (H1 & H2 & H3). cbn [length]. lia.
Qed.

Theorem c_matcher_wf : matcher_wf cregex c_find_first.
Proof.
  intros re s a b H. unfold c_find_first in H.
  destruct (find_from re s 0) as [[[[a' b'] cs] ce]|] eqn:E; [|discriminate]. inversion H; subst.
  destruct (find_from_bound re s 0 a b cs ce E) as (_ & H2 & H3). lia.
Qed.

(* ------------------------------------------------------------------ non-vacuity: concrete rules exercise every constructor *)
Definition ex_re (s : list N) : cregex := match parse_re s with Some r => r | None => [] end.
(* "a/b1/c22" under  each_segment  [0-9]+ -> "N"  gives "a/bN/cN" *)
Example ex_each_segment :
  c_rule_apply (R false true false false 1%Z [78%N] (ex_re [91;48;45;57;93;43]%N)) [97;47;98;49;47;99;50;50]%N
  = (RMatched, [97;47;98;78;47;99;78]%N).
Proof. vm_compute. reflexivity. Qed.
(* terminate_chain stops the chain after the first matching rule *)
Example ex_terminate :
  c_rules_apply [R false false false true 1%Z [120%N] (ex_re [97%N]); R false false true false 2%Z [121%N] (ex_re [98%N])]
                [97;98]%N = (RMatched, [120;98]%N).
Proof. vm_compute. reflexivity. Qed.
(* back-reference: a rule with one capture group and the replacement x/<group 1> *)
Example ex_backref :
  c_rules_apply (c_rules_from_json [RAW false false false false 1%Z [120;47;92;49]%N [94;97;47;40;98;46;42;41;36]%N])
                [97;47;98;99]%N = (RMatched, [120;47;98;99]%N).
Proof. vm_compute. reflexivity. Qed.

(* ------------------------------------------------------------------ C07_rules_order *)
Theorem rules_order (regex : Type) (find_first : regex -> name -> option (nat * nat))
        (replace_all : regex -> name -> name -> name) :
  matcher_wf regex find_first ->
  (* each rule: the function satisfies RuleSem, RuleSem is functional *)
  (forall r s, rule_sem regex find_first replace_all r s
                 (fst (rule_apply regex find_first replace_all r s)) (snd (rule_apply regex find_first replace_all r s))) /\
  (forall r s r1 o1 r2 o2, rule_sem regex find_first replace_all r s r1 o1 ->
                           rule_sem regex find_first replace_all r s r2 o2 -> r1 = r2 /\ o1 = o2) /\
  (* the chain in list order, terminate_chain, ignore *)
  (forall rs s, chain_sem regex find_first replace_all rs s false
                  (fst (rules_apply regex find_first replace_all rs s)) (snd (rules_apply regex find_first replace_all rs s))) /\
  (forall rs s m r1 o1 r2 o2, chain_sem regex find_first replace_all rs s m r1 o1 ->
                              chain_sem regex find_first replace_all rs s m r2 o2 -> r1 = r2 /\ o1 = o2) /\
  (* NewMetricRulesFromJSON sorts by eval_order: the stored list is an ascending permutation and
     applying it is what the specification says for the rules taken in ascending eval_order *)
  (forall rs, Permutation (sort_rules regex rs) rs /\ StronglySorted (order_le regex) (sort_rules regex rs)) /\
  (forall rs s, rules_sem regex find_first replace_all rs s
                  (fst (rules_apply regex find_first replace_all (sort_rules regex rs) s))
                  (snd (rules_apply regex find_first replace_all (sort_rules regex rs) s))) /\
  (forall rs s r1 o1 r2 o2, NoDup (map (fun r => r_order r) rs) ->
      rules_sem regex find_first replace_all rs s r1 o1 -> rules_sem regex find_first replace_all rs s r2 o2 ->
      r1 = r2 /\ o1 = o2).
Proof.
  intros wf. repeat split.
  - intros r s. apply rule_apply_sem. exact wf.
  - eapply (rule_sem_fun regex find_first replace_all); eassumption.
  - eapply (rule_sem_fun regex find_first replace_all); eassumption.
  - intros rs s. apply rules_apply_chain. exact wf.
  - eapply (chain_sem_fun regex find_first replace_all); eassumption.
  - eapply (chain_sem_fun regex find_first replace_all); eassumption.
  - apply sort_perm.
  - apply sort_sorted.
  - intros rs s. apply rules_pipeline_sem. exact wf.
  - eapply (rules_sem_fun regex find_first replace_all); eassumption.
  - eapply (rules_sem_fun regex find_first replace_all); eassumption.
Qed.

Theorem rules_order_concrete :
  (forall (r : crule) s, rule_sem cregex c_find_first c_replace_all r s (fst (c_rule_apply r s)) (snd (c_rule_apply r s))) /\
  (forall (ws : list craw) s, rules_sem cregex c_find_first c_replace_all (compile_all cregex parse_re ws) s
                                (fst (c_rules_apply (c_rules_from_json ws) s)) (snd (c_rules_apply (c_rules_from_json ws) s))).
Proof.
  destruct (rules_order cregex c_find_first c_replace_all c_matcher_wf) as (H1 & _ & _ & _ & _ & H6 & _).
  split; [exact H1|]. intros ws s. apply H6.
Qed.
