(* ProcMonitor.v -- executable monitors for the processor-level properties (C01 C02 C03 C04 C11).

   A monitor judges ONE history using only its inputs (the operations) and the outputs observed for it
   (the collector requests seen at each step, the replies given to agents, whether the final flush
   returned).  It never calls the model in Processor.v: it keeps the little bookkeeping the property
   texts themselves need (which requests are outstanding, which run ids the collector has issued and
   revoked, which data was submitted under which run id).  The same function is evaluated on the
   implementation's observations (to find violations) and, in ProcInv*.v, on the model's outputs. *)
From Coq Require Import NArith ZArith List Bool Lia FMapPositive.
From Verif Require Import Processor.
Import ListNotations.
Open Scope Z_scope.

(* ------------------------------------------------------------------ multisets of units
   The bookkeeping of units of data (category, tag) uses the standard library's binary tries
   (FMapPositive), so that histories with many thousands of events can be judged: a multiset of units is a
   map from the tag to the per-category counts. *)
Definition zkey (z : Z) : positive := match z with Z0 => 1%positive | Zpos p => (p~0)%positive | Zneg p => (p~1)%positive end.
Definition cmap := PositiveMap.t (list (N * nat)).
Definition cempty : cmap := PositiveMap.empty _.
Definition ccount (ct : N * Z) (m : cmap) : nat :=
  match PositiveMap.find (zkey (snd ct)) m with
  | Some l => match find (fun x => (fst x =? fst ct)%N) l with Some x => snd x | None => O end
  | None => O
  end.
Definition cmem (ct : N * Z) (m : cmap) : bool := negb (Nat.eqb (ccount ct m) 0).
Definition cadd (ct : N * Z) (m : cmap) : cmap :=
  let k := zkey (snd ct) in
  let l := match PositiveMap.find k m with Some l => l | None => [] end in
  PositiveMap.add k ((fst ct, S (ccount ct m)) :: filter (fun x => negb (fst x =? fst ct)%N) l) m.
Definition cadd_all (cts : list (N * Z)) (m : cmap) : cmap := fold_left (fun mm ct => cadd ct mm) cts m.
(* the units offered: the list (to enumerate them) and an index from the tag to (run, category) *)
Definition offidx := PositiveMap.t (list (Z * N)).
Definition off_add (o : Z * N * Z) (ix : offidx) : offidx :=
  let '(r, c, t) := o in
  let k := zkey t in
  PositiveMap.add k ((r, c) :: match PositiveMap.find k ix with Some l => l | None => [] end) ix.

(* ------------------------------------------------------------------ observations *)
Record oreq := {
  o_kind : N;          (* 0 preconnect, 1 connect, 2 harvest, 3 data usage *)
  o_cat : N;           (* cat_idx for harvest requests *)
  o_owner : Z; o_host : Z; o_hdr : Z; o_run : Z;
  o_tags : list Z;     (* sorted; package ids for package payloads *)
  o_cap : Z; o_seen : Z
}.

Record ostep := {
  os_reqs : list oreq;
  os_reply : option (bool * N);   (* RunIDValid, state: 0 unknown 1 connected 2 disconnected 3 restart 4 invalid license *)
  os_reply_run : Z;               (* run id in the connect reply handed over with a "connected" answer, else 0 *)
  os_exited : bool;
  os_hung : bool
}.

(* ------------------------------------------------------------------ projection of model outputs *)
Definition state_code (st : astate) : N :=
  match st with SUnknown => 0 | SConnected => 1 | SDisconnected => 2 | SRestart => 3 | SInvalidLicense => 4 end%N.

(* merge sort (payloads of several thousand events are compared) *)
Fixpoint mergeZ (a : list Z) : list Z -> list Z :=
  match a with
  | [] => fun b => b
  | x :: a' => fix inner (b : list Z) : list Z :=
                 match b with
                 | [] => a
                 | y :: b' => if x <=? y then x :: mergeZ a' b else y :: inner b'
                 end
  end.
Fixpoint splitZ (l : list Z) : list Z * list Z :=
  match l with
  | x :: y :: r => let '(a, b) := splitZ r in (x :: a, y :: b)
  | _ => (l, [])
  end.
Fixpoint msortZ (fuel : nat) (l : list Z) : list Z :=
  match fuel with
  | O => l
  | S f => match l with
           | [] | [_] => l
           | _ => let '(a, b) := splitZ l in mergeZ (msortZ f a) (msortZ f b)
           end
  end.
Definition sortZ (l : list Z) : list Z := msortZ (length l) l.

Definition is_event_idx (c : N) : bool := (c =? 1)%N || (c =? 2)%N || (c =? 6)%N || (c =? 7)%N.   (* log payloads carry no counts *)

Definition project_req (q : request) : oreq :=
  let k := match rq_kind q with RPreconnect => 0%N | RConnect => 1%N | RHarvest _ => 2%N | RUsage => 3%N end in
  let c := match rq_kind q with RHarvest c => N.of_nat (cat_idx c) | _ => 0%N end in
  let ts := match rq_kind q with
            | RHarvest CPkgs => map (fun x => Z.of_N (i_key x)) (rq_items q)
            | _ => map (fun x => Z.of_N (i_tag x)) (rq_items q) end in
  let ev := match rq_kind q with RHarvest _ => is_event_idx c | _ => false end in
  {| o_kind := k; o_cat := c; o_owner := Z.of_N (rq_owner q); o_host := Z.of_N (rq_host q);
     o_hdr := Z.of_N (rq_hdr q); o_run := Z.of_N (rq_run q); o_tags := sortZ ts;
     o_cap := if ev then Z.of_N (rq_cap q) else 0; o_seen := if ev then Z.of_N (rq_seen q) else 0 |}.

Definition project_step (o : list out) : ostep :=
  {| os_reqs := concat (map (fun x => match x with OutReq q => [project_req q] | _ => [] end) o);
     os_reply := hd_error (concat (map (fun x => match x with OutAppReply v st => [(v, state_code st)] | _ => [] end) o));
     os_reply_run := hd 0 (concat (map (fun x => match x with OutConnectedRun r => [Z.of_N r] | _ => [] end) o));
     os_exited := existsb (fun x => match x with OutExited => true | _ => false end) o;
     os_hung := false |}.

(* canonical form of a step's requests: sorted by (kind, cat, run); requests with the same key are merged
   (the two halves of a split transaction event payload) *)
Definition req_key_leb (a b : oreq) : bool :=
  if (o_kind a =? o_kind b)%N then
    if (o_cat a =? o_cat b)%N then o_run a <=? o_run b else (o_cat a <? o_cat b)%N
  else (o_kind a <? o_kind b)%N.
Definition req_key_eqb (a b : oreq) : bool :=
  (o_kind a =? o_kind b)%N && (o_cat a =? o_cat b)%N && (o_run a =? o_run b).
Fixpoint insert_oreq (x : oreq) (l : list oreq) : list oreq :=
  match l with [] => [x] | y :: r => if req_key_leb x y then x :: l else y :: insert_oreq x r end.
Definition merge_oreq (a b : oreq) : oreq :=
  {| o_kind := o_kind a; o_cat := o_cat a; o_owner := o_owner a; o_host := o_host a; o_hdr := o_hdr a;
     o_run := o_run a; o_tags := sortZ (o_tags a ++ o_tags b); o_cap := o_cap a + o_cap b;
     o_seen := o_seen a + o_seen b |}.
Fixpoint merge_adjacent (l : list oreq) : list oreq :=
  match l with
  | [] => []
  | x :: r => match merge_adjacent r with
              | y :: r' => if req_key_eqb x y then merge_oreq x y :: r' else x :: y :: r'
              | [] => [x]
              end
  end.
Definition canon_reqs (l : list oreq) : list oreq := merge_adjacent (fold_right insert_oreq [] l).

Definition listZ_eqb (a b : list Z) : bool :=
  Nat.eqb (length a) (length b) && forallb (fun p => fst p =? snd p) (combine a b).
Definition oreq_eqb (a b : oreq) : bool :=
  req_key_eqb a b && (o_owner a =? o_owner b) && (o_host a =? o_host b) && (o_hdr a =? o_hdr b) &&
  listZ_eqb (o_tags a) (o_tags b) && (o_cap a =? o_cap b) && (o_seen a =? o_seen b).
Definition reqs_eqb (a b : list oreq) : bool :=
  Nat.eqb (length a) (length b) && forallb (fun p => oreq_eqb (fst p) (snd p)) (combine a b).
Definition reply_eqb (a b : option (bool * N)) : bool :=
  match a, b with
  | None, None => true
  | Some (v1, s1), Some (v2, s2) => Bool.eqb v1 v2 && (s1 =? s2)%N
  | _, _ => false
  end.

(* the exit step is compared without data usage requests (their number depends on map iteration order) *)
Definition no_usage (l : list oreq) : list oreq := filter (fun q => negb (o_kind q =? 3)%N) l.
Definition ostep_eqb (a b : ostep) : bool :=
  let ra := if os_exited a || os_exited b then no_usage (os_reqs a) else os_reqs a in
  let rb := if os_exited a || os_exited b then no_usage (os_reqs b) else os_reqs b in
  reqs_eqb (canon_reqs ra) (canon_reqs rb) && reply_eqb (os_reply a) (os_reply b) && (os_reply_run a =? os_reply_run b) &&
  Bool.eqb (os_exited a) (os_exited b) && Bool.eqb (os_hung a) (os_hung b).

(* index of the first step on which model and observation differ *)
Fixpoint first_diff (m o : list ostep) (i : nat) : option nat :=
  match m, o with
  | [], [] => None
  | x :: r, y :: r' => if ostep_eqb x y then first_diff r r' (S i) else Some i
  | _, _ => Some i
  end.

Definition model_steps (ops : list op) : list ostep := map project_step (snd (run ops)).

(* ------------------------------------------------------------------ the monitors *)
Record mrun := { mr_run : Z; mr_owner : Z; mr_host : Z; mr_hdr : Z; mr_held : bool;
                 mr_caps : N -> Z (* negotiated event limits of this connection, by category index *) }.
Record mapp := {
  ma_key : Z;
  ma_gen : nat;                 (* which incarnation of the application entry (re-created after inactivity) *)
  ma_last_attempt : option Z;
  ma_last_activity : Z;
  ma_terminal : N;              (* 0 none, 1 disconnected (410), 2 invalid license (401 at connect) *)
  ma_failed_connect : bool      (* the last connect failed in a retryable way *)
}.
Record matt := { mt_req : oreq; mt_host : Z }.    (* a connect attempt in progress: its current request *)
Record mah := { mh_run : Z; mh_key : Z; mh_gen : nat }.   (* app harvests in creation order (tick targets) *)

Record mst := {
  m_out : list oreq;                      (* outstanding harvest / usage requests, canonical order *)
  m_atts : list matt;
  m_runs : list mrun;
  m_apps : list mapp;
  m_gens : list (Z * nat);                (* incarnations used so far per application key *)
  m_ahs : list mah;
  m_clock : Z;
  m_offered : list (Z * N * Z) * offidx;  (* run, cat, unit *)
  m_acked : cmap;
  m_dead : cmap;                          (* acknowledged, or failed beyond retry: must never be sent again *)
  m_sent : cmap;                          (* one entry per request a unit occurred in *)
  m_all_ok : bool;                        (* every collector answer so far was a success *)
  m_run_lost : bool;                      (* some run ended (restart, disconnect, inactivity) *)
  m_exotic : bool;                        (* a tick reached an app harvest of a removed application incarnation:
                                             outside the lifecycle hypothesis, C03 checks are suspended *)
  m_streak : list (Z * N * (nat * bool)); (* run, category |-> number of kept failures so far (an upper bound of every attempt counter) *)
  m_owed : list (Z * N * Z);              (* run, category, unit: failed with a retryable status while the payload had attempts
                                             left -- must be in the run's next request of that category (C02) *)
  m_viol : list (N * nat)                 (* violation code, step index *)
}.

(* violation codes *)
Definition V_DUP_ACK : N := 101.          (* C01 C02: a unit of data acknowledged twice *)
Definition V_FOREIGN : N := 102.          (* C01 C04: a request for run r carries data not submitted under r *)
Definition V_LOST : N := 103.             (* C01: accepting collector, final flush done, accepted data never acknowledged *)
Definition V_DEAD_RESENT : N := 201.      (* C02: data re-sent after acknowledgement or after a non-retryable failure *)
Definition V_ATTEMPTS : N := 202.         (* C02: more than 1+5 (metrics) / 1+10 (events) requests carried the unit *)
Definition V_NOT_RETRIED : N := 2030.     (* C02: 2030 + category: data that failed with a retryable status while attempts were left is
                                             missing from the run's next request of that category (judged only for categories that
                                             never exceeded their capacity in the history, see [monitor]) *)
Definition V_NOT_FLUSHED : N := 5030.     (* C11: 5030 + category: data held for a live run is missing from the final requests *)
Definition V_VALID : N := 301.            (* C03: RunIDValid differs from "the daemon holds that run" *)
Definition V_TERMINAL_REPLY : N := 302.   (* C03: after 410 / invalid license the agent is told something else *)
Definition V_TERMINAL_CONNECT : N := 303. (* C03: a connect is attempted after 410 / invalid license *)
Definition V_CONNECTED_UNSOUND : N := 304. (* C03: agent told connected while no run of that application is held *)
Definition V_NO_RETRY : N := 305.         (* C03: a failed connect is not retried although the back-off has expired *)
Definition V_NO_RESTART : N := 306.       (* C03: restart answer at harvest not followed by a fresh connect *)
Definition V_PARAMS : N := 401.           (* C04: request does not carry its application's license / host / headers *)
Definition V_CAPACITY : N := 601.         (* C05: an event payload holds more than, or reports a reservoir other than, the negotiated limit *)
Definition V_HUNG : N := 501.             (* C11: the final flush did not return *)
Definition V_FINAL_DUP : N := 502.        (* C11: a unit of data in two final requests *)

Definition is_c03 (code : N) : bool := (300 <? code)%N && (code <? 400)%N.

(* setters *)
Definition w_out (m : mst) v := {| m_out := v; m_atts := m_atts m; m_runs := m_runs m; m_apps := m_apps m; m_gens := m_gens m; m_ahs := m_ahs m; m_clock := m_clock m; m_offered := m_offered m; m_acked := m_acked m; m_dead := m_dead m; m_sent := m_sent m; m_all_ok := m_all_ok m; m_run_lost := m_run_lost m; m_exotic := m_exotic m; m_streak := m_streak m; m_owed := m_owed m; m_viol := m_viol m |}.
Definition w_atts (m : mst) v := {| m_out := m_out m; m_atts := v; m_runs := m_runs m; m_apps := m_apps m; m_gens := m_gens m; m_ahs := m_ahs m; m_clock := m_clock m; m_offered := m_offered m; m_acked := m_acked m; m_dead := m_dead m; m_sent := m_sent m; m_all_ok := m_all_ok m; m_run_lost := m_run_lost m; m_exotic := m_exotic m; m_streak := m_streak m; m_owed := m_owed m; m_viol := m_viol m |}.
Definition w_runs (m : mst) v := {| m_out := m_out m; m_atts := m_atts m; m_runs := v; m_apps := m_apps m; m_gens := m_gens m; m_ahs := m_ahs m; m_clock := m_clock m; m_offered := m_offered m; m_acked := m_acked m; m_dead := m_dead m; m_sent := m_sent m; m_all_ok := m_all_ok m; m_run_lost := m_run_lost m; m_exotic := m_exotic m; m_streak := m_streak m; m_owed := m_owed m; m_viol := m_viol m |}.
Definition w_apps (m : mst) v := {| m_out := m_out m; m_atts := m_atts m; m_runs := m_runs m; m_apps := v; m_gens := m_gens m; m_ahs := m_ahs m; m_clock := m_clock m; m_offered := m_offered m; m_acked := m_acked m; m_dead := m_dead m; m_sent := m_sent m; m_all_ok := m_all_ok m; m_run_lost := m_run_lost m; m_exotic := m_exotic m; m_streak := m_streak m; m_owed := m_owed m; m_viol := m_viol m |}.
Definition w_gens (m : mst) v := {| m_out := m_out m; m_atts := m_atts m; m_runs := m_runs m; m_apps := m_apps m; m_gens := v; m_ahs := m_ahs m; m_clock := m_clock m; m_offered := m_offered m; m_acked := m_acked m; m_dead := m_dead m; m_sent := m_sent m; m_all_ok := m_all_ok m; m_run_lost := m_run_lost m; m_exotic := m_exotic m; m_streak := m_streak m; m_owed := m_owed m; m_viol := m_viol m |}.
Definition w_ahs (m : mst) v := {| m_out := m_out m; m_atts := m_atts m; m_runs := m_runs m; m_apps := m_apps m; m_gens := m_gens m; m_ahs := v; m_clock := m_clock m; m_offered := m_offered m; m_acked := m_acked m; m_dead := m_dead m; m_sent := m_sent m; m_all_ok := m_all_ok m; m_run_lost := m_run_lost m; m_exotic := m_exotic m; m_streak := m_streak m; m_owed := m_owed m; m_viol := m_viol m |}.
Definition w_clock (m : mst) v := {| m_out := m_out m; m_atts := m_atts m; m_runs := m_runs m; m_apps := m_apps m; m_gens := m_gens m; m_ahs := m_ahs m; m_clock := v; m_offered := m_offered m; m_acked := m_acked m; m_dead := m_dead m; m_sent := m_sent m; m_all_ok := m_all_ok m; m_run_lost := m_run_lost m; m_exotic := m_exotic m; m_streak := m_streak m; m_owed := m_owed m; m_viol := m_viol m |}.
Definition w_offered (m : mst) v := {| m_out := m_out m; m_atts := m_atts m; m_runs := m_runs m; m_apps := m_apps m; m_gens := m_gens m; m_ahs := m_ahs m; m_clock := m_clock m; m_offered := v; m_acked := m_acked m; m_dead := m_dead m; m_sent := m_sent m; m_all_ok := m_all_ok m; m_run_lost := m_run_lost m; m_exotic := m_exotic m; m_streak := m_streak m; m_owed := m_owed m; m_viol := m_viol m |}.
Definition w_acked (m : mst) v := {| m_out := m_out m; m_atts := m_atts m; m_runs := m_runs m; m_apps := m_apps m; m_gens := m_gens m; m_ahs := m_ahs m; m_clock := m_clock m; m_offered := m_offered m; m_acked := v; m_dead := m_dead m; m_sent := m_sent m; m_all_ok := m_all_ok m; m_run_lost := m_run_lost m; m_exotic := m_exotic m; m_streak := m_streak m; m_owed := m_owed m; m_viol := m_viol m |}.
Definition w_dead (m : mst) v := {| m_out := m_out m; m_atts := m_atts m; m_runs := m_runs m; m_apps := m_apps m; m_gens := m_gens m; m_ahs := m_ahs m; m_clock := m_clock m; m_offered := m_offered m; m_acked := m_acked m; m_dead := v; m_sent := m_sent m; m_all_ok := m_all_ok m; m_run_lost := m_run_lost m; m_exotic := m_exotic m; m_streak := m_streak m; m_owed := m_owed m; m_viol := m_viol m |}.
Definition w_sent (m : mst) v := {| m_out := m_out m; m_atts := m_atts m; m_runs := m_runs m; m_apps := m_apps m; m_gens := m_gens m; m_ahs := m_ahs m; m_clock := m_clock m; m_offered := m_offered m; m_acked := m_acked m; m_dead := m_dead m; m_sent := v; m_all_ok := m_all_ok m; m_run_lost := m_run_lost m; m_exotic := m_exotic m; m_streak := m_streak m; m_owed := m_owed m; m_viol := m_viol m |}.
Definition w_all_ok (m : mst) v := {| m_out := m_out m; m_atts := m_atts m; m_runs := m_runs m; m_apps := m_apps m; m_gens := m_gens m; m_ahs := m_ahs m; m_clock := m_clock m; m_offered := m_offered m; m_acked := m_acked m; m_dead := m_dead m; m_sent := m_sent m; m_all_ok := v; m_run_lost := m_run_lost m; m_exotic := m_exotic m; m_streak := m_streak m; m_owed := m_owed m; m_viol := m_viol m |}.
Definition w_run_lost (m : mst) v := {| m_out := m_out m; m_atts := m_atts m; m_runs := m_runs m; m_apps := m_apps m; m_gens := m_gens m; m_ahs := m_ahs m; m_clock := m_clock m; m_offered := m_offered m; m_acked := m_acked m; m_dead := m_dead m; m_sent := m_sent m; m_all_ok := m_all_ok m; m_run_lost := v; m_exotic := m_exotic m; m_streak := m_streak m; m_owed := m_owed m; m_viol := m_viol m |}.
Definition w_exotic (m : mst) v := {| m_out := m_out m; m_atts := m_atts m; m_runs := m_runs m; m_apps := m_apps m; m_gens := m_gens m; m_ahs := m_ahs m; m_clock := m_clock m; m_offered := m_offered m; m_acked := m_acked m; m_dead := m_dead m; m_sent := m_sent m; m_all_ok := m_all_ok m; m_run_lost := m_run_lost m; m_exotic := v; m_streak := m_streak m; m_owed := m_owed m; m_viol := m_viol m |}.
Definition w_streak (m : mst) v := {| m_out := m_out m; m_atts := m_atts m; m_runs := m_runs m; m_apps := m_apps m; m_gens := m_gens m; m_ahs := m_ahs m; m_clock := m_clock m; m_offered := m_offered m; m_acked := m_acked m; m_dead := m_dead m; m_sent := m_sent m; m_all_ok := m_all_ok m; m_run_lost := m_run_lost m; m_exotic := m_exotic m; m_streak := v; m_owed := m_owed m; m_viol := m_viol m |}.
Definition w_owed (m : mst) v := {| m_out := m_out m; m_atts := m_atts m; m_runs := m_runs m; m_apps := m_apps m; m_gens := m_gens m; m_ahs := m_ahs m; m_clock := m_clock m; m_offered := m_offered m; m_acked := m_acked m; m_dead := m_dead m; m_sent := m_sent m; m_all_ok := m_all_ok m; m_run_lost := m_run_lost m; m_exotic := m_exotic m; m_streak := m_streak m; m_owed := v; m_viol := m_viol m |}.
Definition w_viol (m : mst) v := {| m_out := m_out m; m_atts := m_atts m; m_runs := m_runs m; m_apps := m_apps m; m_gens := m_gens m; m_ahs := m_ahs m; m_clock := m_clock m; m_offered := m_offered m; m_acked := m_acked m; m_dead := m_dead m; m_sent := m_sent m; m_all_ok := m_all_ok m; m_run_lost := m_run_lost m; m_exotic := m_exotic m; m_streak := m_streak m; m_owed := m_owed m; m_viol := v |}.

Definition viol (m : mst) (code : N) (i : nat) : mst :=
  if is_c03 code && m_exotic m then m
  else if existsb (fun v => (fst v =? code)%N && Nat.eqb (snd v) i) (m_viol m) then m   (* once per code and step *)
  else w_viol m (m_viol m ++ [(code, i)]).
Definition viol_if (b : bool) (m : mst) (code : N) (i : nat) : mst := if b then viol m code i else m.

Definition m_init : mst :=
  {| m_out := []; m_atts := []; m_runs := []; m_apps := []; m_gens := []; m_ahs := []; m_clock := 0; m_offered := ([], PositiveMap.empty _);
     m_acked := cempty; m_dead := cempty; m_sent := cempty; m_all_ok := true; m_run_lost := false; m_exotic := false; m_streak := []; m_owed := []; m_viol := [] |}.

Definition ct_eqb (a b : N * Z) : bool := (fst a =? fst b)%N && (snd a =? snd b).
Definition mem_ct (x : N * Z) (l : list (N * Z)) : bool := existsb (ct_eqb x) l.
Definition count_ct (x : N * Z) (l : list (N * Z)) : nat := length (filter (ct_eqb x) l).

Definition find_run (r : Z) (l : list mrun) : option mrun := find (fun x => mr_run x =? r) l.
Definition find_app (k : Z) (l : list mapp) : option mapp := find (fun x => ma_key x =? k) l.
Definition del_app (k : Z) (l : list mapp) : list mapp := filter (fun x => negb (ma_key x =? k)) l.
Definition set_app (a : mapp) (l : list mapp) : list mapp := a :: del_app (ma_key a) l.
Definition set_run (r : mrun) (l : list mrun) : list mrun :=
  r :: filter (fun x => negb (mr_run x =? mr_run r)) l.
Definition run_held (m : mst) (r : Z) : bool :=
  match find_run r (m_runs m) with Some x => mr_held x | None => false end.

Definition app_with (a : mapp) (att : option Z) (act : Z) (term : N) (failed : bool) : mapp :=
  {| ma_key := ma_key a; ma_gen := ma_gen a; ma_last_attempt := att; ma_last_activity := act;
     ma_terminal := term; ma_failed_connect := failed |}.

Definition cat_of_item (c : cat) : N := N.of_nat (cat_idx c).
(* a unit of data is identified by (category, tag); a package by (category, run * 2^20 + package id):
   the same package may legitimately be reported once for each run *)
Definition unit_id (c : N) (run t : Z) : Z := if (c =? 9)%N then run * 1048576 + t else t.
Definition offered_of_txn (run : N) (t : txn) : list (Z * N * Z) :=
  map (fun ci => (Z.of_N run, cat_of_item (fst ci), Z.of_N (i_tag (snd ci)))) (t_items t) ++
  match t_pkgs t with Some pk => map (fun x => (Z.of_N run, 9%N, unit_id 9 (Z.of_N run) (Z.of_N (i_key x)))) pk | None => [] end.
Definition units_of (q : oreq) : list (N * Z) :=
  if (o_kind q =? 2)%N then map (fun t => (o_cat q, unit_id (o_cat q) (o_run q) t)) (o_tags q) else [].

Definition offered_under (m : mst) (r : Z) (c : N) (t : Z) : bool :=
  match PositiveMap.find (zkey t) (snd (m_offered m)) with
  | Some l => existsb (fun o => (fst o =? r) && (snd o =? c)%N) l
  | None => false
  end.

(* bound on the number of requests that may carry one unit of data *)
Definition attempt_bound (c : N) : nat := if (c =? 0)%N then 6 else if is_event_idx c || (c =? 8)%N then 11 else 1.

Definition pending_mark : N := 9.   (* pseudo kind: preconnect answered, connect request not yet seen *)

(* account for one request observed at a step: parameters (C04), provenance of the data (C01/C04),
   re-sending of dead data and attempt bounds (C02), connects after a terminal verdict (C03) *)
Definition note_request (i : nat) (m : mst) (q : oreq) : mst :=
  if (o_kind q =? 0)%N then
    let m1 := match find_app (o_owner q) (m_apps m) with
              | Some a => viol_if (negb (ma_terminal a =? 0)%N) m V_TERMINAL_CONNECT i
              | None => m end in
    let m2 := match find_app (o_owner q) (m_apps m1) with
              | Some a => w_apps m1 (set_app (app_with a (Some (m_clock m1)) (ma_last_activity a) (ma_terminal a) false) (m_apps m1))
              | None => m1 end in
    w_atts m2 (m_atts m2 ++ [{| mt_req := q; mt_host := 0 |}])
  else if (o_kind q =? 1)%N then
    (* second stage of an attempt that was started earlier (possibly before a terminal verdict reached the
       application through an overlapping attempt): not a new attempt *)
    let m1 := m in
    (* the connect request of an attempt whose preconnect was answered: replaces the mark in place *)
    let is_mark (t : matt) := (o_kind (mt_req t) =? pending_mark)%N && (o_owner (mt_req t) =? o_owner q) in
    let fix place (l : list matt) : list matt :=
      match l with
      | [] => [{| mt_req := q; mt_host := o_host q |}]
      | t :: r => if is_mark t then {| mt_req := q; mt_host := mt_host t |} :: r else t :: place r
      end in
    let m2 := match find is_mark (m_atts m1) with
              | Some t => viol_if (negb (mt_host t =? o_host q)) m1 V_PARAMS i    (* connect goes to the redirect host *)
              | None => m1 end in
    w_atts m2 (place (m_atts m2))
  else
    (* harvest / usage request *)
    let m1 := match find_run (o_run q) (m_runs m) with
              | Some r =>
                  (* the license / agent identification must be the run's application's, and the collector host and
                     headers those of one of THAT application's connections (a late tick for a run that has been
                     restarted uses the application's current connection) *)
                  viol_if (negb ((mr_owner r =? o_owner q) &&
                                 existsb (fun r' => (mr_owner r' =? o_owner q) && (mr_host r' =? o_host q) && (mr_hdr r' =? o_hdr q))
                                         (m_runs m)))
                          m V_PARAMS i
              | None => viol m V_PARAMS i        (* a request for a run id the collector never issued *)
              end in
    (* C05: an event payload (custom, error, transaction, span events: the ones that report their reservoir)
       never holds more than the limit negotiated for that connection -- or a later connection of the same
       application, for a late tick -- and reports that limit as its reservoir size; the halves of a split
       transaction event payload report their own length *)
    let m1 :=
      if (o_kind q =? 2)%N && is_event_idx (o_cat q) then
        let n := Z.of_nat (length (o_tags q)) in
        let ok_cap := existsb (fun r' => (mr_owner r' =? o_owner q) && (mr_caps r' (o_cat q) =? o_cap q)) (m_runs m1) in
        let split_half := (o_cat q =? 6)%N && (o_cap q =? n) in
        viol_if (negb ((n <=? o_cap q) && (ok_cap || split_half))) m1 V_CAPACITY i
      else m1 in
    fold_left (fun mm ct =>
                 let mm1 := viol_if (negb (offered_under mm (o_run q) (fst ct) (snd ct))) mm V_FOREIGN i in
                 let mm2 := viol_if (cmem ct (m_dead mm1)) mm1 V_DEAD_RESENT i in
                 let mm3 := w_sent mm2 (cadd ct (m_sent mm2)) in
                 viol_if (Nat.ltb (attempt_bound (fst ct)) (ccount ct (m_sent mm3))) mm3 V_ATTEMPTS i)
              (units_of q) m1.

(* outstanding requests are kept in the harness's canonical order: by step, then by category *)
Definition out_rank (q : oreq) : N := if (o_kind q =? 3)%N then 50%N else o_cat q.
Fixpoint insert_out (x : oreq) (l : list oreq) : list oreq :=
  match l with [] => [x] | y :: r => if (out_rank x <? out_rank y)%N then x :: l else y :: insert_out x r end.
Definition sort_out (l : list oreq) : list oreq := fold_left (fun acc q => insert_out q acc) l [].

Definition note_requests (i : nat) (m : mst) (qs : list oreq) : mst :=
  let m1 := fold_left (note_request i) qs m in
  let hs := filter (fun q => (o_kind q =? 2)%N || (o_kind q =? 3)%N) qs in
  w_out m1 (m_out m1 ++ sort_out hs).

Definition retry_status (f : fail) : bool := match f with FRetry => true | _ => false end.
Definition retry_cat (c : N) : bool := (c =? 0)%N || is_event_idx c || (c =? 8)%N.

Definition end_run (m : mst) (r : Z) : mst :=
  let m := w_owed m (filter (fun o => negb (fst (fst o) =? r)) (m_owed m)) in
  match find_run r (m_runs m) with
  | Some x => w_run_lost (w_runs m (set_run {| mr_run := r; mr_owner := mr_owner x; mr_host := mr_host x;
                                               mr_hdr := mr_hdr x; mr_held := false; mr_caps := mr_caps x |} (m_runs m))) true
  | None => m
  end.

Definition owner_has_held_run (m : mst) (k : Z) : bool :=
  existsb (fun r => mr_held r && (mr_owner r =? k)) (m_runs m).

(* only the first verdict counts: an application that already has a terminal verdict, or holds a run,
   ignores the answers of connect attempts that were still under way *)
Definition app_terminal (m : mst) (k : Z) (code : N) : mst :=
  match find_app k (m_apps m) with
  | Some a => if negb (ma_terminal a =? 0)%N || owner_has_held_run m k then m
              else w_apps m (set_app (app_with a (ma_last_attempt a) (ma_last_activity a) code false) (m_apps m))
  | None => m
  end.
Definition app_failed_connect (m : mst) (k : Z) : mst :=
  match find_app k (m_apps m) with
  | Some a => if negb (ma_terminal a =? 0)%N || owner_has_held_run m k then m
              else w_apps m (set_app (app_with a (ma_last_attempt a) (ma_last_activity a) (ma_terminal a) true) (m_apps m))
  | None => m
  end.

Definition has_preconnect (k : Z) (qs : list oreq) : bool :=
  existsb (fun q => (o_kind q =? 0)%N && (o_owner q =? k)) qs.

Definition backoff_ok (m : mst) (k : Z) : bool :=
  match find_app k (m_apps m) with
  | Some a => match ma_last_attempt a with Some t => 30 <=? m_clock m - t | None => true end
  | None => true
  end.

Definition attempt_in_progress (m : mst) (k : Z) : bool :=
  existsb (fun t => o_owner (mt_req t) =? k) (m_atts m).

Definition touch (m : mst) (k : Z) : mst :=
  match find_app k (m_apps m) with
  | Some a => w_apps m (set_app (app_with a (ma_last_attempt a) (m_clock m) (ma_terminal a) (ma_failed_connect a)) (m_apps m))
  | None => m
  end.

Definition gen_of (m : mst) (k : Z) : nat :=
  match find (fun g => fst g =? k) (m_gens m) with Some g => snd g | None => O end.

(* number of kept failures (retryable status, retryable category, run held) per (run, category) so far; the
   boolean is unused *)
Definition streak_of (m : mst) (r : Z) (c : N) : nat * bool :=
  match find (fun x => (fst (fst x) =? r) && (snd (fst x) =? c)%N) (m_streak m) with Some x => snd x | None => (O, false) end.
Definition set_streak (m : mst) (r : Z) (c : N) (v : nat * bool) : mst :=
  w_streak m ((r, c, v) :: filter (fun x => negb ((fst (fst x) =? r) && (snd (fst x) =? c)%N)) (m_streak m)).
Definition attempts_limit (c : N) : nat := pred (attempt_bound c).    (* 5 for metrics, 10 for events *)

(* a collector answer to the n-th outstanding request *)
Definition m_reply (i : nat) (m : mst) (n : nat) (oc : outcome) (obs : ostep) : mst :=
  match nth_error (m_out m) n with
  | Some q =>
      let m0 := w_out m (remove_nth n (m_out m)) in
      let cts := units_of q in
      let held := run_held m0 (o_run q) in
      let m1 :=
        match oc with
        | OOk =>
            let m1 := fold_left (fun mm ct => viol_if (cmem ct (m_acked mm)) mm V_DUP_ACK i) cts m0 in
            w_dead (w_acked m1 (cadd_all cts (m_acked m1))) (cadd_all cts (m_dead m1))
        | OFail f =>
            let keep := retry_status f && retry_cat (o_cat q) && held in
            let m1 := w_all_ok (if keep then m0 else w_dead m0 (cadd_all cts (m_dead m0))) false in
            (* the attempt counter of the failing payload is at most the number of kept failures the run has had in this
               category before (every increment of a container's counter stems from one failed payload merged into it;
               a failed data-usage payload is merged into the metric table too): the first [limit] failures of a history
               are certainly carried over, whatever the overlap of deliveries *)
            let k := fst (streak_of m1 (o_run q) (o_cat q)) in
            let m1 :=
              if keep then
                let m1 := set_streak m1 (o_run q) (o_cat q) (S k, false) in
                if (o_kind q =? 2)%N && Nat.leb (S k) (attempts_limit (o_cat q))
                then w_owed m1 (map (fun ct => (o_run q, fst ct, snd ct)) cts ++ m_owed m1) else m1
              else m1 in
            if held then
              match f with
              | F410 => app_terminal (end_run m1 (o_run q)) (o_owner q) 1
              | F401 | F409 =>
                  let m2 := end_run m1 (o_run q) in
                  let m3 := viol_if (backoff_ok m2 (o_owner q) && negb (attempt_in_progress m2 (o_owner q))
                                     && negb (has_preconnect (o_owner q) (os_reqs obs))) m2 V_NO_RESTART i in
                  app_failed_connect m3 (o_owner q)
              | _ => m1
              end
            else m1
        end in
      note_requests i m1 (os_reqs obs)
  | None => note_requests i m (os_reqs obs)
  end.

(* does a harvest of type [ty] (the HarvestType bit mask) include category index c?  metrics, errors, slow SQLs,
   traces and package lists travel with the default data (all of its bits), every event category has its own bit *)
Definition cat_bit (c : N) : N :=
  match c with 1 => 32 | 2 => 64 | 6 => 16 | 7 => 128 | 8 => 256 | _ => 527 end%N.
Definition tick_includes (ty c : N) : bool := (N.land ty (cat_bit c) =? cat_bit c)%N.

(* one step of the monitor: the operation, then the outputs observed for it *)
Definition m_step (i : nat) (m : mst) (o : op) (obs : ostep) : mst :=
  match o with
  | OAdvance dt => w_clock m (m_clock m + Z.max 0 dt)
  | OTxn run t =>
      let r := Z.of_N run in
      let m1 := if run_held m r then
                  let fresh := offered_of_txn run t in
                  let m1 := w_offered m (fresh ++ fst (m_offered m), fold_left (fun ix o => off_add o ix) fresh (snd (m_offered m))) in
                  match find_run r (m_runs m1) with Some x => touch m1 (mr_owner x) | None => m1 end
                else m in
      note_requests i m1 (os_reqs obs)
  | OAppInfo key dt id =>
      let k := Z.of_N key in
      let held := match id with Some r => run_held m (Z.of_N r) | None => false end in
      let m0 := match os_reply obs with
                | Some (valid, _) => viol_if (negb (Bool.eqb valid held)) m V_VALID i
                | None => m end in
      if held then note_requests i m0 (os_reqs obs)
      else
        (* the application entry is created on first sight (the 250-application limit is not tracked here) *)
        let m1 := match find_app k (m_apps m0) with
                  | Some _ => touch m0 k
                  | None =>
                      if Nat.leb 250 (length (m_apps m0)) then m0 else     (* never more than 250 applications *)
                      let g := S (gen_of m0 k) in
                      w_gens (w_apps m0 ({| ma_key := k; ma_gen := g; ma_last_attempt := None; ma_last_activity := m_clock m0;
                                            ma_terminal := 0; ma_failed_connect := true |} :: m_apps m0))
                             ((k, g) :: filter (fun x => negb (fst x =? k)) (m_gens m0))
                  end in
        let m2 :=
          match os_reply obs with
          | None => m1
          | Some (_, st) =>
              let term := match find_app k (m_apps m1) with Some a => ma_terminal a | None => 0%N end in
              let m2 := viol_if ((term =? 1)%N && negb (st =? 2)%N) m1 V_TERMINAL_REPLY i in
              let m3 := viol_if ((term =? 2)%N && negb (st =? 4)%N) m2 V_TERMINAL_REPLY i in
              let m4a := viol_if ((st =? 1)%N && negb (owner_has_held_run m3 k)) m3 V_CONNECTED_UNSOUND i in
              (* the connect reply handed to the agent names a run the daemon holds for THIS application *)
              let m4 := viol_if ((st =? 1)%N &&
                                 negb (existsb (fun r => mr_held r && (mr_owner r =? k) && (mr_run r =? os_reply_run obs)) (m_runs m4a)))
                                m4a V_CONNECTED_UNSOUND i in
              (* an application in a retryable failure state whose back-off has expired is reconnected *)
              let need := match find_app k (m_apps m4) with
                          | Some a => ma_failed_connect a && (ma_terminal a =? 0)%N && backoff_ok m4 k
                                      && negb (attempt_in_progress m4 k) && negb (owner_has_held_run m4 k)
                          | None => false end in
              viol_if (need && (st =? 0)%N && negb (has_preconnect k (os_reqs obs))) m4 V_NO_RETRY i
          end in
        note_requests i m2 (os_reqs obs)
  | OPreReply n po =>
      match nth_error (m_atts m) n with
      | Some t =>
          if (o_kind (mt_req t) =? 0)%N then
            let k := o_owner (mt_req t) in
            match po with
            | PreOk host =>
                let mark := {| mt_req := {| o_kind := pending_mark; o_cat := 0; o_owner := k; o_host := 0; o_hdr := 0; o_run := 0;
                                            o_tags := []; o_cap := 0; o_seen := 0 |}; mt_host := Z.of_N host |} in
                let fix repl (j : nat) (l : list matt) : list matt :=
                  match l, j with [], _ => [] | _ :: r, O => mark :: r | x :: r, S j' => x :: repl j' r end in
                note_requests i (w_atts m (repl n (m_atts m))) (os_reqs obs)
            | PreFail f =>
                let m1 := w_atts m (remove_nth n (m_atts m)) in
                let m2 := match f with
                          | F410 => app_terminal m1 k 1 | F401 => app_terminal m1 k 2 | _ => app_failed_connect m1 k end in
                note_requests i m2 (os_reqs obs)
            | PreMalformed =>
                note_requests i (app_failed_connect (w_atts m (remove_nth n (m_atts m))) k) (os_reqs obs)
            end
          else note_requests i m (os_reqs obs)
      | None => note_requests i m (os_reqs obs)
      end
  | OConnReply n co =>
      match nth_error (m_atts m) n with
      | Some t =>
          if (o_kind (mt_req t) =? 1)%N then
            let k := o_owner (mt_req t) in
            let m1 := w_atts m (remove_nth n (m_atts m)) in
            let m2 := match co with
                      | ConnOk r =>
                          (* effective only if the application entry still exists and still waits for a verdict *)
                          match find_app k (m_apps m1) with
                          | Some a =>
                              if negb (ma_terminal a =? 0)%N || owner_has_held_run m1 k then m1 else
                              let caps (c : N) : Z :=
                                Z.of_N (cr_caps r (match c with 1%N => CCustom | 2%N => CErrEv | 6%N => CTxnEv | 7%N => CSpan | _ => CLog end)) in
                              let m2 := w_runs m1 (set_run {| mr_run := Z.of_N (cr_run r); mr_owner := k; mr_host := mt_host t;
                                                              mr_hdr := Z.of_N (cr_hdr r); mr_held := true; mr_caps := caps |} (m_runs m1)) in
                              let m3 := w_ahs m2 (m_ahs m2 ++ [{| mh_run := Z.of_N (cr_run r); mh_key := k; mh_gen := ma_gen a |}]) in
                              w_apps m3 (set_app (app_with a (ma_last_attempt a) (ma_last_activity a) 0 false) (m_apps m3))
                          | None => m1
                          end
                      | ConnFail F410 => app_terminal m1 k 1
                      | ConnFail F401 => app_terminal m1 k 2
                      | _ => app_failed_connect m1 k
                      end in
            note_requests i m2 (os_reqs obs)
          else note_requests i m (os_reqs obs)
      | None => note_requests i m (os_reqs obs)
      end
  | OTick ah ty =>
      let m1 :=
        match nth_error (m_ahs m) ah with
        | Some h =>
            match find_app (mh_key h) (m_apps m) with
            | Some a =>
                if Nat.eqb (ma_gen a) (mh_gen h) then
                  if 600 <? m_clock m - ma_last_activity a then
                    (* inactivity: the run is dropped and the application entry removed *)
                    w_apps (end_run m (mh_run h)) (del_app (mh_key h) (m_apps m))
                  else m
                else w_exotic m true
            | None => w_exotic m true
            end
        | None => m
        end in
      let m2 := note_requests i m1 (os_reqs obs) in
      (* what was owed to this run in the categories this tick harvests must be in the requests of this step *)
      match nth_error (m_ahs m) ah with
      | Some h =>
          let r := mh_run h in
          if run_held m2 r then
            let due (o : Z * N * Z) := (fst (fst o) =? r) && tick_includes ty (snd (fst o)) in
            let sent (o : Z * N * Z) :=
              existsb (fun q => (o_kind q =? 2)%N && (o_run q =? r) && (o_cat q =? snd (fst o))%N
                                && existsb (fun t => unit_id (o_cat q) (o_run q) t =? snd o) (o_tags q)) (os_reqs obs) in
            let m3 := fold_left (fun mm o => if due o && negb (sent o) then viol mm (V_NOT_RETRIED + snd (fst o))%N i else mm) (m_owed m2) m2 in
            w_owed m3 (filter (fun o => negb (due o)) (m_owed m3))
          else m2
      | None => m2
      end
  | OReply n oc => m_reply i m n oc obs
  | OReplyCat c oc =>
      let want (q : oreq) : bool :=
        match c with
        | Some c => (o_kind q =? 2)%N && (o_cat q =? N.of_nat (cat_idx c))%N
        | None => (o_kind q =? 3)%N
        end in
      let fix idx (l : list oreq) (j : nat) : option nat :=
        match l with [] => None | q :: r => if want q then Some j else idx r (S j) end in
      match idx (m_out m) 0%nat with
      | Some n => m_reply i m n oc obs
      | None => note_requests i m (os_reqs obs)
      end
  | OCleanExit outs =>
      let m1 := viol_if (os_hung obs || negb (os_exited obs)) m V_HUNG i in
      let finals := filter (fun q => (o_kind q =? 2)%N) (os_reqs obs) in
      let m2 := fold_left (note_request i) finals m1 in
      let all := concat (map units_of finals) in
      let dup := snd (fold_left (fun acc x => (cadd x (fst acc), snd acc || cmem x (fst acc))) all (cempty, false)) in
      let m3 := viol_if dup m2 V_FINAL_DUP i in
      (* what is still owed to a held run must be in the final requests -- also when its application has been silent for
         longer than the inactivity time-out (the final harvest does not remove applications: fix de635d6) *)
      let live (r : Z) : bool :=
        run_held m3 r &&
        match find_run r (m_runs m3) with
        | Some x => match find_app (mr_owner x) (m_apps m3) with
                    | Some a => true
                    | None => false end
        | None => false end in
      let in_finals (o : Z * N * Z) :=
        existsb (fun q => (o_run q =? fst (fst o)) && (o_cat q =? snd (fst o))%N
                          && existsb (fun t => unit_id (o_cat q) (o_run q) t =? snd o) (o_tags q)) finals in
      let m3 := fold_left (fun mm o => if live (fst (fst o)) && negb (in_finals o) then viol mm (V_NOT_RETRIED + snd (fst o))%N i else mm)
                          (m_owed m3) m3 in
      let m3 := w_owed m3 [] in
      (* C11: every unit submitted under a live held run that has neither been acknowledged nor become dead (non-retryable
         failure), is not in flight, and whose (run, category) has not had enough failures for anything to have been given
         up for its attempts, is in the final requests (judged for categories within capacity, packages excluded) *)
      let m3 := fold_left (fun mm o =>
                  let '(r, c, u) := o in
                  if live r && negb (c =? 9)%N && negb (cmem (c, u) (m_acked mm)) && negb (cmem (c, u) (m_dead mm))
                     && negb (existsb (fun q => mem_ct (c, u) (units_of q)) (m_out mm))
                     && Nat.leb (fst (streak_of mm r c)) (attempts_limit c)
                     && negb (in_finals o)
                  then viol mm (V_NOT_FLUSHED + c)%N i else mm) (fst (m_offered m3)) m3 in
      (* acknowledge the final requests the collector accepted *)
      fold_left (fun mm q =>
                   let c := match o_cat q with 0%N => CMetrics | 1%N => CCustom | 2%N => CErrEv | 3%N => CErrors | 4%N => CSlow
                                          | 5%N => CTraces | 6%N => CTxnEv | 7%N => CSpan | 8%N => CLog | _ => CPkgs end in
                   match outs (Z.to_N (o_run q)) c with
                   | OOk => let cts := units_of q in
                            let mm1 := fold_left (fun m' ct => viol_if (cmem ct (m_acked m')) m' V_DUP_ACK i) cts mm in
                            w_dead (w_acked mm1 (cadd_all cts (m_acked mm1))) (cadd_all cts (m_dead mm1))
                   | OFail _ => w_all_ok mm false
                   end) finals m3
  end.

Fixpoint m_run (i : nat) (m : mst) (ops : list op) (obs : list ostep) : mst :=
  match ops, obs with
  | o :: r, s :: r' => m_run (S i) (m_step i m o s) r r'
  | _, _ => m
  end.

(* completeness for an accepting collector (C01): the history ended with the final flush, every answer was a
   success and no run ended; then every unit submitted under a held run in a category that never exceeded
   its capacity (the generator says which: [complete_cats]) has been acknowledged, unless its request was
   still unanswered when the daemon exited.  Packages are excluded (already-reported ones are filtered by design). *)
Definition lost_units (m : mst) (complete_cats : list N) : list (N * Z) :=
  concat (map (fun o => let '(r, c, t) := o in
                        if existsb (N.eqb c) complete_cats && negb (cmem (c, t) (m_acked m))
                           && negb (existsb (fun q => mem_ct (c, t) (units_of q)) (m_out m)) then [(c, t)] else [])
              (fst (m_offered m))).

Definition monitor (ops : list op) (obs : list ostep) (complete_cats : list N) : list (N * nat) :=
  let m := m_run 0 m_init ops obs in
  let ended := existsb (fun s => os_exited s) obs in
  let lost := if ended && m_all_ok m && negb (m_run_lost m) then lost_units m complete_cats else [] in
  let judged (v : N * nat) : list (N * nat) :=
    if (V_NOT_RETRIED <=? fst v)%N && (fst v <? V_NOT_RETRIED + 10)%N
    then (if existsb (N.eqb (fst v - V_NOT_RETRIED)) complete_cats then [(203%N, snd v)] else [])
    else if (V_NOT_FLUSHED <=? fst v)%N && (fst v <? V_NOT_FLUSHED + 10)%N
    then (if existsb (N.eqb (fst v - V_NOT_FLUSHED)) complete_cats then [(503%N, snd v)] else [])
    else [v] in
  concat (map judged (m_viol m)) ++ map (fun _ => (V_LOST, length ops)) (firstn 1 lost).
